"""C53 — client replay runs queued flows sequentially and cleans up (addons/clientplayback.py ClientPlayback.check /
start_replay / stop_replay / playback, ReplayHandler; flow.py Flow.backup / revert)."""
import json
from common.check import PropertyCheck, Skip
import c53_engine as E

ATTR = {"live": "101110", "intercepted": "011110", "tcp": "000000", "norequest": "001010", "nocontent": "001100",
        "ws": "001111"}
FST = {"ok_resp": "1.0.0.0/-", "ok_err": "0.1.0.0/-", "edited": "1.0.0.1/1.0.0.0"}
UNREPLAYABLE = {"live", "intercepted", "nocontent", "tcp", "ws", "norequest"}


class Check(PropertyCheck):
    prop = "C53"
    design_ref = "§5 C53"
    level_text = ("Lean theorems (sequential, queue_order, unreplayable_never_queued, stop_restores_queued_partial + "
                  "_counterexample; liveness: replay_variant_decreases, replay_run_bounded, terminal_event_enabled, "
                  "finish_sets_outcome, every_replay_completes, fair_completion_exists; option read at dispatch: "
                  "dispatch_reads_option_at_take, sequential_while_option_is_one, no_dispatch_while_awaiting, "
                  "started_replays_accounted, all_started_replays_complete; stop at full strength: stop_restores_backup, "
                  "fresh_backup_is_pre, stop_restores_pre_iff) about a model of ClientPlayback (check, start_replay's preparation, stop_replay's "
                  "revert, the playback loop with client_replay_concurrency as part of the state — switchable at any moment, read "
                  "when a dequeued flow is dispatched: awaited replay (1) or background task (-1) — ReplayHandler.done, "
                  "flow.live) and of Flow.backup/revert, for EVERY "
                  "history of submissions, stops, user edits, loop steps and replay outcomes (induction over the "
                  "history). The model is tied to the real ClientPlayback + ReplayHandler + HTTP layer running on a "
                  "virtual-time loop against an in-memory server: every real queue take, request arrival and "
                  "response/error completion is replayed in the compiled model and queue / inflight / per-flow state are "
                  "compared after every environment step; check() verdicts are compared per flow.")
    level_note = ("'every replayed flow ends with a response or an error' is proved ABOUT THE MODEL under an explicit fairness "
                  "hypothesis (the history continues with loop/server operations until no terminal event is enabled: the "
                  "server answers, refuses or drops everything pending): a variant decreases on every loop/server "
                  "operation, a terminal event is always enabled while work is left, a completing continuation exists and "
                  "is short, and at an idle end every started replay has its fin (the 'every fair continuation' theorems' "
                  "hypothesis amounts to 'the end state is quiescent'; nothing is claimed about every fair run of the REAL "
                  "addon). Hypotheses named _hnot / _hloop are tie conditions: unused by the proofs, they restrict the "
                  "statement to the states / histories in which the driver runs the function the theorem is about. "
                  "'Unreplayable' is read at the time of queueing. That the real ReplayHandler turns every server outcome into a response/error hook (timeouts, "
                  "half-open peers) is exercised by the winddown of every script and compared through the variant value "
                  "at every step, not proved. stop_restores_queued holds only for flows without an older backup (finding "
                  "F-C53a: Flow.backup() keeps an existing backup); the full statement is refuted by "
                  "stop_restores_queued_counterexample, and stop_restores_backup states for EVERY queued flow what stop "
                  "does instead (it becomes the backup it carried when queued), so the model predicts the F-C53a outcome "
                  "and the tie compares it. trusted: asyncio.Queue is FIFO; a flow's editable state is "
                  "abstracted to response/error/is_replay + an edit counter; flow.live is modelled as set at the start "
                  "and cleared at the end of a replay of the flow. a replay that fails after the response headers had arrived leaves a partial "
                  "flow.response next to flow.error — 'has a response' is compared for flows without error only. stop_replay while a queued flow has a replay running over "
                  "an open server connection is outside the model (findings F-C53b: revert raises, F-C53c: revert silently "
                  "rewrites the live connection); such cases are not compared with the model, their oracle failures are "
                  "excused only where known() recomputes exactly the predicted wrong outcome (known_selftest pins positives "
                  "and near misses); a queued flow whose running replay has not connected yet IS compared.")
    technique = "Lean 4 proof (invariants over all histories) + virtual-time correspondence with the real addon and replay handler"
    rule = ("scripts over {start_replay(list of flows incl. unreplayable kinds, duplicates), stop_replay, user edit, "
            "client_replay_concurrency switched 1 <-> -1 at idle and busy moments (initial value 1 or -1), server "
            "connect ok/refuse, respond (plain, or with interim 100/102/103 responses in the same or in separate segments, "
            "Content-Length / chunked / close-delimited / 204 bodies, keep-alive or close, death in mid-answer), close, clock}; "
            "flows of 11 kinds. distinct = distinct script; non-trivial = at least "
            "one flow was queued.")
    budget = {"quick": 300, "thorough": 8000}
    time_budget = {"quick": 30, "thorough": 600}
    fingerprints = ["mitmproxy.addons.clientplayback:ClientPlayback.playback", "mitmproxy.addons.clientplayback:ClientPlayback.check",
                    "mitmproxy.addons.clientplayback:ClientPlayback.start_replay", "mitmproxy.addons.clientplayback:ClientPlayback.stop_replay",
                    "mitmproxy.addons.clientplayback:ReplayHandler.handle_hook", "mitmproxy.addons.clientplayback:ReplayHandler.replay",
                    "mitmproxy.addons.clientplayback:ReplayHandler.__init__", "mitmproxy.flow:Flow.backup", "mitmproxy.flow:Flow.revert"]
    trusted_base = ["asyncio.Queue FIFO semantics", "the HTTP layer stack below ReplayHandler is exercised, not modelled"]
    parallel = False

    def setup(self, tier):
        self.known_selftest()

    def known_selftest(self):
        """known() on hand-written observations (independent of the tree under test): one positive witness per finding and,
        for each, near misses — the same input class with a different failure, and a neighbouring input with the same kind
        of failure — which must NOT be excused."""
        def stop(**kw):
            d = {"queued": [], "bad": [], "left": [], "inflight": [], "open": [], "open_ords": [], "awaited": -1, "exc": None}
            d.update(kw); return ["stop", d]
        case = {"flows": ["edited", "ok", "ok"], "steps": []}
        NOT = "not restored to its pre-replay state: "
        STALE = NOT + "it was reverted to the older backup it carried when it was queued"
        OTHER = NOT + "its state is neither the pre-replay state nor an older backup"
        RE = "RuntimeError: Cannot change server.address on open connection."
        T = []
        # --- F-C53a
        a = {"trace": [["start", [0, 1], [0], ["none", "none"]], stop(queued=[0, 1], bad=[[0, "stale-backup"]])]}
        T += [(a, f"stop#1: flow 0 {STALE}", "F-C53a"),
              (a, f"stop#1: flow 0 {OTHER}", None),                       # same input, other failure kind
              (a, f"stop#1: flow 1 {STALE}", None),                       # neighbour flow without a stale backup
              (a, "stop#1: stop_replay left flows [1] in the queue", None),
              (a, "flow 1 taken out of queue order (head [0])", None)]
        a2 = {"trace": [stop(queued=[0], bad=[[0, "other"]])]}
        T += [(a2, f"stop#1: flow 0 {STALE}", None)]                      # the record does not show the stale backup
        a3 = {"trace": [stop(queued=[0], bad=[[0, "stale-backup"]], exc="ValueError: x")]}
        T += [(a3, f"stop#1: flow 0 {STALE}", None)]                      # the stop did not run to completion
        a4 = {"trace": [stop(queued=[0, 1, 0], bad=[[0, "stale-backup"], [1, "other"]], left=[0], inflight=[1], open=[1],
                             open_ords=[[0, 1]], awaited=1, exc=RE)]}
        T += [(a4, f"stop#1: flow 0 {STALE}", "F-C53a"),                  # reverted before the F-C53b abort
              (a4, f"stop#1: flow 1 {STALE}", None)]
        # --- F-C53b
        b = {"trace": [stop(queued=[2, 1, 1, 2], bad=[[1, "other"], [2, "other"]], left=[1, 2], inflight=[1], open=[1],
                            open_ords=[[0, 1]], awaited=1, exc=RE)]}
        T += [(b, f"stop#1: stop_replay raised {RE}", "F-C53b"),
              (b, "stop#1: stop_replay left flows [1, 2] in the queue", "F-C53b"),
              (b, f"stop#1: flow 1 {OTHER}", "F-C53b"),
              (b, "replay #0 of flow 1 ended with neither response nor error", "F-C53b"),
              (b, "after the server answered or refused everything pending, flows [1, 2] are still queued and flow 1 is still "
                  "in flight: the playback loop is stuck", "F-C53b"),
              (b, "stop#1: stop_replay left flows [2] in the queue", None),           # not the predicted remainder
              (b, "stop#1: stop_replay raised KeyError: 'x'", None),                  # another exception
              (b, "replay #3 of flow 1 ended with neither response nor error", None),  # another replay of that flow
              (b, "replay #0 of flow 2 ended with neither response nor error", None),
              (b, "after the server answered or refused everything pending, flows [] are still queued and flow 2 is still "
                  "in flight: the playback loop is stuck", None),
              (b, "flow 2 taken while replay #0 of flow 1, started with client_replay_concurrency=1, had not finished", None),
              (b, "unreplayable flow 0 (ws) was queued", None)]
        b0 = {"trace": [stop(queued=[0, 1, 2], bad=[[0, "other"], [1, "other"]], left=[2], inflight=[1], open=[1],
                             open_ords=[[0, 1]], awaited=1, exc=RE)]}
        T += [(b0, f"stop#1: flow 0 {OTHER}", None)]                      # an entry BEFORE the one whose revert raised
        bn = {"trace": [stop(queued=[1, 2], left=[2], bad=[[2, "other"]], inflight=[1], open=[], awaited=1, exc=None)]}
        T += [(bn, "stop#1: stop_replay left flows [2] in the queue", None),          # in flight, but no open connection
              (bn, f"stop#1: flow 2 {OTHER}", None)]
        b2 = {"trace": [b["trace"][0], stop(queued=[1, 2], bad=[[1, "other"]], left=[2], inflight=[1], open=[1],
                                            open_ords=[[0, 1]], awaited=1, exc="KeyError: 'request'")]}
        T += [(b2, "stop#2: stop_replay raised KeyError: 'request'", "F-C53b"),
              (b2, "stop#2: stop_replay left flows [2] in the queue", "F-C53b"),
              (b2, "stop#2: stop_replay left flows [1, 2] in the queue", None)]
        bk = {"trace": [stop(queued=[1, 2], bad=[], left=[2], exc="KeyError: 'request'")]}
        T += [(bk, "stop#1: stop_replay raised KeyError: 'request'", None)]           # no earlier F-C53b stop
        b3 = {"trace": [b["trace"][0], stop(queued=[0, 1, 2], bad=[[0, "stale-backup"], [1, "other"]], left=[2], inflight=[1],
                                            open=[1], open_ords=[[0, 1]], awaited=1, exc="KeyError: 'request'")]}
        T += [(b3, f"stop#2: flow 0 {STALE}", "F-C53a"),                  # reverted before the poisoned flow's entry
              (b3, f"stop#2: flow 2 {STALE}", None)]
        # --- F-C53c
        c = {"trace": [stop(queued=[0, 1], inflight=[0], open=[0], open_ords=[[0, 0]], awaited=0)]}
        T += [(c, "replay #0 of flow 0 ended with neither response nor error", "F-C53c"),
              (c, "after the server answered or refused everything pending, flows [] are still queued and flow 0 is still in "
                  "flight: the playback loop is stuck", "F-C53c"),
              (c, "replay #1 of flow 0 ended with neither response nor error", None),
              (c, "replay #0 of flow 1 ended with neither response nor error", None),
              (c, "stop#1: stop_replay left flows [1] in the queue", None),
              (c, f"stop#1: flow 0 {OTHER}", None)]
        cn = {"trace": [stop(queued=[1], inflight=[0], open=[0], open_ords=[[0, 0]], awaited=0)]}
        T += [(cn, "replay #0 of flow 0 ended with neither response nor error", None)]  # the running flow was not queued
        cc = {"trace": [stop(queued=[0, 1], inflight=[0], open=[], open_ords=[], awaited=0)]}
        T += [(cc, "replay #0 of flow 0 ended with neither response nor error", None)]  # connection not open
        for obs, failure, want in T:
            got = self.known(case, obs, failure)
            assert got == want, f"C53 known_selftest: known(...{failure!r}) = {got!r}, expected {want!r}"
        # the oracle itself must fire on doctored observations (a silent oracle cannot pass)
        base = [["start", [0, 1], [], ["none", "none"]], ["enq", 0], ["enq", 1], ["take", 0, 1], ["arrive", 0, 0],
                ["finish", 0, "response", 0], ["take", 1, 1], ["finish", 1, "error", 1], ["winddown"],
                ["state", [], -1, [], 1, 0]]
        okc = {"flows": ["ok", "ok"], "steps": []}
        assert self.oracle(okc, {"trace": base}) == []
        def doctored(f): return self.oracle(okc, {"trace": f([list(x) for x in base])})
        assert doctored(lambda t: t[:5] + t[6:7] + t[5:6] + t[7:]), "overlap oracle is silent"
        assert doctored(lambda t: t[:1] + [t[2], t[1]] + t[3:]), "submission-order oracle is silent"
        assert doctored(lambda t: t[:3] + [["take", 1, 1]] + t[4:6] + [["take", 0, 1]] + t[7:]), "queue-order oracle is silent"
        assert doctored(lambda t: t[:7] + t[8:]), "completion oracle is silent"
        assert doctored(lambda t: t[:-1] + [["state", [1], -1, [], 1, 0]]), "stuck-loop oracle is silent"
        assert self.oracle({"flows": ["ws", "ok"], "steps": []}, {"trace": base}), "unreplayable oracle is silent"

    # ---- generation ---------------------------------------------------------------------------
    def generate(self, rng, tier):
        while True:
            nf = rng.randint(1, 5)
            flows = [rng.choice(E.KINDS[:3] + ["ok", "ok", "ok_resp", "edited", "ok_same", "ok_same"]) if rng.random() < 0.7 else rng.choice(E.KINDS)
                     for _ in range(nf)]
            steps = []
            for _ in range(rng.randint(2, 14)):
                r = rng.random()
                if r < 0.25: steps.append(["start", [rng.randint(0, nf - 1) for _ in range(rng.randint(1, 4))]])
                elif r < 0.35: steps.append(["stop"])
                elif r < 0.45: steps.append(["edit", rng.randint(0, nf - 1)])
                elif r < 0.7: steps.append(["connect", "ok" if rng.random() < 0.75 else "refuse"])
                elif r < 0.88:
                    if rng.random() < 0.5: steps.append(["respond"])
                    else:
                        # the origin's answer: interim responses (same / separate segments), body framing, keep-alive or close,
                        # death in mid-answer
                        spec = {}
                        if rng.random() < 0.6: spec["interim"] = [rng.choice([100, 102, 103]) for _ in range(rng.randint(1, 3))]
                        if rng.random() < 0.5: spec["split"] = True
                        spec["body"] = rng.choice(["cl", "chunked", "eof", "none"])
                        if rng.random() < 0.3: spec["close"] = True
                        if rng.random() < 0.12: spec["cut"] = True
                        steps.append(["respond", spec])
                elif r < 0.95: steps.append(["srv_eof"])
                elif r < 0.97: steps.append(["tick", rng.choice([1, 30])])
                else: steps.append(["opt", rng.choice([1, -1])])
            case = {"flows": flows, "steps": steps}
            if rng.random() < 0.35:
                # the option is switched at runtime: at idle and at busy moments
                case["conc0"] = rng.choice([1, -1])
                for _ in range(rng.randint(1, 3)):
                    steps.insert(rng.randint(0, len(steps)), ["opt", rng.choice([1, -1])])
            yield case

    # ---- implementation -----------------------------------------------------------------------
    def impl(self, case):
        obs = E.run(case)
        self._last = obs
        return obs

    # ---- oracle -------------------------------------------------------------------------------
    def oracle(self, case, obs):
        fails = []
        tr = obs["trace"]; kinds = case["flows"]
        enq = []; wound = False; nstop = 0
        replays = []      # by ordinal (order of `take`): [flow, option value when it was started, request arrived, finished]
        calls = []        # per start_replay call: [the flows the user listed, in order] and what was queued during it
        for r in tr:
            k = r[0]
            if k == "start": calls.append([list(r[1]), []])
            elif k != "enq" and calls and calls[-1] is not None: calls.append(None)      # the call is over
            if k == "enq":
                # queue order is the order of SUBMISSION: what a call queues is a subsequence of the list the user gave
                # (derived from the input of the case, not from another observation of the addon)
                cur = next((c for c in reversed(calls) if c is not None), None) if calls and calls[-1] is not None else None
                if cur is None: fails.append(f"flow {r[1]} was queued outside any start_replay call")
                else:
                    cur[1].append(r[1])
                    it = iter(cur[0])
                    if not all(any(x == y for y in it) for x in cur[1]):
                        fails.append(f"start_replay({cur[0]}) queued {cur[1]}: not in the order the flows were submitted")
                enq.append(r[1])
                # "Flows that cannot be replayed (live, intercepted, missing content, non-HTTP, WebSocket) are never queued"
                if kinds[r[1]] in UNREPLAYABLE: fails.append(f"unreplayable flow {r[1]} ({kinds[r[1]]}) was queued")
            elif k == "stop":
                nstop += 1; st = r[1]
                # "stopping replay restores every still-queued flow to its pre-replay state"
                if st["exc"]: fails.append(f"stop#{nstop}: stop_replay raised {st['exc']}")
                if st["left"]: fails.append(f"stop#{nstop}: stop_replay left flows {st['left']} in the queue")
                for i, kind in st["bad"]:
                    why = ("it was reverted to the older backup it carried when it was queued" if kind == "stale-backup"
                           else "its state is neither the pre-replay state nor an older backup")
                    fails.append(f"stop#{nstop}: flow {i} not restored to its pre-replay state: {why}")
                # what stop removed must be a prefix of the queue, in submission order (what it left is the rest)
                removed = st["queued"][:len(st["queued"]) - len(st["left"])]
                if st["queued"][len(removed):] != st["left"]:
                    fails.append(f"stop#{nstop}: stop_replay removed {st['queued']} -> {st['left']}: not a prefix of the queue")
                if enq[:len(st["queued"])] != st["queued"]:
                    fails.append(f"stop#{nstop}: queue {st['queued']} is not in submission order {enq}")
                enq = enq[len(removed):]
            elif k == "take":
                # "queued flows are replayed … in queue order"
                if not enq or enq[0] != r[1]: fails.append(f"flow {r[1]} taken out of queue order (head {enq[:1]})")
                else: enq.pop(0)
                # "With client_replay_concurrency 1, queued flows are replayed one at a time … a replayed request is sent only
                #  after the previous replay has finished": a replay that was started while the option was 1 must have
                #  finished before the next replay is started
                for n, p in enumerate(replays):
                    if p[1] == 1 and not p[3]:
                        fails.append(f"flow {r[1]} taken while replay #{n} of flow {p[0]}, started with "
                                     f"client_replay_concurrency=1, had not finished")
                replays.append([r[1], r[2], False, False])
            elif k == "arrive":
                cand = [replays[r[2]]] if 0 <= r[2] < len(replays) and not replays[r[2]][3] else []
                if not cand: fails.append(f"request of flow {r[1]} arrived but no replay of it is running")
                else:
                    cand[0][2] = True
                    # "a replayed request is sent only after the previous replay has finished": every replay started BEFORE
                    # this one while the option was 1 must have finished (replays started earlier with -1 run in the
                    # background and may send whenever their connection is up)
                    for n, p in enumerate(replays[:r[2]]):
                        if p[1] == 1 and not p[3]:
                            fails.append(f"request of flow {r[1]} arrived while the earlier replay #{n} of flow {p[0]}, started "
                                         f"with client_replay_concurrency=1, had not finished")
            elif k == "finish":
                if 0 <= r[3] < len(replays): replays[r[3]][3] = True
            elif k == "winddown": wound = True
        # "every replayed flow ends with a response or an error" (liveness, explored: after the server has refused / closed
        #  everything pending)
        if wound:
            for n, p in enumerate(replays):
                if not p[3]: fails.append(f"replay #{n} of flow {p[0]} ended with neither response nor error")
        # "queued flows are replayed one at a time in queue order … and every replayed flow ends with a response or an error":
        # once the server has answered / refused / closed everything pending (fairness hypothesis of the Lean theorem
        # every_replay_completes), nothing may be left queued or in flight
        if wound:
            last = [r for r in tr if r[0] == "state"][-1]
            if last[1] or last[2] != -1:
                fails.append(f"after the server answered or refused everything pending, flows {last[1]} are still queued and "
                             f"flow {last[2]} is still in flight: the playback loop is stuck")
        return fails

    # ---- known findings: input class AND failure kind, the predicted wrong outcome recomputed -----------------------
    @staticmethod
    def _stops(obs):
        return [r[1] for r in obs["trace"] if r[0] == "stop"]

    @staticmethod
    def _hit_open(st):
        """index of the first queued entry whose flow has a replay running over an OPEN server connection"""
        for k, i in enumerate(st["queued"]):
            if i in st["open"]: return k
        return None

    def known(self, case, obs, failure):
        import re
        stops = self._stops(obs)
        m = re.match(r"stop#(\d+): (.*)$", failure)
        if m:
            n = int(m.group(1)); rest = m.group(2)
            if not (1 <= n <= len(stops)): return None
            st = stops[n - 1]; k = self._hit_open(st)
            rerr = (st["exc"] or "").startswith("RuntimeError: Cannot change server.")
            if not rerr and (st["exc"] or "").startswith("KeyError:"):
                # aftermath of an earlier F-C53b stop: the revert() that raised had already consumed that flow's backup
                # dict (set_state pops from it), so reverting the same flow again raises KeyError; predicted as above
                poisoned = set()
                for prev in stops[:n - 1]:
                    kp = self._hit_open(prev)
                    if kp is not None and (prev["exc"] or "").startswith("RuntimeError: Cannot change server."):
                        poisoned.add(prev["queued"][kp])
                k = next((j for j, i in enumerate(st["queued"]) if i in poisoned), None)
                rerr = k is not None
            # F-C53a: the flow carried an older backup when it was queued, revert() ran for it (the stop completed, or the
            # flow's entry lies before the entry at which an F-C53b stop aborted), and what the flow looks like now IS that
            # older backup
            mm = re.match(r"flow (\d+) not restored to its pre-replay state: it was reverted to the older backup", rest)
            if mm and [int(mm.group(1)), "stale-backup"] in st["bad"] and (
                    st["exc"] is None or (rerr and k is not None and int(mm.group(1)) in st["queued"][:k])):
                return "F-C53a"
            # F-C53b: revert() of a queued flow whose replay runs over an open connection raised out of stop_replay; predicted:
            # that very exception, the entries behind it still queued, it and they not restored
            if rerr and k is not None:
                if rest == f"stop_replay raised {st['exc']}": return "F-C53b"
                if rest == f"stop_replay left flows {st['queued'][k + 1:]} in the queue" and st["left"] == st["queued"][k + 1:]:
                    return "F-C53b"
                mm = re.match(r"flow (\d+) not restored to its pre-replay state: its state is neither", rest)
                if mm and int(mm.group(1)) in st["queued"][k:] and [int(mm.group(1)), "other"] in st["bad"]:
                    return "F-C53b"
            return None
        # aftermath of a revert that hit a running replay: that replay never completes; if the loop awaited it, the loop is
        # stuck.  With the exception it is F-C53b, without (recorded server address = replay target) F-C53c.
        m = re.match(r"replay #(\d+) of flow (\d+) ended with neither response nor error$", failure)
        if m:
            o, x = int(m.group(1)), int(m.group(2))
            for st in stops:
                k = self._hit_open(st)
                if k is None or [o, x] not in st["open_ords"]: continue
                rerr = (st["exc"] or "").startswith("RuntimeError: Cannot change server.")
                if rerr and st["queued"][k] == x: return "F-C53b"
                if st["exc"] is None and x in st["queued"]: return "F-C53c"
            return None
        m = re.match(r"after the server answered or refused everything pending, flows \[.*\] are still queued and flow (-?\d+) is "
                     r"still in flight: the playback loop is stuck$", failure)
        if m:
            x = int(m.group(1))
            for st in stops:
                k = self._hit_open(st)
                if k is None or st["awaited"] != x or x not in st["open"]: continue
                rerr = (st["exc"] or "").startswith("RuntimeError: Cannot change server.")
                if rerr and st["queued"][k] == x: return "F-C53b"
                if st["exc"] is None and x in st["queued"]: return "F-C53c"
            return None
        return None

    # ---- model tie ----------------------------------------------------------------------------
    def model_lines(self, case):
        obs = self._last
        if any(self._hit_open(st) is not None for st in self._stops(obs)):
            raise Skip("stop reverted a flow whose replay runs over an open connection (F-C53b/c): outside the modelled domain")
        attrs = ",".join(ATTR.get(k, "001110") for k in case["flows"])
        fss = ",".join(FST.get(k, "0.0.0.0/-") for k in case["flows"])
        lines = [f"reset {attrs} {fss}"]
        if case.get("conc0", 1) == -1: lines.append("setopt 0")
        ticket = 0; tq = []          # tickets in queue order (order of put_nowait)
        run = []                     # running replays: [ticket, flow, sequential, request sent]
        for r in obs["trace"]:
            k = r[0]
            if k == "start":
                for i in r[1]: lines.append(f"check {i}")     # verdicts at the time of the call
                lines.append("start " + (",".join(map(str, r[1])) or "-"))
            elif k == "enq": tq.append(ticket); ticket += 1
            elif k == "stop": lines.append("stop"); tq = []
            elif k == "opt": lines.append(f"setopt {1 if r[1] == 1 else 0}")
            elif k == "take":
                # the model decides the mode itself, from the option value it holds when the flow is dispatched
                t = tq.pop(0) if tq else -1
                run.append([t, r[1], r[2] != -1, False]); lines.append("take")
            elif k == "arrive":
                if 0 <= r[2] < len(run):
                    run[r[2]][3] = True
                    lines.append("send" if run[r[2]][2] else f"bsend {run[r[2]][0]}")
                else: lines.append("send")
            elif k == "finish":
                res = 1 if r[2] == "response" else 0
                if 0 <= r[3] < len(run):
                    lines.append(f"finish {res}" if run[r[3]][2] else f"bfinish {run[r[3]][0]} {res}")
                else: lines.append(f"finish {res}")
            elif k == "edit": lines.append(f"edit {r[1]}")
            elif k == "state": lines.append("q")
        return lines

    def model_obs(self, case, replies):
        # replies are told apart by shape (the batch runner calls this long after model_lines): state = three fields,
        # operation = ok/stuck/bad-op, check verdict = none / a digit
        out = {"stuck_at": None, "states": [], "checks": []}
        for i, r in enumerate(replies):
            if len(r.split()) == 3: out["states"].append(r)
            elif r in ("ok", "stuck", "bad-op"):
                if r != "ok" and out["stuck_at"] is None: out["stuck_at"] = [i, r]
            else: out["checks"].append(r)
        return out

    def impl_view(self, case, obs):
        states, checks = [], []
        run = []         # running replays, oldest first: [flow, sequential, request sent]
        for r in obs["trace"]:
            if r[0] == "take": run.append([r[1], r[2] != -1, False, False])     # flow, sequential, sent, finished
            elif r[0] == "arrive":
                if 0 <= r[2] < len(run): run[r[2]][2] = True
            elif r[0] == "finish":
                if 0 <= r[3] < len(run): run[r[3]][3] = True
            elif r[0] == "state":
                q = ",".join(map(str, r[1])) or "-"
                fl = ";".join(".".join(map(str, f)) for f in r[3]) or "-"
                # the liveness variant, computed from the REAL run: 3 per queued flow, 2 for a started replay, 1 for a
                # replay whose request has reached the server (awaited or background)
                v = 3 * len(r[1]) + sum(1 if p[2] else 2 for p in run if not p[3])
                states.append(f"{q} {r[2]} {fl}|v{v}|o{1 if r[4] != -1 else 0}|b{r[5]}")
            elif r[0] == "start":
                # the verdict for a flow listed twice is taken once before the call; the model is asked before the call too
                checks.extend(r[3])
        return {"stuck_at": None, "states": states, "checks": checks}

    def classify(self, case, obs):
        return json.dumps(case, sort_keys=True) if any(r[0] == "enq" for r in obs["trace"]) else None

    def branches(self, case, obs):
        out = set()
        for r in obs["trace"]:
            if r[0] == "finish": out.add("finish-" + r[2])
            if r[0] == "stop" and r[1]["queued"]: out.add("stop-nonempty")
            if r[0] == "stop" and r[1]["bad"]: out.add("stop-not-restored")
            if r[0] == "stop" and any(x in r[1]["queued"] for x in r[1]["inflight"]): out.add("stop-with-queued-flow-in-flight")
            if r[0] == "stop" and self._hit_open(r[1]) is not None: out.add("stop-reverts-replay-with-open-connection")
            if r[0] == "stop" and r[1]["exc"]: out.add("stop-raised")
            if r[0] == "start":
                for c in r[3]:
                    if c != "none": out.add("refused-" + c)
            if r[0] == "arrive": out.add("request-arrived")
        return sorted(out)
