"""C53 engine: the REAL ClientPlayback addon + ReplayHandler (addons/clientplayback.py) on the virtual-time loop against an
in-memory server (patched asyncio.open_connection) whose connect outcome / response / failure timing is scripted.
Helper of property C53 only."""
import asyncio, collections, contextvars
from common.vloop import installed
from mitmproxy.addons.clientplayback import ClientPlayback
from mitmproxy.addons.proxyserver import Proxyserver
from mitmproxy.test import taddons, tflow
from mitmproxy import http

KINDS = ["ok", "ok_resp", "ok_err", "live", "intercepted", "nocontent", "tcp", "ws", "edited", "norequest", "ok_same"]


def make_flow(kind, k):
    if kind == "tcp":
        f = tflow.ttcpflow(); f.live = False
        return f
    f = tflow.tflow(resp=(kind in ("ok_resp", "edited")), err=(kind == "ok_err"), ws=(kind == "ws"), live=(kind == "live"))
    f.request.host = "srv.test"; f.request.port = 80; f.request.scheme = "http"
    f.request.path = f"/{k}"
    f.request.headers["host"] = "srv.test"
    if kind == "ok_same":         # a flow recorded against the very server it is replayed to (the usual case)
        f.server_conn.address = ("srv.test", 80)
    if kind == "intercepted": f.intercept()
    if kind == "nocontent": f.request.raw_content = None
    if kind == "norequest": f.request = None
    if kind == "edited":          # the user edited the flow before: Flow.backup() was taken, then a change made
        f.backup(); f.request.headers["x-edit"] = "1"
    return f


def backup_snapshot(f):
    """the older backup a flow carries (Flow._backup), in the same rendering as snapshot()"""
    if not f._backup: return None
    return repr(sorted(((k, v) for k, v in f._backup.items() if k != "backup"), key=lambda kv: kv[0]))


def snapshot(f):
    """the state the property talks about ('pre-replay state'): everything get_state() serialises, minus the backup"""
    if getattr(f, "request", 1) is None: return "no-request"
    st = f.get_state(); st.pop("backup", None)
    return repr(sorted(st.items(), key=lambda kv: kv[0]))


_CUR = contextvars.ContextVar("c53_replay_ordinal", default=-1)


class Srv:
    def __init__(self, trace, loop):
        self.trace, self.loop = trace, loop
        self.pending = collections.deque()    # connect futures
        self.conns = []                       # [reader, writer, reqbuf, k]

    async def open(self, host, port, local_addr=None, **kw):
        fut = self.loop.create_future(); self.pending.append(fut)
        self.trace.append(["connect"])
        ok = await fut
        if not ok: raise OSError("refused")
        r = asyncio.StreamReader()
        w = _W(self, len(self.conns))
        self.conns.append({"r": r, "w": w, "buf": b"", "k": None, "closed": False, "ord": _CUR.get()})
        return r, w


class _W:
    def __init__(self, srv, idx): self.srv, self.idx, self.closing = srv, idx, False
    def get_extra_info(self, name, default=None):
        return {"peername": ("srv.test", 80), "sockname": ("127.0.0.1", 50000)}.get(name, default)
    def write(self, data):
        c = self.srv.conns[self.idx]; c["buf"] += bytes(data)
        if c["k"] is None and b"\r\n\r\n" in c["buf"]:
            path = c["buf"].split(b" ")[1].decode()
            c["k"] = int(path.strip("/"))
            self.srv.trace.append(["arrive", c["k"], c["ord"]])   # "request arrival … at the test server" (+ which replay)
    def is_closing(self): return self.closing
    def close(self):
        if not self.closing: self.srv.conns[self.idx]["closed"] = True
        self.closing = True
    def write_eof(self): pass
    async def drain(self): pass
    async def wait_closed(self): pass


def _drop_log_handlers():
    """masters of earlier cases leave their log handlers (bound to a closed loop) on the root logger"""
    import logging
    root = logging.getLogger()
    for h in list(root.handlers):
        if type(h).__module__.startswith("mitmproxy"):
            root.removeHandler(h)


def run(case):
    import logging
    logging.disable(logging.CRITICAL)      # F-C53b cases make the real code log crashes; the trace is what is evaluated
    try:
        return _run(case)
    finally:
        _drop_log_handlers()
        logging.disable(logging.NOTSET)


def _run(case):
    _drop_log_handlers()
    trace = []
    with installed() as loop:
        cp = ClientPlayback()
        finished = []     # flow index, in order of the response/error hook

        # the real ReplayHandler, numbered in creation order (= order of `take`) so that the completion of a replay and
        # the arrival of its request can be told apart when the same flow is replayed several times concurrently
        from mitmproxy.addons import clientplayback as _cpm
        from mitmproxy.proxy import layers as _layers
        nh = [0]

        class RecReplayHandler(_cpm.ReplayHandler):
            def __init__(self, flow, options):
                super().__init__(flow, options); self._ord = nh[0]; nh[0] += 1

            async def replay(self):
                _CUR.set(self._ord)
                await super().replay()

            async def handle_hook(self, hook):
                try:
                    await super().handle_hook(hook)
                finally:
                    # the flow has its response / error whether or not the handler's clean-up got through
                    if isinstance(hook, (_layers.http.HttpResponseHook, _layers.http.HttpErrorHook)):
                        kind = "response" if isinstance(hook, _layers.http.HttpResponseHook) else "error"
                        trace.append(["finish", flows.index(self.flow), kind, self._ord])
        orig_rh = _cpm.ReplayHandler
        _cpm.ReplayHandler = RecReplayHandler

        with taddons.context(cp) as tctx:
            ps = Proxyserver();
            try: tctx.master.addons.add(ps)
            except Exception: pass
            tctx.configure(cp, client_replay_concurrency=case.get("conc0", 1))
            flows = [make_flow(kind, k) for k, kind in enumerate(case["flows"])]
            pre = {}      # flow index -> snapshot right before the start_replay call that queued it (earliest pending)
            stale = {}    # flow index -> snapshot of the older backup it carried at that moment (None: it had none)
            srv = Srv(trace, loop)
            orig = asyncio.open_connection
            asyncio.open_connection = srv.open
            def flags(f):
                ver = 0
                if getattr(f, "request", None) is not None: ver = int(f.request.headers.get("x-edit", "0"))
                # a replay that fails after the response headers arrived leaves BOTH flow.response (partial) and flow.error;
                # the model does not track partial responses: "has a response" is compared for flows without error only
                return [1 if (getattr(f, "response", None) and not f.error) else 0, 1 if f.error else 0,
                        1 if getattr(f, "is_replay", None) else 0, 1 if f._backup else 0, ver]
            # observe the queue itself: what is put, what the playback loop takes, what stop removes
            q = cp.queue
            put0, get0, getnw0 = q.put_nowait, q.get, q.get_nowait
            def put_nowait(f): trace.append(["enq", flows.index(f)]); return put0(f)
            async def get():
                f = await get0()
                # the option value at the moment the replay is started
                trace.append(["take", flows.index(f), tctx.options.client_replay_concurrency]); return f
            q.put_nowait, q.get = put_nowait, get
            try:
                loop.call_soon(cp.running); loop.pump()
                steps = list(case["steps"]) + [["winddown"]]
                for step in steps:
                    k = step[0]
                    if k == "start":
                        idxs = [i for i in step[1] if i < len(flows)]
                        before = {i: snapshot(flows[i]) for i in idxs}
                        bbefore = {i: backup_snapshot(flows[i]) for i in idxs}
                        hadbackup = [i for i in idxs if flows[i]._backup]
                        qbefore = list(cp.queue._queue)
                        infl = cp.inflight
                        def code(m):
                            if m is None: return "none"
                            for k, v in (("live", 1), ("intercepted", 2), ("missing request", 3), ("missing content", 4),
                                         ("WebSocket", 5), ("Can only replay HTTP", 6)):
                                if k in m: return str(v)
                            return "?"
                        trace.append(["start", idxs, sorted(set(hadbackup)), [code(cp.check(flows[i])) for i in idxs]])
                        loop.call_soon(cp.start_replay, [flows[i] for i in idxs]); loop.pump()
                        for i in idxs:
                            pending = any(f is flows[i] for f in qbefore) or infl is flows[i]
                            if i not in pre or not pending: pre[i] = before[i]; stale[i] = bbefore[i]
                    elif k == "stop":
                        queued = [flows.index(f) for f in cp.queue._queue]
                        # flows with a replay running right now (awaited or background): started and not finished
                        takes = [r[1] for r in trace if r[0] == "take"]
                        fin = {r[3] for r in trace if r[0] == "finish"}
                        infl = sorted(set(([flows.index(cp.inflight)] if cp.inflight is not None else []) +
                                          [fl for n_, fl in enumerate(takes) if n_ not in fin]))
                        # replays whose server connection is open right now
                        open_flows = sorted(set(takes[c["ord"]] for c in srv.conns
                                                if not c["closed"] and 0 <= c["ord"] < len(takes) and c["ord"] not in fin))
                        awaited = flows.index(cp.inflight) if cp.inflight is not None else -1
                        raised = []
                        def do_stop():
                            try: cp.stop_replay()
                            except Exception as e: raised.append(f"{type(e).__name__}: {e}")
                        loop.call_soon(do_stop); loop.pump()
                        after = {i: snapshot(flows[i]) for i in queued}
                        bad = []
                        for i in sorted(set(queued)):
                            if after[i] != pre[i]:
                                bad.append([i, "stale-backup" if stale.get(i) is not None and after[i] == stale[i] else "other"])
                        open_ords = sorted([c["ord"], takes[c["ord"]]] for c in srv.conns
                                           if not c["closed"] and 0 <= c["ord"] < len(takes) and c["ord"] not in fin)
                        trace.append(["stop", {"queued": queued, "bad": bad, "left": [flows.index(f) for f in cp.queue._queue],
                                               "inflight": infl, "open": open_flows, "open_ords": open_ords,
                                               "awaited": awaited, "exc": raised[0] if raised else None}])
                    elif k == "edit":
                        if step[1] < len(flows) and getattr(flows[step[1]], "request", None) is not None:
                            f = flows[step[1]]
                            f.backup(); f.request.headers["x-edit"] = str(int(f.request.headers.get("x-edit", "0")) + 1)
                            trace.append(["edit", step[1]])
                    elif k == "connect":
                        if srv.pending:
                            ok = step[1] == "ok"
                            trace.append(["connected", 1 if ok else 0])
                            srv.pending.popleft().set_result(ok); loop.pump()
                    elif k == "respond":
                        live = [c for c in srv.conns if c["k"] is not None and not c["closed"] and not c.get("answered")]
                        if live:
                            c = live[0]; c["answered"] = True
                            spec = step[1] if len(step) > 1 and isinstance(step[1], dict) else {}
                            # the origin's answer: interim 1xx responses, then the final one; one segment or several
                            pieces = []
                            for code in spec.get("interim", []):
                                reason = {100: "Continue", 102: "Processing", 103: "Early Hints"}.get(code, "Interim")
                                pieces.append(f"HTTP/1.1 {code} {reason}\r\nLink: </style.css>; rel=preload\r\n\r\n".encode())
                            close = bool(spec.get("close")) or spec.get("body") == "eof"
                            head = b"HTTP/1.1 200 OK\r\n" + (b"Connection: close\r\n" if spec.get("close") else b"")
                            body = spec.get("body", "cl")
                            if body == "cl": final = head + b"Content-Length: 2\r\n\r\nok"
                            elif body == "chunked": final = head + b"Transfer-Encoding: chunked\r\n\r\n2\r\nok\r\n0\r\n\r\n"
                            elif body == "none": final = b"HTTP/1.1 204 No Content\r\n" + (b"Connection: close\r\n" if spec.get("close") else b"") + b"\r\n"
                            else: final = head + b"\r\nok"                     # delimited by the close of the connection
                            if spec.get("cut"):                                  # the origin dies in the middle of its answer
                                final = final[:max(1, len(final) - 3)]; close = True
                            pieces.append(final)
                            if spec.get("split"):
                                for pc in pieces:
                                    if not c["closed"]: c["r"].feed_data(pc); loop.pump()
                            else:
                                c["r"].feed_data(b"".join(pieces)); loop.pump()
                            if close and not c["closed"]:
                                c["r"].feed_eof(); loop.pump()
                    elif k == "srv_eof":
                        live = [c for c in srv.conns if not c["closed"] and not c.get("answered")]
                        if live:
                            live[0]["answered"] = True
                            live[0]["r"].feed_eof(); loop.pump()
                    elif k == "tick":
                        loop.advance(step[1]); loop.pump()
                    elif k == "opt":
                        # the user switches client_replay_concurrency at runtime
                        trace.append(["opt", step[1]])
                        loop.call_soon(lambda v=step[1]: tctx.options.update(client_replay_concurrency=v)); loop.pump()
                    elif k == "winddown":
                        # liveness exploration: the server refuses / closes everything still pending
                        trace.append(["winddown"])
                        for _ in range(2000):
                            live = [c for c in srv.conns if not c["closed"] and not c.get("answered")]
                            if srv.pending: srv.pending.popleft().set_result(False)
                            elif live: live[0]["answered"] = True; live[0]["r"].feed_eof()
                            else: break
                            loop.pump()
                    trace.append(["state", [flows.index(f) for f in cp.queue._queue],
                                  flows.index(cp.inflight) if cp.inflight is not None else -1,
                                  [flags(f) for f in flows], tctx.options.client_replay_concurrency, len(cp.replay_tasks)])
                loop.call_soon(lambda: asyncio.ensure_future(cp.done())); loop.pump()
            finally:
                asyncio.open_connection = orig
                _cpm.ReplayHandler = orig_rh
                _drop_log_handlers()
    return {"trace": trace}
