"""C53 engine: the REAL ClientPlayback addon + ReplayHandler (addons/clientplayback.py) on the virtual-time loop against an
in-memory server (patched asyncio.open_connection) whose connect outcome / response / failure timing is scripted.
Helper of property C53 only."""
import asyncio, collections
from common.vloop import installed
from mitmproxy.addons.clientplayback import ClientPlayback
from mitmproxy.addons.proxyserver import Proxyserver
from mitmproxy.test import taddons, tflow
from mitmproxy import http

KINDS = ["ok", "ok_resp", "ok_err", "live", "intercepted", "nocontent", "tcp", "ws", "edited", "norequest"]


def make_flow(kind, k):
    if kind == "tcp":
        f = tflow.ttcpflow(); f.live = False
        return f
    f = tflow.tflow(resp=(kind in ("ok_resp", "edited")), err=(kind == "ok_err"), ws=(kind == "ws"), live=(kind == "live"))
    f.request.host = "srv.test"; f.request.port = 80; f.request.scheme = "http"
    f.request.path = f"/{k}"
    f.request.headers["host"] = "srv.test"
    if kind == "intercepted": f.intercept()
    if kind == "nocontent": f.request.raw_content = None
    if kind == "norequest": f.request = None
    if kind == "edited":          # the user edited the flow before: Flow.backup() was taken, then a change made
        f.backup(); f.request.headers["x-edit"] = "1"
    return f


def snapshot(f):
    """the state the property talks about ('pre-replay state'): everything get_state() serialises, minus the backup"""
    st = f.get_state(); st.pop("backup", None)
    return repr(sorted(st.items(), key=lambda kv: kv[0]))


class Srv:
    def __init__(self, trace, loop):
        self.trace, self.loop = trace, loop
        self.pending = collections.deque()    # connect futures
        self.conns = []                       # [reader, writer, reqbuf, k]

    async def open(self, host, port, local_addr=None, **kw):
        fut = self.loop.create_future(); self.pending.append(fut)
        self.trace.append(["connect"])
        ok = await fut
        if not ok: raise OSError("refused")
        r = asyncio.StreamReader()
        w = _W(self, len(self.conns))
        self.conns.append({"r": r, "w": w, "buf": b"", "k": None, "closed": False})
        return r, w


class _W:
    def __init__(self, srv, idx): self.srv, self.idx, self.closing = srv, idx, False
    def get_extra_info(self, name, default=None):
        return {"peername": ("srv.test", 80), "sockname": ("127.0.0.1", 50000)}.get(name, default)
    def write(self, data):
        c = self.srv.conns[self.idx]; c["buf"] += bytes(data)
        if c["k"] is None and b"\r\n\r\n" in c["buf"]:
            path = c["buf"].split(b" ")[1].decode()
            c["k"] = int(path.strip("/"))
            self.srv.trace.append(["arrive", c["k"]])       # "request arrival … at the test server"
    def is_closing(self): return self.closing
    def close(self):
        if not self.closing: self.srv.conns[self.idx]["closed"] = True
        self.closing = True
    def write_eof(self): pass
    async def drain(self): pass
    async def wait_closed(self): pass


def run(case):
    trace = []
    with installed() as loop:
        cp = ClientPlayback()
        finished = []     # flow index, in order of the response/error hook

        class Watch:
            def response(self, f): trace.append(["finish", flows.index(f), "response"])
            def error(self, f): trace.append(["finish", flows.index(f), "error"])

        with taddons.context(cp, Watch()) as tctx:
            ps = Proxyserver();
            try: tctx.master.addons.add(ps)
            except Exception: pass
            tctx.configure(cp, client_replay_concurrency=1)
            flows = [make_flow(kind, k) for k, kind in enumerate(case["flows"])]
            pre = {}      # flow index -> snapshot right before the start_replay call that queued it (earliest pending)
            srv = Srv(trace, loop)
            orig = asyncio.open_connection
            asyncio.open_connection = srv.open
            try:
                loop.call_soon(cp.running); loop.pump()
                for step in case["steps"]:
                    k = step[0]
                    if k == "start":
                        idxs = [i for i in step[1] if i < len(flows)]
                        before = {i: snapshot(flows[i]) for i in idxs}
                        qbefore = list(cp.queue._queue)
                        loop.call_soon(cp.start_replay, [flows[i] for i in idxs]); loop.pump()
                        # what was queued by this call (the playback loop may already have taken the head)
                        trace.append(["start", idxs])
                        for i in idxs:
                            pending = any(f is flows[i] for f in qbefore) or cp.inflight is flows[i]
                            if i not in pre or not pending: pre[i] = before[i]
                    elif k == "stop":
                        queued = [flows.index(f) for f in cp.queue._queue]
                        loop.call_soon(cp.stop_replay); loop.pump()
                        after = {i: snapshot(flows[i]) for i in queued}
                        trace.append(["stop", queued, [i for i in queued if after[i] != pre[i]]])
                    elif k == "connect":
                        if srv.pending:
                            srv.pending.popleft().set_result(step[1] == "ok"); loop.pump()
                    elif k == "respond":
                        live = [c for c in srv.conns if c["k"] is not None and not c["closed"] and not c.get("answered")]
                        if live:
                            live[0]["answered"] = True
                            live[0]["r"].feed_data(b"HTTP/1.1 200 OK\r\nContent-Length: 2\r\n\r\nok"); loop.pump()
                    elif k == "srv_eof":
                        live = [c for c in srv.conns if not c["closed"] and not c.get("answered")]
                        if live:
                            live[0]["answered"] = True
                            live[0]["r"].feed_eof(); loop.pump()
                    elif k == "tick":
                        loop.advance(step[1]); loop.pump()
                    trace.append(["state", [flows.index(f) for f in cp.queue._queue],
                                  flows.index(cp.inflight) if cp.inflight is not None else -1])
                final = [[1 if getattr(f, "response", None) else 0, 1 if f.error else 0,
                          1 if getattr(f, "is_replay", None) else 0, 1 if f._backup else 0] for f in flows]
                loop.call_soon(lambda: asyncio.ensure_future(cp.done())); loop.pump()
            finally:
                asyncio.open_connection = orig
    return {"trace": trace, "final": final}
