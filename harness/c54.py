"""C54 — sticky cookies are only sent to hosts and paths they belong to
(mitmproxy/addons/stickycookie.py: ckey, domain_match, path_match, StickyCookie.response/request;
mitmproxy/net/http/cookies.py: Set-Cookie parsing, is_expired, format_cookie_header)."""
import email.utils, ipaddress, itertools, json, re
from common.check import PropertyCheck, hx, unhx
from mitmproxy import http
from mitmproxy.addons import stickycookie
from mitmproxy.net.http import cookies as mcookies
from mitmproxy.test import taddons, tflow, tutils

HOSTS = ["example.com", "sub.example.com", "a.sub.example.com", "xexample.com", "example.com.", "EXAMPLE.com",
         "example.com.evil.org", "sub.example.com.evil.org", "evil.org", "1.2.3.4", "11.2.3.4", "com", "::1", "localhost"]
DOMAINS = [None, None, "example.com", ".example.com", ".Example.COM", "sub.example.com", ".sub.example.com", "com", ".com",
           "evil.org", ".evil.org", "example.com.", "..example.com", ".3.4", "2.3.4", "1.2.3.4", "", ".", "ample.com",
           ".ample.com", ".localhost"]
PORTS = [80, 8080, 443]
CPATHS = [None, None, "/", "/foo", "/foo/", "/foo/bar", "foo", "", "/foobar"]
RPATHS = ["/", "/foo", "/foo/", "/foobar", "/foo/bar", "/foo?x=1", "/foo?x=/foo/", "/fo", "/other", "/foo/bar/baz", "*", "",
          "/foo/bar?q", "/foobar/", "/foo%2Fbar", "/%66oo/bar", "/foo;p=/foo/", "/foo%3Fx", "//foo", "/foo/../other"]
NAMES = ["a", "b", "sid"]
NOW = 1_800_000_000     # the frozen clock of every run (2027-01-15): between the past and the future dates below
PAST850, FUTURE850 = "Thursday, 01-Jan-70 00:00:00 GMT", "Friday, 01-Jan-37 00:00:00 GMT"     # RFC 850: long weekday names
PAST, PAST2, FUTURE = "Thu, 01-Jan-1970 00:00:00 GMT", "Wed, 13-Jan-2021 22:23:01 GMT", "Fri, 01 Jan 2100 00:00:00 GMT"
EXPIRY = [  # lists of attribute pairs (value None = attribute sent without "=value")
    [], [], [], [["Max-Age", "3600"]], [["Expires", FUTURE]],
    [["Max-Age", "0"]], [["max-age", "-5"]], [["Expires", PAST]], [["expires", PAST2]],
    [["Expires", FUTURE], ["Max-Age", "0"]], [["Max-Age", "0"], ["Expires", FUTURE]], [["Expires", "garbage"], ["Max-Age", "0"]],
    [["Expires", PAST], ["Max-Age", "3600"]], [["Max-Age", "abc"], ["Expires", PAST]], [["Max-Age", "abc"]],
    [["Max-Age", None]], [["Max-Age", None], ["Expires", PAST]], [["Expires", None]], [["Expires", None], ["Max-Age", "0"]],
    [["Max-Age", ""]], [["Max-Age", "1_0"]], [["Max-Age", "+0"]], [["Max-Age", "3600"], ["Max-Age", "0"]],
    [["Expires", PAST], ["Expires", FUTURE]], [["Expires", "garbage"]],
    # boundary of the tokenizer's Expires handling: short / empty values, bare or long weekday names, with and without what follows
    [["Expires", "0"]], [["Expires", "-1"]], [["Expires", "now"]], [["Expires", ""]], [["Expires", "Thu"]], [["Expires", "1970"]],
    [["Expires", PAST850]], [["Expires", FUTURE850]], [["expires", "Sunday, 06-Nov-94 08:49:37 GMT"]], [["Expires", "Wednesday"]],
    [["Expires", PAST850], ["Max-Age", "3600"]], [["Expires", "0"], ["Max-Age", "0"]],
]
EXTRA = [["Secure", None], ["SameSite", "Lax"], ["HttpOnly", None], ["Domain", None], ["Path", None]]
PLAIN_INT = re.compile(r"-?[0-9]+\Z")


def date_ts(attrs):
    """email.utils' verdict on the last Expires value (the model's library parameter)"""
    v = last_attr(attrs, "expires")
    e = email.utils.parsedate_tz(v) if v else None
    return email.utils.mktime_tz(e) if e else None


def _expires_verdict(attrs):
    if any(k.lower() == "expires" for k, _ in attrs):
        ts = date_ts(attrs)
        if ts is not None: return ts <= NOW
    return False


def rfc_expired(attrs):
    """RFC 6265 §5.2.1/§5.2.2/§4.1.2.2: Max-Age (a plain integer) has precedence over Expires.  True / False.
    None (the oracle abstains) ONLY when the last Max-Age value is one the RFC grammar rejects but Python's int() accepts
    ('+0', '1_0', '+5') AND the two readings — ignore the attribute (RFC) vs. take int()'s value — give different verdicts."""
    ma = [v for k, v in attrs if k.lower() == "max-age"]
    if ma and ma[-1] is not None:
        v = ma[-1]
        if PLAIN_INT.match(v):
            return int(v) <= 0
        try:
            as_int = int(v) <= 0
        except ValueError:
            return _expires_verdict(attrs)       # both readings ignore it
        rfc = _expires_verdict(attrs)
        return rfc if rfc == as_int else None
    return _expires_verdict(attrs)


def plain_hostname(h):
    """syntactic: a non-empty name without leading/trailing dot that does not end in .<digits>"""
    return bool(h) and not h.startswith(".") and not h.endswith(".") and not re.search(r"\.[0-9]+\Z", h)


HDR_TEXTS = [
    "flag", "flag; Path=/x", "sid=1", "sid=", 'q="a b"', 'q="a\\"b"', 'q="x;y"; Path=/', "a=1, b=2; Path=/x", "a=1,b=2",
    "k=v; Expires=Thu, 01-Jan-1970 00:00:00 GMT, m=n", " lead=1", "t=1;", "t=1; ; Path=/", "=v", "e==", "sid=1; Domain", "u=1; Max-Age=0",
    "flag; Max-Age=0", "sid; Max-Age=0", "x=a b", "x=a\tb", "y=a\\b", "sid=2; Domain=.example.com; Path=/x", "flag; Domain=.example.com",
    "z=1; Expires=Thursday, 01-Jan-70 00:00:00 GMT", "z=2; Expires=0; Path=/x", "", ";", "w", "w=; Path", 'v="unterminated',
]


class FrozenTime:
    @staticmethod
    def time(): return float(NOW)


def is_ip(h):
    try:
        ipaddress.ip_address(h); return True
    except ValueError:
        return False


def dm6265(host: str, dom: str) -> bool:
    """RFC 6265 §5.1.3 (cookie domain canonicalised per §5.2.3: lower case, one leading dot ignored)"""
    h, d = host.lower(), dom.lower()
    if d.startswith("."): d = d[1:]
    if h == d: return True
    if d == "":       # an empty cookie domain ("" or ".") is host-only (§5.2.3 / §5.3 step 4): nothing suffix-matches it
        return h == dom.lower()
    return h.endswith("." + d) and not is_ip(h)


def pm6265(request_target: str, cpath: str) -> bool:
    """RFC 6265 §5.1.4 path-match; the request-path is the path part of the request target"""
    r = request_target.split("?", 1)[0]
    return r == cpath or (r.startswith(cpath) and (cpath.endswith("/") or r[len(cpath):len(cpath) + 1] == "/"))


def last_attr(attrs, key):
    vals = [v for k, v in attrs if k.lower() == key]
    return vals[-1] if vals else None


def hs(s): return hx(s.encode())


class Check(PropertyCheck):
    prop = "C54"
    design_ref = "§5 C54"
    level_text = ("Lean theorems attached_only_if_spec_match, foreign_domain_not_stored, stored_only_from_matching_host, "
                  "expired_removed(+_history), jar_no_empty_dicts, impl_domain_match_sound, impl_path_match_iff, and — new — "
                  "jar_is_last_write (after ANY history the jar slot (key, name) holds exactly what the last accepted Set-Cookie "
                  "for it says; expired = gone), jar_keys_and_names_unique, attached_is_latest_unexpired (only that last value is "
                  "ever attached), attached_only_if_spec_match_raw (the same with the clock, cookies.get_expiration_ts/is_expired "
                  "incl. Python int() and the case-insensitive last-value attribute lookup inside the model), "
                  "max_age_nonpositive_is_expired, no_expiry_attribute_not_expired, valueless_domain_path_ignored, and the "
                  "RFC-acceptance reading of the expiry clause ExpiredRemovedRFC with expired_removed_rfc_partial / "
                  "_counterexample (finding F-C54g); all against "
                  "RFC 6265 §5.1.3/§5.2.3/§5.1.4 stated in Lean, for ALL histories, every clock and every notion of 'IP address' "
                  "obeying two stated laws. Tie: differential histories (the model PREDICTS is_expired of every Set-Cookie and "
                  "the Cookie header of every request; frozen clock), exhaustive host x domain / path x path pairs, int() strings. New: attached_only_if_spec_match_hdr / "
                  "jar_is_last_write_hdr — the same for histories given by the TEXT of the Set-Cookie headers: the tokenizer "
                  "(_read_set_cookie_pairs / parse_set_cookie_header, the transcription C34 maintains, after fixes e0e81be4a / "
                  "8cc872297) is inside the model, and the tie now hands the model the header text (driver op hresp). Owner round 6: the RFC spec domainMatch6265 (Lean and the "
                  "oracle's dm6265, tied to each other by the dm op) treats an EMPTY Domain value ('' or '.') as host-only (§5.2.3 / "
                  "§5.3 step 4): nothing suffix-matches it (empty_domain_matches_nothing); expired_removed_partial is expired_removed "
                  "under the name its guard calls for. Cookie values "
                  "are Option-valued (None for a bare name) and the request's Cookie header is C34's _format_pairs transcription.")
    level_note = ("trusted: Lean kernel; differential tie; email.utils date parsing is the only parameter of a response (a function Expires-value -> timestamp; the theorems hold "
                  "for every such function); the Set-Cookie tokeniser is transcribed (Model/C34, imported) and tied here by hresp "
                  "and in C34 by its own op; a cookie NAME without '=value' has value none in the model as in Python (Cookie.value : Option) and "
                  "the Cookie header is rendered by C34's transcription of _format_pairs (quoting of special values): both are tied by "
                  "the header-text case kind 'hdr' (value-less names, quoted/special values, several cookies per header, odd "
                  "tokens), whose oracle only rejects a raising hook — it is a transcription tie, like the 'int' kind; the harness also checks on every response that the real tokeniser delivers the cookies sent; the flow filter is the "
                  "`flt` flag of a request (responses are learned whenever a filter is SET — `if self.flt:` — without matching it, in "
                  "code and model alike); ASCII hosts/domains/attribute values only (str.lower = ASCII lower, int() on ASCII); the cookie's "
                  "path is the one ckey stores (Path attribute or '/'): RFC 6265's default-path is not part of the statement "
                  "and not modelled; where Python int() and the RFC grammar disagree about a Max-Age value ('+0', '1_0') the "
                  "oracle abstains on expiry (the model follows int()) — only when the two readings give "
                  "different verdicts. Lenient branches of the oracle (each with near-misses in known_selftest, run from "
                  "setup): (1) that abstention; (2) an expired Set-Cookie must remove the cookie whenever its host RFC-domain-"
                  "matches the stored domain (before the audit: only the same host) — except the recorded finding F-C54g "
                  "(another host, stored domain without leading dot / not a plain dotted name), recognised by Check.known from "
                  "the facts of the case; a response from a host that does not domain-match is foreign and must be ignored; "
                  "(3) dm/pm pair cases fail only for 'code says yes, RFC says no' (the property is an only-if), int cases are "
                  "tie-only; (4) a hook that raises is always a failure. Lean: ExpiredRemovedRFC is stated at full strength with "
                  "expired_removed_rfc_partial (guard: the code's own domain check accepts) and "
                  "expired_removed_rfc_counterexample (F-C54g).")
    technique = "Lean 4 proof (history invariants, impl-vs-RFC matchers) + differential model-vs-code correspondence"
    rule = ("a case is a history (<=40 events) of responses (1-3 Set-Cookie headers: host-only / Domain with and without "
            "leading dot, upper case, trailing dot, foreign, inner-substring hosts; Path; Max-Age/Expires fresh, expired, both, unparsable; "
            "attributes without a value; duplicate attributes) and requests (related/unrelated hosts, ports, paths with and without query / percent-"
            "encoding / params, filter matching or not); on both, the Host header, HTTP/2 :authority, server-connection "
            "address, SNI and scheme are absent, equal to the destination or name a different related/unrelated host and "
            "port (the oracle and the model always take the destination request.host / request.port), or a single (host, domain) / (request path, cookie path) pair from the exhaustive universe, or an int() string, or a "
            "header-text history (kind hdr: raw Set-Cookie texts incl. value-less names and quoted values); "
            "distinct = distinct case; non-trivial = some request got a cookie attached, or a pair case.")
    budget = {"quick": 2500, "thorough": 50000}
    time_budget = {"quick": 8, "thorough": 200}
    fingerprints = ["mitmproxy.addons.stickycookie:ckey", "mitmproxy.addons.stickycookie:domain_match",
                    "mitmproxy.addons.stickycookie:path_match", "mitmproxy.addons.stickycookie:StickyCookie.response",
                    "mitmproxy.addons.stickycookie:StickyCookie.request", "mitmproxy.net.http.cookies:is_expired",
                    "mitmproxy.net.http.cookies:get_expiration_ts", "mitmproxy.net.http.cookies:parse_set_cookie_header", "mitmproxy.net.http.cookies:_read_set_cookie_pairs",
                    "mitmproxy.net.http.cookies:CookieAttrs", "mitmproxy.net.http.cookies:_format_pairs",
                    "http.cookiejar:domain_match", "http.cookiejar:is_HDN"]
    trusted_base = ["CPython http.cookiejar.domain_match / is_HDN / IPV4_RE as transcribed in Model/C54.lean",
                    "mitmproxy Set-Cookie parser and flowfilter on the generated header shapes"]
    parallel = False

    # ---- generator ----------------------------------------------------------------------------
    def _cookie(self, rng, ctr):
        attrs = []
        dom = rng.pick(DOMAINS)
        if dom is not None:
            attrs.append([rng.pick(["Domain", "domain", "DOMAIN"]), dom])
            if rng.chance(0.08): attrs.insert(0, ["Domain", rng.pick([d for d in DOMAINS if d is not None])])
        p = rng.pick(CPATHS)
        if p is not None:
            attrs.append([rng.pick(["Path", "path"]), p])
            if rng.chance(0.05): attrs.insert(0, ["Path", "/other"])
        exp_attrs = [list(a) for a in rng.pick(EXPIRY)]
        attrs = exp_attrs + attrs if rng.chance(0.5) else attrs + exp_attrs      # Domain/Path after or before Expires/Max-Age
        if rng.chance(0.25): attrs.append(list(rng.pick(EXTRA)))
        if rng.chance(0.3): rng.shuffle(attrs)
        ctr[0] += 1
        return {"name": rng.pick(NAMES), "value": f"v{ctr[0]}", "attrs": attrs}

    def _related(self, rng, evs):
        """a request/response aimed at something already set"""
        resps = [e for e in evs if e["t"] == "resp"]
        if not resps or rng.chance(0.3):
            return rng.pick(HOSTS), rng.pick(PORTS)
        r = rng.pick(resps)
        host = r["host"]
        if rng.chance(0.5):
            host = rng.pick(["sub." + host, host + ".evil.org", "x" + host, host.upper(), host + ".", host])
        return host, (r["port"] if rng.chance(0.8) else rng.pick(PORTS))

    def _dress(self, rng, ev, evs):
        """Attributes of the flow that must not matter: the property speaks of the host/port the request is sent to
        (request.host / request.port) and its path (request.path).  Host header, HTTP/2 :authority, the address and
        SNI of the server connection (upstream proxy) and the scheme are varied independently: absent, equal to the
        destination, or naming a different related (a host that has cookies in the jar) or unrelated host / port."""
        known = [e["host"] for e in evs if e["t"] == "resp"] or HOSTS

        def other():
            h = rng.pick(known) if rng.chance(0.7) else rng.pick(HOSTS)
            if rng.chance(0.25): h = rng.pick(["www.", "sub."]) + h
            return h
        x = rng.random()
        if x < 0.3: pass
        elif x < 0.55: ev["hh"] = ev["host"] + (f":{ev['port']}" if rng.chance(0.3) else "")
        else: ev["hh"] = other() + (f":{rng.pick(PORTS)}" if rng.chance(0.3) else "")
        x = rng.random()
        if x < 0.7: pass
        elif x < 0.8: ev["auth"] = ev["host"]
        else: ev["auth"] = other() + (f":{rng.pick(PORTS)}" if rng.chance(0.3) else "")
        if rng.chance(0.3): ev["via"] = [other(), rng.pick(PORTS)]
        if rng.chance(0.3): ev["sni"] = other()
        if rng.chance(0.3): ev["scheme"] = "https"
        return ev

    @staticmethod
    def _flow(ev, resp):
        headers = []
        if ev.get("hh") is not None: headers.append((b"host", ev["hh"].encode()))
        headers.append((b"accept", b"*/*"))
        auth = ev.get("auth")
        req = tutils.treq(host=ev["host"], port=ev["port"], path=(ev.get("path", "/set")).encode(),
                          method=ev.get("m", "GET").encode(), scheme=ev.get("scheme", "http").encode(),
                          authority=(auth or "").encode(), http_version=b"HTTP/2.0" if auth else b"HTTP/1.1",
                          headers=http.Headers(headers))
        f = tflow.tflow(req=req, resp=resp)
        if ev.get("via"):
            f.server_conn.address = (ev["via"][0], ev["via"][1])
        if ev.get("sni"):
            f.server_conn.sni = ev["sni"]; f.client_conn.sni = ev["sni"]
        assert f.request.host == ev["host"] and f.request.port == ev["port"]
        return f

    def _history(self, rng):
        evs, ctr = [], [0]
        for _ in range(rng.randint(2, 40)):
            if rng.chance(0.4) or not evs:
                host, port = self._related(rng, evs) if rng.chance(0.5) else (rng.pick(HOSTS), rng.pick(PORTS))
                evs.append({"t": "resp", "host": host, "port": port,
                            "cookies": [self._cookie(rng, ctr) for _ in range(rng.weighted([(6, 1), (3, 2), (1, 3)]))]})
                if rng.chance(0.25):   # re-set / expire a cookie that exists: same name + attrs, new value / expired
                    old = rng.pick([c for e in evs if e["t"] == "resp" for c in e["cookies"]])
                    ctr[0] += 1
                    c = {"name": old["name"], "value": f"v{ctr[0]}",
                         "attrs": [a for a in old["attrs"] if a[0].lower() not in ("max-age", "expires")]}
                    if rng.chance(0.6):
                        c["attrs"] += [list(a) for a in rng.pick([e for e in EXPIRY if rfc_expired(e)])]
                    src = rng.pick([e for e in evs if e["t"] == "resp" and old in e["cookies"]])
                    evs.append({"t": "resp", "host": src["host"], "port": src["port"], "cookies": [c]})
            else:
                host, port = self._related(rng, evs)
                evs.append({"t": "req", "m": "GET" if rng.chance(0.9) else "POST", "host": host, "port": port,
                            "path": rng.pick(RPATHS)})
        if rng.chance(0.75):
            for i, ev in enumerate(evs):
                self._dress(rng, ev, evs[:i])
        return {"evs": evs}

    def generate(self, rng, tier):
        doms = sorted({d for d in DOMAINS if d is not None} | set(HOSTS))
        for a in HOSTS + ["", ".example.com", "EXAMPLE.COM.", ".3.4", "a:b.example.com"]:
            for b in doms + ["x.example.com.evil.org", "EXAMPLE.com"]:
                yield {"dm": [a, b]}
        # header-text histories (kind "hdr"): cookie names without "=value", quoted / special values, several cookies per header
        for hset in (HDR_TEXTS[i:i + 3] for i in range(0, len(HDR_TEXTS), 3)):
            evs = [{"t": "resp", "host": "example.com", "port": 80, "headers": list(hset)}]
            evs += [{"t": "req", "m": "GET", "host": "example.com", "port": 80, "path": p} for p in ("/", "/x/y")]
            yield {"hdr": evs}
        for v in ["0", "-5", " 7 ", "+3", "1_0", "1.5", "", "abc", "0x10", "--1", "1__0", "_1", "1_", "007", "-0", "+", "-", "1 0",
                  "\t12\n", "9" * 25, "1_2_3", "+-1", "1e3", "\x1f5", "5\x0b"]:
            yield {"int": v}
        for r in RPATHS + ["/foo/?", "?", "/foo?"]:
            for c in [p for p in CPATHS if p is not None] + ["/foo?x=1", "/fo", "//"]:
                yield {"pm": [r, c]}
        # directed small histories: one response + every related request
        k = 0
        for host in HOSTS[:9]:
            for dom in DOMAINS[1:13]:
                for cp in (None, "/foo", "/foo/"):
                    attrs = ([["Domain", dom]] if dom is not None else []) + ([["Path", cp]] if cp is not None else [])
                    k += 1
                    if tier == "quick" and k % 3: continue
                    evs = [{"t": "resp", "host": host, "port": 80, "cookies": [{"name": "a", "value": "v1", "attrs": attrs}]}]
                    for h2 in HOSTS[:9]:
                        evs.append({"t": "req", "m": "GET", "host": h2, "port": 80, "path": rng.pick(RPATHS)})
                    evs.append({"t": "req", "m": "GET", "host": host, "port": 8080, "path": "/foo"})
                    yield {"evs": evs}
        # directed: Expires/Max-Age variants FOLLOWED by Path / Domain (tokenizer boundary), and deletion with every expired variant
        for k, e in enumerate(EXPIRY):
            if tier == "quick" and k % 2 and k < 20: continue
            e = [list(a) for a in e]
            evs = [{"t": "resp", "host": "example.com", "port": 80, "cookies": [{"name": "a", "value": "v1", "attrs": e + [["Path", "/admin"]]}]},
                   {"t": "req", "m": "GET", "host": "example.com", "port": 80, "path": "/other"},
                   {"t": "req", "m": "GET", "host": "example.com", "port": 80, "path": "/admin/x"},
                   {"t": "resp", "host": "sub.example.com", "port": 80, "cookies": [{"name": "b", "value": "v2", "attrs": e + [["Domain", ".example.com"], ["Path", "/foo"]]}]},
                   {"t": "req", "m": "GET", "host": "www.example.com", "port": 80, "path": "/"},
                   {"t": "req", "m": "GET", "host": "www.example.com", "port": 80, "path": "/foo/bar"}]
            yield {"evs": evs}
            if rfc_expired(e) is True:
                yield {"evs": [{"t": "resp", "host": "example.com", "port": 80, "cookies": [{"name": "sid", "value": "v1", "attrs": [["Path", "/"]]}]},
                               {"t": "resp", "host": "example.com", "port": 80, "cookies": [{"name": "sid", "value": "v2", "attrs": e + [["Path", "/"]]}]},
                               {"t": "req", "m": "GET", "host": "example.com", "port": 80, "path": "/x"}]}
        # directed: the flow claims (Host header / :authority / server address / SNI) to be another host than its destination
        k = 0
        for owner, dom in (("example.com", None), ("sub.example.com", ".example.com"), ("evil.org", None)):
            attrs = [["Domain", dom]] if dom else []
            for field in ("hh", "auth", "via", "sni"):
                def claim(h, port=80):
                    return {"hh": h, "auth": h, "via": [h, port], "sni": h}[field]
                for other in HOSTS[:9]:
                    k += 1
                    if tier == "quick" and k % 2: continue
                    yield {"evs": [   # learned honestly, then a request to `other` claiming to be the owner
                        {"t": "resp", "host": owner, "port": 80, "cookies": [{"name": "a", "value": "v1", "attrs": attrs}], field: claim(owner)},
                        {"t": "req", "m": "GET", "host": other, "port": 80, "path": "/", field: claim(owner)},
                        {"t": "req", "m": "GET", "host": owner, "port": 8080, "path": "/", field: claim(owner, 80) if field != "hh" else owner + ":80"},
                        {"t": "req", "m": "GET", "host": owner, "port": 80, "path": "/", field: claim(other)}]}
                    yield {"evs": [   # a response from `other` whose request claimed to be (a subdomain of) the owner
                        {"t": "resp", "host": other, "port": 80, "cookies": [{"name": "a", "value": "v1", "attrs": [["Domain", "." + owner]]}], field: claim("www." + owner)},
                        {"t": "resp", "host": other, "port": 80, "cookies": [{"name": "b", "value": "v2", "attrs": []}], field: claim(owner)},
                        {"t": "req", "m": "GET", "host": "www." + owner, "port": 80, "path": "/"},
                        {"t": "req", "m": "GET", "host": owner, "port": 80, "path": "/"}]}
        while True:
            if rng.chance(0.04):
                al = "ab.E:1/"
                yield {"dm": ["".join(rng.pick(al) for _ in range(rng.randint(0, 8))), "".join(rng.pick(al) for _ in range(rng.randint(0, 5)))]}
            elif rng.chance(0.06):
                evs = []
                for _ in range(rng.randint(2, 8)):
                    if rng.chance(0.5):
                        evs.append({"t": "resp", "host": rng.pick(["example.com", "sub.example.com"]), "port": 80,
                                    "headers": [rng.pick(HDR_TEXTS) for _ in range(rng.randint(1, 3))]})
                    else:
                        evs.append({"t": "req", "m": "GET", "host": rng.pick(["example.com", "sub.example.com"]), "port": 80,
                                    "path": rng.pick(["/", "/x", "/x/y", "/foo"])})
                yield {"hdr": evs}
            elif rng.chance(0.02):
                yield {"int": "".join(rng.pick("01_+- 9a") for _ in range(rng.randint(0, 6)))}
            elif rng.chance(0.04):
                al = "/ab?"
                yield {"pm": ["".join(rng.pick(al) for _ in range(rng.randint(0, 8))), "".join(rng.pick(al) for _ in range(rng.randint(0, 5)))]}
            else:
                yield self._history(rng)

    # ---- the real code ------------------------------------------------------------------------
    def impl(self, case):
        if "dm" in case:
            return {"dm": bool(stickycookie.domain_match(*case["dm"]))}
        if "pm" in case:
            return {"pm": bool(stickycookie.path_match(*case["pm"]))}
        if "int" in case:
            try:
                return {"int": str(int(case["int"]))}
            except ValueError:
                return {"int": "err"}
        if "hdr" in case:
            case = {"evs": case["hdr"]}
        sc = stickycookie.StickyCookie()
        out = []
        saved_time = mcookies.time
        mcookies.time = FrozenTime
        try:
            return self._drive(sc, case, out)
        finally:
            mcookies.time = saved_time

    def _drive(self, sc, case, out):
        with taddons.context(sc) as tctx:
            tctx.configure(sc, stickycookie="~m GET")
            for ev in case["evs"]:
                if ev["t"] == "resp":
                    f = self._flow(ev, True)
                    f.response.headers.pop("set-cookie", None)
                    for text in ev.get("headers", ()):            # kind "hdr": the header text itself is the input
                        f.response.headers.add("Set-Cookie", text)
                    for c in ev.get("cookies", ()):
                        f.response.headers.add("Set-Cookie", self._header(c))
                    # what the real parser + is_expired say about each cookie (the model predicts these flags)
                    parsed = list(f.response.cookies.items(multi=True))
                    flags = [int(bool(mcookies.is_expired(attrs))) for _, (_, attrs) in parsed]
                    got = [[n, v, [[k, a] for k, a in attrs.fields]] for n, (v, attrs) in parsed]
                    want = got if "headers" in ev else [[c["name"], c["value"], [list(a) for a in c["attrs"]]] for c in ev["cookies"]]
                    r = {}
                    try:
                        sc.response(f)
                    except Exception as e:      # the hook must not raise; what it leaves behind is judged by the oracle and the tie
                        r["raised"] = type(e).__name__
                    if got != want: r["parsed"] = got      # the tokenizer did not deliver the cookies that were sent
                    out.append({"njar": len(sc.jar), "expired": flags, **r})
                else:
                    f = self._flow(ev, False)
                    f.request.headers.pop("cookie", None)
                    r = {}
                    try:
                        sc.request(f)
                    except Exception as e:
                        r["raised"] = type(e).__name__
                    out.append({"cookie": f.request.headers.get("cookie"), **r})
            sv = lambda x: x if isinstance(x, str) else f"<{x!r}>"      # a non-string key part (None) is shown, never hidden
            jar = [[sv(k[0]), k[1], sv(k[2]), [[n, v if v is None else sv(v)] for n, v in d.items()]] for k, d in sc.jar.items()]
        return {"evs": out, "jar": jar}

    # ---- the property over what the addon did -------------------------------------------------
    @staticmethod
    def _sets(case):
        """value -> (index, response event, cookie): every Set-Cookie carries a unique value"""
        m = {}
        for i, ev in enumerate(case["evs"]):
            if ev["t"] == "resp":
                for j, c in enumerate(ev["cookies"]):
                    m[c["value"]] = (i, j, ev, c)
        return m

    @staticmethod
    def _key(ev, c):
        d = last_attr(c["attrs"], "domain")
        p = last_attr(c["attrs"], "path")
        return (ev["host"] if d is None else d, ev["port"], "/" if p is None else p)

    def _justify(self, case, sets, upto, name, value, where):
        """why may the cookie (name, value) be in the jar / on a request after event `upto`?"""
        if value not in sets or sets[value][3]["name"] != name:
            return [f"{where}: cookie {name}={value} was never set"], None
        i, j, ev, c = sets[value]
        fails = []
        if i >= upto:
            fails.append(f"{where}: cookie {name}={value} is only set later (event {i})")
        dom, port, path = self._key(ev, c)
        # "A cookie whose Domain attribute does not domain-match the responding host is not stored"
        if not dm6265(ev["host"], dom):
            fails.append(f"{where}: cookie {name}={value} with domain {dom!r} was accepted from foreign host {ev['host']!r}")
        # "an expired cookie is removed from the jar"
        if rfc_expired(c["attrs"]) is True:
            fails.append(f"{where}: cookie {name}={value} was already expired when it was set")
        for i2 in range(i, upto):
            ev2 = case["evs"][i2]
            if ev2["t"] != "resp": continue
            for j2, c2 in enumerate(ev2["cookies"]):
                if not ((i2, j2) > (i, j) and rfc_expired(c2["attrs"]) is True and c2["name"] == name
                        and self._key(ev2, c2) == (dom, port, path)):
                    continue
                # RFC 6265 §5.3: a response whose host domain-matches the cookie's domain replaces / expires it.
                # A response from a host that does not domain-match is foreign and must be ignored (not demanded, by the
                # property's own second sentence).
                if not dm6265(ev2["host"], dom): continue
                same_host = ev2["host"].lower() == ev["host"].lower()
                dotted = dom.startswith(".") and plain_hostname(dom[1:]) and plain_hostname(ev2["host"])
                if same_host or dotted:
                    fails.append(f"{where}: cookie {name}={value} was expired by event {i2} and is still there")
                else:
                    # the code treats a Domain without leading dot (or with odd syntax) as exact-host: recorded as F-C54g
                    fails.append(f"{where}: cookie {name}={value} was expired by event {i2} cookie {j2} sent by another "
                                 f"host {ev2['host']!r} for domain {dom!r} [cross-host-exact-domain] and is still there")
        return fails, (dom, port, path)

    def oracle(self, case, obs):
        if "__exc__" in obs: return ["harness could not drive StickyCookie: " + obs["__exc__"]]
        if "dm" in case:
            # domain_match may only say yes when RFC 6265 §5.1.3 does
            return [f"domain_match{tuple(case['dm'])} is true, RFC 6265 §5.1.3 says no"] if obs["dm"] and not dm6265(*case["dm"]) else []
        if "pm" in case:
            return [f"path_match{tuple(case['pm'])} is true, RFC 6265 §5.1.4 says no"] if obs["pm"] and not pm6265(*case["pm"]) else []
        if "int" in case: return []
        if "hdr" in case:    # transcription tie for the tokenizer / formatter path; only a raising hook is judged here
            return [f"event {i}: the hook raised {r['raised']}" for i, r in enumerate(obs["evs"]) if "raised" in r][:3]
        sets = self._sets(case)
        fails = [f"event {i}: the {ev['t']} hook raised {r['raised']}" for i, (ev, r) in enumerate(zip(case["evs"], obs["evs"]))
                 if "raised" in r]
        if fails: return fails[:3]
        for i, (ev, r) in enumerate(zip(case["evs"], obs["evs"])):
            if ev["t"] != "req" or r["cookie"] is None: continue
            for pair in r["cookie"].split("; "):
                name, _, value = pair.partition("=")
                fs, key = self._justify(case, sets, i, name, value, f"event {i} request {ev['host']}:{ev['port']}{ev['path']}")
                fails += fs
                if key is None: continue
                dom, port, path = key
                # "only ever attached to ... requests whose host domain-matches the cookie's domain, whose port equals
                #  that of the response that set it, and whose path path-matches the cookie's path"
                if not dm6265(ev["host"], dom):
                    fails.append(f"event {i}: cookie {pair} of domain {dom!r} attached to host {ev['host']!r}")
                if ev["port"] != port:
                    fails.append(f"event {i}: cookie {pair} set on port {port} attached to port {ev['port']}")
                if not pm6265(ev["path"], path):
                    fails.append(f"event {i}: cookie {pair} of path {path!r} attached to request path {ev['path']!r}")
            if fails: break
        if not fails:
            for dom, port, path, cookies in obs["jar"]:
                if not cookies: fails.append(f"jar keeps an empty entry for {(dom, port, path)}")
                for name, value in cookies:
                    fs, key = self._justify(case, sets, len(case["evs"]), name, value, f"jar entry {(dom, port, path)}")
                    fails += fs
                    if key is not None and key != (dom, port, path):
                        fails.append(f"jar entry {(dom, port, path)} holds {name}={value} which was set for {key}")
        return fails[:3]

    _G = re.compile(r"cookie (\S+)=(\S+) was expired by event (\d+) cookie (\d+) sent by another host .* \[cross-host-exact-domain\] and is still there")

    def known(self, case, obs, failure):
        """F-C54g: an expired Set-Cookie from ANOTHER host that RFC-domain-matches the stored domain is ignored because the
        stored domain has no leading dot (or is not a plain dotted host name): the code treats such a domain as exact-host.
        Recognised from the facts of the case, not from the wording alone."""
        m = self._G.search(failure) if "evs" in case else None
        if not m: return None
        name, value, i2, j2 = m.group(1), m.group(2), int(m.group(3)), int(m.group(4))
        sets = self._sets(case)
        if value not in sets: return None
        i, j, ev, c = sets[value]
        try:
            ev2 = case["evs"][i2]; c2 = ev2["cookies"][j2]
        except (IndexError, KeyError):
            return None
        dom, port, path = self._key(ev, c)
        ok = (ev2["t"] == "resp" and (i2, j2) > (i, j) and c["name"] == name == c2["name"]
              and rfc_expired(c2["attrs"]) is True and self._key(ev2, c2) == (dom, port, path)
              and dm6265(ev2["host"], dom) and ev2["host"].lower() != ev["host"].lower()
              and not (dom.startswith(".") and plain_hostname(dom[1:]) and plain_hostname(ev2["host"])))
        return "F-C54g" if ok else None

    def setup(self, tier):
        self.known_selftest()

    def known_selftest(self):
        """doctored observations just inside / just outside every lenient branch of the oracle (independent of the tree)"""
        def resp(host, name, value, attrs): return {"t": "resp", "host": host, "port": 80, "cookies": [{"name": name, "value": value, "attrs": attrs}]}
        def obs(case, jar): return {"evs": [{"njar": 0, "expired": []} for _ in case["evs"]], "jar": jar}
        def run(case, jar): return self.oracle(case, obs(case, jar))
        E = "example.com"
        kept = lambda dom, n="sid", v="v1": [[dom, 80, "/", [[n, v]]]]
        # (a) Max-Age abstention: only where int() and the RFC grammar disagree AND the verdicts differ
        assert rfc_expired([["Max-Age", "+0"]]) is None and rfc_expired([["Max-Age", "+5"], ["Expires", PAST]]) is None
        assert rfc_expired([["Max-Age", "1_0"]]) is False and rfc_expired([["Max-Age", "+5"], ["Expires", FUTURE]]) is False
        assert rfc_expired([["Max-Age", "+0"], ["Expires", PAST]]) is True and rfc_expired([["Max-Age", "-0"]]) is True
        assert rfc_expired([["Max-Age", "abc"], ["Expires", PAST]]) is True and rfc_expired([["Max-Age", None], ["Expires", PAST]]) is True
        assert rfc_expired([["Max-Age", "0"], ["Expires", FUTURE]]) is True and rfc_expired([["Max-Age", "5"], ["Expires", PAST]]) is False
        c = {"evs": [resp(E, "sid", "v1", [["Max-Age", "+0"]])]}
        assert run(c, kept(E)) == [] and run(c, []) == [], "abstention witness"
        for attrs in ([["Max-Age", "-0"]], [["Max-Age", "+0"], ["Expires", PAST]], [["Max-Age", "0"], ["Expires", FUTURE]]):
            c = {"evs": [resp(E, "sid", "v1", attrs)]}
            assert any("already expired" in f for f in run(c, kept(E))), ("near miss: expired cookie kept must be rejected", attrs)
        c = {"evs": [resp(E, "sid", "v1", [["Max-Age", "1_0"]]), resp(E, "sid", "v2", [["Max-Age", "0"]])]}
        assert any("is still there" in f for f in run(c, kept(E))), "near miss: '1_0' is unexpired under both readings, its later expiry is demanded"
        # (b) who may expire a cookie
        c = {"evs": [resp("a." + E, "sid", "v1", [["Domain", "." + E]]), resp("sub." + E, "sid", "v2", [["Domain", "." + E], ["Max-Age", "0"]])]}
        f = run(c, kept("." + E))
        assert f and "is still there" in f[0] and self.known(c, None, f[0]) is None, "cross-host expiry of a dotted domain is demanded"
        c = {"evs": [resp(E, "sid", "v1", [["Domain", E]]), resp("sub." + E, "sid", "v2", [["Domain", E], ["Max-Age", "0"]])]}
        f = run(c, kept(E))
        assert f and self.known(c, None, f[0]) == "F-C54g", "F-C54g witness"
        c = {"evs": [resp(E, "sid", "v1", [["Domain", E]]), resp(E, "sid", "v2", [["Domain", E], ["Max-Age", "0"]])]}
        f = run(c, kept(E))
        assert f and self.known(c, None, f[0]) is None, "near miss: same host, dot-less domain"
        assert self.known(c, None, f[0] + " [cross-host-exact-domain]") is None, "wording alone does not excuse"
        c = {"evs": [resp(E, "sid", "v1", [["Domain", E]]), resp("evil.org", "sid", "v2", [["Domain", E], ["Max-Age", "0"]])]}
        assert run(c, kept(E)) == [], "a foreign response must not expire the cookie"
        c = {"evs": [resp(E, "sid", "v1", [["Domain", E]]), resp("sub." + E, "sid", "v2", [["Domain", E], ["Max-Age", "0"]]),
                     {"t": "req", "m": "GET", "host": "x" + E, "port": 80, "path": "/"}]}
        o = obs(c, kept(E)); o["evs"][2] = {"cookie": "sid=v1"}
        f = self.oracle(c, o)
        assert any("attached to host" in x and self.known(c, o, x) is None for x in f), "same input class, other clause: not excused"
        # (c) a raising hook
        c = {"evs": [resp(E, "sid", "v1", [])]}
        o = obs(c, kept(E)); o["evs"][0]["raised"] = "TypeError"
        assert any("raised" in f for f in self.oracle(c, o)), "raising hook must be rejected"
        # (e) empty Domain value: the RFC reader lets nothing but the attribute string itself match it
        assert not dm6265("example.com.", "") and not dm6265("example.com.", ".") and not dm6265("example.com", "")
        assert dm6265("", "") and dm6265(".", ".") and dm6265("sub.example.com", ".example.com") and not dm6265("1.2.3.4", ".3.4")
        assert self.oracle({"dm": ["example.com.", ""]}, {"dm": True}), "code matching an empty Domain must be rejected"
        # (d) pair cases: only 'impl says yes, RFC says no' is a failure (the property is an only-if)
        assert self.oracle({"dm": ["x." + E + ".evil.org", "." + E]}, {"dm": True}) and not self.oracle({"dm": ["sub." + E, E]}, {"dm": False})
        assert self.oracle({"pm": ["/foobar", "/foo"]}, {"pm": True}) and not self.oracle({"pm": ["/foo/bar", "/foo"]}, {"pm": False})

    # ---- the model ---------------------------------------------------------------------------
    @staticmethod
    def _header(c):
        return c["name"] + "=" + c["value"] + "".join(f"; {k}" if v is None else f"; {k}={v}" for k, v in c["attrs"])

    @staticmethod
    def _cookie_field(c):
        attrs = ";".join(hs(k) if v is None else hs(k) + "=" + hs(v) for k, v in c["attrs"]) or "_"
        ts = date_ts(c["attrs"])
        return f"{hs(c['name'])}:{hs(c['value'])}:{'n' if ts is None else ts}:{attrs}"

    def model_lines(self, case):
        if "dm" in case: return [f"dm {hs(case['dm'][0])} {hs(case['dm'][1])}"]
        if "pm" in case: return [f"pm {hs(case['pm'][0])} {hs(case['pm'][1])}"]
        if "int" in case: return [f"int {hs(case['int'])}"]
        if "hdr" in case:
            lines = ["reset"]
            for ev in case["hdr"]:
                if ev["t"] == "resp":
                    table = {}
                    for text in ev["headers"]:      # email.utils' verdict for every Expires value occurring in the texts
                        for _, _, attrs in mcookies.parse_set_cookie_header(text):
                            v = attrs["expires"] if "expires" in attrs else None
                            e = email.utils.parsedate_tz(v) if v else None
                            if e: table[v] = email.utils.mktime_tz(e)
                    lines.append(f"hresp {NOW} {hs(ev['host'])} {ev['port']} " + (",".join(hs(t) for t in ev["headers"]) or "_")
                                 + " " + (",".join(f"{hs(v)}={ts}" for v, ts in table.items()) or "_"))
                else:
                    lines.append(f"req 1 {hs(ev['host'])} {ev['port']} {hs(ev['path'])}")
            return lines + ["dump"]
        lines = ["reset"]
        for ev in case["evs"]:
            if ev["t"] == "resp":
                # the model gets the header TEXT (exactly what the real response carries) and tokenizes it itself
                # (C34.parseSetCookie); the only digested input is email.utils' verdict per Expires value
                table = {}
                for c in ev["cookies"]:
                    v = last_attr(c["attrs"], "expires")
                    ts = date_ts(c["attrs"])
                    if v and ts is not None: table[v] = ts
                lines.append(f"hresp {NOW} {hs(ev['host'])} {ev['port']} " + (",".join(hs(self._header(c)) for c in ev["cookies"]) or "_")
                             + " " + (",".join(f"{hs(v)}={ts}" for v, ts in table.items()) or "_"))
            else:
                lines.append(f"req {1 if ev['m'] == 'GET' else 0} {hs(ev['host'])} {ev['port']} {hs(ev['path'])}")
        lines.append("dump")
        return lines

    def model_obs(self, case, replies):
        if "dm" in case or "pm" in case or "int" in case: return replies[0]
        return {"evs": replies[1:-1], "jar": replies[-1]}

    def impl_view(self, case, obs):
        if "__exc__" in obs: return obs
        # for the pair cases the model also evaluates the Lean RFC spec: compare it with the oracle's RFC spec
        if "dm" in case: return f"{int(obs['dm'])} {int(dm6265(*case['dm']))}"
        if "pm" in case: return f"{int(obs['pm'])} {int(pm6265(*case['pm']))}"
        if "int" in case: return obs["int"]
        evs = []
        for r in obs["evs"]:
            if "raised" in r: evs.append("raised " + r["raised"])
            elif "parsed" in r: evs.append("parsed-differently " + json.dumps(r["parsed"]))
            elif "njar" in r: evs.append(f"ok {r['njar']} " + (",".join(map(str, r["expired"])) or "_"))
            else: evs.append("none" if r["cookie"] is None else hs(r["cookie"]))
        jar = " ".join(f"{hs(d)}:{p}:{hs(pa)}=" + (";".join(f"{hs(n)}:{'none' if v is None else hs(v)}" for n, v in cs) or "_")
                       for d, p, pa, cs in obs["jar"]) or "_"
        return {"evs": evs, "jar": jar}

    def classify(self, case, obs):
        if "__exc__" in obs: return None
        if "dm" in case: return ("dm",) + tuple(case["dm"])
        if "pm" in case: return ("pm",) + tuple(case["pm"])
        if "int" in case: return ("int", case["int"])
        if "hdr" in case: return ("hdr", hash(str(case["hdr"])))
        if not any(r.get("cookie") for r in obs["evs"]): return None
        return hash(str(case["evs"]))

    def branches(self, case, obs):
        if "__exc__" in obs: return ["impl-raised"]
        if "dm" in case: return [f"dm:{int(obs['dm'])}/rfc:{int(dm6265(*case['dm']))}"]
        if "pm" in case: return [f"pm:{int(obs['pm'])}/rfc:{int(pm6265(*case['pm']))}"]
        if "int" in case: return ["int:" + ("err" if obs["int"] == "err" else "ok")]
        if "hdr" in case:
            return sorted({"hdr"} | {"hdr:valueless-name" for _, _, _, cs in obs["jar"] for _, v in cs if v is None}
                          | {"hdr:quoted-on-request" for r in obs["evs"] if r.get("cookie") and '"' in r["cookie"]})
        out = []
        sets = self._sets(case)
        stored = {v for _, _, _, cs in obs["jar"] for _, v in cs}
        for ev in case["evs"]:
            for fld, name in (("hh", "host-header"), ("auth", "authority")):
                if ev.get(fld) is not None:
                    out.append(f"{name}:" + ("same" if ev[fld].split(":")[0].lower() == ev["host"].lower() else "other-host"))
            if ev.get("via"): out.append("server-address:other")
            if ev.get("sni"): out.append("sni:set")
            if ev.get("scheme") == "https": out.append("scheme:https")
        for ev, r in zip(case["evs"], obs["evs"]):
            if ev["t"] == "req":
                out.append("req:attached" if r["cookie"] else ("req:filter-miss" if ev["m"] != "GET" else "req:nothing"))
                if r["cookie"] and "; " in r["cookie"]: out.append("req:several-cookies")
            else:
                for c in ev["cookies"]:
                    dom = self._key(ev, c)[0]
                    if not dm6265(ev["host"], dom): out.append("set:foreign-domain-rejected")
                    elif rfc_expired(c["attrs"]) is not False: out.append("set:expired")
                    if any(v is None for _, v in c["attrs"]): out.append("set:valueless-attribute")
                    if last_attr(c["attrs"], "max-age") is not None and any(k.lower() == "expires" for k, _ in c["attrs"]):
                        out.append("set:max-age+expires")
                    else: out.append("set:stored")
        return sorted(set(out))

    def neighbours(self, case, rng):
        if "evs" not in case: return
        evs = case["evs"]
        for i in range(len(evs)):
            yield {"evs": evs[:i] + evs[i + 1:]}
        for i, ev in enumerate(evs):
            for h in HOSTS[:9]:
                yield {"evs": evs[:i] + [dict(ev, hh=h)] + evs[i + 1:]}
                yield {"evs": evs[:i] + [dict(ev, auth=h)] + evs[i + 1:]}
        for i, ev in enumerate(evs):
            if ev["t"] == "req":
                for h in HOSTS:
                    for p in RPATHS[:6]:
                        yield {"evs": evs[:i] + [dict(ev, host=h, path=p)] + evs[i + 1:]}

    def exhaustive(self, tier):
        # DESIGN §5: hosts x ports x paths around one stored cookie, for every domain/path attribute
        for host in HOSTS:
            for dom in DOMAINS[1:]:
                for cp in CPATHS[1:]:
                    attrs = ([["Domain", dom]] if dom is not None else []) + ([["Path", cp]] if cp is not None else [])
                    evs = [{"t": "resp", "host": host, "port": 80, "cookies": [{"name": "a", "value": "v1", "attrs": attrs}]}]
                    for h2 in HOSTS:
                        for rp in RPATHS:
                            evs.append({"t": "req", "m": "GET", "host": h2, "port": 80, "path": rp})
                    evs.append({"t": "req", "m": "GET", "host": host, "port": 8080, "path": "/foo"})
                    yield {"evs": evs}
