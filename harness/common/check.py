"""Base class + runner shared by every property check (DESIGN.md §2.3–2.5).

A property module `harness/cXX.py` defines `class Check(PropertyCheck)` and overrides what it needs.
Cases are JSON-serialisable dicts (bytes travel as hex strings: use hx()/unhx()).
"""
import ast, hashlib, importlib, inspect, json, os, sys, textwrap, time, traceback
from concurrent.futures import ProcessPoolExecutor
from . import lean as L
from .paths import VERIF, REPO, WORK, EVIDENCE, CORPUS, KNOWN, GUARD, LEAN
from .prng import Rng, seed_from_env


def hx(b) -> str:
    return bytes(b).hex() if b else "-"


def unhx(s: str) -> bytes:
    return b"" if s in ("-", "") else bytes.fromhex(s)


class CaseTimeout(BaseException):
    """impl() exceeded PropertyCheck.case_timeout seconds"""


def _alarm(signum, frame):
    raise CaseTimeout()


class Skip(Exception):
    """raised by impl()/model_lines() when a generated case is outside the modelled domain"""


BASE_TRUSTED = [
    "Lean 4.33.0 kernel; axioms audited per run: subset of {propext, Classical.choice, Quot.sound}",
    "Lean compiler + leanc executing the model definitions in the compiled driver as the kernel sees them",
    "hand-written Lean model of the anchored Python code, tied by the correspondence run (validated, not verified)",
    "harness: generator, canonicaliser and property oracle (Python)",
]


class PropertyCheck:
    prop = None
    design_ref = ""
    rule = ""                      # how cases are generated / what makes one distinct & non-trivial
    budget = {"quick": 2000, "thorough": 40000}        # generated cases
    time_budget = {"quick": 45, "thorough": 600}       # seconds spent on generated cases
    fingerprints = []              # "module:qualname" of every modelled Python function
    trusted_base = []              # per-property additions
    assumptions = []
    parallel = False               # evaluate impl()/oracle() in a process pool (thorough tier)
    has_model = True               # False: no driver tie (table-only / oracle-only properties)
    case_timeout = 60              # seconds per impl() call (SIGALRM); see on_timeout
    batch_model = True

    # ---- to override -------------------------------------------------------------------------
    def translate(self):
        """(T) regenerate Gen tables from /repo: {relative path under lean/: content}"""
        return {}

    def setup(self, tier):
        pass

    def generate(self, rng, tier):
        return iter(())

    def impl(self, case):
        """run the real code; return a JSON-serialisable observable"""
        raise NotImplementedError

    def oracle(self, case, obs):
        """the property stated as a predicate over the implementation's observable: list of failures"""
        return []

    def model_lines(self, case):
        """protocol lines for the Lean driver (None: this case has no model counterpart)"""
        return None

    def model_obs(self, case, replies):
        return replies

    def impl_view(self, case, obs):
        """projection of the implementation observable that is compared with model_obs"""
        return obs

    def classify(self, case, obs):
        """hashable key if the case is non-trivial (distinct keys are counted), else None"""
        return json.dumps(case, sort_keys=True)

    def branches(self, case, obs):
        return []

    def known(self, case, obs, failure):
        """id of the recorded finding this failure is an instance of, or None"""
        return None

    def neighbours(self, case, rng):
        return iter(())

    def exhaustive(self, tier):
        return iter(())

    def shrink_candidates(self, case):
        return generic_shrink(case)

    def describe(self, case, obs):
        return {"case": case, "impl": obs}

    def on_timeout(self, case):
        """impl() did not return within case_timeout: failures (a property about termination lists one here);
        [] = the runner could not drive the code (broken tie, decided by the failing-input search)"""
        return []

    # ---- helpers -----------------------------------------------------------------------------
    def corpus(self):
        d = os.path.join(CORPUS, self.prop)
        out = []
        if os.path.isdir(d):
            for fn in sorted(os.listdir(d)):
                if fn.endswith(".json"):
                    j = json.load(open(os.path.join(d, fn)))
                    out.extend(j if isinstance(j, list) else [j])
        return out


# ------------------------------------------------------------------------------------------------
def generic_shrink(case):
    """one-step reductions of a dict case: drop list elements, cut hex strings, shrink ints"""
    if not isinstance(case, dict):
        return
    for k, v in case.items():
        if isinstance(v, list) and v:
            n = len(v)
            step = n // 2
            while step >= 1:
                for i in range(0, n, step):
                    c = dict(case); c[k] = v[:i] + v[i + step:]
                    yield c
                step //= 2
            for i, e in enumerate(v):
                if isinstance(e, dict):
                    for sub in generic_shrink(e):
                        c = dict(case); c[k] = v[:i] + [sub] + v[i + 1:]
                        yield c
        elif isinstance(v, str) and k.endswith("_hex") and v not in ("", "-"):
            b = bytes.fromhex(v); n = len(b); step = max(1, n // 2)
            while step >= 1:
                for i in range(0, n, step):
                    c = dict(case); c[k] = hx(b[:i] + b[i + step:])
                    yield c
                step //= 2
        elif isinstance(v, int) and not isinstance(v, bool) and v > 0 and k.startswith("n_"):
            c = dict(case); c[k] = v // 2; yield c
        elif isinstance(v, dict):
            for sub in generic_shrink(v):
                c = dict(case); c[k] = sub; yield c


def fingerprint(spec: str):
    mod, _, qual = spec.partition(":")
    try:
        obj = importlib.import_module(mod)
        for part in qual.split("."):
            if part: obj = getattr(obj, part)
        if isinstance(obj, property): obj = obj.fget
        src = textwrap.dedent(inspect.getsource(obj))
        return hashlib.sha256(ast.dump(ast.parse(src)).encode()).hexdigest()[:16]
    except Exception as e:  # renamed / removed: that is drift too
        return "missing:" + type(e).__name__


_CHECK = None


def _eval_case(case):
    chk = _CHECK
    import signal
    try:
        signal.signal(signal.SIGALRM, _alarm); signal.setitimer(signal.ITIMER_REAL, chk.case_timeout)
        try:
            obs = chk.impl(case)
        finally:
            signal.setitimer(signal.ITIMER_REAL, 0)
    except Skip:
        return None
    except CaseTimeout:
        fails = chk.on_timeout(case)
        if fails:
            return ({"__timeout__": chk.case_timeout}, fails, None, ["impl-timeout"], None)
        return ({"__exc__": f"timeout after {chk.case_timeout}s", "tb": ""}, [], None, ["impl-timeout"], None)
    except Exception as e:   # the harness could not drive the code: a broken tie, decided by the failing-input search
        return ({"__exc__": f"{type(e).__name__}: {e}", "tb": traceback.format_exc()[-1500:]}, [], None, ["impl-raised"], None)
    fails = chk.oracle(case, obs)
    try:
        ml = chk.model_lines(case) if chk.has_model else None
    except Skip:
        ml = None
    return (obs, fails, chk.classify(case, obs), chk.branches(case, obs), ml)


def _eval_chunk(cases):
    return [_eval_case(c) for c in cases]


class Runner:
    def __init__(self, chk: PropertyCheck, tier: str, seed: int):
        self.chk, self.tier, self.seed = chk, tier, seed
        self.t0 = time.time()
        self.notes, self.lean_problems = [], []
        self.cov = {}
        self.violations = 0
        self.out_lines = []

    def say(self, s):
        print(s, flush=True)

    # ---------------- lean -----------------
    def lean_step(self):
        chk, prop = self.chk, self.chk.prop
        gen_changed = []
        self._gen_backup = {}
        try:
            tables = chk.translate() or {}
        except Exception as e:
            # the translator no longer understands the source: a broken tie (T), decided by the failing-input search
            tables = {}
            self.lean_problems.append({"kind": "translator", "what": f"Check.translate() failed: {type(e).__name__}: {e}",
                                       "tb": traceback.format_exc()[-1500:]})
        for rel, content in tables.items():
            path = os.path.join(LEAN, rel)
            old = open(path).read() if os.path.exists(path) else None
            if L.write_if_changed(path, content):
                gen_changed.append(rel)
                self._gen_backup[path] = old
        self.gen_changed = gen_changed
        ok_props, ok_exe, log = L.build(prop, want_exe=chk.has_model)
        self.build_log = log
        names = L.theorem_names(prop)
        self.cov["obligations"] = max(1, len(names))
        discharged = 0
        thm_status = {}
        if not ok_props:
            self.lean_problems.append({"kind": "proof", "what": "lake build MitmVerif.Props.%s failed" % prop,
                                       "log": log[-3000:], "gen_changed": gen_changed})
        else:
            hits = L.grep_forbidden(prop)
            if hits:
                self.lean_problems.append({"kind": "proof", "what": "forbidden construct in sources", "hits": hits})
            aud = L.audit(prop)
            for n in names:
                ok, ax = aud.get(n, (False, ["<missing>"]))
                thm_status[n] = ax
                if ok and not hits: discharged += 1
                elif not ok:
                    self.lean_problems.append({"kind": "proof", "what": f"axiom audit failed for {n}", "axioms": ax})
            if self.tier == "thorough":
                okc, outc = L.leanchecker(prop)
                self.cov["leanchecker"] = "ok" if okc else outc
                if not okc:
                    self.lean_problems.append({"kind": "proof", "what": "leanchecker rejected the compiled modules", "log": outc})
        self.cov["discharged"] = discharged
        self.cov["theorems"] = thm_status
        self.exe_ok = ok_exe
        if chk.has_model and not ok_exe:
            self.lean_problems.append({"kind": "driver", "what": "model driver does not build", "log": log[-3000:]})

    # ---------------- cases ----------------
    def eval_cases(self, cases, pool=None):
        if pool is not None and len(cases) > 64:
            n = max(1, len(cases) // 64)
            chunks = [cases[i:i + n] for i in range(0, len(cases), n)]
            res = []
            for r in pool.map(_eval_chunk, chunks): res.extend(r)
            return res
        res, bad = [], 0
        for c in cases:
            r = _eval_case(c); res.append(r)
            if r is not None and any(self.chk.known(c, r[0], f) not in self.known_db for f in r[1]):
                bad += 1
                if bad >= 3: break          # enough failing inputs: stop early (zip() below truncates)
        return res

    def run(self):
        try:
            return self._run()
        finally:
            # a run against a scratch worktree (VERIF_REPO) must not leave its regenerated tables in the shared tree
            if REPO != "/repo":
                for path, old in getattr(self, "_gen_backup", {}).items():
                    if old is not None: L.write_if_changed(path, old)

    def _run(self):
        global _CHECK
        chk = self.chk; _CHECK = chk
        rng = Rng(self.seed)
        known_db = load_known(chk.prop)
        self.known_db = known_db
        try:
            self.lean_step()
        except L.LeanInfra as e:
            self.say(f"INFRA: {e}"); return 2
        chk.setup(self.tier)

        # fingerprints
        drift = []
        fp_file = os.path.join(VERIF, "harness", "fingerprints", f"{chk.prop}.json")
        now = {s: fingerprint(s) for s in chk.fingerprints}
        if os.environ.get("VERIF_UPDATE_FINGERPRINTS"):
            os.makedirs(os.path.dirname(fp_file), exist_ok=True)
            json.dump(now, open(fp_file, "w"), indent=1, sort_keys=True)
        if os.path.exists(fp_file):
            old = json.load(open(fp_file))
            drift = sorted(s for s in now if old.get(s) != now[s])
        mult = 8 if (drift or self.lean_problems) else 1
        budget = chk.budget[self.tier] * mult
        tbudget = chk.time_budget[self.tier] * (3 if mult > 1 else 1)

        pool = None
        if chk.parallel:
            import multiprocessing as mp
            pool = ProcessPoolExecutor(max_workers=min(16, os.cpu_count() or 4), mp_context=mp.get_context("fork"))

        evaluations, keys, hist, samples = 0, set(), {}, []
        oracle_fail, mismatches, known_hit = [], [], {}
        model_queue = []  # (case, obs, lines)
        tgen0 = time.time()

        def consume(cases, origin):
            nonlocal evaluations
            res = self.eval_cases(cases, pool)
            for case, r in zip(cases, res):
                if r is None: continue
                obs, fails, key, brs, ml = r
                evaluations += 1
                if isinstance(obs, dict) and "__exc__" in obs:
                    if len(mismatches) < 5: mismatches.append((case, obs, "<implementation runner raised>"))
                    continue
                if key is not None: keys.add(key if isinstance(key, (str, int)) else json.dumps(key, sort_keys=True, default=str))
                for b in brs: hist[b] = hist.get(b, 0) + 1
                if len(samples) < 3 or (len(samples) < 6 and rng.chance(0.002)):
                    samples.append(chk.describe(case, obs))
                for f in fails:
                    kid = chk.known(case, obs, f)
                    if kid is not None and kid in known_db:
                        known_hit[kid] = known_hit.get(kid, 0) + 1
                    else:
                        oracle_fail.append((case, obs, f))
                        break
                if ml is not None:
                    model_queue.append((case, obs, ml))

        try:
            corp = chk.corpus()
            if corp: consume(corp, "corpus")
            self.cov["corpus_cases"] = len(corp)
            # known-finding witnesses are replayed every run
            stale = []
            for kid, ent in known_db.items():
                w = ent.get("witness")
                if w is None: continue
                r = _eval_case(w)
                if r is None: continue
                obs, fails = r[0], r[1]
                if not any(chk.known(w, obs, f) == kid for f in fails):
                    stale.append(kid)
            gen = chk.generate(rng, self.tier)
            batch = []
            for case in gen:
                batch.append(case)
                if len(batch) >= 256:
                    consume(batch, "gen"); batch = []
                    if evaluations >= budget or time.time() - tgen0 > tbudget: break
                    if len(oracle_fail) >= 5: break
            if batch: consume(batch, "gen")

            # model vs implementation
            compared = 0
            if chk.has_model and self.exe_ok and model_queue:
                compared, mm = self.compare(model_queue)
                mismatches.extend(mm)
            self.cov["traces_validated_against_impl"] = compared
        except L.LeanInfra as e:
            self.say(f"INFRA: {e}"); return 2
        finally:
            if pool: pool.shutdown(cancel_futures=True)

        rc = 0
        for kid, ent in known_db.items():
            self.say(f"KNOWN-FINDING: property={chk.prop} {kid}: {ent['what']}" + (f" (hit {known_hit[kid]}x this run)" if kid in known_hit else ""))
        for kid in stale:
            self.say(f"NOTE: recorded finding {kid} no longer reproduces on its witness (entry is stale)")

        # 1. direct violations of the property on the implementation
        if oracle_fail:
            case, obs, f = oracle_fail[0]
            case, obs, f = self.shrink_oracle(case, obs, f)
            path = self.write_replay("oracle", case, {"failure": f, "impl": obs})
            self.say(f"VIOLATION property={chk.prop} replay={path}")
            self.say(f"  failing input: {json.dumps(case)[:400]}")
            self.say(f"  what fails: {f}")
            self.violations += 1; rc = 1
        # 2. broken tie → failing-input search
        elif mismatches or self.lean_problems:
            found = None
            seeds = [m[0] for m in mismatches[:3]]
            if mismatches:
                case, iv, mv = mismatches[0]
                case, iv, mv = self.shrink_mismatch(case, iv, mv)
                seeds.insert(0, case)
            found = self.search(seeds, rng)
            if found:
                case, obs, f = found
                case, obs, f = self.shrink_oracle(case, obs, f)
                path = self.write_replay("oracle-after-broken-tie", case, {"failure": f, "impl": obs,
                                         "broken": self.describe_broken(mismatches)})
                self.say(f"VIOLATION property={chk.prop} replay={path}")
                self.say(f"  failing input: {json.dumps(case)[:400]}")
                self.say(f"  what fails: {f}")
            else:
                path = self.write_replay("tie-broken", mismatches[0][0] if mismatches else None,
                                         {"broken": self.describe_broken(mismatches)})
                self.say(f"VIOLATION property={chk.prop} replay={path} no-failing-input-found")
                for p in self.describe_broken(mismatches)[:3]:
                    self.say("  " + json.dumps(p)[:600])
            self.violations += 1; rc = 1

        self.cov.update({
            "evaluations": evaluations, "distinct_nontrivial": len(keys), "rule": chk.rule,
            "samples": samples[:6], "branch_histogram": dict(sorted(hist.items())),
            "fingerprint_drift": drift, "known_findings_hit": known_hit, "gen_tables_rewritten": self.gen_changed,
            "checker_cmd": f"cd lean && lake build MitmVerif.Props.{chk.prop} && lake env lean <#print axioms of every theorem in Props/{chk.prop}.lean>"
                           + (" && lake env leanchecker" if self.tier == "thorough" else ""),
            "trusted_base": BASE_TRUSTED + list(chk.trusted_base),
            "model_impl_mismatches": len(mismatches),
        })
        self.write_evidence()
        self.say(f"{chk.prop} tier={self.tier} seed={self.seed} theorems={self.cov['discharged']}/{self.cov['obligations']} "
                 f"cases={evaluations} distinct={len(keys)} model-compared={self.cov.get('traces_validated_against_impl', 0)} "
                 f"mismatch={len(mismatches)} violations={self.violations} wall={time.time() - self.t0:.1f}s")
        return rc

    def describe_broken(self, mismatches):
        out = list(self.lean_problems)
        for case, iv, mv in mismatches[:3]:
            out.append({"kind": "correspondence", "what": "model and implementation disagree", "case": case, "impl": iv, "model": mv})
        return out

    def compare(self, queue):
        chk = self.chk
        lines, spans = [], []
        for case, obs, ml in queue:
            spans.append((len(lines), len(ml))); lines.extend(ml)
        replies, err = L.run_driver(chk.prop, lines)
        mism, compared = [], 0
        for (case, obs, ml), (a, n) in zip(queue, spans):
            if a + n > len(replies):
                mism.append((case, chk.impl_view(case, obs), "<driver stopped: %s>" % err)); break
            mv = chk.model_obs(case, replies[a:a + n])
            iv = chk.impl_view(case, obs)
            compared += 1
            if json.loads(json.dumps(mv)) != json.loads(json.dumps(iv)):
                mism.append((case, iv, mv))
        return compared, mism

    def single_model(self, case):
        ml = self.chk.model_lines(case)
        if ml is None: return None
        replies, err = L.run_driver(self.chk.prop, ml)
        if err: return "<driver: %s>" % err
        return self.chk.model_obs(case, replies)

    # ---------------- shrinking & search ----------------
    def shrink_oracle(self, case, obs, f, limit=400):
        chk = self.chk
        tries, progress = 0, True
        while progress and tries < limit:
            progress = False
            for c in chk.shrink_candidates(case):
                tries += 1
                if tries >= limit: break
                r = _eval_case(c)         # guarded by case_timeout
                if r is None or (isinstance(r[0], dict) and "__exc__" in r[0]): continue
                o = r[0]
                fs = [x for x in r[1] if not (chk.known(c, o, x) in self.known_db)]
                if fs:
                    case, obs, f = c, o, fs[0]; progress = True; break
        return case, obs, f

    def shrink_mismatch(self, case, iv, mv, limit=200):
        chk = self.chk
        tries, progress = 0, True
        while progress and tries < limit:
            progress = False
            for c in chk.shrink_candidates(case):
                tries += 1
                if tries >= limit: break
                r = _eval_case(c)
                if r is None or (isinstance(r[0], dict) and ("__exc__" in r[0] or "__timeout__" in r[0])): continue
                o = r[0]
                try:
                    m = self.single_model(c)
                except Exception:
                    continue
                if m is None: continue
                v = chk.impl_view(c, o)
                if json.loads(json.dumps(m)) != json.loads(json.dumps(v)):
                    case, iv, mv = c, v, m; progress = True; break
        return case, iv, mv

    def search(self, seeds, rng):
        """DESIGN §2.4: property oracle on the implementation over (a) the disagreeing cases,
        (b) their neighbourhood, (c) the small-scope enumerator, (d) a fresh random budget."""
        chk = self.chk
        t0 = time.time(); limit = 60 if self.tier == "quick" else 900

        def test(c):
            r = _eval_case(c)
            if r is None or (isinstance(r[0], dict) and "__exc__" in r[0]): return None
            o = r[0]
            fs = [x for x in r[1] if not (chk.known(c, o, x) in self.known_db)]
            return (c, o, fs[0]) if fs else None

        def sweep(it):
            for c in it:
                if time.time() - t0 > limit: return None
                r = test(c)
                if r: return r
            return None
        for s in seeds:
            r = test(s)
            if r: return r
        for s in seeds:
            r = sweep(chk.neighbours(s, rng))
            if r: return r
        r = sweep(chk.exhaustive(self.tier))
        if r: return r
        return sweep(chk.generate(Rng(self.seed + 7919), "thorough"))

    # ---------------- output ----------------
    def write_replay(self, kind, case, extra):
        d = os.path.join(WORK, "replay"); os.makedirs(d, exist_ok=True)
        path = os.path.join(d, f"{self.chk.prop}-{self.seed}.json")
        json.dump({"property": self.chk.prop, "kind": kind, "seed": self.seed, "tier": self.tier, "case": case, **extra},
                  open(path, "w"), indent=1, default=str)
        return os.path.relpath(path, VERIF)

    def write_evidence(self):
        os.makedirs(EVIDENCE, exist_ok=True)
        ev = {
            "property_id": self.chk.prop, "tier": self.tier, "seed": self.seed, "level": "proof",
            "coverage": self.cov,
            "assumptions": list(self.chk.assumptions) + list(self.chk.trusted_base),
            "wall_s": round(time.time() - self.t0, 2), "violations": self.violations,
        }
        p = os.path.join(EVIDENCE, f"{self.chk.prop}.json")
        with open(p + ".tmp", "w") as f: json.dump(ev, f, indent=1, default=str)
        os.replace(p + ".tmp", p)


def load_known(prop):
    if not os.path.exists(KNOWN): return {}
    j = json.load(open(KNOWN))
    return {e["id"]: e for e in j.get("findings", []) if e.get("property") == prop}


def replay(chk, path):
    global _CHECK
    _CHECK = chk
    j = json.load(open(path))
    case = j.get("case")
    print("replay of", path, "kind:", j.get("kind"))
    if case is None:
        print(json.dumps(j.get("broken"), indent=1)[:4000]); return 0
    chk.setup("quick")
    obs = chk.impl(case)
    fails = chk.oracle(case, obs)
    print("case:", json.dumps(case)); print("implementation observable:", json.dumps(obs, default=str)[:3000])
    print("oracle failures:", fails)
    if chk.has_model:
        try:
            ml = chk.model_lines(case)
            if ml is not None:
                replies, err = L.run_driver(chk.prop, ml)
                print("model observable:", json.dumps(chk.model_obs(case, replies), default=str)[:3000], err or "")
        except Exception as e:
            print("model not runnable:", e)
    return 1 if fails else 0
