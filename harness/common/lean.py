"""Lean side of a check: regenerate Gen/, build under a lock, grep for escape hatches, audit axioms,
run the compiled model driver over a batch of protocol lines."""
import fcntl, glob, os, re, subprocess, time
from .paths import LEAN, WORK

ALLOWED_AXIOMS = {"propext", "Classical.choice", "Quot.sound"}
FORBIDDEN = re.compile(r"\bsorry\b|\badmit\b|^\s*axiom\s|native_decide|bv_decide|implemented_by|\bunsafe\s|maxHeartbeats\s+0\b|@\[extern", re.M)


class LeanInfra(Exception):
    """lean/lake missing, timeout: infrastructure, never a violation."""


def _strip_comments(src: str) -> str:
    # remove nested /- -/ block comments and -- line comments (string literals with "--" are rare in our files)
    out, i, depth = [], 0, 0
    while i < len(src):
        if src.startswith("/-", i):
            depth += 1; i += 2; continue
        if depth and src.startswith("-/", i):
            depth -= 1; i += 2; continue
        if depth:
            if src[i] == "\n": out.append("\n")
            i += 1; continue
        if src.startswith("--", i):
            j = src.find("\n", i)
            i = len(src) if j < 0 else j
            continue
        out.append(src[i]); i += 1
    return "".join(out)


def lean_files(prop: str):
    """All Lean sources that belong to a property (model, lemmas, props, driver, generated tables)."""
    fs = []
    for sub in ("Model", "Props", "Gen"):
        fs += glob.glob(os.path.join(LEAN, "MitmVerif", sub, f"{prop}.lean"))
        fs += glob.glob(os.path.join(LEAN, "MitmVerif", sub, f"{prop}_*.lean"))
        fs += glob.glob(os.path.join(LEAN, "MitmVerif", sub, prop, "*.lean"))
    fs += glob.glob(os.path.join(LEAN, "MitmVerif", "Lemmas", f"{prop}*.lean"))
    fs += glob.glob(os.path.join(LEAN, "MitmVerif", "Lemmas", prop, "*.lean"))
    fs += glob.glob(os.path.join(LEAN, "Driver", f"{prop}.lean"))
    return sorted(set(fs))


def transitive_sources(prop: str):
    """Property files plus every MitmVerif.* / Driver.* module they import, transitively."""
    seen, todo = set(), list(lean_files(prop))
    while todo:
        f = todo.pop()
        if f in seen or not os.path.exists(f): continue
        seen.add(f)
        for m in re.findall(r"^\s*(?:public\s+)?import\s+((?:MitmVerif|Driver)[\w.]*)", open(f).read(), re.M):
            todo.append(os.path.join(LEAN, *m.split(".")) + ".lean")
    return sorted(seen)


def grep_forbidden(prop: str):
    hits = []
    for f in transitive_sources(prop):
        src = _strip_comments(open(f).read())
        for m in FORBIDDEN.finditer(src):
            line = src.count("\n", 0, m.start()) + 1
            hits.append(f"{os.path.relpath(f, LEAN)}:{line}: {m.group(0).strip()}")
    return hits


def write_if_changed(path: str, content: str) -> bool:
    os.makedirs(os.path.dirname(path), exist_ok=True)
    if os.path.exists(path) and open(path).read() == content:
        return False
    tmp = path + ".tmp%d" % os.getpid()
    with open(tmp, "w") as f: f.write(content)
    os.replace(tmp, path)
    return True


class _Lock:
    def __enter__(self):
        self.f = open(os.path.join(WORK, "lake.lock"), "w")
        fcntl.flock(self.f, fcntl.LOCK_EX)
        return self
    def __exit__(self, *a):
        fcntl.flock(self.f, fcntl.LOCK_UN); self.f.close()


def lake(args, timeout=1800):
    try:
        with _Lock():
            r = subprocess.run(["lake"] + args, cwd=LEAN, capture_output=True, text=True, timeout=timeout)
    except FileNotFoundError as e:
        raise LeanInfra(f"lake not found: {e}")
    except subprocess.TimeoutExpired:
        raise LeanInfra("lake timed out")
    return r.returncode, r.stdout + r.stderr


def exe_name(prop: str) -> str:
    return "mv_" + prop.lower()


def build(prop: str, want_exe=True):
    """Build Props.<prop> (all theorems) and the driver exe. Returns (ok_props, ok_exe, log)."""
    log = []
    targets = []
    props_file = os.path.join(LEAN, "MitmVerif", "Props", f"{prop}.lean")
    if os.path.exists(props_file):
        targets.append(f"MitmVerif.Props.{prop}")
    rc, out = lake(["build"] + targets) if targets else (0, "")
    log.append(out)
    ok_props = rc == 0 and bool(targets)
    ok_exe = False
    if want_exe and os.path.exists(os.path.join(LEAN, "Driver", f"{prop}.lean")):
        rc2, out2 = lake(["build", exe_name(prop)])
        log.append(out2)
        ok_exe = rc2 == 0
    return ok_props, ok_exe, "\n".join(log)


def theorem_names(prop: str):
    """Every `theorem` declared in Props/<prop>.lean, fully qualified (namespace tracking is
    line-based: `namespace X` / `end X`)."""
    path = os.path.join(LEAN, "MitmVerif", "Props", f"{prop}.lean")
    if not os.path.exists(path): return []
    src = _strip_comments(open(path).read())
    ns, names = [], []
    for line in src.splitlines():
        m = re.match(r"\s*namespace\s+([\w.]+)", line)
        if m: ns.append(m.group(1)); continue
        m = re.match(r"\s*end\s+([\w.]+)\s*$", line)
        if m and ns and ns[-1] == m.group(1): ns.pop(); continue
        m = re.match(r"\s*(?:@\[[^\]]*\]\s*)?(?:protected\s+)?theorem\s+([\w.'«»]+)", line)
        if m: names.append(".".join(ns + [m.group(1)]))
    return names


def audit(prop: str):
    """#print axioms for every property theorem. Returns dict name -> (ok, axioms|error)."""
    names = theorem_names(prop)
    if not names: return {}
    d = os.path.join(WORK, "audit"); os.makedirs(d, exist_ok=True)
    f = os.path.join(d, f"Audit_{prop}_{os.getpid()}.lean")
    with open(f, "w") as fh:
        fh.write(f"import MitmVerif.Props.{prop}\n")
        for n in names: fh.write(f"#print axioms {n}\n")
    try:
        r = subprocess.run(["lake", "env", "lean", f], cwd=LEAN, capture_output=True, text=True, timeout=900)
    except subprocess.TimeoutExpired:
        raise LeanInfra("audit timed out")
    finally:
        pass
    out = r.stdout + r.stderr
    try: os.unlink(f)
    except OSError: pass
    res = {}
    text = re.sub(r"\s+", " ", out)
    for n in names:
        m = re.search(r"'" + re.escape(n) + r"' depends on axioms: \[([^\]]*)\]", text)
        if m:
            ax = {a.strip() for a in m.group(1).split(",") if a.strip()}
            res[n] = (ax <= ALLOWED_AXIOMS, sorted(ax))
        elif re.search(r"'" + re.escape(n) + r"' does not depend on any axioms", text):
            res[n] = (True, [])
        else:
            res[n] = (False, ["<not reported: " + out[-300:].replace("\n", " ") + ">"])
    return res


def leanchecker(prop: str):
    mods = [f"MitmVerif.Props.{prop}"]
    try:
        r = subprocess.run(["lake", "env", "leanchecker"] + mods, cwd=LEAN, capture_output=True, text=True, timeout=3000)
    except FileNotFoundError as e:
        raise LeanInfra(str(e))
    except subprocess.TimeoutExpired:
        raise LeanInfra("leanchecker timed out")
    return r.returncode == 0, (r.stdout + r.stderr)[-2000:]


def run_driver(prop: str, lines, timeout=1800):
    """Pipe protocol lines to the compiled driver; one reply line per request line."""
    exe = os.path.join(LEAN, ".lake", "build", "bin", exe_name(prop))
    if not os.path.exists(exe):
        raise LeanInfra(f"driver {exe} missing")
    data = "".join(l + "\n" for l in lines)
    for l in lines:
        if "\n" in l: raise ValueError("protocol line contains newline")
    try:
        r = subprocess.run([exe], input=data, capture_output=True, text=True, timeout=timeout)
    except subprocess.TimeoutExpired:
        raise LeanInfra("driver timed out")
    out = r.stdout.split("\n")
    if out and out[-1] == "": out.pop()
    if r.returncode != 0 or len(out) != len(lines):
        # the driver crashed part-way (e.g. stack overflow / panic): report how far it got
        return out, f"driver rc={r.returncode} replies={len(out)}/{len(lines)} stderr={r.stderr[-300:]}"
    return out, None
