import os
VERIF = os.path.dirname(os.path.dirname(os.path.dirname(os.path.abspath(__file__))))
REPO = os.environ.get("VERIF_REPO", "/repo")
LEAN = os.path.join(VERIF, "lean")
WORK = os.path.join(VERIF, ".work")
# evidence is only ever written for /repo itself; scratch-worktree runs (VERIF_REPO) write to .work
EVIDENCE = os.path.join(VERIF, "evidence") if REPO == "/repo" else os.path.join(WORK, "evidence-scratch")
CORPUS = os.path.join(VERIF, "corpus")
KNOWN = os.path.join(VERIF, "known_findings.json")
GUARD = "MITMPROXY_VERIF"
os.makedirs(WORK, exist_ok=True)
