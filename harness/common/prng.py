"""One PRNG per run; every random choice of a check derives from VERIF_SEED."""
import os, random

def seed_from_env(default=1):
    try:
        return int(os.environ.get("VERIF_SEED", default))
    except ValueError:
        return default

class Rng(random.Random):
    def bytes_(self, n):
        return bytes(self.getrandbits(8) for _ in range(n))
    def chance(self, p):
        return self.random() < p
    def pick(self, seq):
        return seq[self.randrange(len(seq))]
    def weighted(self, pairs):
        """pairs: [(weight, value)]"""
        tot = sum(w for w, _ in pairs); x = self.random() * tot
        for w, v in pairs:
            x -= w
            if x <= 0: return v
        return pairs[-1][1]
    def split(self, b, k=None):
        """random segmentation of a bytes object into k non-empty pieces (k random if None)"""
        if len(b) <= 1: return [b] if b else []
        if k is None: k = self.randint(1, min(6, len(b)))
        cuts = sorted(self.sample(range(1, len(b)), min(k - 1, len(b) - 1)))
        out, prev = [], 0
        for c in cuts + [len(b)]:
            out.append(b[prev:c]); prev = c
        return out
