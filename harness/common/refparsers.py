"""Independent strict reference parsers used as direct oracles (DESIGN.md §4).

HTTP/1 (RFC 9112) message-stream parser.  It shares no code with mitmproxy or h11.  It is the Python twin of
`MitmVerif.C01.Ref` in lean/MitmVerif/Model/C01.lean (the SPEC side of C01/C02); keep the two in step.

Strictness (RFC 9112 unless noted):
  * line terminator of the head: CRLF, or a bare LF (§2.2 "MAY recognize a single LF"); a bare CR anywhere in the
    head (not followed by LF) makes the element invalid (§2.2 "MUST consider that element to be invalid"), so does a
    NUL in a field value (RFC 9110 §5.5);
  * request-line  = method SP request-target SP HTTP-version   (single SP, HTTP/d.d; method and target are any
    non-empty runs without SP/HTAB/VT/FF/CR/LF: the parser is strict about *framing*, it does not judge whether the
    method is a token or the target a valid URI — a downstream recipient splits the line at SP whatever they are)
    status-line   = HTTP-version SP 3DIGIT [SP reason]          (the SP before an empty reason may be missing)
  * field-line    = token ":" OWS value OWS ; no whitespace between name and colon (§5.1);
    obs-fold (§5.2) is accepted and replaced by one SP;
  * framing §6.3: Transfer-Encoding and Content-Length together -> ambiguous; several Content-Length values that
    differ / are not 1*DIGIT -> ambiguous; transfer codings other than chunked/gzip/deflate/compress/identity
    (+x-gzip/x-compress) -> ambiguous (unknown); chunked not final / applied twice -> ambiguous; request whose final
    coding is not chunked -> ambiguous; Transfer-Encoding in an HTTP/1.0 message (§6.1), in a 1xx/204 response
    (RFC 9112 §6.1) -> ambiguous;
  * chunked body §7.1: chunk-size 1*HEXDIG, optional chunk-ext up to CRLF, CRLF after chunk data, last-chunk,
    trailer section of field lines, final CRLF — all CRLF-strict.

parse_requests(data) / parse_responses(data, methods, eof) return a `Parsed`:
    .messages : list of dict(kind, method/target/version | version/status/reason, fields [(name, value)], body,
                             framing in {"none","cl","chunked","eof"}, start, end)
    .stop     : None (stream consumed exactly) | ("incomplete", where) | ("ambiguous", cls) | ("malformed", why)
    .rest     : offset where parsing stopped
"""
import re

TOKEN = re.compile(rb"[!#$%&'*+\-.^_`|~0-9A-Za-z]+\Z")
VERSION = re.compile(rb"HTTP/[0-9]\.[0-9]\Z")
KNOWN_CODINGS = {b"chunked", b"gzip", b"x-gzip", b"deflate", b"compress", b"x-compress", b"identity"}
HEXD = b"0123456789abcdefABCDEF"


class Parsed:
    def __init__(self):
        self.messages, self.stop, self.rest, self.partial = [], None, 0, None

    def __repr__(self):
        return f"Parsed({len(self.messages)} msgs, stop={self.stop}, rest={self.rest})"


def _head_lines(data: bytes, pos: int):
    """-> (lines, end) | ("incomplete",) | ("malformed", why).  Lines end with CRLF or LF; the head ends at the first
    empty line.  A CR not followed by LF invalidates the head."""
    lines, i, n = [], pos, len(data)
    while True:
        j = data.find(b"\n", i)
        if j < 0:
            return ("incomplete",)
        line = data[i:j]
        if line.endswith(b"\r"):
            line = line[:-1]
        if b"\r" in line:
            return ("malformed", "bare-cr")
        i = j + 1
        if line == b"":
            return (lines, i)
        lines.append(line)


def _fields(lines):
    """-> list[(name, value)] | ("ambiguous"|"malformed", cls)"""
    out = []
    for ln in lines:
        if ln[:1] in (b" ", b"\t"):
            if not out:
                return ("malformed", "fold-at-start")
            name, val = out[-1]
            out[-1] = (name, (val + b" " + ln.strip(b" \t")).strip(b" \t"))   # obs-fold -> SP (§5.2), see unfold()
            continue
        k = ln.find(b":")
        if k < 0:
            return ("malformed", "no-colon")
        name = ln[:k]
        if not TOKEN.match(name):
            return ("ambiguous", "bad-field-name")
        out.append((name, ln[k + 1:].strip(b" \t")))
    if any(b"\x00" in v for _, v in out):
        return ("malformed", "nul")          # RFC 9110 §5.5
    return out


def _values(fields, name):
    return [v for k, v in fields if k.lower() == name]


def framing(fields, version: bytes, is_request: bool, status=None, req_method=None):
    """RFC 9112 §6.3.  -> ("none"|"cl"|"chunked"|"eof", n) | ("ambiguous", cls).
    For a response `req_method` is the method of the request it answers."""
    te, cl = _values(fields, b"transfer-encoding"), _values(fields, b"content-length")
    # field-level checks hold whatever the status / method is: a forwarding proxy passes the fields on
    if te and cl:
        return ("ambiguous", "cl+te")
    codings = None
    if te:
        codings = [c.strip(b" \t").lower() for v in te for c in v.split(b",")]
        if any(c == b"" or c not in KNOWN_CODINGS for c in codings):
            return ("ambiguous", "te-unknown")
        if codings.count(b"chunked") > 1 or (b"chunked" in codings and codings[-1] != b"chunked"):
            return ("ambiguous", "te-chunked-not-final")
        if version != b"HTTP/1.1":
            return ("ambiguous", "te-http10")
        if not is_request and (100 <= status <= 199 or status == 204):
            return ("ambiguous", "te-on-1xx-204")
        if is_request and codings[-1] != b"chunked":
            return ("ambiguous", "te-request-not-chunked")
    n = None
    if cl:
        items = [c.strip(b" \t") for v in cl for c in v.split(b",")]
        if any(not re.fullmatch(rb"[0-9]+", c) for c in items):
            return ("ambiguous", "cl-malformed")
        if len({int(c) for c in items}) > 1:
            return ("ambiguous", "cl-conflict")
        n = int(items[0])
    if not is_request:
        if req_method is not None and req_method.upper() == b"HEAD":
            return ("none", 0)
        if 100 <= status <= 199 or status in (204, 304):
            return ("none", 0)
        if req_method is not None and req_method.upper() == b"CONNECT" and 200 <= status <= 299:
            return ("none", 0)
    if codings is not None:
        return ("chunked", None) if codings[-1] == b"chunked" else ("eof", None)
    if n is not None:
        return ("cl", n)
    return ("none", 0) if is_request else ("eof", None)


def _chunked(data: bytes, pos: int):
    """-> (body, end) | ("incomplete",) | ("malformed", why)"""
    body, i = bytearray(), pos
    while True:
        j = data.find(b"\r\n", i)
        if j < 0:
            # an LF without CR in the size line can never become valid
            if b"\n" in data[i:]:
                return ("malformed", "chunk-size-line")
            return ("incomplete",)
        line = data[i:j]
        k = 0
        while k < len(line) and line[k] in HEXD:
            k += 1
        if k == 0:
            return ("malformed", "chunk-size")
        ext = line[k:]
        if ext and not ext.startswith(b";"):
            return ("malformed", "chunk-ext")
        if b"\n" in ext or b"\r" in ext or b"\x00" in ext:
            return ("malformed", "chunk-ext")
        size = int(line[:k], 16)
        i = j + 2
        if size == 0:
            break
        if len(data) < i + size + 2:
            # what is there must already be consistent
            if len(data) > i + size and data[i + size:i + size + 1] != b"\r":
                return ("malformed", "chunk-end")
            return ("incomplete",)
        body += data[i:i + size]
        if data[i + size:i + size + 2] != b"\r\n":
            return ("malformed", "chunk-end")
        i += size + 2
    # trailer section: field lines until an empty line, CRLF strict
    while True:
        j = data.find(b"\r\n", i)
        if j < 0:
            if b"\n" in data[i:]:
                return ("malformed", "trailer-line")
            return ("incomplete",)
        line = data[i:j]
        i = j + 2
        if line == b"":
            return (bytes(body), i)
        if b"\r" in line or b"\n" in line or b"\x00" in line:
            return ("malformed", "trailer-line")
        k = line.find(b":")
        if k < 0 or not TOKEN.match(line[:k]):
            return ("malformed", "trailer-field")


def _parse_stream(data: bytes, is_request: bool, methods=None, eof=False) -> Parsed:
    p = Parsed()
    pos, n, ri = 0, len(data), 0
    while pos < n:
        start = pos
        h = _head_lines(data, pos)
        if h[0] == "incomplete":
            p.stop = ("incomplete", "head"); break
        if h[0] == "malformed":
            p.stop = h; break
        lines, pos2 = h
        if not lines:
            # RFC 9112 §2.2: a server SHOULD ignore at least one empty line received prior to the request-line
            if is_request:
                pos = pos2; continue
            p.stop = ("malformed", "empty-start-line"); break
        first = lines[0]
        msg = {"start": start}
        if is_request:
            parts = first.split(b" ")
            if len(parts) != 3 or not parts[0] or not parts[1] or not VERSION.match(parts[2]) \
                    or any(c in b"\t\x0b\x0c" for c in parts[0] + parts[1]):
                p.stop = ("malformed", "request-line"); break
            msg.update(kind="request", method=parts[0], target=parts[1], version=parts[2])
        else:
            m = re.fullmatch(rb"(HTTP/[0-9]\.[0-9]) ([0-9]{3})(?: ([^\r\n]*))?", first)
            if not m:
                p.stop = ("malformed", "status-line"); break
            msg.update(kind="response", version=m.group(1), status=int(m.group(2)), reason=m.group(3) or b"")
        f = _fields(lines[1:])
        if isinstance(f, tuple):
            p.stop = f; break
        msg["fields"] = f
        interim, rm = False, None
        if is_request:
            fr = framing(f, msg["version"], True)
        else:
            st = msg["status"]
            interim = 100 <= st <= 199 and st != 101
            rm = methods[ri] if methods is not None and ri < len(methods) else None
            fr = framing(f, msg["version"], False, st, rm)
        if fr[0] == "ambiguous":
            p.stop = fr; break
        msg["framing"] = fr[0]
        if fr[0] in ("none",):
            body, end = b"", pos2
        elif fr[0] == "cl":
            if n - pos2 < fr[1]:
                p.partial = msg
                p.stop = ("incomplete", "body"); break
            body, end = data[pos2:pos2 + fr[1]], pos2 + fr[1]
        elif fr[0] == "chunked":
            c = _chunked(data, pos2)
            if c[0] == "incomplete":
                p.partial = msg
                p.stop = ("incomplete", "body"); break
            if c[0] == "malformed":
                p.stop = c; break
            body, end = c
        else:  # eof
            if not eof:
                p.partial = msg
                msg["body"] = data[pos2:]
                p.stop = ("incomplete", "until-eof"); break
            body, end = data[pos2:], n
        msg["body"], msg["end"], msg["interim"] = body, end, interim
        p.messages.append(msg)
        pos = end
        if not is_request and not interim:
            ri += 1
        if not is_request and (msg["status"] == 101 or (rm is not None and rm.upper() == b"CONNECT" and 200 <= msg["status"] <= 299)):
            break   # tunnel: what follows is not HTTP
    p.rest = pos if p.stop is None else start
    if p.stop is None and pos < n:
        p.stop = ("tunnel", n - pos)
    return p


def parse_requests(data: bytes) -> Parsed:
    return _parse_stream(data, True)


def parse_responses(data: bytes, methods=None, eof=False) -> Parsed:
    """`methods`: methods of the requests these responses answer, in order (None: unknown -> no HEAD/CONNECT rule).
    `eof`: the sender has closed the stream (terminates a read-until-close body)."""
    return _parse_stream(data, False, methods, eof)


def unfold(value: bytes) -> bytes:
    """canonical reading of a field value that may contain obs-fold (§5.2: each obs-fold is replaced by SP before the
    value is interpreted; surrounding OWS is not part of the value): the lines of the value, each without its
    surrounding OWS, joined by one SP, and the result without surrounding OWS."""
    out = None
    for part in re.split(rb"\r?\n", value):
        part = part.strip(b" \t")
        out = part if out is None else (out + b" " + part).strip(b" \t")
    return out
