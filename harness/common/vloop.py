"""Virtual-time asyncio loop (DESIGN.md §4).

VLoop is a SelectorEventLoop whose clock only moves when the harness says so:
  advance(d)  clock += d (+ one EPS of skew so that "later" is strictly later, as on a real clock)
  pump()      run callbacks until nothing is ready and no timer is due (time frozen)
  run_free(until) pump; when idle jump to the next timer; stop at quiescence or at `until`
Ready callbacks stay FIFO — we never permute them (that would create schedules CPython cannot produce).
`time.time` is patched to the loop clock inside `installed()` so code that mixes time.time() and loop timers
(e.g. TimeoutWatchdog) sees one clock.
"""
import asyncio, contextlib, heapq, time
from asyncio import events

EPS = 2.0 ** -20


class VLoop(asyncio.SelectorEventLoop):
    def __init__(self, start=1000.0):
        super().__init__()
        self._vt = float(start)
        self._start = float(start)

    def time(self):
        return self._vt

    def ticks(self):
        """integer ticks since start (the EPS skew is dropped)"""
        return int(self._vt - self._start)

    def advance(self, d):
        self._vt += d + EPS

    def _purge(self):
        while self._scheduled and self._scheduled[0]._cancelled:
            h = heapq.heappop(self._scheduled)
            h._scheduled = False
            self._timer_cancelled_count = max(0, self._timer_cancelled_count - 1)

    def _due(self):
        self._purge()
        return bool(self._ready) or bool(self._scheduled and self._scheduled[0]._when <= self._vt)

    def pump(self, max_iter=100000):
        old = events._get_running_loop()
        events._set_running_loop(self)
        try:
            n = 0
            while self._due():
                n += 1
                if n > max_iter:
                    raise RuntimeError("vloop: livelock (callbacks keep rescheduling at a frozen instant)")
                self._run_once()
        finally:
            events._set_running_loop(old)

    def next_timer(self):
        self._purge()
        return self._scheduled[0]._when if self._scheduled else None

    def run_free(self, until=None, max_jumps=100000):
        """pump; jump to the next timer; repeat until quiescent (no timers) or the clock passes `until`"""
        for _ in range(max_jumps):
            self.pump()
            nt = self.next_timer()
            if nt is None: return
            if until is not None and nt > until:
                if self._vt < until: self._vt = until
                return
            if nt > self._vt:
                self._vt = nt + EPS
        raise RuntimeError("vloop: too many timer jumps")


@contextlib.contextmanager
def installed(start=1000.0):
    loop = VLoop(start)
    old_time = time.time
    time.time = loop.time
    asyncio.set_event_loop(loop)
    try:
        yield loop
    finally:
        time.time = old_time
        try:
            # cancel leftovers quietly
            for t in asyncio.all_tasks(loop):
                t.cancel()
            loop.pump()
        except Exception:
            pass
        asyncio.set_event_loop(None)
        loop.close()
