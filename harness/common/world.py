"""Sans-io world: a queue-based stand-in for proxy/server.py's command interpreter (DESIGN.md §4).

It keeps Connection.state exactly as ConnectionHandler.server_event / close_connection /
handle_connection / open_connection do, answers OpenConnection and hooks according to a policy,
and records every command.  Strictly queue-based: all commands of one handle_event call are consumed
before any resulting event (hook completion, connect result, closed-by-command) is delivered —
this is what the asyncio server does (each completion is a separate task → separate server_event).
"""
from collections import deque

from mitmproxy import connection, options
from mitmproxy.connection import ConnectionState
from mitmproxy.proxy import commands, context, events, layer, server_hooks


def make_context(transport="tcp", opts=None, peername=("192.0.2.1", 51234), sockname=("127.0.0.1", 8080), **optkw):
    if opts is None:
        from mitmproxy.addons.proxyserver import Proxyserver
        from mitmproxy.addons.core import Core
        opts = options.Options()
        Proxyserver().load(opts)
        try:
            from mitmproxy.addons.next_layer import NextLayer  # noqa: F401  (options owned elsewhere are added lazily by callers)
        except Exception:
            pass
    for k, v in optkw.items():
        setattr(opts, k, v)
    client = connection.Client(peername=peername, sockname=sockname, timestamp_start=1605699329,
                               state=ConnectionState.OPEN, transport_protocol=transport)
    return context.Context(client, opts)


class World:
    """
    on_hook(world, hook_cmd) -> None (complete now, in FIFO order) | "defer" (complete later via world.resume)
    on_connect(world, open_cmd) -> None (success) | str (error message) | "defer"
    """

    def __init__(self, top_layer, ctx, on_hook=None, on_connect=None, server_hooks_enabled=True, max_steps=20000):
        self.layer, self.ctx = top_layer, ctx
        self.on_hook = on_hook or (lambda w, h: None)
        self.on_connect = on_connect or (lambda w, c: None)
        self.queue = deque()
        self.transports = {ctx.client}
        self.labels = {id(ctx.client): "client"}
        self.conns = {"client": ctx.client}
        self.sent = {}            # label -> bytearray
        self.sent_log = []        # (label, bytes) in emission order
        self.trace = []           # everything observable, in order: ("hook", name, data) | ("send", label, bytes) | ("close", label, half) | ("open", label) | ("log", level, msg)
        self.hooks = []           # (name, hook_cmd)
        self.deferred_hooks, self.deferred_connects = [], []
        self.wakeups = []
        self.open_cmds = []
        self.errors = []          # exceptions raised by the layer (the real server logs "mitmproxy has crashed!")
        self.steps, self.max_steps = 0, max_steps
        self.server_hooks_enabled = server_hooks_enabled
        self.started = False
        self.torn_down = False
        self._source, self._post = None, []
        self.zombies = set()      # connections whose connect failed: in server.py's `transports` until the open_connection task has ended

    # ---- labels -------------------------------------------------------------------------------
    def label(self, conn):
        k = id(conn)
        if k not in self.labels:
            n = sum(1 for v in self.labels.values() if v.startswith("server"))
            self.labels[k] = f"server{n}"
            self.conns[self.labels[k]] = conn
        return self.labels[k]

    def add_open_server(self, conn):
        """register a server connection that is already open before the layer starts"""
        conn.state = ConnectionState.OPEN
        self.transports.add(conn); self.label(conn)
        return conn

    # ---- event delivery -----------------------------------------------------------------------
    def start(self):
        self.started = True
        self.deliver(events.Start())

    def deliver(self, event):
        self.queue.append(("event", event))
        self.drain()

    def drain(self):
        while self.queue:
            self.steps += 1
            if self.steps > self.max_steps:
                raise RuntimeError("world: step limit exceeded (livelock?)")
            kind, x = self.queue.popleft()
            if kind == "event":
                self._handle(x)
            elif kind == "hook":
                self.hooks.append((x.name, x))
                self.trace.append(("hook", x.name, x))
                r = self.on_hook(self, x)
                if r == "defer":
                    self.deferred_hooks.append(x)
                else:
                    self._handle(events.HookCompleted(x))
            elif kind == "open":
                self._open(x)
            elif kind == "closed_by_command":
                # handle_connection: handler cancelled → state CLOSED → ConnectionClosed event → transport popped
                self._handle(events.ConnectionClosed(x))
                self._discard(x)
            elif kind == "closed_quietly":
                self._discard(x)
            elif kind == "call":
                x()
        if self.ctx.client not in self.transports and not self.torn_down:
            self.teardown()

    def _discard(self, conn):
        """a connection handler task ends: transport popped; server_disconnected fires for servers"""
        if conn not in self.transports: return
        self.transports.discard(conn)
        if conn is not self.ctx.client:
            data = server_hooks.ServerConnectionHookData(client=self.ctx.client, server=conn)
            self._server_hook(server_hooks.ServerDisconnectedHook(data))

    def teardown(self):
        """handle_client after the client handler finished: cancel every remaining server handler
        (each delivers ConnectionClosed to the layer, then server_disconnected)"""
        self.torn_down = True
        self.trace.append(("client_disconnected",))
        for conn in [c for c in list(self.transports)]:
            conn.state = ConnectionState.CLOSED
            self._handle(events.ConnectionClosed(conn))
            self._discard(conn)
        self.drain()

    def _handle(self, event):
        # which connection's handler task is delivering this event (server.py: the task that awaits server_event)
        if isinstance(event, (events.DataReceived, events.ConnectionClosed)):
            self._source = event.connection
        elif isinstance(event, events.OpenConnectionCompleted):
            self._source = event.command.connection
        else:
            self._source = None
        self._post = []
        try:
            # lazily, like `for command in layer_commands:` in server_event — an exception (from the layer or from
            # one of server.py's own assertions) abandons the rest of the batch: "mitmproxy has crashed!"
            for c in self.layer.handle_event(event):
                self._command(c)
        except Exception as e:
            import traceback
            self.errors.append((type(e).__name__, str(e), traceback.format_exc()))
        # a handler cancelled from within its own server_event notices it at its next suspension, i.e. after
        # every task created during this server_event has been queued
        self.queue.extend(self._post)
        self._post = []
        self._source = None

    def _command(self, c):
        if isinstance(c, commands.OpenConnection):
            # server.py: `assert command.connection not in self.transports`; a connection whose connect attempt failed
            # stays in `transports` (zombie entry without reader/writer) until its task has ended, i.e. while the
            # layer handles the OpenConnectionCompleted event
            assert c.connection not in self.transports and c.connection not in self.zombies, \
                "server.py: OpenConnection for a connection that is still in transports"
            self.label(c.connection)
            self.open_cmds.append(c)
            self.trace.append(("open", self.label(c.connection)))
            self.queue.append(("open", c))
        elif isinstance(c, commands.RequestWakeup):
            self.wakeups.append(c)
        elif isinstance(c, commands.ConnectionCommand) and c.connection in self.zombies:
            if isinstance(c, commands.SendData):
                raise AssertionError("server.py: SendData to a transports entry without writer (failed connect)")
            self.trace.append(("ignored", type(c).__name__, self.label(c.connection)))
        elif isinstance(c, commands.ConnectionCommand) and c.connection not in self.transports:
            self.trace.append(("ignored", type(c).__name__, self.label(c.connection)))
        elif isinstance(c, commands.SendData):
            lab = self.label(c.connection)
            self.sent.setdefault(lab, bytearray()).extend(c.data)
            self.sent_log.append((lab, bytes(c.data)))
            self.trace.append(("send", lab, bytes(c.data)))
        elif isinstance(c, commands.CloseTcpConnection):
            self._close(c.connection, c.half_close)
        elif isinstance(c, commands.CloseConnection):
            self._close(c.connection, False)
        elif isinstance(c, commands.StartHook):
            # server.py creates one task per hook; it runs (FIFO) after the current server_event returned.
            # The hook is recorded when it is *executed* (see drain), as an addon would observe it.
            self.queue.append(("hook", c))
        elif isinstance(c, commands.Log):
            self.trace.append(("log", c.level, c.message))
        else:
            # protocol-specific commands (QUIC etc.) are recorded for the property check to interpret
            self.trace.append(("cmd", type(c).__name__, c))

    def _close(self, conn, half_close):
        lab = self.label(conn)
        had_read = bool(conn.state & ConnectionState.CAN_READ)
        if half_close:
            if not conn.state & ConnectionState.CAN_WRITE:
                return
            conn.state &= ~ConnectionState.CAN_WRITE
            self.trace.append(("close", lab, True))
        else:
            conn.state = ConnectionState.CLOSED
            self.trace.append(("close", lab, False))
        if conn.state is ConnectionState.CLOSED:
            # handler.cancel("closed by command"): a handler still in its read loop delivers ConnectionClosed
            # before it exits; one that already saw the peer's EOF (waiting for our close) just exits.
            entry = ("closed_by_command" if had_read else "closed_quietly", conn)
            (self._post if conn is self._source else self.queue).append(entry)

    def _server_hook(self, hook):
        self.hooks.append((hook.name, hook))
        self.trace.append(("hook", hook.name, hook))
        if self.server_hooks_enabled:
            self.on_hook(self, hook)

    def _open(self, cmd):
        conn = cmd.connection
        if not conn.address:
            self.zombies.add(conn)
            self._handle(events.OpenConnectionCompleted(cmd, "Cannot open connection, no hostname given."))
            self.zombies.discard(conn)      # server.py release_transport: the entry goes when the task has ended
            return
        data = server_hooks.ServerConnectionHookData(client=self.ctx.client, server=conn)
        self._server_hook(server_hooks.ServerConnectHook(data))
        if conn.error:
            self.zombies.add(conn)
            self._server_hook(server_hooks.ServerConnectErrorHook(data))
            self._handle(events.OpenConnectionCompleted(cmd, f"Connection killed: {conn.error}"))
            self.zombies.discard(conn)
            return
        r = self.on_connect(self, cmd)
        if r == "defer":
            self.deferred_connects.append(cmd); return
        self.finish_connect(cmd, r)

    def finish_connect(self, cmd, err):
        conn = cmd.connection
        data = server_hooks.ServerConnectionHookData(client=self.ctx.client, server=conn)
        if cmd in self.deferred_connects: self.deferred_connects.remove(cmd)
        if err:
            conn.error = err
            self.zombies.add(conn)
            self._server_hook(server_hooks.ServerConnectErrorHook(data))
            self._handle(events.OpenConnectionCompleted(cmd, err))
            self.zombies.discard(conn)
        else:
            conn.timestamp_start = 1.0
            if conn.transport_protocol == "tcp": conn.timestamp_tcp_setup = 1.0
            conn.state = ConnectionState.OPEN
            conn.peername = conn.peername or (conn.address[0], conn.address[1])
            conn.sockname = conn.sockname or ("127.0.0.1", 50000)
            self.transports.add(conn)
            self._server_hook(server_hooks.ServerConnectedHook(data))
            self._handle(events.OpenConnectionCompleted(cmd, None))
        self.drain()

    # ---- environment actions ------------------------------------------------------------------
    def resume(self, hook_cmd):
        self.deferred_hooks.remove(hook_cmd)
        self.deliver(events.HookCompleted(hook_cmd))

    def recv(self, conn_or_label, data: bytes):
        conn = self.conns[conn_or_label] if isinstance(conn_or_label, str) else conn_or_label
        if conn not in self.transports or not (conn.state & ConnectionState.CAN_READ):
            return False
        self.deliver(events.DataReceived(conn, data))
        return True

    def peer_close(self, conn_or_label):
        """the peer sends FIN (TCP) / the datagram association ends"""
        conn = self.conns[conn_or_label] if isinstance(conn_or_label, str) else conn_or_label
        if conn not in self.transports or not (conn.state & ConnectionState.CAN_READ):
            return False
        if conn.transport_protocol == "tcp":
            conn.state &= ~ConnectionState.CAN_READ
        else:
            conn.state = ConnectionState.CLOSED
        # handle_connection: `await server_event(ConnectionClosed)`; if nothing can be written any more the
        # handler task ends right away (server_disconnected fires before the hook tasks created by that event run)
        self._handle(events.ConnectionClosed(conn))
        if conn.state is not ConnectionState.CAN_WRITE:
            self._discard(conn)
        self.drain()
        return True

    def wakeup(self, i=0):
        cmd = self.wakeups.pop(i)
        self.deliver(events.Wakeup(cmd))

    def inject(self, event):
        self.deliver(event)

    # ---- observation --------------------------------------------------------------------------
    def sent_to(self, label) -> bytes:
        return bytes(self.sent.get(label, b""))

    def hook_names(self):
        return [n for n, _ in self.hooks]

    def server_labels(self):
        return [l for l in self.conns if l.startswith("server")]
