#!/venv/bin/python
"""./check Cxx [--tier quick|thorough] [--seed N] [--replay FILE]"""
import argparse, importlib, os, sys, time
HERE = os.path.dirname(os.path.abspath(__file__))
sys.path.insert(0, HERE)
from common.paths import REPO, GUARD

def main():
    ap = argparse.ArgumentParser()
    ap.add_argument("prop")
    ap.add_argument("--tier", default=os.environ.get("VERIF_TIER") or "quick", choices=["quick", "thorough"])
    ap.add_argument("--seed", type=int, default=None)
    ap.add_argument("--replay")
    a = ap.parse_args()
    os.environ[GUARD] = "1"
    os.environ.setdefault("PYTHONHASHSEED", "0")
    sys.path.insert(0, REPO)   # `test.*` helpers of the repo
    os.chdir(REPO)
    import mitmproxy
    if not os.path.realpath(mitmproxy.__file__).startswith(os.path.realpath(REPO) + os.sep):
        print(f"INFRA: mitmproxy imported from {mitmproxy.__file__}, not from {REPO}"); return 2
    from common import check as C
    from common.prng import seed_from_env
    seed = a.seed if a.seed is not None else seed_from_env(1)
    try:
        mod = importlib.import_module(a.prop.lower())
    except ModuleNotFoundError as e:
        if e.name == a.prop.lower():
            print(f"INFRA: no check module for {a.prop}: {e}"); return 2
        raise
    chk = mod.Check()
    if a.replay:
        p = a.replay if os.path.isabs(a.replay) else os.path.join(os.path.dirname(HERE), a.replay)
        return C.replay(chk, p)
    try:
        return C.Runner(chk, a.tier, seed).run()
    except C.L.LeanInfra as e:
        print("INFRA:", e); return 2
    except Exception:
        import traceback
        traceback.print_exc()
        print("INFRA: the check itself crashed (harness error, not a verdict)"); return 2

if __name__ == "__main__":
    sys.exit(main())
