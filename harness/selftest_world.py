#!/venv/bin/python
"""Validates harness/common/world.py against the REAL asyncio server (proxy/server.py ConnectionHandler) so that the
sans-io world the property checks rely on cannot drift from server.py (DESIGN.md §4).

The same environment script (client/server bytes, peer closes, connect failures, hook actions) is run
  (a) through World + the layer stack, and
  (b) through SimpleConnectionHandler.handle_client() on a virtual-time loop with in-memory streams and a patched
      asyncio.open_connection,
and the observable traces are compared: hook names in order, bytes written per connection, close / half-close per
connection in order.   usage: selftest_world.py [n_random_scripts] [seed]      exit 0 = equal on every script
"""
import asyncio, os, random, sys
HERE = os.path.dirname(os.path.abspath(__file__))
sys.path.insert(0, HERE)
REPO = os.environ.get("VERIF_REPO", "/repo")
sys.path.insert(0, REPO); os.chdir(REPO)

from common.vloop import installed
from common.world import World, make_context
from mitmproxy import options as moptions, http
from mitmproxy.proxy import server, mode_specs, layer, layers
from mitmproxy.proxy.layers.http import HTTPMode


class MemWriter:
    def __init__(self, label, trace, peer, sock):
        self.label, self.trace, self.peer, self.sock = label, trace, peer, sock
        self.closing = False
    def get_extra_info(self, name, default=None):
        return {"peername": self.peer, "sockname": self.sock}.get(name, default)
    def write(self, data): self.trace.append(("send", self.label, bytes(data)))
    def is_closing(self): return self.closing
    def close(self):
        if not self.closing: self.trace.append(("wclose", self.label))
        self.closing = True
    def write_eof(self): self.trace.append(("close", self.label, True))
    async def drain(self): pass
    async def wait_closed(self): pass


def make_opts():
    from mitmproxy.addons.proxyserver import Proxyserver
    o = moptions.Options(); Proxyserver().load(o)
    return o


def stack_for(kind):
    if kind == "http":
        return [lambda ctx: layers.HttpLayer(ctx, HTTPMode.regular)]
    if kind == "tcp":
        return [lambda ctx: _tcp(ctx)]
    raise ValueError(kind)


def _tcp(ctx):
    ctx.server.address = ("upstream.test", 9)
    return layers.TCPLayer(ctx)


def policy(script):
    """hook policy shared by both runs (pure function of the hook name and the script's options)"""
    def on(name, data):
        if name == "request" and script.get("respond_in_request"):
            data.response = http.Response.make(418, b"teapot")
        if name == "requestheaders" and script.get("kill_in_requestheaders"):
            data.kill()
    return on


# ---- (a) world ---------------------------------------------------------------------------------------
def run_world(script):
    ctx = make_context(opts=make_opts())
    st = stack_for(script["stack"])
    top = layer.NextLayer(ctx, ask_on_start=True)
    pol = policy(script)
    fails = list(script.get("connect_fail", []))
    nconn = [0]

    def on_hook(w, h):
        if h.name == "next_layer":
            (nl,) = h.args()
            if st: nl.layer = st.pop(0)(nl.context)
        else:
            pol(h.name, h.args()[0])

    def on_connect(w, cmd):
        i = nconn[0]; nconn[0] += 1
        return "refused" if i in fails else None

    w = World(top, ctx, on_hook=on_hook, on_connect=on_connect)
    w.start()
    for step in script["steps"]:
        if w.torn_down: break
        if step[0] == "data":
            w.recv(step[1], bytes.fromhex(step[2])) if step[1] in w.conns else None
        elif step[0] == "close":
            w.peer_close(step[1]) if step[1] in w.conns else None
    if not w.torn_down and w.ctx.client in w.transports:
        w.peer_close("client")
        if not w.torn_down and w.ctx.client in w.transports:      # half-open: the layer keeps writing → force end
            pass
    out = []
    for t in w.trace:
        if t[0] == "hook": out.append(("hook", t[1]))
        elif t[0] == "send": out.append(("send", t[1], t[2]))
        elif t[0] == "close": out.append(("close", t[1], t[2]))
    return out


# ---- (b) the real server -----------------------------------------------------------------------------
def run_real(script):
    with installed() as loop:
        trace = []
        opts = make_opts()
        st = stack_for(script["stack"])
        pol = policy(script)
        servers = {}      # label -> (reader, writer)
        fails = list(script.get("connect_fail", []))
        nconn = [0]

        def mk(name):
            def h(data):
                trace.append(("hook", name))
                if name == "next_layer":
                    if st: data.layer = st.pop(0)(data.context)
                else:
                    pol(name, data)
            return h
        class AllHooks(dict):
            def __contains__(self, k): return True
            def __getitem__(self, k): return mk(k)
        handlers = AllHooks()

        async def fake_open(host, port, local_addr=None, **kw):
            i = nconn[0]; nconn[0] += 1
            if i in fails: raise OSError("refused")
            lab = f"server{i}"
            r = asyncio.StreamReader()
            wtr = MemWriter(lab, trace, (host, port), ("127.0.0.1", 50000))
            servers[lab] = (r, wtr)
            return r, wtr
        orig = asyncio.open_connection
        asyncio.open_connection = fake_open
        try:
            creader = asyncio.StreamReader()
            cwriter = MemWriter("client", trace, ("192.0.2.1", 51234), ("127.0.0.1", 8080))
            h = server.SimpleConnectionHandler(creader, cwriter, opts, mode_specs.ProxyMode.parse("regular"), handlers)
            task = loop.create_task(h.handle_client()); loop.pump()
            readers = {"client": creader}
            for step in script["steps"]:
                if task.done(): break
                lab = step[1]
                r = creader if lab == "client" else (servers.get(lab) or (None,))[0]
                if r is None or r.at_eof(): continue
                w = cwriter if lab == "client" else servers[lab][1]
                if w.closing: continue
                if step[0] == "data": r.feed_data(bytes.fromhex(step[2]))
                elif step[0] == "close": r.feed_eof()
                loop.pump()
            if not task.done() and not creader.at_eof() and not cwriter.closing:
                creader.feed_eof(); loop.pump()
            if not task.done():
                task.cancel(); loop.pump()
        finally:
            asyncio.open_connection = orig
        return [t for t in trace if t[0] in ("hook", "send", "close")]


SERVER_SIDE = {"client_connected", "client_disconnected"}


def canon(tr):
    """hooks fired by handle_client itself (client_connected/-disconnected) are outside the world; writer.close() is not a
    layer-visible event. Consecutive sends to one connection are merged."""
    out = []
    for t in tr:
        if t[0] == "hook" and t[1] in SERVER_SIDE: continue
        if t[0] == "send" and out and out[-1][0] == "send" and out[-1][1] == t[1]:
            out[-1] = ("send", t[1], out[-1][2] + t[2]); continue
        out.append(t)
    # full closes are observable in the real run only as writer.close(); compare half-closes and everything else
    return [t for t in out if not (t[0] == "close" and t[2] is False)]


REQS = [b"GET http://example.com/a HTTP/1.1\r\nHost: example.com\r\n\r\n",
        b"POST http://example.com/p HTTP/1.1\r\nHost: example.com\r\nContent-Length: 3\r\n\r\nabc",
        b"GET http://other.test:81/ HTTP/1.1\r\nHost: other.test:81\r\n\r\n",
        b"GET / HTTP/1.1\r\n\r\n", b"BROKEN\r\n\r\n",
        b"CONNECT example.com:80 HTTP/1.1\r\nHost: example.com:80\r\n\r\n"]
RESPS = [b"HTTP/1.1 200 OK\r\nContent-Length: 2\r\n\r\nhi", b"HTTP/1.1 204 No Content\r\n\r\n",
         b"HTTP/1.1 200 OK\r\n\r\nuntil-eof", b"HTTP/1.1 200 OK\r\nTransfer-Encoding: chunked\r\n\r\n2\r\nhi\r\n0\r\n\r\n", b"garbage\r\n\r\n"]


def gen_script(rng):
    stack = rng.choice(["http", "http", "http", "tcp"])
    steps = []
    for _ in range(rng.randint(1, 7)):
        r = rng.random()
        if stack == "http":
            if r < 0.4:
                d = rng.choice(REQS)
                if rng.random() < 0.3:
                    k = rng.randint(1, len(d) - 1); steps.append(["data", "client", d[:k].hex()]); d = d[k:]
                steps.append(["data", "client", d.hex()])
            elif r < 0.75: steps.append(["data", rng.choice(["server0", "server0", "server1"]), rng.choice(RESPS).hex()])
            elif r < 0.9: steps.append(["close", rng.choice(["server0", "server1", "client"])])
            else: steps.append(["close", "client"])
        else:
            if r < 0.4: steps.append(["data", "client", os.urandom(0).hex() or rng.choice([b"abc", b"x" * 10]).hex()])
            elif r < 0.75: steps.append(["data", "server0", rng.choice([b"srv", b"yy"]).hex()])
            else: steps.append(["close", rng.choice(["client", "server0"])])
    s = {"stack": stack, "steps": steps}
    if rng.random() < 0.15: s["connect_fail"] = [rng.randint(0, 1)]
    if rng.random() < 0.1: s["respond_in_request"] = True
    if rng.random() < 0.1: s["kill_in_requestheaders"] = True
    return s


def main():
    n = int(sys.argv[1]) if len(sys.argv) > 1 else 300
    rng = random.Random(int(sys.argv[2]) if len(sys.argv) > 2 else 1)
    bad = 0
    for i in range(n):
        s = gen_script(rng)
        a, b = canon(run_world(s)), canon(run_real(s))
        if a != b:
            bad += 1
            print("DIFF on script", s)
            for j, (x, y) in enumerate(zip(a + [None] * len(b), b + [None] * len(a))):
                if x != y:
                    print("  first difference at", j, "\n   world:", x, "\n   real :", y); break
            if bad >= 5: break
    print(f"selftest_world: {n} scripts, {bad} differing")
    return 1 if bad else 0


if __name__ == "__main__":
    sys.exit(main())
