import MitmVerif.Model.C01
import MitmVerif.Model.C02
import Driver.Proto
open MitmVerif Driver MitmVerif.C01

namespace C01Driver

def showFields (fs : List Field) : String :=
  if fs.isEmpty then "-" else ",".intercalate (fs.map fun f => showBytes f.1 ++ ":" ++ showBytes f.2)

def showSize : Option BodySize → String
  | none => "err"
  | some (.len n) => toString n
  | some .chunked => "chunked"
  | some .untilEof => "eof"

def showErr : Ref.Err → String
  | .incomplete => "incomplete"
  | .malformed => "malformed"
  | .ambiguous c => "ambiguous:" ++ toString c

def showFraming : Ref.Framing → String
  | .none => "none" | .cl n => "cl" ++ toString n | .chunked => "chunked" | .eof => "eof"

def showMsg (m : Ref.Msg) : String :=
  showBytes m.a ++ "/" ++ showBytes m.b ++ "/" ++ showBytes m.c ++ "/" ++ showFields m.fields ++ "/" ++
  showBytes m.body ++ "/" ++ showFraming m.framing

/-- the authorities the correspondence uses: host = 1*(ALPHA / DIGIT / "." / "-"), optional ":" port 1..65535;
    scheme http/https (default port) or none (CONNECT: port required).  Stands for url.parse_authority/url.parse. -/
def simpleAuthOk (scheme authority : Bytes) : Bool :=
  let host := authority.takeWhile (· ≠ 58)
  let port := (authority.dropWhile (· ≠ 58)).drop 1
  let hasPort := authority.contains 58
  (!host.isEmpty && host.all (fun c => isAlpha c || isDigit c || c = 46 || c = 45)) &&
  (if hasPort then (!port.isEmpty && port.all isDigit && port.length ≤ 5 && 1 ≤ natOfDigits port && natOfDigits port ≤ 65535)
   else (scheme = sHttp || scheme = sHttps))

def step (line : String) : String :=
  match fields line with
  | ["reqhead", h] =>
    match hexOr h with
    | none => "bad-op"
    | some buf =>
      match extractLines buf with
      | .more => "more"
      | .blank rest => "blank " ++ showBytes rest
      | .lines ls rest =>
        match readRequestHead simpleAuthOk ls with
        | none => "err " ++ showBytes rest
        | some r =>
          "ok " ++ showBytes r.method ++ " " ++ showBytes r.scheme ++ " " ++ showBytes r.authority ++ " " ++
          showBytes r.path ++ " " ++ showBytes r.version ++ " " ++ showFields r.fields ++ " " ++
          (if validateHeaders .request r.version [] r.fields then "valid" else "invalid") ++ " " ++
          showSize (requestBodySize r) ++ " " ++ (if connectionClose r.version r.fields then "close" else "keep") ++ " " ++
          showBytes rest
  | ["resphead", m, h] =>
    match hexOr m, hexOr h with
    | some meth, some buf =>
      match extractLines buf with
      | .more => "more"
      | .blank rest => "blank " ++ showBytes rest
      | .lines ls rest =>
        match readResponseHead ls with
        | none => "err " ++ showBytes rest
        | some r =>
          "ok " ++ showBytes r.version ++ " " ++ toString r.status ++ " " ++ showBytes r.reason ++ " " ++
          showFields r.fields ++ " " ++
          (if validateHeaders (.response r.status) r.version r.reason r.fields then "valid" else "invalid") ++ " " ++
          showSize (responseBodySize meth r) ++ " " ++ (if connectionClose r.version r.fields then "close" else "keep") ++ " " ++
          showBytes rest
    | _, _ => "bad-op"
  | ["te", h] =>
    match hexOr h with
    | some v => (match parseTE v with | some (.chunkedFinal, t) => "chunked " ++ showBytes t | some (.other, t) => "other " ++ showBytes t | none => "err")
    | none => "bad-op"
  | ["cl", h] =>
    match hexOr h with
    | some v => (match parseCL v with | some n => toString n | none => "err")
    | none => "bad-op"
  | ["fwdreq", h, b] =>
    -- head bytes (as the client sent them) + the body the proxy buffered → what is written upstream
    match hexOr h, hexOr b with
    | some buf, some body =>
      (match extractLines buf with
       | .lines ls _ => (match readRequestHead simpleAuthOk ls with
                         | some r => if validateHeaders .request r.version [] r.fields then showBytes (forwardRequest r body) else "invalid"
                         | none => "err")
       | _ => "err")
    | _, _ => "bad-op"
  | ["fwdresp", m, h, b] =>
    match hexOr m, hexOr h, hexOr b with
    | some meth, some buf, some body =>
      (match extractLines buf with
       | .lines ls _ => (match readResponseHead ls with
                         | some r => if validateHeaders (.response r.status) r.version r.reason r.fields then showBytes (relayResponse meth r body) else "invalid"
                         | none => "err")
       | _ => "err")
    | _, _, _ => "bad-op"
  | ["refreqs", h] =>
    match hexOr h with
    | some data =>
      let (ms, e) := Ref.parseRequests (data.length + 1) data
      (if ms.isEmpty then "-" else ";".intercalate (ms.map showMsg)) ++ " " ++ (match e with | some e => showErr e | none => "end")
    | none => "bad-op"
  | ["refresp", m, eof, h] =>
    match hexOr m, hexOr h with
    | some meth, some data =>
      (match Ref.parseResponse meth (eof == "1") data with
       | .ok (msg, rest) => "ok " ++ showMsg msg ++ " " ++ showBytes rest
       | .error e => showErr e)
    | _, _ => "bad-op"
  | ["chunkhdr", h] =>
    -- h11 chunk_header regex (Model/C02.lean `chunkHeader`), on the line without its CR LF
    match hexOr h with
    | some l => (match MitmVerif.C02.chunkHeader l with | some n => toString n | none => "err")
    | none => "bad-op"
  | ["unfold", h] =>
    match hexOr h with
    | some v => showBytes (Ref.unfold v)
    | none => "bad-op"
  | _ => "bad-op"

end C01Driver

def main : IO Unit := runPure C01Driver.step
