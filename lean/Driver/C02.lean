import MitmVerif.Model.C02
import Driver.Proto
open MitmVerif Driver MitmVerif.C01 MitmVerif.C02

namespace C02Driver

def showOut : Out → String
  | .msg _ body => "m:" ++ showBytes body
  | .reject _ => "r"
  | .protoError _ => "p"

def showPhase : Phase → String
  | .head => "head" | .cl .. => "cl" | .untilEof .. => "eof" | .chunkSize .. => "csize" | .chunkData .. => "cdata"
  | .chunkDiscard .. => "cdisc" | .chunkTrailer .. => "ctrail" | .wait => "wait" | .closed => "closed"

def parseSegs (fs : List String) : Option (List Bytes) := fs.mapM hexOr

def headOf (os : List Out) : Option (List Bytes) :=
  os.findSome? fun o => match o with | .msg h _ => some h | _ => none

/-- the unit harness answers every completed request at once (200, Content-Length: 0): `mark_done` then either closes
    (`connection_close` of the request: C01.connectionClose) or goes back to read_headers and re-dispatches the buffer -/
def afterMsg (sizeOf : List Bytes → Option Size) : Nat → St → List Out → St × List Out
  | 0, s, acc => (s, acc)
  | f + 1, s, acc =>
    match s.phase, headOf acc with
    | .wait, some h =>
      let close := match readRequestHead (fun _ _ => true) h with
        | some r => connectionClose r.version r.fields
        | none => false
      if close then (⟨.closed, []⟩, acc)
      else
        let q := release sizeOf s
        if hasMsg q.2 then
          let t := afterMsg sizeOf f q.1 q.2
          (t.1, acc ++ t.2)
        else (q.1, acc ++ q.2)
    | _, _ => (s, acc)

def runReq (segs : List Bytes) : St × List Out :=
  segs.foldl (fun (acc : St × List Out) seg =>
    let r := feed requestSize acc.1 seg
    let t := afterMsg requestSize (acc.1.buf.length + seg.length + 2) r.1 r.2
    (t.1, acc.2 ++ t.2)) (⟨.head, []⟩, [])

def runResp (meth : Bytes) (segs : List Bytes) : St × List Out :=
  (machine (responseSize meth)).feedAll ⟨.head, []⟩ segs

/-- `HttpUpstreamProxy.receive_handshake_data` on a segmented CONNECT reply: the machine instantiated with `handshakeSize`
    (the object of `handshake_seg_independent`).  Rendered: `m:<what is left for the tunnel>` once a 2xx head was read (bytes
    behind the head and later segments are tunnel payload: they stay buffered in `wait`), `r` = refused / malformed, `-` =
    head not complete yet. -/
def runHs (segs : List Bytes) : String :=
  let r := (machine handshakeSize).feedAll ⟨.head, []⟩ segs
  match r.2.head? with
  | some (.msg _ _) => "m:" ++ showBytes r.1.buf
  | some _ => "r"
  | none => "-"

/-- both connections together: `sysRun` (the object of the merged-schedule theorems) on a schedule of client and server
    segments, from the initial state (client-side reader at a head, upstream reader idle) -/
def parseEv (tok : String) : Option Ev :=
  if tok.startsWith "c:" then (hexOr (tok.drop 2).toString).map Ev.client
  else if tok.startsWith "s:" then (hexOr (tok.drop 2).toString).map Ev.server
  else none

def showSys : SysOut → String
  | .request (.msg _ b) => "Q:" ++ showBytes b
  | .request _ => "Qx"
  | .response (.msg _ b) => "R:" ++ showBytes b
  | .response _ => "Rx"

def runSys (meth : Bytes) (evs : List Ev) : String :=
  let r := sysRun requestSize (responseSize meth) ⟨⟨.head, []⟩, ⟨.wait, []⟩⟩ evs
  (if r.2.isEmpty then "-" else ",".intercalate (r.2.map showSys)) ++ " s=" ++ showPhase r.1.s.phase ++ " c=" ++ showPhase r.1.c.phase

def render (r : St × List Out) : String :=
  (if r.2.isEmpty then "-" else ",".intercalate (r.2.map showOut)) ++ " " ++ showPhase r.1.phase

def step (line : String) : String :=
  match fields line with
  | "req" :: segs =>
    match parseSegs segs with
    | some ss => render (runReq ss)
    | none => "bad-op"
  | "resp" :: m :: segs =>
    match hexOr m, parseSegs segs with
    | some meth, some ss => render (runResp meth ss)
    | _, _ => "bad-op"
  | "hs" :: segs =>
    match parseSegs segs with
    | some ss => runHs ss
    | none => "bad-op"
  | "sys" :: m :: evs =>
    match hexOr m, evs.mapM parseEv with
    | some meth, some es => runSys meth es
    | _, _ => "bad-op"
  | _ => "bad-op"

end C02Driver

def main : IO Unit := runPure C02Driver.step
