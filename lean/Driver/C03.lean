import MitmVerif.Model.C03
import MitmVerif.Model.C03_Enc
import MitmVerif.Model.C03_Inv
import MitmVerif.Model.C03_Emit
import Driver.Proto
import Std.Data.HashMap
import Std.Data.HashSet
open MitmVerif Driver MitmVerif.C03

namespace C03Driver

def hookName : Hook → String
  | .requestheaders => "requestheaders" | .request => "request" | .responseheaders => "responseheaders"
  | .response => "response" | .error => "error" | .connect => "http_connect" | .connected => "http_connected"
  | .connectError => "http_connect_error"

def hookOf : String → Option Hook
  | "requestheaders" => some .requestheaders | "request" => some .request | "responseheaders" => some .responseheaders
  | "response" => some .response | "error" => some .error | "http_connect" => some .connect
  | "http_connected" => some .connected | "http_connect_error" => some .connectError
  | _ => none

def actionOf : String → Option Action
  | "pass" => some .pass | "kill" => some .kill | "resp" => some .resp | "stream" => some .stream | _ => none

def reqKindOf : String → Option ReqKind
  | "norm" => some .norm | "connect" => some .connect | "nohost" => some .nohost | "invalid" => some .invalid | _ => none

def respKindOf : String → Option RespKind
  | "norm" => some .norm | "ws101" => some .ws101 | "up101" => some .up101 | "invalid" => some .invalid | _ => none

def boolOf : String → Option Bool
  | "0" => some false | "1" => some true | _ => none

def okOf : String → Option Bool
  | "ok" => some true | "err" => some false | _ => none

def tagName : Tag → String
  | .rh => "rh" | .rd => "rd" | .rt => "rt" | .re => "re" | .rx => "rx" | .sh => "sh" | .sd => "sd" | .st => "st" | .se => "se" | .sx => "sx"

def outName : Out → Option String
  | .hook h => some ("H:" ++ hookName h)
  | .send c t => some ("S:" ++ (if c then "c" else "s") ++ ":" ++ tagName t)
  | .drop => some "D"
  | .getConn => some "G"
  | .openConn => some "O"
  | .closeServer => some "C:s"
  | .crash => some "X"
  | .streamStart => none

def csName : CS → String
  | .uninit => "uninitialized" | .waitHdr => "wait_for_request_headers" | .consume => "consume_request_body"
  | .stream => "stream_request_body" | .done => "done" | .errored => "errored"

def ssName : SS → String
  | .uninit => "uninitialized" | .waitHdr => "wait_for_response_headers" | .consume => "consume_response_body"
  | .stream => "stream_response_body" | .done => "done" | .errored => "errored"

def parseEv : List String → Option Ev
  | ["rh", e, n, k, ws] => do
    let e ← boolOf e; let n ← n.toNat?; let k ← reqKindOf k; let ws ← boolOf ws
    pure (.reqHeaders e n k ws)
  | ["rd", n] => do let n ← n.toNat?; pure (.reqData n)
  | ["re"] => some .reqEOM
  | ["rt"] => some .reqTrailers
  | ["st"] => some .respTrailers
  | ["rx"] => some .reqErr
  | ["sh", e, n, k] => do
    let e ← boolOf e; let n ← n.toNat?; let k ← respKindOf k
    pure (.respHeaders e n k)
  | ["sd", n] => do let n ← n.toNat?; pure (.respData n)
  | ["se"] => some .respEOM
  | ["sx"] => some .respErr
  | ["hc", h, a] => do let h ← hookOf h; let a ← actionOf a; pure (.hookDone h a)
  | ["cc", r] => do let r ← okOf r; pure (.connDone r)
  | ["oc", r] => do let r ← okOf r; pure (.openDone r)
  | _ => none

def b01 (b : Bool) : String := if b then "1" else "0"

def render (outs : List Out) : String :=
  let l := outs.filterMap outName
  if l.isEmpty then "-" else " ".intercalate l

/-- driver state: the model state, the emitter's phase, and whether every input so far was admissible -/
structure DSt where
  s : St := {}
  rq : RqPhase := .none
  adm : Bool := true

def stepLine (d : DSt) (line : String) : DSt × String :=
  let s := d.s
  match fields line with
  | ["reset", l, t] =>
    match l.toNat?, t.toNat? with
    | some l, some t => ({ s := init l t }, "ok")
    | _, _ => (d, "bad-op")
  | ["end"] =>
    let c := s.core
    (d, s!"live={b01 c.live} cs={csName c.cs} ss={ssName c.ss} pt={b01 c.pt} settled={b01 s.settled} bad={b01 c.bad} paused={b01 c.paused.isSome} streamed={b01 c.m.streamed} ws={b01 c.websocket} connect={b01 c.isConnect} adm={b01 d.adm}")
  | fs =>
    match parseEv fs with
    | none => (d, "bad-op")
    | some ev =>
      let n := s.outs.length
      let s' := step s ev
      -- the commands emitted by this call, oldest first
      ({ s := s', rq := rqNext d.rq ev, adm := d.adm && enabled s d.rq ev }, render (s'.outs.drop n))

-- ------------------------------------------------------------------------------------------------
-- reachable abstract states (debug/certificate tool):  mv_c03 reach

def bools : List Bool := [false, true]
def verdicts : List Verdict := [.ok, .stream, .tooLarge]
def hooks : List Hook := [.requestheaders, .request, .responseheaders, .response, .error, .connect, .connected, .connectError]
def actions : List Action := [.pass, .kill, .resp, .stream]

def allEv : List AEv :=
  (bools.flatMap fun e => [ReqKind.norm, .connect, .nohost, .invalid].flatMap fun k => bools.flatMap fun ws =>
      verdicts.map fun v => AEv.reqHeaders e k ws v)
  ++ (verdicts.map .reqData) ++ (bools.map .reqEOM) ++ [.reqErr, .reqTrailers, .respTrailers]
  ++ (bools.flatMap fun e => [RespKind.norm, .ws101, .up101, .invalid].flatMap fun k => verdicts.map fun v => AEv.respHeaders e k v)
  ++ (verdicts.map .respData) ++ (bools.map .respEOM) ++ [.respErr]

def allDone : List AEv :=
  (hooks.flatMap fun h => actions.map fun a => AEv.hookDone h a) ++ (bools.map .connDone) ++ (bools.map .openDone)

def succs (c : Core) : List (AEv × Bool × Core) :=
  if c.paused.isNone then allEv.flatMap fun ev => bools.flatMap fun p =>
    -- right after a completion an event may be a replayed (queued) one or a new (direct) one
    (if c.draining then [true, false] else [false]).map fun q => (ev, p, (procEv c ev p q).c)
  else allDone.flatMap fun ev => bools.map fun p => (ev, p, (procDone c ev p).c)

partial def bfs (seen : Std.HashMap Core (Option (Core × AEv × Bool))) (frontier : List Core) :
    Std.HashMap Core (Option (Core × AEv × Bool)) :=
  match frontier with
  | [] => seen
  | _ =>
    let (seen, next) := frontier.foldl (fun acc c =>
      (succs c).foldl (fun (acc : Std.HashMap Core (Option (Core × AEv × Bool)) × List Core) (ev, p, d) =>
        if acc.1.contains d then acc else (acc.1.insert d (some (c, ev, p)), d :: acc.2)) acc) (seen, [])
    bfs seen next

partial def pathTo (seen : Std.HashMap Core (Option (Core × AEv × Bool))) (c : Core) (acc : List String) : List String :=
  match seen.get? c with
  | some (some (p, ev, pk)) => pathTo seen p (s!"{reprStr ev} peek={pk}" :: acc)
  | _ => acc

def closureBad (c : Core) : Bool :=
  !c.bad && c.paused.isNone && (c.procReqErr || c.dropped) && c.m.fRH && !c.isConnect && !c.pt && !c.websocket
    && !((c.m.fResp != c.m.fErr) && !c.live)

def reachMain : IO Unit := do
  let c0 : Core := {}
  let r := bfs ((Std.HashMap.emptyWithCapacity 4096).insert c0 none) [c0]
  IO.println s!"reachable: {r.size}"
  let all := r.toList.map (·.1)
  let report (name : String) (p : Core → Bool) : IO Unit := do
    let l := all.filter p
    IO.println s!"{name}: {l.length}"
    match l with
    | [] => pure ()
    | _ =>
      -- shortest witness
      let best := l.foldl (fun (b : Option (Nat × Core)) c =>
        let n := (pathTo r c []).length
        match b with | some (m, _) => if n < m then some (n, c) else b | none => some (n, c)) none
      match best with
      | some (_, c) =>
        for l in pathTo r c [] do IO.println ("    " ++ l)
        IO.println ("    => " ++ reprStr c)
      | none => pure ()
  report "v1" fun c => !c.bad && c.m.v1
  report "v2" fun c => !c.bad && c.m.v2
  report "v3" fun c => !c.bad && c.m.v3
  report "v4" fun c => !c.bad && c.m.v4
  report "v5" fun c => !c.bad && c.m.v5
  report "closure" closureBad

/-- projection onto the control skeleton: the auxiliary flow attributes are reset -/
def skel (c : Core) : Core :=
  { c with err := .none, hasResp := false, respKind := .norm, reqStream := false, respStream := false, reqWs := false,
           connect2xx := true, reqBody := false, respBody := false }

def auxAll : List (Core → Core) :=
  [ErrK.none, .killed, .other].flatMap fun e => bools.flatMap fun hr => [RespKind.norm, .ws101, .up101, .invalid].flatMap fun rk =>
  bools.flatMap fun rs => bools.flatMap fun ps => bools.flatMap fun ws => bools.map fun c2 =>
    fun c => { c with err := e, hasResp := hr, respKind := rk, reqStream := rs, respStream := ps, reqWs := ws, connect2xx := c2 }

partial def bfsH (seen : Std.HashSet Core) (frontier : List Core) : Std.HashSet Core :=
  match frontier with
  | [] => seen
  | _ =>
    let (seen, next) := frontier.foldl (fun acc s =>
      auxAll.foldl (fun acc f =>
        (succs (f s)).foldl (fun (acc : Std.HashSet Core × List Core) (_, _, d) =>
          let d := skel d
          if acc.1.contains d then acc else (acc.1.insert d, d :: acc.2)) acc) acc) (seen, [])
    bfsH seen next

def compact (c : Core) : String :=
  let f (b : Bool) (ch : String) := if b then ch else "."
  s!"{csName c.cs}/{ssName c.ss} k={reprStr c.paused} " ++ f c.m.fRH "H" ++ f c.m.fReq "Q" ++ f c.m.fRespH "h" ++ f c.m.fResp "R"
    ++ f c.m.fErr "E" ++ f c.m.streamed "S" ++ " " ++ f c.attached "A" ++ f c.dropped "D" ++ f c.procReqErr "X" ++ f c.hasFlow "F"
    ++ f c.live "L" ++ f c.websocket "W" ++ f c.isConnect "C" ++ f c.pt "P" ++ f c.seenReqHdr "s" ++ f c.draining "d" ++ f c.stale "t"
    ++ f c.bad "B" ++ " v=" ++ f c.m.v1 "1" ++ f c.m.v2 "2" ++ f c.m.v3 "3" ++ f c.m.v4 "4" ++ f c.m.v5 "5"
    ++ s!" aux: err={reprStr c.err} hasResp={c.hasResp} rk={reprStr c.respKind} rs={c.reqStream} ps={c.respStream} ws={c.reqWs} c2={c.connect2xx}"

def boolMuts : List (Core → Core) :=
  [fun c => { c with pt := !c.pt }, fun c => { c with hasFlow := !c.hasFlow }, fun c => { c with live := !c.live },
   fun c => { c with websocket := !c.websocket }, fun c => { c with isConnect := !c.isConnect },
   fun c => { c with attached := !c.attached }, fun c => { c with dropped := !c.dropped },
   fun c => { c with procReqErr := !c.procReqErr }, fun c => { c with seenReqHdr := !c.seenReqHdr },
   fun c => { c with draining := !c.draining }, fun c => { c with stale := !c.stale },
   fun c => { c with m := { c.m with fRH := !c.m.fRH } }, fun c => { c with m := { c.m with fReq := !c.m.fReq } },
   fun c => { c with m := { c.m with fRespH := !c.m.fRespH } }, fun c => { c with m := { c.m with fResp := !c.m.fResp } },
   fun c => { c with m := { c.m with fErr := !c.m.fErr } }, fun c => { c with m := { c.m with streamed := !c.m.streamed } }]

def enumMuts : List (Core → Core) :=
  ([CS.uninit, .waitHdr, .consume, .stream, .done, .errored].map fun x => fun c : Core => { c with cs := x })
  ++ ([SS.uninit, .waitHdr, .consume, .stream, .done, .errored].map fun x => fun c : Core => { c with ss := x })
  ++ ((List.range 31).map fun n => fun c : Core => { c with paused := pausedOfNat n })

def allMuts : List (Core → Core) := boolMuts ++ enumMuts

/-- `mv_c03 checkinv`: test that `InvB` is inductive on states near the reachable ones (every single and double
    mutation of a reachable skeleton that still satisfies `InvB`), with arbitrary auxiliary attributes -/
def checkInvMain : IO Unit := do
  let c0 : Core := {}
  let r := bfsH ((Std.HashSet.emptyWithCapacity 4096).insert (skel c0)) [skel c0]
  let mut cands : Std.HashSet Core := r
  for s in r.toList do
    for f in allMuts do
      let s1 := f s
      if InvB s1 then cands := cands.insert s1
      for g in boolMuts do
        let s2 := g s1
        if InvB s2 then cands := cands.insert s2
  IO.println s!"states satisfying InvB to test: {cands.size}"
  let mut bad := 0
  let mut i := 0
  for s in cands.toList do
    i := i + 1
    if bad > 3000 then break
    for f in auxAll do
      let c := f s
      for (ev, p, d) in succs c do
        if !InvB d then
          bad := bad + 1
          if bad ≤ 3000 && bad % 150 == 1 then
            IO.println s!"CEX {compact c}  --{reprStr ev} peek={p}-->  {compact d}"
  IO.println s!"violations of inductiveness: {bad}"

/-- `mv_c03 havoc`: reachable skeletons when the auxiliary attributes are arbitrary at every step -/
def havocMain : IO Unit := do
  let c0 : Core := {}
  let r := bfsH ((Std.HashSet.emptyWithCapacity 4096).insert (skel c0)) [skel c0]
  IO.println s!"havoc-reachable skeletons: {r.size}"
  let all := r.toList
  let viol := all.filter fun c => !InvB c
  IO.println s!"InvB fails on {viol.length} havoc-reachable skeletons"
  for c in viol.take 3 do IO.println (reprStr c)
  let cnt (p : Core → Bool) : Nat := (all.filter p).length
  IO.println s!"v1 {cnt fun c => !c.bad && c.m.v1} v2 {cnt fun c => !c.bad && c.m.v2} v3 {cnt fun c => !c.bad && c.m.v3} v4 {cnt fun c => !c.bad && c.m.v4} v5 {cnt fun c => !c.bad && c.m.v5} closure {cnt closureBad}"
  match all.filter closureBad with
  | c :: _ => IO.println (reprStr c)
  | [] => pure ()
  match all.filter (fun c => !c.bad && c.m.v4) with
  | c :: _ => IO.println (reprStr c)
  | [] => pure ()

end C03Driver

def main (args : List String) : IO Unit :=
  match args with
  | ["reach"] => C03Driver.reachMain
  | ["havoc"] => C03Driver.havocMain
  | ["checkinv"] => C03Driver.checkInvMain
  | _ => runState C03Driver.stepLine {}
