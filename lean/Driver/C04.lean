import MitmVerif.Model.C04
import Driver.Proto
open MitmVerif Driver MitmVerif.C04 MitmVerif.C04.Prog

/-!
  `run <nl> <aos> <prog1> … <prog5> <sched>` → one line: the canonical trace that harness/c04.py also
  renders from the real layers (per step: emitted commands, every layer's paused command and queue,
  NextLayer.events / handed-over flag; at the end every layer's handled events and sent-in values).
-/
namespace C04D

abbrev L3 := Layer S Ev Cmd Reply
abbrev S2 := S × List L3
abbrev L2 := Layer S2 Ev Cmd Reply
abbrev S1 := S × List L2
abbrev L1 := Layer S1 Ev Cmd Reply
abbrev NLS := NLState S1 Ev Cmd Reply
abbrev NL := Layer NLS Ev Cmd Reply

structure Progs where
  p1 : Table
  p2 : Table
  p3 : Table
  p4 : Table
  p5 : Table

def H3 (idx : Nat) (tab : Table) : Handler S Ev Cmd Reply := fun s ev => (interp idx tab s ev).flat

def H2 (P : Progs) (i : Nat) : Handler S2 Ev Cmd Reply :=
  if i = 0 then parentHandler (interp 2 P.p2) (fun _ => H3 4 P.p4) 0
  else parentHandler (interp 3 P.p3) (fun _ => H3 5 P.p5) 0

def H1 (P : Progs) : Handler S1 Ev Cmd Reply := parentHandler (interp 1 P.p1) (H2 P) 0

def l3 : L3 := Layer.init ⟨0, 0⟩
def l2 : L2 := Layer.init (⟨0, 0⟩, [l3])
def l1 : L1 := Layer.init (⟨0, 0⟩, [l2, l2])

def nlParams (aos : Bool) : NLParams Ev Cmd Reply where
  kind e := if e.label = 0 then .start else if e.label = 1 ∨ e.label = 2 then .data
            else if e.label = 3 then .clientClosed else .other
  askOnStart := aos
  hookCmd n := ⟨0, n, 0, 0⟩
  closeCmd n := ⟨0, n, 1, 0⟩
  decide r := r % 2 == 1

inductive Top where
  | nl (L : NL)
  | bare (L : L1)

def blkStr : Blk → String
  | .no => "n" | .yes => "y" | .owned => "o"

def cmdStr (c : Cmd) (b : Blk) : String := s!"{c.layer}.{c.n}.{c.label}.{c.seen}.{blkStr b}"

def evStr : E → String
  | .plain e => s!"p{e.label}u{e.uid}"
  | .completed c r => s!"k{c.layer}.{c.n}r{r}"

def joinWith (sep : String) (l : List String) : String := sep.intercalate l

def snapLayer {σ : Type} (L : Layer σ Ev Cmd Reply) : String :=
  let p := match L.paused with | some (c, _) => cmdStr c .owned | none => "-"
  s!"{p}:{joinWith ";" (L.queue.map evStr)}"

def snapTree (t : L1) : List String :=
  let kids := t.st.2
  let grand := kids.map (fun k => match k.st.2 with | g :: _ => snapLayer g | [] => "?")
  [snapLayer t] ++ kids.map snapLayer ++ grand

def snap : Top → String
  | .nl L =>
    let h := s!"{snapLayer L}:{joinWith ";" (L.st.events.map evStr)}:{if L.st.handed then 1 else 0}"
    joinWith "|" (h :: snapTree L.st.child)
  | .bare t => joinWith "|" ("x" :: snapTree t)

def logStr {σ : Type} (idx : Nat) (L : Layer σ Ev Cmd Reply) : String :=
  joinWith ";" (L.log.filterMap fun
    | .handle ev => some ("h" ++ evStr ev)
    | .emit c b => if c.layer = idx ∧ b ≠ .owned then some s!"s{c.n}r0" else none
    | .pause _ => none
    | .resume c r => some s!"s{c.n}r{r}")

def logsTree (t : L1) : String :=
  match t.st.2 with
  | [a, b] =>
    match a.st.2, b.st.2 with
    | [a4], [b5] => joinWith "|" [logStr 1 t, logStr 2 a, logStr 3 b, logStr 4 a4, logStr 5 b5]
    | _, _ => "?"
  | _ => "?"

def treeOf : Top → L1
  | .nl L => L.st.child
  | .bare t => t

inductive Step where
  | e (label : Nat)
  | b (j r : Nat)
  | c (j r : Nat)

structure St where
  top     : Top
  emitted : Array Cmd
  pending : List Cmd
  acc     : List String      -- reversed

def deliver (P : Progs) (aos : Bool) (st : St) (ev : E) : St :=
  let (top', out) : Top × Out Cmd :=
    match st.top with
    | .nl L => let r := nlHandleEvent (nlParams aos) (H1 P) 0 L ev; (.nl r.1, r.2)
    | .bare t => let r := handleEvent (H1 P) 0 t ev; (.bare r.1, r.2)
  let s := s!"[{joinWith ";" (out.map fun x => cmdStr x.1 x.2)}]{snap top'}"
  { top := top',
    emitted := st.emitted ++ (out.map (·.1)).toArray,
    pending := st.pending ++ (out.filter (fun x => x.2 ≠ .no)).map (·.1),
    acc := s :: st.acc }

def stepOne (P : Progs) (aos : Bool) (st : St) (uid : Nat) : Step → St
  | .e label => deliver P aos st (.plain ⟨label, uid⟩)
  | .b j r =>
    match st.pending[j % st.pending.length]? with
    | none => { st with acc := "skip" :: st.acc }
    | some c => deliver P aos { st with pending := st.pending.erase c } (.completed c r)
  | .c j r =>
    match st.emitted[j % st.emitted.size]? with
    | none => { st with acc := "skip" :: st.acc }
    | some c => deliver P aos { st with pending := st.pending.erase c } (.completed c r)

def runAll (P : Progs) (aos : Bool) : St → Nat → List Step → St
  | st, _, [] => st
  | st, uid, s :: rest => runAll P aos (stepOne P aos st uid s) (uid + 1) rest

/-! parsing -/
def parseAct (s : String) : Option Act :=
  match s.toList with
  | 'c' :: d => (String.ofList d).toNat?.map .ch
  | 'y' :: rest =>
    match (String.ofList rest).splitOn "b" with
    | [l, b] => match l.toNat?, b.toNat? with
      | some l, some 0 => some (.y l false)
      | some l, some 1 => some (.y l true)
      | _, _ => none
    | _ => none
  | _ => none

def parseActs (s : String) : Option (List Act) :=
  if s = "-" then some [] else (s.splitOn ",").mapM parseAct

def parseTable (s : String) : Option Table := (s.splitOn "/").mapM parseActs

def parseStep (s : String) : Option Step :=
  match s.toList with
  | 'e' :: d => (String.ofList d).toNat?.map .e
  | k :: rest =>
    if k = 'b' ∨ k = 'c' then
      match (String.ofList rest).splitOn "r" with
      | [j, r] => match j.toNat?, r.toNat? with
        | some j, some r => some (if k = 'b' then .b j r else .c j r)
        | _, _ => none
      | _ => none
    else none
  | [] => none

def parseSched (s : String) : Option (List Step) :=
  if s = "-" then some [] else (s.splitOn ",").mapM parseStep

def step (line : String) : String :=
  match fields line with
  | ["run", nl, aos, a, b, c, d, e, sch] =>
    match parseTable a, parseTable b, parseTable c, parseTable d, parseTable e, parseSched sch with
    | some p1, some p2, some p3, some p4, some p5, some sched =>
      if (nl ≠ "0" ∧ nl ≠ "1") ∨ (aos ≠ "0" ∧ aos ≠ "1") then "bad-op" else
      let P : Progs := ⟨p1, p2, p3, p4, p5⟩
      let top : Top := if nl = "1" then .nl (nlInit l1) else .bare l1
      let fin := runAll P (aos = "1") ⟨top, #[], [], []⟩ 0 sched
      joinWith "#" fin.acc.reverse ++ "@" ++ logsTree (treeOf fin.top)
    | _, _, _, _, _, _ => "bad-op"
  | _ => "bad-op"

end C04D

def main : IO Unit := runPure C04D.step
