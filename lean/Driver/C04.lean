import MitmVerif.Model.C04
import Driver.Proto
open MitmVerif Driver MitmVerif.C04 MitmVerif.C04.Prog

/-!
  `run <nl> <aos> <nodes> <sched>`  → one line: the canonical trace that harness/c04.py also renders from the
  real layers (per step: emitted commands, every layer's paused command, queue and bound handler,
  NextLayer.events / handed-over flag; at the end every layer's handled events and sent-in values).
  The layer tree is arbitrary (height ≤ 4 here, any branching): `Prog.TS 3` / `Prog.HT 3`.

  `seq <nodes> <xs> <rs>` → the reference blocking interpreter `C04.seq` run on the whole tree with the events and
  replies a real run delivered to the root layer: final configuration, trace and total output.

  `prim <tabs> <ops>` → the generator primitives of one layer driven one by one:
  `p<l>` = `__process(self._handle_event(ev))`, `q<l>` = `_paused_event_queue.append(ev)`,
  `k<r>` = `__continue(completion of the paused command, reply r)`, `e<l>` / `b<r>` = `handle_event`.
-/
namespace C04D

def DEPTH : Nat := 3
abbrev TL (d : Nat) := Layer (TS d) Ev Cmd Reply
abbrev NLS := NLState (TS DEPTH) Ev Cmd Reply
abbrev NL := Layer NLS Ev Cmd Reply

structure NodeDesc where
  idx    : Nat
  parent : Nat
  route  : List (List Nat)
  tabs   : List Table

def nodeOf (nd : NodeDesc) : Node := ⟨⟨0, 0⟩, 0, nd.idx, nd.tabs, nd.route⟩

def mkLayer (nodes : List NodeDesc) : (d : Nat) → NodeDesc → TL d
  | 0, nd => Layer.init (nodeOf nd)
  | d + 1, nd => Layer.init (nodeOf nd, (nodes.filter (fun k => k.parent = nd.idx)).map (mkLayer nodes d))

def nlParams (aos : Bool) : NLParams Ev Cmd Reply where
  kind e := if e.label = 0 then .start else if e.label = 1 ∨ e.label = 2 then .data
            else if e.label = 3 then .clientClosed else .other
  askOnStart := aos
  hookCmd n := ⟨0, n, 0, 0⟩
  closeCmd n := ⟨0, n, 1, 0⟩
  decide r := r % 2 == 1

inductive Top where
  | nl (L : NL)
  | bare (L : TL DEPTH)

def blkStr : Blk → String
  | .no => "n" | .yes => "y" | .owned => "o"

def cmdStr (c : Cmd) (b : Blk) : String := s!"{c.layer}.{c.n}.{c.label}.{c.seen}.{blkStr b}"

def evStr : E → String
  | .plain e => s!"p{e.label}u{e.uid}"
  | .completed c r => s!"k{c.layer}.{c.n}r{r}"

def joinWith (sep : String) (l : List String) : String := sep.intercalate l

def snapLayer {σ : Type} (L : Layer σ Ev Cmd Reply) : String :=
  let p := match L.paused with | some (c, _) => cmdStr c .owned | none => "-"
  s!"{p}:{joinWith ";" (L.queue.map evStr)}"

def logStr {σ : Type} (idx : Nat) (L : Layer σ Ev Cmd Reply) : String :=
  joinWith ";" (L.log.filterMap fun
    | .handle ev => some ("h" ++ evStr ev)
    | .emit c b => if c.layer = idx ∧ b ≠ .owned then some s!"s{c.n}r0" else none
    | .pause _ => none
    | .resume c r => some s!"s{c.n}r{r}")

/-- preorder list of (snapshot, log) of every layer of the tree -/
def collect : (d : Nat) → TL d → List (String × String)
  | 0, L => [(s!"{snapLayer L}:m{L.st.mode}", logStr L.st.idx L)]
  | d + 1, L => (s!"{snapLayer L}:m{L.st.1.mode}", logStr L.st.1.idx L) :: L.st.2.flatMap (collect d)

def snap : Top → String
  | .nl L =>
    let h := s!"{snapLayer L}:{joinWith ";" (L.st.events.map evStr)}:{if L.st.handed then 1 else 0}"
    joinWith "|" (h :: (collect DEPTH L.st.child).map (·.1))
  | .bare t => joinWith "|" ("x" :: (collect DEPTH t).map (·.1))

def treeOf : Top → TL DEPTH
  | .nl L => L.st.child
  | .bare t => t

inductive Step where
  | e (label : Nat)
  | b (j r : Nat)
  | c (j r : Nat)

structure St where
  top     : Top
  emitted : Array Cmd
  pending : List Cmd
  acc     : List String      -- reversed

def deliver (aos : Bool) (st : St) (ev : E) : St :=
  let (top', out) : Top × Out Cmd :=
    match st.top with
    | .nl L => let r := nlHandleEvent (nlParams aos) (HT DEPTH) 0 L ev; (.nl r.1, r.2)
    | .bare t => let r := handleEvent (HT DEPTH) 0 t ev; (.bare r.1, r.2)
  let s := s!"[{joinWith ";" (out.map fun x => cmdStr x.1 x.2)}]{snap top'}"
  { top := top',
    emitted := st.emitted ++ (out.map (·.1)).toArray,
    pending := st.pending ++ (out.filter (fun x => x.2 ≠ .no)).map (·.1),
    acc := s :: st.acc }

def stepOne (aos : Bool) (st : St) (uid : Nat) : Step → St
  | .e label => deliver aos st (.plain ⟨label, uid⟩)
  | .b j r =>
    match st.pending[j % st.pending.length]? with
    | none => { st with acc := "skip" :: st.acc }
    | some c => deliver aos { st with pending := st.pending.erase c } (.completed c r)
  | .c j r =>
    match st.emitted[j % st.emitted.size]? with
    | none => { st with acc := "skip" :: st.acc }
    | some c => deliver aos { st with pending := st.pending.erase c } (.completed c r)

def runAll (aos : Bool) : St → Nat → List Step → St
  | st, _, [] => st
  | st, uid, s :: rest => runAll aos (stepOne aos st uid s) (uid + 1) rest

/-! the generator primitives, one op each, on a single leaf layer -/
inductive Prim where
  | p (l : Nat) | q (l : Nat) | k (r : Nat) | e (l : Nat) | b (r : Nat)

def primStep (L : TL 0) (uid : Nat) : Prim → Option (TL 0 × Out Cmd)
  | .p l => match L.paused with
    | some _ => none
    | none => some (handleFresh (HT 0) 0 L (.plain ⟨l, uid⟩))
  | .q l => some (enqueue L (.plain ⟨l, uid⟩))
  | .k r => match L.paused with
    | some (c, k) => some (resumeWith (HT 0) 0 L c k r)
    | none => none
  | .e l => some (handleEvent (HT 0) 0 L (.plain ⟨l, uid⟩))
  | .b r => match L.paused with
    | some (c, _) => some (handleEvent (HT 0) 0 L (.completed c r))
    | none => none

def primAll : TL 0 → Nat → List Prim → List String → TL 0 × List String
  | L, _, [], acc => (L, acc)
  | L, uid, op :: rest, acc =>
    match primStep L uid op with
    | none => primAll L (uid + 1) rest ("skip" :: acc)
    | some (L', out) =>
      primAll L' (uid + 1) rest
        (s!"[{joinWith ";" (out.map fun x => cmdStr x.1 x.2)}]{snapLayer L'}:m{L'.st.mode}" :: acc)

/-! parsing -/
def parseAct (s : String) : Option Act :=
  match s.toList with
  | 'c' :: d => (String.ofList d).toNat?.map .ch
  | 's' :: d => (String.ofList d).toNat?.map .sw
  | 'y' :: rest =>
    match (String.ofList rest).splitOn "b" with
    | [l, b] => match l.toNat?, b.toNat? with
      | some l, some 0 => some (.y l false)
      | some l, some 1 => some (.y l true)
      | _, _ => none
    | _ => none
  | _ => none

def parseActs (s : String) : Option (List Act) :=
  if s = "-" then some [] else (s.splitOn ",").mapM parseAct

def parseTable (s : String) : Option Table := (s.splitOn "/").mapM parseActs

def parseTabs (s : String) : Option (List Table) := (s.splitOn "~").mapM parseTable

def parseRoute (s : String) : Option (List (List Nat)) :=
  if s = "-" then some [] else (s.splitOn "+").mapM (fun g => (g.splitOn ".").mapM (·.toNat?))

def parseNode (s : String) : Option NodeDesc :=
  match s.splitOn ":" with
  | [i, p, r, t] => match i.toNat?, p.toNat?, parseRoute r, parseTabs t with
    | some i, some p, some r, some t => some ⟨i, p, r, t⟩
    | _, _, _, _ => none
  | _ => none

def parseStep (s : String) : Option Step :=
  match s.toList with
  | 'e' :: d => (String.ofList d).toNat?.map .e
  | k :: rest =>
    if k = 'b' ∨ k = 'c' then
      match (String.ofList rest).splitOn "r" with
      | [j, r] => match j.toNat?, r.toNat? with
        | some j, some r => some (if k = 'b' then .b j r else .c j r)
        | _, _ => none
      | _ => none
    else none
  | [] => none

def parseSched (s : String) : Option (List Step) :=
  if s = "-" then some [] else (s.splitOn ",").mapM parseStep

def parsePrim (s : String) : Option Prim :=
  match s.toList with
  | k :: d => match (String.ofList d).toNat? with
    | some n =>
      if k = 'p' then some (.p n) else if k = 'q' then some (.q n) else if k = 'k' then some (.k n)
      else if k = 'e' then some (.e n) else if k = 'b' then some (.b n) else none
    | none => none
  | [] => none

/-! the reference blocking interpreter `seq` on a whole tree: events `xs` and replies `rs` come from the split of a
    real run's arrivals at the root layer -/
def parseCmd4 (s : String) : Option Cmd :=
  match (s.splitOn ".").mapM (·.toNat?) with
  | some [a, b, c, d] => some ⟨a, b, c, d⟩
  | _ => none

def parseEv (s : String) : Option E :=
  match s.toList with
  | 'p' :: rest =>
    match (String.ofList rest).splitOn "u" with
    | [l, u] => match l.toNat?, u.toNat? with
      | some l, some u => some (.plain ⟨l, u⟩)
      | _, _ => none
    | _ => none
  | 'k' :: rest =>
    match (String.ofList rest).splitOn "r" with
    | [c, r] => match parseCmd4 c, r.toNat? with
      | some c, some r => some (.completed c r)
      | _, _ => none
    | _ => none
  | _ => none

def seqRender (cfg : SeqCfg (TS DEPTH) Ev Cmd Reply) : String :=
  let p := match cfg.waiting with | some (c, _) => cmdStr c .owned | none => "-"
  let rootSnap := s!"{p}:{joinWith ";" (cfg.todo.map evStr)}:m{cfg.st.1.mode}"
  let rootLog := joinWith ";" (cfg.log.filterMap fun
    | .handle ev => some ("h" ++ evStr ev)
    | .emit c b => if c.layer = cfg.st.1.idx ∧ b ≠ .owned then some s!"s{c.n}r0" else none
    | .pause _ => none
    | .resume c r => some s!"s{c.n}r{r}")
  let kids := cfg.st.2.flatMap (collect (DEPTH - 1))
  let unused := if cfg.unused.isEmpty then "" else "!unused"
  s!"[{joinWith ";" (cfg.out.map fun x => cmdStr x.1 x.2)}]" ++ joinWith "|" (rootSnap :: kids.map (·.1)) ++ "@" ++
    joinWith "|" (rootLog :: kids.map (·.2)) ++ unused

def step (line : String) : String :=
  match fields line with
  | ["run", nl, aos, nodes, sch] =>
    match (nodes.splitOn "|").mapM parseNode, parseSched sch with
    | some (root :: more), some sched =>
      if (nl ≠ "0" ∧ nl ≠ "1") ∨ (aos ≠ "0" ∧ aos ≠ "1") then "bad-op" else
      let tree := mkLayer (root :: more) DEPTH root
      let top : Top := if nl = "1" then .nl (nlInit tree) else .bare tree
      let fin := runAll (aos = "1") ⟨top, #[], [], []⟩ 0 sched
      joinWith "#" fin.acc.reverse ++ "@" ++ joinWith "|" ((collect DEPTH (treeOf fin.top)).map (·.2))
    | _, _ => "bad-op"
  | ["seq", nodes, xs, rs] =>
    match (nodes.splitOn "|").mapM parseNode,
          (if xs = "-" then some [] else (xs.splitOn ",").mapM parseEv),
          (if rs = "-" then some [] else (rs.splitOn ",").mapM (·.toNat?)) with
    | some (root :: more), some xs, some rs =>
      let tree := mkLayer (root :: more) DEPTH root
      seqRender (seq (HT DEPTH) 0 tree.st none [] [] xs rs)
    | _, _, _ => "bad-op"
  | ["prim", tabs, ops] =>
    match parseTabs tabs, (if ops = "-" then some [] else (ops.splitOn ",").mapM parsePrim) with
    | some t, some ops =>
      let L0 : TL 0 := Layer.init ⟨⟨0, 0⟩, 0, 1, t, []⟩
      let (L, acc) := primAll L0 0 ops []
      joinWith "#" acc.reverse ++ "@" ++ logStr 1 L
    | _, _ => "bad-op"
  | _ => "bad-op"

end C04D

def main : IO Unit := runPure C04D.step
