import MitmVerif.Model.C05
import MitmVerif.Lemmas.C05_Sub
import Driver.Proto
open MitmVerif Driver
open MitmVerif.C05

namespace C05Driver

def b01 (b : Bool) : String := if b then "1" else "0"

def showFrame : Frame → String
  | .hdr s f => s!"H{s}.{b01 f}"
  | .data s d f => s!"D{s}.{showBytes d}.{b01 f}"
  | .trailers s => s!"T{s}"
  | .rst s => s!"R{s}"

def showUp (u : Nat × UpKind × Option Nat) : String :=
  match u.2.1 with
  | .hdr f => s!"{u.1}h{b01 f}"
  | .data n => s!"{u.1}d{n}"
  | .trailers => s!"{u.1}t"
  | .eom => s!"{u.1}e"
  | .err => s!"{u.1}x"

def joinOr (l : List String) : String := if l.isEmpty then "-" else ",".intercalate l

def optNat (s : String) : Option (Option Nat) := if s = "-" then some none else s.toNat?.map some

def parseBool (s : String) : Option Bool := if s = "1" then some true else if s = "0" then some false else none

def parseSEv (s : String) : Option SEv :=
  match s.splitOn ":" with
  | ["S", a, b, c] => match optNat a, optNat b, optNat c with
    | some a, some b, some c => some (.settings a b c)
    | _, _, _ => none
  | ["W", a, b] => match a.toNat?, b.toNat? with | some a, some b => some (.winUpd a b) | _, _ => none
  | ["H", a, b, c] => match a.toNat?, parseBool b, parseBool c with
    | some a, some b, some c => some (.respHdr a b c)
    | _, _, _ => none
  | ["I", a] => a.toNat?.map .info
  | ["D", a, b, c] => match a.toNat?, b.toNat?, parseBool c with
    | some a, some b, some c => some (.respData a b c)
    | _, _, _ => none
  | ["T", a] => a.toNat?.map .respTrailers
  | ["E", a] => a.toNat?.map .ended
  | ["R", a] => a.toNat?.map .reset
  | ["G"] => some .goaway
  | ["P"] => some .protoErr
  | ["O"] => some .other
  | _ => none

def parseSEvs (s : String) : Option (List SEv) := if s = "-" then some [] else (s.splitOn ",").mapM parseSEv

/-- observable rendering of one step: frames written, events passed up, queue, id map, open streams, flags -/
def render (old new : St) : String :=
  let frames := (new.conn.out.drop old.conn.out.length).map showFrame
  let ups := (new.up.drop old.up.length).map showUp
  let q := new.queue.map fun p => s!"{p.1}*{p.2.length}"
  let m := new.ours.map fun p => s!"{p.1}>{p.2}"
  let bufd := new.conn.bufs.map fun p => s!"{p.1}*{(p.2.map (·.data.length)).sum}"
  s!"F={joinOr frames} U={joinOr ups} Q={joinOr q} M={joinOr m} O={new.conn.openCount} B={joinOr bufd} X={b01 new.closed}{b01 new.crashed}"

instance (σ : St) (t : Nat) (ev : Ev) : Decidable (Good σ t ev) := by unfold Good; exact inferInstance
instance (σ : St) (t : Nat) (ev : Ev) : Decidable (Good2 σ t ev) := by unfold Good2; exact inferInstance

/-- the hypotheses of the theorems about reachable states, evaluated on the event the real `HttpStream` handed over
    (`Good`: head first and once; `Good2`: data / trailers / end of message in order) — the harness expects `G=11` -/
def hyp (σ : St) (t : Nat) (ev : Ev) : String :=
  s!" G={b01 (σ.closed || decide (Good σ t ev))}{b01 (σ.closed || decide (Good2 σ t ev))}"

def stepLine (σ : St) (line : String) : St × String :=
  let go (inp : Input) : St × String :=
    let σ' := σ.step inp
    (σ', render σ σ' ++ (match inp with | .client t ev => hyp σ t ev | _ => ""))
  match fields line with
  | ["reset"] => (St.init, "ok")
  | ["c", t, "h", f] => match t.toNat?, parseBool f with
    | some t, some f => go (.client t (.hdr f))
    | _, _ => (σ, "bad-op")
  | ["c", t, "d", h] => match t.toNat?, hexOr h with
    | some t, some b => go (.client t (.data b))
    | _, _ => (σ, "bad-op")
  | ["c", t, "t"] => match t.toNat? with | some t => go (.client t .trailers) | none => (σ, "bad-op")
  | ["c", t, "e"] => match t.toNat? with | some t => go (.client t .eom) | none => (σ, "bad-op")
  | ["c", t, "x"] => match t.toNat? with | some t => go (.client t .err) | none => (σ, "bad-op")
  | ["s", evs] => match parseSEvs evs with | some l => go (.server l) | none => (σ, "bad-op")
  | ["k"] => go .connClosed
  -- direct BufferedH2Connection operations (the `buf` cases)
  | ["b", "open", sid] => match sid.toNat? with
    | some sid =>
      let c := σ.conn
      let σ' := { σ with conn := { c with streams := aset sid ⟨c.iws, true, true, false⟩ c.streams } }
      (σ', render σ σ')
    | none => (σ, "bad-op")
  | ["b", "data", sid, h, f] => match sid.toNat?, hexOr h, parseBool f with
    | some sid, some b, some f => let σ' := { σ with conn := σ.conn.sendData sid b f }; (σ', render σ σ')
    | _, _, _ => (σ, "bad-op")
  | ["b", "trl", sid] => match sid.toNat? with
    | some sid => let σ' := { σ with conn := σ.conn.sendTrailers sid }; (σ', render σ σ')
    | none => (σ, "bad-op")
  | ["b", "end", sid] => match sid.toNat? with
    | some sid => let σ' := { σ with conn := σ.conn.endStream sid }; (σ', render σ σ')
    | none => (σ, "bad-op")
  | ["b", "rst", sid] => match sid.toNat? with
    | some sid => let σ' := { σ with conn := σ.conn.resetStream sid }; (σ', render σ σ')
    | none => (σ, "bad-op")
  | ["b", "srv", evs] => match parseSEvs evs with
    | some l => let σ' := { σ with conn := σ.conn.absorb l }; (σ', render σ σ')
    | none => (σ, "bad-op")
  | _ => (σ, "bad-op")

/-- `HttpLayer.streams` (model: `applyLayerOp`, `route`) next to the client: `L make|drop|route sid` -/
structure DSt where
  st : St
  streams : List (Nat × HStream)

def showStreams (l : List (Nat × HStream)) : String :=
  joinOr (l.map fun p => s!"{p.1}>{p.2.id}")

def stepLine2 (d : DSt) (line : String) : DSt × String :=
  match fields line with
  | ["reset"] => (⟨St.init, []⟩, "ok")
  | ["L", "make", sid] => match sid.toNat? with
    | some sid => let l := applyLayerOp d.streams (.make sid); (⟨d.st, l⟩, "S=" ++ showStreams l)
    | none => (d, "bad-op")
  | ["L", "drop", sid] => match sid.toNat? with
    | some sid => let l := applyLayerOp d.streams (.drop sid); (⟨d.st, l⟩, "S=" ++ showStreams l)
    | none => (d, "bad-op")
  | ["L", "route", sid] => match sid.toNat? with
    | some sid => (d, "R=" ++ (match route d.streams sid with | some s => toString s.id | none => "-"))
    | none => (d, "bad-op")
  | _ => let r := stepLine d.st line; (⟨r.1, d.streams⟩, r.2)

end C05Driver

def main : IO Unit := runState C05Driver.stepLine2 ⟨St.init, []⟩
