import MitmVerif.Model.C06
import Driver.Proto
open MitmVerif Driver
open MitmVerif.C06

namespace C06Driver

def parsePair (s : String) : Option Field :=
  match s.splitOn ":" with
  | [a, b] => match hexOr a, hexOr b with
    | some x, some y => some (x, y)
    | _, _ => none
  | _ => none

def parseBlock (s : String) : Option Block :=
  if s = "-" then some [] else (s.splitOn ",").mapM parsePair

def showBlock (b : Block) : String :=
  if b.isEmpty then "-" else ",".intercalate (b.map fun f => showBytes f.1 ++ ":" ++ showBytes f.2)

def natHexDigits : Nat → Nat → Bytes
  | 0, _ => []
  | f + 1, n =>
    let d := n % 16
    let c := if d < 10 then UInt8.ofNat (48 + d) else UInt8.ofNat (87 + d)
    if n < 16 then [c] else natHexDigits f (n / 16) ++ [c]
def natHex (n : Nat) : Bytes := natHexDigits (n + 1) n

def isChunkedTE (fs : List Field) : Bool :=
  -- `"chunked" in headers.get("transfer-encoding", "").lower()`: values joined with ", "
  let v := lower (joinWith sCommaSp ((fs.filter (nameIs sTE)).map (·.2)))
  let rec has : Nat → Bytes → Bool
    | 0, _ => false
    | f + 1, l => sChunked.isPrefixOf l || (match l with | [] => false | _ :: t => has f t)
  has (v.length + 1) v

def h1Body (fs : List Field) (body : Bytes) : Bytes :=
  if isChunkedTE fs then
    (if body.isEmpty then [] else natHex body.length ++ crlf ++ body ++ crlf) ++ [48, 13, 10, 13, 10]
  else body

def reqOp (cv sv : Nat) (authOk : Bool) (b : Block) (body : Bytes) (trailers : Block) : String :=
  if cv = 2 then
    if !h2ValidReq b || !h2ClOk false b body.length (!trailers.isEmpty) || !(trailers.isEmpty || h2ValidTrailers trailers) then "reject"
    else match parseH2Request authOk b with
      | none => "reject"
      | some r =>
        if !validateRequest r false then "reject"
        else if sv = 1 then
          "h1 " ++ showBytes (assembleRequestHead r.method r.path sHttp11 (toH1Fields r body) ++ body)
        else
          -- transparent mode: HttpStream takes the scheme from the transport (plain TCP in the rig), not from the message
          "h2 " ++ showBlock (formatH2Request { r with scheme := sHttp } true) ++ " " ++ showBytes body ++ " "
            ++ showBlock (normalizeH2 trailers)
  else
    match b with
    | (_, m) :: (_, p) :: fs =>
      let r : Req := ⟨m, sHttp, [], p, fs⟩
      if !validateRequest r true then "reject"
      else if sv = 1 then "h1 " ++ showBytes (assembleRequestHead m p sHttp11 fs ++ h1Body fs body)
      else "h2 " ++ showBlock (formatH2Request r false) ++ " " ++ showBytes body ++ " -"
    | _ => "bad-op"

/-- the streamed HTTP/2 -> HTTP/1 request conversion (flow.request.stream) -/
def reqStreamedOp (authOk : Bool) (b : Block) (body : Bytes) : String :=
  if !h2ValidReq b || !h2ClOk false b body.length then "reject"
  else match h2ToH1Streamed authOk b [body] with
    | none => "reject"
    | some bs => "h1 " ++ showBytes bs

def respOp (sv cv : Nat) (method : Bytes) (reqTrailers : Bool) (b : Block) (body : Bytes) (trailers : Block) : String :=
  if sv = 2 then
    -- hyper-h2 remembers the request method from the last HEADERS frame it sent on the stream: request trailers erase it
    if !h2ValidResp b || !h2ClOk (method == sHead && !reqTrailers) b body.length (!trailers.isEmpty) || !(trailers.isEmpty || h2ValidTrailers trailers) then "reject"
    else match parseH2Response b with
      | none => "reject"
      | some (st, fs) =>
        if st < 200 then "reject"      -- informational responses are swallowed
        else if !validateHeaders fs false false (st = 204) then "reject"
        else if cv = 1 then
          "h1 " ++ showBytes (assembleResponseHead sHttp11 st (reason st) fs ++ (if bodiless method st then [] else body))
        else "h2 " ++ showBlock (formatH2Response st fs true) ++ " " ++ showBytes body ++ " " ++ showBlock (normalizeH2 trailers)
  else
    match b with
    | (_, [a, b', c]) :: fs =>
      let st := decVal a * 100 + decVal b' * 10 + decVal c
      if !validateHeaders fs true false (st = 204) then "reject"
      else if cv = 2 then "h2 " ++ showBlock (formatH2Response st fs false) ++ " " ++ showBytes body ++ " -"
      else "bad-op"
    | _ => "bad-op"

def stepLine (line : String) : String :=
  match fields line with
  | ["req", cv, sv, ok, blk, body, trl] =>
    match cv.toNat?, sv.toNat?, parseBlock blk, hexOr body, parseBlock trl with
    | some cv, some sv, some b, some bd, some t => reqOp cv sv (ok == "1") b bd t
    | _, _, _, _, _ => "bad-op"
  | ["reqs", ok, blk, body] =>
    match parseBlock blk, hexOr body with
    | some b, some bd => reqStreamedOp (ok == "1") b bd
    | _, _ => "bad-op"
  | ["resp", sv, cv, m, rt, blk, body, trl] =>
    match sv.toNat?, cv.toNat?, hexOr m, parseBlock blk, hexOr body, parseBlock trl with
    | some sv, some cv, some m, some b, some bd, some t => respOp sv cv m (rt == "1") b bd t
    | _, _, _, _, _, _ => "bad-op"
  | ["refparse", h] =>
    match hexOr h with
    | some bs =>
      match Ref.parse bs with
      | none => "none"
      | some ms => "some " ++ toString ms.length ++ (String.join (ms.map fun m =>
          " " ++ showBytes m.method ++ " " ++ showBytes m.target ++ " " ++ showBlock m.fields ++ " " ++ showBytes m.body))
    | none => "bad-op"
  | ["refresp", eof, m, h] =>
    match hexOr m, hexOr h with
    | some m, some bs =>
      match Ref.parseResp (eof == "1") [m] bs with
      | none => "R:none"
      | some ms => "R:some " ++ toString ms.length ++ (String.join (ms.map fun r =>
          " " ++ toString r.status ++ " " ++ showBytes r.reason ++ " " ++ showBlock r.fields ++ " " ++ showBytes r.body))
    | _, _ => "bad-op"
  | _ => "bad-op"

end C06Driver

def main : IO Unit := runPure C06Driver.stepLine
