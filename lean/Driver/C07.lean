import MitmVerif.Model.C07
import MitmVerif.Model.C07_Reader
import MitmVerif.Model.C07_Exchange
import MitmVerif.Model.C01
import MitmVerif.Model.C07_Writer
import Driver.Proto
open MitmVerif Driver

namespace C07Driver
open MitmVerif.C07

def showInt (i : Int) : String := if i < 0 then "-" ++ toString i.natAbs else toString i.natAbs

/-- option value on the wire: `none` or the hex of the option string; result: outer none = ill-formed / rejected -/
def optOf (s : String) : Option (Option (Option Int)) :=
  if s = "none" then some (some none)
  else match hexOr s with
    | some b => some ((parseSize b).map some)      -- inner none = ValueError -> OptionsError
    | none => none

def expOf (s : String) : Option ExpSize :=
  if s = "chunked" then some .unknown
  else if s = "eof" then some .untilEof
  else match s.splitOn ":" with
    | ["cl", n] => n.toNat?.map .known
    | _ => none

def chunksOf (s : String) : Option (List Bytes) :=
  if s = "-" then some []
  else (s.splitOn ",").mapM hexOr

def policyOf (s : String) : Option (Policy × (Bytes → Ret)) :=
  match s with
  | "none" => some (.none, fun d => .one d)
  | "true" => some (.setTrue, fun d => .one d)
  | "false" => some (.setFalse, fun d => .one d)
  | _ => (callableOf s).map fun f => (.callable, f)

/-- what else HttpStream emitted, as far as the outside can see it: the error response to the client (unless the
    connection was closed first: `blocked`), the error to the server, how often the headers hook and the message hook
    fired, and whether the end of the message was sent -/
def extraBits (outs : List Out) (blocked : Bool) : String :=
  let errc := outs.contains Out.errClient && !blocked
  s!"{if errc then 1 else 0} {if outs.contains Out.errServer then 1 else 0} {outs.count Out.hookHeaders} {outs.count Out.hookMsg} {if outs.contains Out.sendEnd then 1 else 0}"

def showChunks (l : List Bytes) : String :=
  if l.isEmpty then "-" else ",".intercalate (l.map Hex.encode)

def flow (dir lim thr store pol exp endS chunks : String) : String :=
  match optOf lim, optOf thr, policyOf pol, expOf exp, chunksOf chunks with
  | some l, some t, some (p, f), some e, some cs =>
    match l, t with
    | some l, some t =>
      if (dir ≠ "req" ∧ dir ≠ "resp") ∨ (store ≠ "0" ∧ store ≠ "1") ∨ (endS ≠ "0" ∧ endS ≠ "1") then "bad-op" else
      let o : Opts := { limit := l, thr := t, store := store == "1" }
      let resp := dir == "resp"
      let evs := Ev.headers e (endS == "1") :: (cs.map Ev.data ++ [Ev.eom])
      let r := run o resp p f init evs
      let outs := r.2
      let err := outs.contains Out.hookError
      let relayed := outs.contains Out.sendHead
      let smp := samples o resp p f init evs
      -- what reaches the peer: empty data events are not written by the HTTP/1 writers
      let peer := (dataOf outs).filter (· ≠ [])
      let content := match r.1.content with | some c => showBytes c | none => "none"
      s!"{if err then 1 else 0} {if relayed then 1 else 0} {showNatList smp} {showChunks peer} {content} {extraBits outs false}"
    | _, _ => "rejected"
  | _, _, _, _, _ => "bad-op"

def framingOf (s : String) : Option Framing :=
  if s = "chunked" then some .chunked
  else if s = "eof" then some .untilEof
  else match s.splitOn ":" with
    | ["cl", n] => n.toNat?.map .cl
    | _ => none

/-- the whole receive path: wire segments -> body readers -> HttpStream -/
def wire (dir lim thr store pol fr segs close : String) : String :=
  match optOf lim, optOf thr, policyOf pol, framingOf fr, chunksOf segs with
  | some l, some t, some (p, f), some fr, some sg =>
    match l, t with
    | some l, some t =>
      if (dir ≠ "req" ∧ dir ≠ "resp") ∨ (store ≠ "0" ∧ store ≠ "1") ∨ (close ≠ "0" ∧ close ≠ "1") then "bad-op" else
      let o : Opts := { limit := l, thr := t, store := store == "1" }
      let w := wireRun o (dir == "resp") p f fr sg (close == "1")
      let err := w.outs.contains Out.hookError
      let relayed := w.outs.contains Out.sendHead
      let peer := (dataOf w.outs).filter (· ≠ [])
      let content := match w.st.content with | some c => showBytes c | none => "none"
      s!"{if err then 1 else 0} {if relayed then 1 else 0} {showNatList w.smp} {showChunks peer} {content} {if w.sawTrailer then 2 else if w.protoErr then 1 else 0} {extraBits w.outs (dir == "req" && w.errBlocked)}"
    | _, _ => "rejected"
  | _, _, _, _, _ => "bad-op"

/-- one direction of an exchange, rendered like a `flow` reply -/
def renderSide (o : Opts) (rq rs : Side) (d : Bool) (evs : List (Bool × Ev)) : String :=
  let r := runX o rq rs {} evs
  let outs := outsOf d r.2
  let st := if d then r.1.resp else r.1.req
  let err := outs.contains Out.hookError
  let relayed := outs.contains Out.sendHead
  let smp := samplesX o rq rs d {} evs
  let peer := (dataOf outs).filter (· ≠ [])
  let content := match st.content with | some c => showBytes c | none => "none"
  s!"{if err then 1 else 0} {if relayed then 1 else 0} {showNatList smp} {showChunks peer} {content} {extraBits outs false}"

/-- request body and response body through the same HttpStream; the response block arrives after `at` request data
    events (`none`: after the end of the request; `some none`: never) -/
def exchAt (pos : Option (Option Nat)) (lim thr store p1 e1 s1 c1 p2 e2 s2 c2 : String) : String :=
  match optOf lim, optOf thr, policyOf p1, expOf e1, chunksOf c1, policyOf p2, expOf e2, chunksOf c2 with
  | some l, some t, some (pq, fq), some eq, some cq, some (pr, fr), some er, some cr =>
    match l, t with
    | some l, some t =>
      if (store ≠ "0" ∧ store ≠ "1") ∨ (s1 ≠ "0" ∧ s1 ≠ "1") ∨ (s2 ≠ "0" ∧ s2 ≠ "1") then "bad-op" else
      let o : Opts := { limit := l, thr := t, store := store == "1" }
      let rq : Side := ⟨pq, fq⟩
      let rs : Side := ⟨pr, fr⟩
      let tagq := fun (e : Ev) => ((false, e) : Bool × Ev)
      let evr : List (Bool × Ev) := ((Ev.headers er (s2 == "1")) :: (cr.map Ev.data ++ [Ev.eom])).map (fun e => (true, e))
      let dq := cq.map Ev.data
      let evs : List (Bool × Ev) := match pos with
        | none => (Ev.headers eq (s1 == "1") :: (dq ++ [Ev.eom])).map tagq ++ evr
        | some none => (Ev.headers eq (s1 == "1") :: (dq ++ [Ev.eom])).map tagq
        | some (some k) => (Ev.headers eq (s1 == "1") :: dq.take k).map tagq ++ evr ++ (dq.drop k ++ [Ev.eom]).map tagq
      renderSide o rq rs false evs ++ " | " ++ renderSide o rq rs true evs
    | _, _ => "rejected"
  | _, _, _, _, _, _, _, _ => "bad-op"

def exch (lim thr store p1 e1 s1 c1 p2 e2 s2 c2 : String) : String :=
  exchAt none lim thr store p1 e1 s1 c1 p2 e2 s2 c2

def stepLine (line : String) : String :=
  match fields line with
  | ["size", h] =>
    match hexOr h with
    | some b => match parseSize b with
      | some n => "ok " ++ showInt n
      | none => "err"
    | none => "bad-op"
  | ["frame", c, chunks] =>
    -- the HTTP/1 writers' framing of a list of data events followed by the end of the message
    match chunksOf chunks with
    | some cs =>
      if c ≠ "0" ∧ c ≠ "1" then "bad-op"
      else showBytes (wireOf (c == "1") (cs.map Out.sendData ++ [Out.sendEnd]))
    | none => "bad-op"
  | ["te", h] =>
    -- reader's classification of a Transfer-Encoding value (C01.parseTE) and the writers' chunk-framing test
    match hexOr h with
    | some v =>
      let reads := match MitmVerif.C01.parseTE v with
        | some (.chunkedFinal, _) => "chunked"
        | some (.other, _) => "other"
        | none => "err"
      let writes := MitmVerif.C01.containsSub MitmVerif.C01.sChunked (asciiLower v)
      s!"{reads} {if writes then 1 else 0}"
    | none => "bad-op"
  | ["flow", dir, lim, thr, store, pol, exp, endS, chunks] => flow dir lim thr store pol exp endS chunks
  | ["wire", dir, lim, thr, store, pol, fr, segs, close] => wire dir lim thr store pol fr segs close
  | ["exch", lim, thr, store, p1, e1, s1, c1, p2, e2, s2, c2] => exch lim thr store p1 e1 s1 c1 p2 e2 s2 c2
  | ["exchi", pos, lim, thr, store, p1, e1, s1, c1, p2, e2, s2, c2] =>
    if pos = "-" then exchAt (some none) lim thr store p1 e1 s1 c1 p2 e2 s2 c2
    else if pos = "end" then exchAt none lim thr store p1 e1 s1 c1 p2 e2 s2 c2
    else match pos.toNat? with
      | some k => exchAt (some (some k)) lim thr store p1 e1 s1 c1 p2 e2 s2 c2
      | none => "bad-op"
  | _ => "bad-op"

end C07Driver

def main : IO Unit := runPure C07Driver.stepLine
