import MitmVerif.Model.C08
import Driver.Proto
open MitmVerif Driver

namespace C08Driver
open MitmVerif.C08

def bit (s : String) : Option Bool := if s = "1" then some true else if s = "0" then some false else none
def optNat (s : String) : Option (Option Nat) := if s = "-" then some none else s.toNat?.map some
def b01 (b : Bool) : String := if b then "1" else "0"
def showVia : Option (Nat × Nat) → String | some (h, p) => s!"{h}:{p}" | none => "-"
def viaOf (s : String) : Option (Option (Nat × Nat)) :=
  if s = "-" then some none
  else match s.splitOn ":" with
    | [h, p] => match h.toNat?, p.toNat? with
      | some h, some p => some (some (h, p))
      | _, _ => none
    | _ => none

def showConn (c : Conn) : String :=
  let a := match c.addr with | some (h, p) => s!"{h}.{p}" | none => "-.-"
  let w := match c.waiting with
    | none => "n"
    | some ws => "w" ++ "+".intercalate (ws.map (fun (x : Nat × Spec) => toString x.1))
  s!"{a}.{b01 c.tls}.{showVia c.via}.{b01 c.udp}.{b01 c.tunnel}.{b01 c.canRead}{b01 c.canWrite}.{b01 c.error}.{b01 c.alpnH2}.{w}"

def showOut : Out → String
  | .routed rid _ cid => s!"r{rid}>{cid}"
  | .failed rid => s!"f{rid}"
  | .opened cid => s!"o{cid}"
  | .waitOn rid cid => s!"w{rid}@{cid}"

def showNote : Note → String | .none => "-" | .raised => "raised" | .set => "set"

def render (p : Pool) (outs : List Out) (n : Note) : String :=
  let o := if outs.isEmpty then "-" else ",".intercalate (outs.map showOut)
  let pool := if p.conns.isEmpty then "-" else ",".intercalate (p.conns.map showConn)
  let ctx := match p.ctxIn with | some i => s!"in{i}" | none => showConn p.ctx
  s!"{o} {showNote n} {pool} {ctx}"

def targetOf (s : String) : Option Target :=
  if s = "ctx" then some .ctx else s.toNat?.map .conn

def parseEv (fs : List String) : Option Ev :=
  match fs with
  | ["get", rid, h, p, t, v, u] =>
    match rid.toNat?, h.toNat?, p.toNat?, bit t, viaOf v, bit u with
    | some rid, some h, some p, some t, some v, some u => some (.get rid { host := h, port := p, tls := t, via := v, udp := u })
    | _, _, _, _, _, _ => none
  | ["res", cid, "ok", h2] =>
    match cid.toNat?, bit h2 with
    | some cid, some h2 => some (.result cid (.ok h2))
    | _, _ => none
  | ["res", cid, "fail", e] =>
    match cid.toNat?, bit e with
    | some cid, some e => some (.result cid (.fail e))
    | _, _ => none
  | ["state", t, r, w] =>
    match targetOf t, bit r, bit w with
    | some t, some r, some w => some (.setState t r w)
    | _, _, _ => none
  | ["pclose", t] => (targetOf t).map .peerClose
  | ["rdone", t, c] =>
    match targetOf t, bit c with
    | some t, some c => some (.responseDone t c)
    | _, _ => none
  | ["err", t] => (targetOf t).map .setError
  | ["poke", t, "addr", h, p] =>
    match targetOf t, optNat h, optNat p with
    | some t, some (some h), some (some p) => some (.poke t (.addr (some (h, p))))
    | some t, some none, some none => some (.poke t (.addr none))
    | _, _, _ => none
  | ["poke", t, "via", v] =>
    match targetOf t, viaOf v with
    | some t, some v => some (.poke t (.via v))
    | _, _ => none
  | _ => none

def initPool : Pool :=
  { ctx := { addr := none, tls := false, via := none, udp := false, tunnel := false, canRead := false, canWrite := false,
             error := false, alpnH2 := false, waiting := none } }

def stepLine (p : Pool) (line : String) : Pool × String :=
  match fields line with
  | ["reset", h2, h, po, t, v, r, w, e] =>
    match bit h2, optNat h, optNat po, bit t, viaOf v, bit r, bit w, bit e with
    | some h2, some h, some po, some t, some v, some r, some w, some e =>
      let addr := match h, po with | some h, some po => some (h, po) | _, _ => none
      let p' : Pool := { clientH2 := h2, ctx := { addr := addr, tls := t, via := v, udp := false, tunnel := false, canRead := r,
                                                  canWrite := w, error := e, alpnH2 := false, waiting := none } }
      (p', render p' [] .none)
    | _, _, _, _, _, _, _, _ => (p, "bad-op")
  | fs =>
    match parseEv fs with
    | some ev => let r := step p ev; (r.1, render r.1 r.2.1 r.2.2)
    | none => (p, "bad-op")

end C08Driver

def main : IO Unit := runState C08Driver.stepLine C08Driver.initPool
