import MitmVerif.Model.C09
import MitmVerif.Gen.C09
import Driver.Proto
open MitmVerif Driver MitmVerif.C09

def parseRes : String → Option Res
  | "ok" => some .ok | "err" => some .err | "cancel" => some .cancel | "data" => some .data | "eof" => some .eof
  | _ => none

def parseHk : String → Option Hk
  | "cc" => some .cc | "cd" => some .cd | "sc" => some .sc | "sd" => some .sd | "se" => some .se
  | "sx" => some .sx | "hk" => some .hk | _ => none

def parseKind : String → Option EvKind
  | "start" => some .start | "data" => some .data | "closed" => some .closed | "completed_ok" => some .cok
  | "completed_err" => some .cerr | "hookdone" => some .hookdone | _ => none

def parseTid (s : String) : Option Tid :=
  if s = "H" then some .H else if s = "C" then some .C
  else if s.startsWith "s" then (s.drop 1).toString.toNat?.map .S
  else if s.startsWith "k" then (s.drop 1).toString.toNat?.map .K
  else none

/-- `o<key>:<addr|->` or `k`, comma separated, `-` = none -/
def parseCmd (s : String) : Option Cmd :=
  if s = "k" then some .spawn
  else if s.startsWith "o" then
    match (s.drop 1).toString.splitOn ":" with
    | [k, a] => match k.toNat? with
      | some key => if a = "-" then some (.opn key none) else a.toNat?.map (fun n => .opn key (some n))
      | none => none
    | _ => none
  else none

def parseCmds (s : String) : Option (List Cmd) :=
  if s = "-" then some [] else (s.splitOn ",").mapM parseCmd

def parseAct : List String → Option Act
  | ["start"] => some .start
  | ["hook", h] => (parseHk h).map .hook
  | ["hookret", r, k] => match parseRes r with
    | some r => if k = "1" then some (.hookret r true) else if k = "0" then some (.hookret r false) else none
    | none => none
  | ["semwait"] => some .semwait
  | ["semacq"] => some .semacq
  | ["semcancel"] => some .semcancel
  | ["creq"] => some .creq
  | ["dial", a] => a.toNat?.map .dial
  | ["connret", r] => (parseRes r).map .connret
  | ["ev", k, cmds] => match parseKind k, parseCmds cmds with
    | some k, some c => some (.ev k c)
    | _, _ => none
  | ["readret", r] => (parseRes r).map .readret
  | ["wclose"] => some .wclose
  | ["semrel"] => some .semrel
  | ["fin"] => some .fin
  | _ => none

def hpcName : HPC → String
  | .h0 => "h0" | .inCC => "inCC" | .killClose => "killClose" | .preStart => "preStart" | .waitC => "waitC"
  | .preCD => "preCD" | .inCD => "inCD" | .final => "final" | .returned => "returned"

def b01 (b : Bool) : String := if b then "1" else "0"

def holders (s : St) : Nat := s.conns.countP (fun c => holding c.pc)

def summary (s : St) : String :=
  s!"{s.conns.countP (·.entry)} {s.conns.countP (fun c => wopen c.pc)} {b01 s.centry} {b01 s.cwopen} {holders s} {hpcName s.hpc} {s.nCC} {s.nCD} {b01 s.lateOpen} {s.hcount} {",".intercalate ((List.range 8).map (fun a => toString (s.waiters a).length))} {",".intercalate ((List.range 8).map (fun a => toString (s.size - s.semv a)))} {s.conns.countP (·.late)}"

def connSummary (s : St) : String :=
  if s.conns.isEmpty then "-" else
  ";".intercalate (s.conns.map fun c => s!"{c.nSC},{c.nSD},{c.nSE},{c.nSX},{b01 (c.pc == .done)}")

def c09Step (s : St) (line : String) : St × String :=
  match fields line with
  | ["reset"] => let s' := init MitmVerif.Gen.C09.semSize; (s', "ok")
  | "a" :: t :: rest => match parseTid t, parseAct rest with
    | some t, some a => match step s (.act t a) with
      | some s' => (s', "ok")
      | none => (s, "stuck")
    | _, _ => (s, "bad-op")
  | ["f", t] => match parseTid t with
    | some t => match step s (.cb t) with
      | some s' => (s', "ok")
      | none => (s, "stuck")
    | none => (s, "bad-op")
  | ["q"] => (s, summary s)
  | ["qc"] => (s, connSummary s)
  | _ => (s, "bad-op")

def main : IO Unit := runState c09Step (init MitmVerif.Gen.C09.semSize)
