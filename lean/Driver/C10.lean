import MitmVerif.Model.C10
import Driver.Proto
open MitmVerif Driver MitmVerif.C10

def pcName : PC → String
  | .wait => "wait"
  | .sleep _ => "sleep"
  | .fired => "fired"

def render (s : St) : String :=
  s!"{if s.pc = .fired then 1 else 0} {s.blocker}"

def c10Step (s : St) (line : String) : St × String :=
  match fields line with
  | ["reset", t] => match t.toNat? with
    | some to => let s' := start to; (s', render s')
    | none => (s, "bad-op")
  | ["a"] => let s' := step s .activity; (s', render s')
  | ["e"] => let s' := step s .enter; (s', render s')
  | ["x"] => if s.blocker = 0 then (s, "bad-op") else let s' := step s .exit; (s', render s')
  | ["t", d] => match d.toNat? with
    | some d => let s' := step s (.tick d); (s', render s')
    | none => (s, "bad-op")
  | _ => (s, "bad-op")

def main : IO Unit := runState c10Step (start 1)
