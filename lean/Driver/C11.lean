import MitmVerif.Model.C11
import Driver.Proto
open MitmVerif Driver MitmVerif.C11

namespace C11Driver

structure DS where
  kind : Kind := .tcp
  p : P := {}
  a : A := {}
  ps : List (Nat × S) := []      -- the composed system (layer × flow × hook tasks), one per key
  deriving Inhabited

/-- the Intercept addon's policy in the world cases: message 1 is the one that gets intercepted -/
def pol (id : Nat) : Bool := id == 1

def psGet (ps : List (Nat × S)) (key : Nat) : S :=
  match ps.find? (·.1 == key) with
  | some (_, s) => s
  | none => {}

def psSet (ps : List (Nat × S)) (key : Nat) (s : S) : List (Nat × S) :=
  (key, s) :: ps.filter (·.1 != key)

def kindOf : String → Option Kind
  | "http" => some .http | "dnsReq" => some .dnsReq | "dnsResp" => some .dnsResp | "ws" => some .ws
  | "tcp" => some .tcp | "udp" => some .udp | _ => none

def boolOf : String → Option Bool
  | "0" => some false | "1" => some true | _ => none

def outName : Out → String
  | .hook i => s!"H{i}"
  | .send i c => s!"S{i}:{c}"
  | .error i => s!"E{i}"

def render (o : List Out) : String := if o.isEmpty then "-" else " ".intercalate (o.map outName)

def taskName : Task → String
  | .waiting => "w" | .done => "d"

def renderA (a : A) : String :=
  (if a.tasks.isEmpty then "-" else String.join (a.tasks.map taskName)) ++ " " ++ (if a.f.intercepted then "1" else "0")

def stepLine (s : DS) (line : String) : DS × String :=
  match fields line with
  | ["reset", k] => match kindOf k with
    | some k => ({ kind := k }, "ok")
    | none => (s, "bad-op")
  | ["a", key, id, c] => match key.toNat?, id.toNat?, c.toNat? with
    | some key, some id, some c =>
      let (p, o) := stepP s.kind s.p key (.arrive ⟨id, c⟩)
      ({ s with p }, render o)
    | _, _, _ => (s, "bad-op")
  | ["c", key, kl, dr, c] => match key.toNat?, boolOf kl, boolOf dr, c.toNat? with
    | some key, some kl, some dr, some c =>
      let (p, o) := stepP s.kind s.p key (.complete ⟨kl, dr, c⟩)
      ({ s with p }, render o)
    | _, _, _, _ => (s, "bad-op")
  | ["x", key, kl, gn] => match key.toNat?, boolOf kl, boolOf gn with
    | some key, some kl, some gn =>
      let (p, o) := stepP s.kind s.p key (.close kl gn)
      ({ s with p }, render o)
    | _, _, _ => (s, "bad-op")
  -- the composed system: `p <key> <input>`; reply = outputs, then whether a `deliver` would be enabled now
  | "p" :: key :: rest => match key.toNat? with
    | none => (s, "bad-op")
    | some key =>
      let i? : Option PIn := match rest with
        | ["a", id, c] => match id.toNat?, c.toNat? with
          | some id, some c => some (.arrive ⟨id, c⟩)
          | _, _ => none
        | ["d"] => some .deliver
        | ["x", kl, gn] => match boolOf kl, boolOf gn with
          | some kl, some gn => some (.close kl gn)
          | _, _ => none
        | ["intercept"] => some .intercept
        | ["resume"] => some .resume
        | ["kill"] => some .kill
        | ["e", c] => c.toNat?.map .edit
        | ["drop"] => some .drop
        | _ => none
      match i? with
      | none => (s, "bad-op")
      | some i =>
        let r := pstep s.kind pol (psGet s.ps key) i
        ({ s with ps := psSet s.ps key r.1 },
         render r.2 ++ (if (lin r.1 .deliver).isSome then " !" else ""))
  | ["areset"] => ({ s with a := {} }, "ok")
  | ["hook", b] => match boolOf b with
    | some b => let a := stepA s.a (.hook b); ({ s with a }, renderA a)
    | none => (s, "bad-op")
  | ["intercept"] => let a := stepA s.a .intercept; ({ s with a }, renderA a)
  | ["resume"] => let a := stepA s.a .resume; ({ s with a }, renderA a)
  | ["kill"] => let a := stepA s.a .kill; ({ s with a }, renderA a)
  | _ => (s, "bad-op")

end C11Driver

def main : IO Unit := runState C11Driver.stepLine {}
