import MitmVerif.Model.C12
import Driver.Proto
open MitmVerif Driver

def c12Status (s : String) : Option Nat :=
  match s.toNat? with
  | some n => if 100 ≤ n ∧ n ≤ 999 then some n else none
  | none => none

def c12Step (line : String) : String :=
  match fields line with
  | ["fmt", s, h] =>
    match c12Status s, hexOr h with
    | some st, some m => showBytes (C12.formatError st m)
    | _, _ => "bad-op"
  | ["resp", s, h] =>
    match c12Status s, hexOr h with
    | some st, some m => showBytes (C12.makeErrorResponse st m)
    | _, _ => "bad-op"
  | ["h2hdr", s] =>
    match c12Status s with
    | some st => ",".intercalate ((C12.h2ErrorHeaders st).map fun h => showBytes h.1 ++ ":" ++ showBytes h.2)
    | none => "bad-op"
  | ["err", cw, st, code, h] =>
    match code.toNat?, hexOr h with
    | some c, some m =>
      if (cw == "0" || cw == "1") && (st == "0" || st == "1") then
        let r := C12.h1ErrorReply (cw == "1") (st == "1") c m
        (match r.1 with | some b => showBytes b | none => "nopage") ++ (if r.2 then " close" else " open")
      else "bad-op"
    | _, _ => "bad-op"
  | ["errh", cw, head, code, h] =>
    match head.toNat?, code.toNat?, hexOr h with
    | some hd, some c, some m =>
      if cw == "0" || cw == "1" then
        let r := C12.h1ErrorReplyAfter (cw == "1") (if hd = 0 then none else some hd) c m
        (match r.1 with | some b => showBytes b | none => "nopage") ++ (if r.2 then " close" else " open")
      else "bad-op"
    | _, _, _ => "bad-op"
  | ["esc", h] =>
    match hexOr h with
    | some m => showBytes (C12.htmlEscape m)
    | none => "bad-op"
  | ["parse", h] =>
    match hexOr h with
    | some b => match C12.refParse b with
      | some r => s!"ok {r.status} {showBytes r.body}"
      | none => "err"
    | none => "bad-op"
  | _ => "bad-op"

def main : IO Unit := runPure c12Step
