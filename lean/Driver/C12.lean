import MitmVerif.Model.C12
import Driver.Proto
open MitmVerif Driver

def c12Status (s : String) : Option Nat :=
  match s.toNat? with
  | some n => if 100 ≤ n ∧ n ≤ 999 then some n else none
  | none => none

def c12Op (f : String) : Option C12.H1Op :=
  match f.splitOn ":" with
  | ["r", st, hb] => match st.toNat?, hexOr hb with
    | some st, some hb => some (.relay st hb)
    | _, _ => none
  | ["b", ch] => (hexOr ch).map .body
  | ["e", code, m] => match code.toNat?, hexOr m with
    | some c, some m => some (.error c m)
    | _, _ => none
  | _ => none

def c12Step (line : String) : String :=
  match fields line with
  | ["fmt", s, h] =>
    match c12Status s, hexOr h with
    | some st, some m => showBytes (C12.formatError st m)
    | _, _ => "bad-op"
  | ["resp", s, h] =>
    match c12Status s, hexOr h with
    | some st, some m => showBytes (C12.makeErrorResponse st m)
    | _, _ => "bad-op"
  | ["h2hdr", s] =>
    match c12Status s with
    | some st => ",".intercalate ((C12.h2ErrorHeaders st).map fun h => showBytes h.1 ++ ":" ++ showBytes h.2)
    | none => "bad-op"
  | ["err", cw, st, code, h] =>
    match code.toNat?, hexOr h with
    | some c, some m =>
      if (cw == "0" || cw == "1") && (st == "0" || st == "1") then
        let r := C12.h1ErrorReply (cw == "1") (st == "1") c m
        (match r.1 with | some b => showBytes b | none => "nopage") ++ (if r.2 then " close" else " open")
      else "bad-op"
    | _, _ => "bad-op"
  | ["errh", cw, head, code, h] =>
    match head.toNat?, code.toNat?, hexOr h with
    | some hd, some c, some m =>
      if cw == "0" || cw == "1" then
        let r := C12.h1ErrorReplyAfter (cw == "1") (if hd = 0 then none else some hd) c m
        (match r.1 with | some b => showBytes b | none => "nopage") ++ (if r.2 then " close" else " open")
      else "bad-op"
    | _, _, _ => "bad-op"
  | ["h2err", cl, op, hs, code, h] =>
    match code.toNat?, hexOr h with
    | some c, some m =>
      if (cl == "0" || cl == "1") && (op == "0" || op == "1") && (hs == "0" || hs == "1") then
        match C12.h2ErrorReply (cl == "1") (op == "1") (hs == "1") c m with
        | .nothing => "nothing"
        | .reset k => s!"reset {k}"
        | .page hd body => "page " ++ ",".intercalate (hd.map fun x => showBytes x.1 ++ ":" ++ showBytes x.2) ++ " " ++ showBytes body
      else "bad-op"
    | _, _ => "bad-op"
  | ["h1seq", ops] =>
    match (ops.splitOn ",").mapM c12Op with
    | some ops =>
      let c := C12.h1Run ops
      s!"{showBytes c.wire} {c.pages} {if c.canWrite then "open" else "closed"}"
    | none => "bad-op"
  | ["esc", h] =>
    match hexOr h with
    | some m => showBytes (C12.htmlEscape m)
    | none => "bad-op"
  | ["parse", h] =>
    match hexOr h with
    | some b => match C12.refParse b with
      | some r => s!"ok {r.status} {showBytes r.body}"
      | none => "err"
    | none => "bad-op"
  | _ => "bad-op"

def main : IO Unit := runPure c12Step
