import MitmVerif.Model.C13
import Driver.Proto
open MitmVerif Driver MitmVerif.C13

namespace C13Driver

/-- `count,item,item…` — never empty, no spaces -/
def showList (items : List String) : String :=
  ",".intercalate (toString items.length :: items)

/-- `validHost` under the four constant library answers (ace, ip) = 00 01 10 11 -/
def hostBits (nm : Bytes) : String :=
  let b (a i : Bool) : String := if validHost ⟨fun _ => a, fun _ => i⟩ nm then "1" else "0"
  b false false ++ b false true ++ b true false ++ b true true

def showHello (h : Hello) : String :=
  "hello c=" ++ showList (h.ciphers.map toString) ++
  " e=" ++ showList (h.extView.map (fun e => toString e.1 ++ ":" ++ showBytes e.2)) ++
  " a=" ++ showList (h.alpn.map showBytes) ++
  " s=" ++ showList (h.sniCandidates.map (fun c => showBytes c ++ ":" ++ hostBits c))

def showRes : Res Hello → String
  | .incomplete => "incomplete"
  | .invalid => "invalid"
  | .ok h => showHello h

def flag? (s : String) : Option Bool :=
  if s = "0" then some false else if s = "1" then some true else none

def allHex : List String → Option (List Bytes)
  | [] => some []
  | s :: ss =>
    match hexOr s, allHex ss with
    | some b, some r => some (b :: r)
    | _, _ => none

def step (line : String) : String :=
  match fields line with
  | ["parse", d, h] =>
    match flag? d, hexOr h with
    | some dtls, some b => showRes (parse dtls b)
    | _, _ => "bad-op"
  | ["vhost", h] =>
    match hexOr h with
    | some b => hostBits b
    | none => "bad-op"
  | ["starts", d, h] =>
    match flag? d, hexOr h with
    | some dtls, some b => (if startsLike dtls b then "1" else "0") ++ (if startsP dtls b then "1" else "0")
    | _, _ => "bad-op"
  | "feed" :: d :: segs =>
    match flag? d, allHex segs with
    | some dtls, some ss => showRes (feedAll dtls [] ss)
    | _, _ => "bad-op"
  | _ => "bad-op"

end C13Driver

def main : IO Unit := runPure C13Driver.step
