import MitmVerif.Model.C13
import MitmVerif.Model.C13_Idna
import MitmVerif.Model.C13_Nameprep
import Driver.Proto
open MitmVerif Driver MitmVerif.C13 MitmVerif.C13.Build

namespace C13Driver

/-- `count,item,item…` — never empty, no spaces -/
def showList (items : List String) : String :=
  ",".intercalate (toString items.length :: items)

/-- `validHost` under the four constant library answers (ace, ip) = 00 01 10 11 -/
def hostBits (nm : Bytes) : String :=
  let b (a i : Bool) : String := if validHost ⟨fun _ => a, fun _ => i⟩ nm then "1" else "0"
  b false false ++ b false true ++ b true false ++ b true true

/-- the model's own verdict when no library is needed (no `xn--` in the name), else `?` -/
def hostVerdict (nm : Bytes) : String :=
  if isInfix acePrefix nm then "?" else if validHostT noIdna nm then "1" else "0"

/-- `"!"` = the codec raised -/
def optHex (s : String) : Option (Option Bytes) :=
  if s = "!" then some none else (hexOr s).map some

/-- `12,34,56` / `-` (empty) -/
def parseCps (s : String) : Option (List Nat) :=
  if s = "-" then some []
  else (s.splitOn ",").foldr (fun x acc => match x.toNat?, acc with | some n, some r => some (n :: r) | _, _ => none) (some [])

/-- nameprep answers recorded from the interpreter: `in>out;in>!;…` or `-` -/
def parseTable (s : String) : Option (List (List Nat × Option (List Nat))) :=
  if s = "-" then some []
  else (s.splitOn ";").foldr (fun e acc =>
    match e.splitOn ">", acc with
    | [a, b], some r =>
      match parseCps a, (if b = "!" then some none else (parseCps b).map some) with
      | some k, some v => some ((k, v) :: r)
      | _, _ => none
    | _, _ => none) (some [])

def tableNameprep (tab : List (List Nat × Option (List Nat))) (dflt : Option (List Nat)) : Idna.Nameprep :=
  ⟨fun cps => match tab.find? (fun e => e.1 == cps) with | some e => e.2 | none => dflt⟩

/-- run `f` under two different defaults for questions the table does not answer: a difference = `lib-miss` -/
def withTable (tab : List (List Nat × Option (List Nat))) (f : Idna.Nameprep → String) : String :=
  let a := f (tableNameprep tab none)
  let b := f (tableNameprep tab (some [0x61]))
  if a == b then a else "lib-miss"

def showHello (h : Hello) : String :=
  "hello c=" ++ showList (h.ciphers.map toString) ++
  " e=" ++ showList (h.extView.map (fun e => toString e.1 ++ ":" ++ showBytes e.2)) ++
  " a=" ++ showList (h.alpn.map showBytes) ++
  " s=" ++ showList (h.sniCandidates.map (fun c => showBytes c ++ ":" ++ hostBits c ++ ":" ++ hostVerdict c)) ++
  -- `ClientHello.sni` itself: `Hello.sni` with the complete `is_valid_host` model (no library answer)
  " n=" ++ (match h.sni Np.validHostFull with | some nm => "some:" ++ showBytes nm | none => "none")

/-! ### op `build`: the specification-side builder, so that its bytes can be compared with an independent builder's -/

def splitOnStr (s : String) (sep : String) : List String := if s = "nil" then [] else s.splitOn sep

/-- `t/hex` -/
def parseTyped (s : String) : Option (Nat × Bytes) :=
  match s.splitOn "/" with
  | [t, h] => match t.toNat?, hexOr h with | some n, some b => some (n, b) | _, _ => none
  | _ => none

/-- `s:t/hex,t/hex` | `a:hex,hex` | `o:typ/hex` -/
def parseBExt (s : String) : Option BExt :=
  if s.startsWith "s:" then ((s.drop 2).toString.splitOn ",").mapM parseTyped |>.map BExt.sni
  else if s.startsWith "a:" then ((s.drop 2).toString.splitOn ",").mapM hexOr |>.map BExt.alpn
  else if s.startsWith "o:" then (parseTyped (s.drop 2).toString).map (fun x => BExt.other x.1 x.2)
  else none

/-- `none` (no extension block) | `nil` (empty block) | `ext;ext;…` -/
def parseExts (s : String) : Option (Option (List BExt)) :=
  if s = "none" then some none
  else if s = "nil" then some (some [])
  else ((s.splitOn ";").mapM parseBExt).map some

def cutBy : List Nat → Bytes → List Bytes
  | [], _ => []
  | n :: ns, d => d.take n :: cutBy ns (d.drop n)

def showRes : Res Hello → String
  | .incomplete => "incomplete"
  | .invalid => "invalid"
  | .ok h => showHello h

def flag? (s : String) : Option Bool :=
  if s = "0" then some false else if s = "1" then some true else none

def allHex : List String → Option (List Bytes)
  | [] => some []
  | s :: ss =>
    match hexOr s, allHex ss with
    | some b, some r => some (b :: r)
    | _, _ => none

def step (line : String) : String :=
  match fields line with
  | ["parse", d, h] =>
    match flag? d, hexOr h with
    | some dtls, some b => showRes (parse dtls b)
    | _, _ => "bad-op"
  | ["build", d, ver, rnd, sid, ck, cs, comp, exts, seq, pres, sizes, trail] =>
    -- a structured hello → wire bytes by `BHello.message` / `fragsOf` + `records` (+ trailing bytes)
    match flag? d, hexOr ver, hexOr rnd, hexOr sid, hexOr ck, parseCps cs, hexOr comp, parseExts exts, hexOr seq,
          (splitOnStr pres ",").mapM hexOr, parseCps sizes, hexOr trail with
    | some dtls, some ver, some rnd, some sid, some ck, some cs, some comp, some exts, some seq, some pres, some sizes, some trail =>
      let h : BHello := { ver := ver, random := rnd, sid := sid, cookie := ck, ciphers := cs, comp := comp, exts := exts }
      let pieces : List Bytes :=
        if dtls && sizes.length > 1 then fragsOf seq (h.body true).length 0 (h.body true) sizes
        else if dtls then [h.message true seq]
        else cutBy sizes (h.message false seq)
      if pieces.length ≠ pres.length then "bad-op"
      else showBytes (records (pres.zip pieces) ++ trail)
    | _, _, _, _, _, _, _, _, _, _, _, _ => "bad-op"
  | ["vhost", h] =>
    match hexOr h with
    | some b => hostBits b
    | none => "bad-op"
  | ["vhostT", h, dn, dh] =>
    -- name, real `name.decode("idna")`, real `strip_dot(name).decode("idna")` (UTF-8 hex, or `!`)
    match hexOr h, optHex dn, optHex dh with
    | some nm, some an, some ah =>
      let I : IdnaLib := ⟨fun x => if x == nm then an else if x == stripDot nm then ah else none⟩
      if validHostT I nm then "1" else "0"
    | _, _, _ => "bad-op"
  | ["idnaN", h, t] =>
    -- `raw.decode("idna")` computed by the transcription (UTF-8 hex, `!` = UnicodeError); only nameprep is supplied
    match hexOr h, parseTable t with
    | some raw, some tab =>
      withTable tab (fun N => match idnaText (Idna.idnaOf N) raw with | some b => showBytes b | none => "!")
    | _, _ => "bad-op"
  | ["nprep", c] =>
    -- `encodings.idna.nameprep` computed by the model from the regenerated Unicode tables
    match parseCps c with
    | some cps =>
      match Np.nameprep cps with
      | some r => if r.isEmpty then "-" else ",".intercalate (r.map toString)
      | none => "!"
    | none => "bad-op"
  | ["vhostF", h] =>
    -- `is_valid_host` with NO library answer supplied
    match hexOr h with
    | some nm => if Np.validHostFull nm then "1" else "0"
    | none => "bad-op"
  | ["vhostN", h, t] =>
    match hexOr h, parseTable t with
    | some nm, some tab => withTable tab (fun N => if Idna.validHostN N nm then "1" else "0")
    | _, _ => "bad-op"
  | ["starts", d, h] =>
    match flag? d, hexOr h with
    | some dtls, some b => (if startsLike dtls b then "1" else "0") ++ (if startsP dtls b then "1" else "0")
    | _, _ => "bad-op"
  | "feed" :: d :: segs =>
    match flag? d, allHex segs with
    | some dtls, some ss => showRes (feedAll dtls [] ss)
    | _, _ => "bad-op"
  | _ => "bad-op"

end C13Driver

def main : IO Unit := runPure C13Driver.step
