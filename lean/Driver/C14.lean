import MitmVerif.Lemmas.C14_RefL
import Driver.Proto
open MitmVerif Driver MitmVerif.C14

namespace C14Driver

def parseCmd (t : String) : Option CCmd :=
  if t = "x" then some .close
  else if t = "o" then some .open_
  else if t.startsWith "s" then (hexOr (t.drop 1).toString).map CCmd.send
  else if t.startsWith "u" then (t.drop 1).toString.toNat?.map CCmd.other
  else none

def parseCmds (s : String) : Option (List CCmd) :=
  if s = "-" then some [] else (s.splitOn "+").mapM parseCmd

structure ChildSpec where
  onStart : List CCmd := []
  onOpened : List CCmd := []
  onOther : List (Nat × List CCmd) := []

def parseChild (s : String) : Option ChildSpec :=
  (s.splitOn ";").foldlM (init := ({} : ChildSpec)) fun acc part =>
    match part.splitOn "=" with
    | [k, v] =>
      match parseCmds v with
      | none => none
      | some cs =>
        if k = "start" then some { acc with onStart := cs }
        else if k = "opened" then some { acc with onOpened := cs }
        else if k.startsWith "o" then (k.drop 1).toString.toNat?.map (fun n => { acc with onOther := acc.onOther ++ [(n, cs)] })
        else none
    | _ => none

def childOf (c : ChildSpec) : Child := fun _ e =>
  match e with
  | .start => c.onStart
  | .opened false => c.onOpened
  | .other n => (c.onOther.find? (·.1 == n)).map (·.2) |>.getD []
  | _ => []

def parseStep (t : String) : Option Ev :=
  if t = "C" then some .closeEv
  else if t = "S0" then some (.start false) else if t = "S1" then some (.start true)
  else if t = "R0" then some (.openReply false) else if t = "R1" then some (.openReply true)
  else if t.startsWith "D" then (hexOr (t.drop 1).toString).map Ev.data
  else if t.startsWith "O" then (t.drop 1).toString.toNat?.map Ev.other
  else none

def showCEv : CEv → String
  | .start => "st"
  | .data d => "d" ++ showBytes d
  | .closed => "cl"
  | .opened e => if e then "op1" else "op0"
  | .other n => "o" ++ toString n

/-- up tokens: maximal runs of SendData are decoded by the reference framing -/
def showUps : List Up → Bytes → List String
  | [], acc => let p := RefL.enc acc; if p.isEmpty then [] else ["P" ++ showBytes p]
  | .send d :: r, acc => showUps r (acc ++ d)
  | u :: r, acc =>
    let p := RefL.enc acc
    let pre := if p.isEmpty then [] else ["P" ++ showBytes p]
    let tok := match u with
      | .close => ["X"] | .openTunnel => ["OT"] | .openServer => ["OS"]
      | .hook n => ["H" ++ toString n] | .other n => ["U" ++ toString n]
      | _ => []
    pre ++ tok ++ showUps r []

def joinOr (l : List String) : String := if l.isEmpty then "-" else "+".intercalate l

def showSt : TState → String
  | .inactive => "inactive" | .establishing => "establishing" | .open_ => "open" | .closed => "closed"

def runGroups (env : Env RefL.refCodec) (child : Child) : St RefL.refCodec → List (List Ev) → List String → St RefL.refCodec × List String
  | s, [], acc => (s, acc)
  | s, g :: r, acc =>
    let s' := g.foldl (handle env child) s
    let dc := s'.toChild.drop s.toChild.length
    let du := s'.up.drop s.up.length
    runGroups env child s' r (acc ++ ["c:" ++ joinOr (dc.map showCEv) ++ ";u:" ++ joinOr (showUps du [])])

/-- `&tok` joins the previous group (the world performs both within one step) -/
def groupSteps (toks : List String) : Option (List (List Ev)) :=
  toks.foldlM (init := ([] : List (List Ev))) fun acc t =>
    if t.startsWith "&" then
      match parseStep (t.drop 1).toString, acc.reverse with
      | some e, last :: before => some (before.reverse ++ [last ++ [e]])
      | _, _ => none
    else (parseStep t).map (fun e => acc ++ [[e]])

def step (line : String) : String :=
  match fields line with
  | ["run", side, mk, hl, child, steps] =>
    match (if side = "s" then some Side.server else if side = "c" then some Side.client else none),
          hl.toNat?, parseChild child, groupSteps (steps.splitOn ",") with
    | some sd, some helloLen, some cs, some evs =>
      if mk ≠ "0" ∧ mk ≠ "1" then "bad-op" else
      let env : Env RefL.refCodec :=
        { mkTls := if mk = "1" then some (RefL.refInit (sd == .server)) else none
          parse := fun b => match b.head? with
            | none => .incomplete
            | some t => if t ≠ 0x16 then .invalid else if b.length < helloLen then .incomplete else .complete
          serverFirst := false }
      let (s, outs) := runGroups env (childOf cs) { side := sd } evs []
      "|".intercalate outs ++ " st=" ++ showSt s.st ++ " q=" ++ toString s.queue.length
        ++ " crashed=" ++ (if s.crashed then "1" else "0") ++ " errored=" ++ (if s.errored then "1" else "0")
    | _, _, _, _ => "bad-op"
  | _ => "bad-op"

end C14Driver

def main : IO Unit := runPure C14Driver.step
