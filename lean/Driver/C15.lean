import MitmVerif.Model.C15
import MitmVerif.Model.C15_Classify
import MitmVerif.Gen.C15
import Driver.Proto
open MitmVerif Driver MitmVerif.C15

namespace C15Driver

def parseG (s : String) : Option GName :=
  match s.splitOn ":" with
  | [k, h] =>
    match hexOr h with
    | none => none
    | some b =>
      if k = "d" then some (.dns b) else if k = "i" then some (.ip b)
      else if k.startsWith "o" then (k.drop 1).toString.toNat?.map (fun n => GName.other n b) else none
  | _ => none

def parseList (s : String) : Option (List GName) :=
  if s = "nil" then some [] else (s.splitOn ",").mapM parseG

def parseOptHex (s : String) : Option (Option Bytes) :=
  if s = "n" then some none else (hexOr s).map some

def parseBool (s : String) : Option Bool :=
  if s = "1" then some true else if s = "0" then some false else none

def b01 (b : Bool) : String := if b then "1" else "0"

def showRef : Option RefId → String
  | some (.host v) => "h:" ++ showBytes v
  | some (.addr v) => "a:" ++ showBytes v
  | none => "none"

def step (line : String) : String :=
  match fields line with
  | ["match", p, r] =>
    match hexOr p, hexOr r with
    | some pb, some rb => "spec=" ++ b01 (specMatchDns pb rb) ++ " ossl=" ++ b01 (osslMatchDns pb rb)
    | _, _ => "bad-op"
  | ["cls", h] =>
    match hexOr h with
    | none => "bad-op"
    | some b =>
      if !isAscii b then "nonascii"
      else match classifyAscii b with
        | some (.dns v) => "d:" ++ showBytes v
        | some (.ip v) => "i:" ++ showBytes v
        | some (.other _ _) => "other"
        | none => "x"
  | ["qhs", ins, ssni, csni, addr, cls, chain, sans] =>
    let clsP : Option (Option GName) := if cls = "x" then some none else (parseG cls).map some
    match parseBool ins, parseOptHex ssni, parseOptHex csni, hexOr addr, clsP, parseBool chain, parseList sans with
    | some i, some ss, some cs, some a, some c, some ch, some sl =>
      let cfg : Cfg := ⟨i, ss, cs, a⟩
      match outcomeT .quic (fun _ => c) Gen.C15.defaultHostflags cfg ch sl with
      | .established => "established" | .failed => "failed" | .hookRaised => "hookRaised"
    | _, _, _, _, _, _, _ => "bad-op"
  | ["hs", ins, ssni, csni, addr, cls, chain, sans] =>
    let clsP : Option (Option GName) := if cls = "x" then some none else (parseG cls).map some
    match parseBool ins, parseOptHex ssni, parseOptHex csni, hexOr addr, clsP, parseBool chain, parseList sans with
    | some i, some ss, some cs, some a, some c, some ch, some sl =>
      let cfg : Cfg := ⟨i, ss, cs, a⟩
      let classify : Bytes → Option GName := fun _ => c
      let planS := match startServer classify Gen.C15.defaultHostflags cfg with
        | .plan p => "verify=" ++ b01 p.verifyPeer ++ " ext=" ++ (match p.sniExt with | some e => showBytes e | none => "none")
            ++ " ref=" ++ showRef p.ref ++ " flags=" ++ toString p.hostflags
        | .noSni => "noSni"
        | .badName => "badName"
      let o := match outcome classify Gen.C15.defaultHostflags cfg ch sl with
        | .established => "established" | .failed => "failed" | .hookRaised => "hookRaised"
      o ++ " " ++ planS ++ " eff=" ++ showBytes (effSni cfg)
    | _, _, _, _, _, _, _ => "bad-op"
  | _ => "bad-op"

end C15Driver

def main : IO Unit := runPure C15Driver.step
