import MitmVerif.Model.C16
import Driver.Proto
open MitmVerif Driver MitmVerif.C15 MitmVerif.C16

namespace C16Driver

/-- `d:<hex>` | `i:<hex>` | `o<kind>:<hex>` -/
def parseG (s : String) : Option GName :=
  match s.splitOn ":" with
  | [k, h] =>
    match hexOr h with
    | none => none
    | some b =>
      if k = "d" then some (.dns b) else if k = "i" then some (.ip b)
      else if k.startsWith "o" then (k.drop 1).toString.toNat?.map (fun n => GName.other n b) else none
  | _ => none

def showG : GName → String
  | .dns v => "d:" ++ showBytes v
  | .ip v => "i:" ++ showBytes v
  | .other k v => "o" ++ toString k ++ ":" ++ showBytes v

def parseList (s : String) : Option (List GName) :=
  if s = "nil" then some [] else (s.splitOn ",").mapM parseG

/-- source string with its classification: `<hex>=<gname>` or `<hex>=x` (the codec raises) -/
def parseSrc (s : String) : Option (Bytes × Option GName) :=
  match s.splitOn "=" with
  | [h, c] =>
    match hexOr h with
    | none => none
    | some b => if c = "x" then some (b, none) else (parseG c).map (fun g => (b, some g))
  | _ => none

def parseOptSrc (s : String) : Option (Option (Bytes × Option GName)) :=
  if s = "n" then some none else (parseSrc s).map some

def parseOptHex (s : String) : Option (Option Bytes) :=
  if s = "n" then some none else (hexOr s).map some

def showOptHex : Option Bytes → String
  | some b => showBytes b
  | none => "none"

def lookup (tbl : List (Bytes × Option GName)) (b : Bytes) : Option GName :=
  match tbl.find? (fun e => e.1 == b) with
  | some e => e.2
  | none => none

def showPlan (p : C16.Plan) : String :=
  "cn=" ++ showOptHex p.subjectCn ++ ";org=" ++ showOptHex p.subjectOrg ++ ";crit=" ++ (if p.sanCritical then "1" else "0")
    ++ ";sans=" ++ (if p.sans.isEmpty then "nil" else ",".intercalate (p.sans.map showG))
    ++ ";crl=" ++ showOptHex p.crl ++ ";aki=" ++ (if p.akiFromSki then "ski" else "key")
    ++ ";eku=" ++ (if p.ekuServerAuth then "serverAuth" else "none")
    ++ ";nb=" ++ toString p.notBefore ++ ";na=" ++ toString p.notAfter

def step (line : String) : String :=
  match fields line with
  | ["leaf", ski, up, sni, loc, addr] =>
    let upP : Option (Option (Upstream × List (Bytes × Option GName))) :=
      if up = "none" then some none else
      match up.splitOn "|" with
      | [cn, sans, org, crl] =>
        match parseOptSrc cn, parseList sans, parseOptHex org, parseOptHex crl with
        | some c, some sl, some o, some cr =>
          some (some ({ cn := c.map (·.1), sans := sl, org := o, crl := cr }, c.toList))
        | _, _, _, _ => none
      | _ => none
    match upP, parseOptSrc sni, parseSrc loc, parseOptSrc addr with
    | some u, some s, some l, some a =>
      if ski ≠ "0" ∧ ski ≠ "1" then "bad-op" else
      let tbl := (match u with | some x => x.2 | none => []) ++ s.toList ++ [l] ++ a.toList
      let r : Req := { up := u.map (·.1), sni := s.map (·.1), localAddr := l.1, addr := a.map (·.1) }
      match leaf (lookup tbl) Gen.C16.validityOffset Gen.C16.certExpiry (ski = "1") 0 r with
      | some p => showPlan p
      | none => "raised"
    | _, _, _, _ => "bad-op"
  | _ => "bad-op"

end C16Driver

def main : IO Unit := runPure C16Driver.step
