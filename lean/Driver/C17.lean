import MitmVerif.Model.C17
import Driver.Proto
open MitmVerif Driver MitmVerif.C17

namespace C17D

def splitList (s : String) : List String := if s = "_" then [] else s.splitOn ","

def optName (s : String) : Option (Option Bytes) :=
  if s = "none" then some none else (hexOr s).map some

def parseSan (s : String) : Option San :=
  match s.splitOn ":" with
  | [k, h] => match k.toNat?, hexOr h with
    | some kk, some b => some { kind := kk, val := b }
    | _, _ => none
  | _ => none

def allSome {α : Type} : List (Option α) → Option (List α)
  | [] => some []
  | none :: _ => none
  | some a :: rest => (allSome rest).map (a :: ·)

def parseSans (s : String) : Option (List San) := allSome ((splitList s).map parseSan)
def parseNames (s : String) : Option (List Bytes) := allSome ((splitList s).map hexOr)

def showList (l : List String) : String := if l.isEmpty then "_" else ",".intercalate l
def showName (o : Option Bytes) : String := match o with | none => "none" | some b => showBytes b
def showSan (s : San) : String := toString s.kind ++ ":" ++ showBytes s.val
def showLab (e : Entry) : String := (if e.custom then "c" else "g") ++ toString e.id

def showPair (p : Key × Entry) : String :=
  match p.1 with
  | .name n => "n:" ++ showBytes n ++ "=" ++ showLab p.2
  | .gen cn sans => "g:" ++ showName cn ++ ":" ++ showList (sans.map showSan) ++ "=" ++ showLab p.2

def tail (s : Store) : String := toString s.queue.length ++ " " ++ toString (genKeyCount s)

structure St where
  cap : Nat
  s : Store

def stepLine (st : St) (line : String) : St × String :=
  match fields line with
  | ["reset", c] => match c.toNat? with
    | some n => ({ cap := n, s := Store.empty }, "ok")
    | none => (st, "bad-op")
  | ["get", ok, cn, sans, org, crl] =>
    match optName cn, parseSans sans, optName org, optName crl with
    | some c, some ss, some og, some cr =>
      if ok = "0" ∨ ok = "1" then
        let r := getCert st.cap (ok == "1") st.s c ss og cr
        -- for a generated certificate the model also predicts what the certificate carries
        -- (subject CN, SANs, organization, CRL distribution point — those of the request that generated it)
        let cert (e : Entry) : String :=
          if e.custom then "" else " " ++ showName (subjectCn e.cn) ++ " " ++ showList (e.sans.map showSan)
            ++ " " ++ showName e.org ++ " " ++ showName (certCrl e.crl)
        let out := match r.2 with
          | .hit e => showLab' e ++ " 0 " ++ tail r.1 ++ cert e
          | .fresh e => showLab' e ++ " 1 " ++ tail r.1 ++ cert e
          | .err => "err " ++ tail r.1
        ({ st with s := r.1 }, out)
      else (st, "bad-op")
    | _, _, _, _ => (st, "bad-op")
  | ["add", id, cn, sans, names] =>
    match id.toNat?, optName cn, parseSans sans, parseNames names with
    | some i, some c, some ss, some ns =>
      let s' := addCert st.s i c ss ns
      ({ st with s := s' }, "ok " ++ tail s')
    | _, _, _, _ => (st, "bad-op")
  | ["dump"] =>
    (st, " ".intercalate (("q:" ++ showList (st.s.queue.map (fun e => toString e.id))) :: st.s.certs.map showPair))
  | ["forms", k, h] =>
    match k.toNat?, hexOr h with
    | some kk, some b => (st, showList ((formsSan { kind := kk, val := b }).map showBytes))
    | _, _ => (st, "bad-op")
  | _ => (st, "bad-op")
where
  showLab' (e : Entry) : String := (if e.custom then "c " else "g ") ++ toString e.id

end C17D

def main : IO Unit := runState C17D.stepLine { cap := MitmVerif.Gen.C17.storeCap, s := Store.empty }
