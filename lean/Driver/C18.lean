import MitmVerif.Model.C18
import MitmVerif.Model.C18_Quic
import Driver.Proto
open MitmVerif Driver

def c18Opt (s : String) : Option (Option Bytes) :=
  if s = "none" then some none else (hexOr s).map some

def c18List (s : String) : Option (List Bytes) :=
  if s = "nil" then some [] else (s.splitOn ",").mapM hexOr

def c18Bool (s : String) : Option Bool :=
  if s = "1" then some true else if s = "0" then some false else none

def c18Show (r : Option Bytes) : String :=
  match r with
  | none => "none"
  | some b => showBytes b

def c18Kind (s : String) : Option C18.LayerKind :=
  if s = "hp" then some .httpProxy else if s = "hup" then some .httpUpstreamProxy else if s = "mode" then some .otherMode
  else if s = "ctls" then some .clientTls else if s = "stls" then some .serverTls else if s = "http" then some .http
  else if s = "tcp" then some .other else none

def c18KindName : C18.LayerKind → String
  | .httpProxy => "hp" | .httpUpstreamProxy => "hup" | .otherMode => "mode" | .clientTls => "ctls"
  | .serverTls => "stls" | .http => "http" | .other => "tcp"

def c18Step (line : String) : String :=
  match fields line with
  | ["cb", c, s, h, o] =>
    match c18Opt c, c18Opt s, c18Bool h, c18List o with
    | some c, some s, some h, some o => c18Show (C18.alpnSelect c s h o)
    | _, _, _, _ => "bad-op"
  | ["hs", swp, ca, s, h, o] =>
    match c18Bool swp, c18Opt ca, c18Opt s, c18Bool h, c18List o with
    | some swp, some ca, some s, some h, some o => c18Show (C18.negotiate swp ca s h o)
    | _, _, _, _, _ => "bad-op"
  | ["chain", h, prefs, o] =>
    match c18Bool h, (if prefs = "noalpn" then some none else (c18List prefs).map some), c18List o with
    | some h, some prefs, some o =>
      let r := C18.eagerChain prefs h o
      c18Show r.1 ++ " " ++ c18Show r.2
    | _, _, _ => "bad-op"
  | ["nested", h, eager, prefs, oo, io] =>
    match c18Bool h, c18Bool eager, (if prefs = "noalpn" then some none else (c18List prefs).map some), c18List oo, c18List io with
    | some h, some eager, some prefs, some oo, some io =>
      let r := C18.nestedSession h oo io prefs eager
      c18Show r.1 ++ " " ++ c18Show r.2.1 ++ " " ++ c18Show r.2.2
    | _, _, _, _, _ => "bad-op"
  | ["xstack", mode, tls] =>
    match c18Kind mode, c18Bool tls with
    | some m, some t => ",".intercalate ((C18.explicitProxyStack m t).map c18KindName)
    | _, _ => "bad-op"
  | ["pin", kinds, ca] =>
    match (if kinds = "nil" then some [] else (kinds.splitOn ",").mapM c18Kind), c18Opt ca with
    | some ks, some ca => c18Show (C18.startClientPin ks ca)
    | _, _ => "bad-op"
  | ["quic", ca, sa, o] =>
    match c18Opt ca, c18Opt sa, c18List o with
    | some ca, some sa, some o =>
      let l := C18.quicClientAlpns ca sa o
      (if l.isEmpty then "nil" else ",".intercalate (l.map showBytes)) ++ " " ++ c18Show (C18.quicNegotiate ca sa o)
    | _, _, _ => "bad-op"
  | ["srv", h, preset, co] =>
    match c18Bool h, c18List preset, c18List co with
    | some h, some p, some co =>
      let r := C18.serverOffers p co h
      if r.isEmpty then "nil" else ",".intercalate (r.map showBytes)
    | _, _, _ => "bad-op"
  | _ => "bad-op"

def main : IO Unit := runPure c18Step
