import MitmVerif.Model.C19
import MitmVerif.Model.C13_Nameprep
import Driver.Proto
open MitmVerif Driver MitmVerif.C19

namespace C19Driver

/-- the driver's instance of the regex parameter: `^`? + re.escape(literal) + `$`?, IGNORECASE -/
structure LitPat where
  anchS : Bool
  anchE : Bool
  lit : Bytes

def ciEq (a b : Bytes) : Bool := asciiLower a == asciiLower b

def ciPrefix (lit d : Bytes) : Bool := ciEq lit (d.take lit.length) && lit.length ≤ d.length

def ciInfix (lit : Bytes) : Bytes → Bool
  | [] => lit.isEmpty
  | b :: tl => ciPrefix lit (b :: tl) || ciInfix lit tl

def litSearch (p : LitPat) (h : Bytes) : Bool :=
  match p.anchS, p.anchE with
  | true, true => ciEq p.lit h
  | true, false => ciPrefix p.lit h
  | false, true => ciPrefix p.lit.reverse h.reverse
  | false, false => ciInfix p.lit h

def flag? (s : String) : Option Bool :=
  if s = "0" then some false else if s = "1" then some true else none

def splitList (s : String) : List String := if s = "." then [] else s.splitOn ","

def mapM? {α β : Type} (f : α → Option β) : List α → Option (List β)
  | [] => some []
  | a :: r => match f a, mapM? f r with
    | some b, some bs => some (b :: bs)
    | _, _ => none

def pat? (s : String) : Option LitPat :=
  match s.splitOn ":" with
  | [a, b, h] => match flag? a, flag? b, hexOr h with
    | some x, some y, some l => some ⟨x, y, l⟩
    | _, _, _ => none
  | _ => none

def pats? (s : String) : Option (List LitPat) := mapM? pat? (splitList s)

def optHex? (s : String) : Option (Option Bytes) :=
  if s = "none" then some none else (hexOr s).map some

def addr? (s : String) : Option (Option Addr) :=
  if s = "none" then some none
  else match s.splitOn ":" with
    | [h, p] => match hexOr h, p.toNat? with
      | some hb, some n => some (some (hb, n))
      | _, _ => none
    | _ => none

def quic? (s : String) : Option (C13.Res (Option Bytes)) :=
  if s = "need" then some .incomplete
  else if s = "inv" then some .invalid
  else (optHex? s).map .ok

def scheme? (s : String) : Option Scheme :=
  match s with
  | "http" => some .http | "https" => some .https | "tcp" => some .tcp | "tls" => some .tls
  | "udp" => some .udp | "dtls" => some .dtls | "dns" => some .dns | "http3" => some .http3
  | "quic" => some .quic | _ => none

def top? (s : String) : Option Top :=
  if s = "hp" then some .httpProxy
  else if s = "up" then some .upstream
  else if s = "other" then some .other
  else match s.splitOn "-" with
    | ["rev", x] => (scheme? x).map .reverse
    | _ => none

/-- 17 configuration fields, then the rest (field 8, formerly the list of valid host names, is no longer used:
    `check.is_valid_host` is C13's complete transcription `Np.validHostFull`) -/
def parseCfg : List String → Option (NCfg LitPat × Env LitPat × List String)
  | tcp :: ig :: al :: wg :: peer :: addr :: csni :: valid :: quic :: top :: showI :: raw :: th :: uh ::
      aset :: ahttp :: qv1 :: rest =>
    match flag? tcp, pats? ig, pats? al, flag? wg, addr? peer, addr? addr, optHex? csni with
    | some tcp, some ig, some al, some wg, some peer, some addr, some csni =>
      match mapM? hexOr (splitList valid), quic? quic, top? top, flag? showI, flag? raw with
      | some _, some quic, some top, some showI, some raw =>
        match pats? th, pats? uh, optHex? aset, some ahttp, flag? qv1 with
        | some th, some uh, some alpn, some _, some qv1 =>
          some ({ tcp := tcp, ignorePats := ig, allowPats := al, wireguard := wg, peername := peer, address := addr,
                  clientSni := csni, top := top, showIgnored := showI, rawtcp := raw, tcpHosts := th, udpHosts := uh,
                  alpnSet := (alpnFlags alpn).1, alpnHttp := (alpnFlags alpn).2, quicV1 := qv1 },
                { rx := litSearch, validHost := C13.Np.validHostFull, quic := fun _ => quic }, rest)
        | _, _, _, _, _ => none
      | _, _, _, _, _ => none
    | _, _, _, _, _, _, _ => none
  | _ => none

def showOptB : Res (Option Bytes) → String
  | .needMore => "need"
  | .ok none => "none"
  | .ok (some v) => "some " ++ showBytes v

def showLK : LK → String
  | .tcp ig => if ig then "tcp-ignore" else "tcp"
  | .udp ig => if ig then "udp-ignore" else "udp"
  | .serverTls => "servertls" | .clientTls => "clienttls"
  | .http .regular => "http-regular" | .http .transparent => "http-transparent" | .http .upstream => "http-upstream"
  | .dns => "dns" | .serverQuic => "serverquic" | .clientQuic => "clientquic" | .rawQuic => "rawquic"

def showStack (st : List LK) : String := if st.isEmpty then "." else ",".intercalate (st.map showLK)

def showList (l : List Bytes) : String := if l.isEmpty then "." else ",".intercalate (l.map showBytes)

def ev? (s : String) : Option Ev :=
  if s = "xc" then some .closeC
  else if s = "xs" then some .closeS
  else if s = "ok" then some .connOk
  else if s = "err" then some .connErr
  else match s.splitOn ":" with
    | ["c", h] => (hexOr h).map .dataC
    | ["s", h] => (hexOr h).map .dataS
    | _ => none

def showPhase : Phase → String
  | .undecided => "undecided" | .aborted => "aborted" | .intercepted => "intercepted"
  | .connecting => "connecting" | .relay => "relay" | .done => "done" | .failed => "failed"

def showOut : Out → String
  | .openServer => "open"
  | .send t d => (if t then "S:" else "C:") ++ showBytes d
  | .close sv half => "x" ++ (if sv then "S" else "C") ++ (if half then "h" else "f")
  | .hook n => "h" ++ toString n

/-- run the events one by one; report the commands emitted by each -/
def runShow (E : Env LitPat) (c : NCfg LitPat) : Sess → List Ev → List String
  | s, [] => [showPhase s.phase, showStack s.stack]
  | s, e :: es =>
    let s' := step E c s e
    let new := s'.out.drop s.out.length
    (if new.isEmpty then "." else ",".intercalate (new.map showOut)) :: runShow E c s' es

/-- `name:ows1:value:ows2:lf` -/
def field? (s : String) : Option (Field × Bool) :=
  match s.splitOn ":" with
  | [n, o1, v, o2, lf] =>
    match hexOr n, hexOr o1, hexOr v, hexOr o2, flag? lf with
    | some n, some o1, some v, some o2, some lf => some (⟨n, o1, v, o2⟩, lf)
    | _, _, _, _, _ => none
  | _ => none

/-- the specification side on a structured head: the rendered bytes and the Host header HTTP defines -/
def specStep (rl rlLf endLf : String) (fs : List String) : String :=
  match hexOr rl, flag? rlLf, flag? endLf, mapM? field? fs with
  | some rl, some rlLf, some endLf, some fs =>
    showBytes (renderHeadMixed rl rlLf fs endLf) ++ " " ++
      (match specHost (fs.map (·.1)) with | some v => "some " ++ showBytes v | none => "none")
  | _, _, _, _ => "bad-op"

def stepPure (line : String) : String :=
  match fields line with
  | ["hh", tcp, dc, ds] =>
    match flag? tcp, hexOr dc, hexOr ds with
    | some t, some dc, some ds => showOptB (hostHeader t dc ds)
    | _, _, _ => "bad-op"
  | "ig" :: rest =>
    match parseCfg rest with
    | some (c, E, [dc, ds]) =>
      match hexOr dc, hexOr ds with
      | some dc, some ds =>
        match ignoreConnection E c.toCfg dc ds, candidates E c.toCfg dc ds with
        | .needMore, _ => "need"
        | .ok b, .ok hs => "ok " ++ (if b then "1" else "0") ++ " " ++ showList hs
        | .ok b, .needMore => "ok " ++ (if b then "1" else "0") ++ " -"
      | _, _ => "bad-op"
    | _ => "bad-op"
  | "nl" :: rest =>
    match parseCfg rest with
    | some (c, E, [dc, ds]) =>
      match hexOr dc, hexOr ds with
      | some dc, some ds =>
        match nextLayer E c dc ds with
        | .needMore => "need"
        | .ok st => "ok " ++ showStack st
      | _, _ => "bad-op"
    | _ => "bad-op"
  | "run" :: rest =>
    match parseCfg rest with
    | some (c, E, conn :: evs) =>
      match flag? conn, mapM? ev? evs with
      | some conn, some evs => " ".intercalate (runShow E c (Sess.init c.tcp conn) evs)
      | _, _ => "bad-op"
    | _ => "bad-op"
  | "spec" :: rl :: rlLf :: endLf :: fs => specStep rl rlLf endLf fs
  | "tls" :: dtls :: segs =>
    match flag? dtls, mapM? hexOr segs with
    | some dtls, some segs =>
      let s := segs.foldl (tlsStep dtls) TlsSess.init
      (if s.failed then "failed" else if s.parsed then "parsed" else "waiting") ++ " " ++ showList s.toServer
    | _, _ => "bad-op"
  | _ => "bad-op"

/-- `ig`/`al` field of an `hset` line: `=` leaves the option as it is -/
def optPats? (s : String) : Option (Option (List LitPat)) :=
  if s = "=" then some none else (pats? s).map some

/-- stateful part: a history on one addon instance (`hreset`, `hset`, `hconn`); everything else is stateless -/
def step (a : Addon LitPat) (line : String) : Addon LitPat × String :=
  match fields line with
  | ["hreset"] => (⟨[], []⟩, "ok")
  | ["hset", ig, al] =>
    match optPats? ig, optPats? al with
    | some ig, some al => ((hstep (Pat := LitPat) ⟨litSearch, fun _ => false, fun _ => .invalid⟩ a (.setOpts ig al)).1, "ok")
    | _, _ => (a, "bad-op")
  | "hconn" :: rest =>
    match parseCfg rest with
    | some (c, E, [dc, ds]) =>
      match hexOr dc, hexOr ds with
      | some dc, some ds =>
        match (hstep E a (.conn c dc ds)).2 with
        | some (.ok b, .ok st) => (a, "ok " ++ (if b then "1" else "0") ++ " " ++ showStack st)
        | some (.needMore, _) => (a, "need")
        | some (_, .needMore) => (a, "need")
        | none => (a, "bad-op")
      | _, _ => (a, "bad-op")
    | _ => (a, "bad-op")
  | _ => (a, stepPure line)

end C19Driver

def main : IO Unit := runState C19Driver.step ⟨[], []⟩
