import MitmVerif.Model.C20
import MitmVerif.Model.C20_B64
import MitmVerif.Model.C20_Ht
import Driver.Proto
open MitmVerif Driver MitmVerif.C20

namespace C20Driver

def hexNat (s : String) : Option Nat :=
  if s.isEmpty then none else
  s.toList.foldl (fun acc c => match acc, Hex.value? c with
    | some n, some d => some (n * 16 + d)
    | _, _ => none) (some 0)

/-- text on the wire: code points in hex separated by '.', "-" = empty -/
def parseCps (s : String) : Option Text :=
  if s = "-" then some [] else (s.splitOn ".").mapM hexNat

def natHex (n : Nat) : String := String.ofList (Nat.toDigits 16 n)
def showCps (t : Text) : String := if t.isEmpty then "-" else ".".intercalate (t.map natHex)

/-- library answers supplied with the case: `d:<tok>:<res|!>`, `s:<bytes>:<text>`, `h:<hash>:<pw>:<0|1>` -/
structure LibTab where
  d : List (Text × Option Text) := []
  u : List (List Nat × Text) := []
  s : List (Bytes × Text) := []
  h : List ((Text × Text) × Option Bool) := []

def parseLibEntry (t : LibTab) (e : String) : Option LibTab :=
  match e.splitOn ":" with
  | ["d", k, v] => do
    let k ← parseCps k
    if v = "!" then pure { t with d := (k, none) :: t.d }
    else let v ← parseCps v; pure { t with d := (k, some v) :: t.d }
  | ["u", k, v] => do
    let k ← hexOr k; let v ← parseCps v
    pure { t with u := (k.map (·.toNat), v) :: t.u }
  | ["s", k, v] => do
    let k ← hexOr k; let v ← parseCps v
    pure { t with s := (k, v) :: t.s }
  | ["h", a, b, v] => do
    let a ← parseCps a; let b ← parseCps b
    pure { t with h := ((a, b), if v = "!" then none else some (v = "1")) :: t.h }
  | _ => none

def parseLib (s : String) : Option LibTab :=
  if s = "-" then some {} else (s.splitOn ";").foldlM parseLibEntry {}

/-- `alt` selects what an unanswered query yields; a case whose result depends on it is reported as `lib-miss` -/
def mkLib (t : LibTab) (alt : Bool) : Lib where
  isSpace := genIsSpace
  lower := genLower
  -- a2b_base64, str.encode and the UTF-8 "replace" decoder are all the model's own transcriptions (C20_B64)
  decodeCred := B64.decodeCredStd
  sockDecode := fun k => B64.utf8decBS (k.map (·.toNat))      -- transcribed (C20_B64)
  hashOk := fun a b => match t.h.lookup (a, b) with
    | some (some r) => r
    | some none => false
    | none => alt
  hashRaises := fun a b => match t.h.lookup (a, b) with
    | some none => true
    | _ => false

def parseMode : String → Option Mode
  | "regular" => some .regular
  | "upstream" => some .upstream
  | "reverse" => some .reverse
  | "transparent" => some .transparent
  | "socks5" => some .socks5
  | _ => none

def parseVal0 (s : String) : Option (Option Validator) :=
  if s = "none" then some none
  else if s = "any" then some (some .any)
  else match s.splitOn ":" with
    | ["single", u, p] => do let u ← parseCps u; let p ← parseCps p; pure (some (.single u p))
    | ["file", c] => do
      -- the htpasswd file's content: parsed by the model's transcription of HtpasswdFile.__init__
      let c ← parseCps c
      let es ← Ht.parse c
      pure (some (.table es))
    | ["table", es] => do
      let es ← (es.splitOn ",").mapM (fun e => match e.splitOn "=" with
        | [u, h] => do let u ← parseCps u; let h ← parseCps h; pure (u, h)
        | _ => none)
      pure (some (.table es))
    | _ => none

/-- `<validator>` or `<validator>;raise;<u>=<p>,<u>=<p>` (fault injection: the validator raises on these pairs) -/
def parseVal (s : String) : Option (Option Validator) :=
  match s.splitOn ";" with
  | [v] => parseVal0 v
  | [v, "raise", ps] => do
    let inner ← parseVal0 v
    let inner ← inner
    let bad ← (ps.splitOn ",").mapM (fun e => match e.splitOn "=" with
      | [u, p] => do let u ← parseCps u; let p ← parseCps p; pure (u, p)
      | _ => none)
    pure (some (.raising bad inner))
  | _ => none

def parseHdrs (s : String) : Option (List Hdr) :=
  if s = "-" then some [] else
  (s.splitOn ",").mapM (fun e => match e.splitOn "=" with
    | [n, v] => do let n ← hexOr n; let v ← parseCps v; pure ⟨n, v⟩
    | _ => none)

def showHdrs (hs : List Hdr) : String :=
  if hs.isEmpty then "-" else ",".intercalate (hs.map (fun h => Hex.encodeField (asciiLower h.name) ++ "=" ++ showCps h.value))

inductive WireEv where
  | req (connect replay big : Bool) (hs : List Hdr)
  | sg (ms : Bytes)
  | sa (u p : Bytes)
  | sc

def parseEv (s : String) : Option (Nat × WireEv) :=
  match s.splitOn "/" with
  | [c, "R", m, r, b, hs] => do
    let c ← c.toNat?; let hs ← parseHdrs hs
    if m ≠ "C" ∧ m ≠ "G" then none else
    if r ≠ "0" ∧ r ≠ "1" then none else
    if b ≠ "0" ∧ b ≠ "1" then none else
    pure (c, .req (m = "C") (r = "1") (b = "1") hs)
  | [c, "SG", ms] => do let c ← c.toNat?; let ms ← hexOr ms; pure (c, .sg ms)
  | [c, "SA", u, p] => do let c ← c.toNat?; let u ← hexOr u; let p ← hexOr p; pure (c, .sa u p)
  | [c, "SC"] => do let c ← c.toNat?; pure (c, .sc)
  | _ => none

def showOut (closedAfter : Bool) (o : Out) : String :=
  let x := if closedAfter then "X" else ""
  match o with
  | .fwd hs => "F:" ++ showHdrs hs ++ x
  | .deny c => "D" ++ toString c ++ x
  | .tunnel => "T" ++ x
  | .invalid => "E" ++ x
  | .tooLarge => "L" ++ x
  | .sMethod m => (if m = 2 then "S02" else "S00") ++ x
  | .sNoMethod => "SFF" ++ x
  | .sAuthOk => "SA0" ++ x
  | .sAuthFail => "SA1" ++ x
  | .sConnected => "SC" ++ x
  | .unmodelled => "U" ++ x
  | .ignored => "I" ++ x

def showAuthd (authd : List Nat) (n : Nat) : String :=
  let l := (List.range n).filter (fun c => authd.contains c)
  if l.isEmpty then "-" else ",".intercalate (l.map toString)

def runConn (L : Lib) (V : Option Validator) (modes : List Mode) (evs : List (Nat × WireEv)) : Option String := do
  let modeOf : Nat → Mode := fun c => modes.getD c .regular
  let mut σ := State.init modeOf
  let mut outs : List String := []
  for (c, we) in evs do
    if c ≥ modes.length then none
    let e ← match we with
      | .req connect false big hs => some (Ev.req connect big hs)
      | .req _ true _ _ => none                  -- replayed requests do not arrive on a client connection
      | .sg ms => some (Ev.sGreet ms)
      | .sa u p => some (Ev.sAuth u p)
      | .sc => some Ev.sConnect
    let r := step L V (modeOf c) σ c e
    σ := r.1
    outs := outs ++ [showOut (σ.phase c == .closed) r.2]
  pure (" ".intercalate outs ++ " | " ++ showAuthd σ.authd modes.length)

def runHook (L : Lib) (V : Option Validator) (modes : List Mode) (evs : List (Nat × WireEv)) : Option String := do
  let modeOf : Nat → Mode := fun c => modes.getD c .regular
  let mut authd : List Nat := []
  let mut outs : List String := []
  for (c, we) in evs do
    if c ≥ modes.length then none
    let he ← match we with
      | .req true _ _ hs => some (HookEv.httpConnect hs)
      | .req false replay _ hs => some (HookEv.requestheaders replay hs)
      | .sa u p => some (HookEv.socksAuth u p)
      | _ => none
    let r := hookStep L V (modeOf c) authd c he
    authd := r.1
    outs := outs ++ [match r.2 with
      | .hook (.pass hs) => "F:" ++ showHdrs hs
      | .hook (.deny code) => "D" ++ toString code
      | .socks true => "SA0"
      | .socks false => "SA1"]
  pure (" ".intercalate outs ++ " | " ++ showAuthd authd modes.length)

def both (f : Lib → Option String) (t : LibTab) : String :=
  match f (mkLib t false), f (mkLib t true) with
  | some a, some b => if a = b then a else "lib-miss"
  | _, _ => "bad-op"

def stepLine (line : String) : String :=
  match fields line with
  | ["parse", lib, v] =>
    match parseLib lib, parseCps v with
    | some t, some v => both (fun L => some (match parseBasic L v with
        | some (u, p) => "ok " ++ showCps u ++ " " ++ showCps p
        | none => "err")) t
    | _, _ => "bad-op"
  | ["b64", h] =>
    match hexOr h with
    | some b => match B64.a2b (b.map (·.toNat)) with
      | some r => "ok " ++ showBytes (r.map UInt8.ofNat)
      | none => "err"
    | none => "bad-op"
  | ["b2a", h] =>
    match hexOr h with
    | some b => showBytes ((B64.b2a (b.map (·.toNat))).map UInt8.ofNat)
    | none => "bad-op"
  | ["conf", t] =>
    let arg : Option (Option Text) := if t = "none" then some none else (parseCps t).map some
    match arg with
    | some a => match configureSpec a with
      | .off => "off"
      | .any => "any"
      | .htpasswd p => "ht " ++ showCps p
      | .ldap _ => "ldap"
      | .single u p => "single " ++ showCps u ++ " " ++ showCps p
      | .invalid => "invalid"
    | none => "bad-op"
  | ["htparse", t] =>
    match parseCps t with
    | some t => match Ht.parse t with
      | some es => let us := Ht.users es
        if us.isEmpty then "ok -" else "ok " ++ ",".intercalate (us.map (fun x => showCps x.1 ++ "=" ++ showCps x.2))
      | none => "err"
    | none => "bad-op"
  | ["decbs", h] =>
    match hexOr h with
    | some b => showCps (B64.utf8decBS (b.map (·.toNat)))
    | none => "bad-op"
  | ["dec", h] =>
    match hexOr h with
    | some b => showCps (B64.utf8decR (b.map (·.toNat)))
    | none => "bad-op"
  | ["enc", t] =>
    match parseCps t with
    | some t => showBytes ((B64.utf8enc t).map UInt8.ofNat)
    | none => "bad-op"
  | ["mkauth", u, p] =>
    match parseCps u, parseCps p with
    | some u, some p => showCps (B64.mkauth u p)
    | _, _ => "bad-op"
  | ["resp", b] =>
    if b ≠ "0" ∧ b ≠ "1" then "bad-op" else
    let r := B64.authRequiredResponse (b = "1")
    toString r.status ++ " " ++ showBytes (strBytes r.challengeName) ++ " " ++ showBytes (strBytes r.challengeValue) ++ " " ++
      showBytes (strBytes r.body)
  | op :: val :: modes :: lib :: evs =>
    if op ≠ "conn" ∧ op ≠ "hook" then "bad-op" else
    match parseVal val, (modes.splitOn ",").mapM parseMode, parseLib lib, evs.mapM parseEv with
    | some V, some ms, some t, some es =>
      both (fun L => if op = "conn" then runConn L V ms es else runHook L V ms es) t
    | _, _, _, _ => "bad-op"
  | _ => "bad-op"

end C20Driver

def main : IO Unit := runPure C20Driver.stepLine
