import MitmVerif.Model.C21
import Driver.Proto
open MitmVerif Driver MitmVerif.C21

namespace C21Driver

def bytesEq (a b : Bytes) : Bool := a == b

/-- policy field: `T` | `F` | `E:<userhex>:<passhex>` (valid iff credentials equal) -/
def parsePolicy (s : String) : Option (Bytes → Bytes → Bool) :=
  if s = "T" then some (fun _ _ => true)
  else if s = "F" then some (fun _ _ => false)
  else match s.splitOn ":" with
    | ["E", u, p] =>
      match hexOr u, hexOr p with
      | some ub, some pb => some (fun a b => bytesEq a ub && bytesEq b pb)
      | _, _ => none
    | _ => none

def parseBool (s : String) : Option Bool :=
  if s = "1" then some true else if s = "0" then some false else none

def parseEnv (a v e c : String) : Option Env :=
  match parseBool a, parsePolicy v, parseBool e, parseBool c with
  | some a, some v, some e, some c => some ⟨a, v, e, c⟩
  | _, _, _, _ => none

/-- outputs rendered canonically; adjacent child bytes are merged into one `D:` token -/
def renderOuts : List Out → List UInt8 → List String
  | [], acc => if acc.isEmpty then [] else ["D:" ++ showBytes acc.reverse]
  | .child b :: r, acc => renderOuts r (b :: acc)
  | o :: r, acc =>
    let pre := if acc.isEmpty then [] else ["D:" ++ showBytes acc.reverse]
    let tok := match o with
      | .send b => "S:" ++ showBytes b
      | .close => "X"
      | .authHook u p => "H:" ++ showBytes u ++ ":" ++ showBytes p
      | .setAddr a ad p => "A:" ++ toString a.toNat ++ ":" ++ showBytes ad ++ ":" ++ toString p ++ ":" ++
          showBytes (String.ofList (hostText a ad)).toUTF8.toList
      | .openServer => "O"
      | .childStart => "CS"
      | .childClose => "CX"
      | .child _ => "?"
    pre ++ tok :: renderOuts r []

def showOuts (o : List Out) : String :=
  match renderOuts o [] with
  | [] => "-"
  | l => ",".intercalate l

def showS : SState → String
  | .greet b => "greet:" ++ showBytes b
  | .auth b => "auth:" ++ showBytes b
  | .connect b => "connect:" ++ showBytes b
  | .relay => "relay"
  | .done => "done"

def showA : AState → String
  | .settled s => showS s
  | .authWait _ _ r q => "authwait:" ++ showBytes r ++ ":" ++ toString q.length
  | .connWait r q => "connwait:" ++ showBytes r ++ ":" ++ toString q.length

/-- sync items: hex segment | `X` (client EOF, only meaningful as the last item) -/
def runSync (env : Env) : SState → List String → List Out → Option (SState × List Out)
  | s, [], acc => some (s, acc)
  | s, "X" :: r, acc => runSync env s r (acc ++ onClose s)
  | s, h :: r, acc =>
    match hexOr h with
    | some d => runSync env (feed env s d).1 r (acc ++ (feed env s d).2)
    | none => none

def parseActs : List String → Option (List Act)
  | [] => some []
  | "C" :: r => (parseActs r).map (Act.complete :: ·)
  | "X" :: r => (parseActs r).map (Act.ev .close :: ·)
  | h :: r =>
    match hexOr h, parseActs r with
    | some d, some as => some (Act.ev (.data d) :: as)
    | _, _ => none

def step (line : String) : String :=
  match fields line with
  | "sync" :: a :: v :: e :: c :: items =>
    match parseEnv a v e c with
    | some env =>
      match runSync env init items [] with
      | some (s, o) => showS s ++ " " ++ showOuts o
      | none => "bad-op"
    | none => "bad-op"
  | "async" :: a :: v :: e :: c :: items =>
    match parseEnv a v e c, parseActs items with
    | some env, some acts =>
      let r := actAll env (.settled init) acts
      showA r.1 ++ " " ++ showOuts r.2
    | _, _ => "bad-op"
  | ["pyv6", h] =>
    match hexOr h with
    | some ad => showBytes (String.ofList (textV6Py ad)).toUTF8.toList
    | none => "bad-op"
  | ["host", a, h] =>
    match a.toNat?, hexOr h with
    | some a, some ad => if a < 256 then showBytes (String.ofList (hostText (UInt8.ofNat a) ad)).toUTF8.toList else "bad-op"
    | _, _ => "bad-op"
  | _ => "bad-op"

end C21Driver

def main : IO Unit := runPure C21Driver.step
