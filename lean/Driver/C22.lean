import MitmVerif.Model.C22
import MitmVerif.Lemmas.C22Render
import Driver.Proto
open MitmVerif Driver

def c22Mode (s : String) : Option C22.Mode := Gen.C22.Mode.ofName s

def c22Bool (s : String) : Option Bool :=
  match s with | "1" => some true | "0" => some false | _ => none

def c22Verdict : C22.Verdict → String
  | .pass => "pass" | .killedPrivate => "private" | .killedGlobal => "global" | .raised => "raised"

def c22Ev : C22.Ev → String
  | .hookClientConnected => "hookClientConnected" | .closeWriter => "closeWriter"
  | .startLayer => "startLayer" | .handleConnection => "handleConnection"
  | .hookClientDisconnected => "hookClientDisconnected"

def c22Step (line : String) : String :=
  match fields line with
  | ["decide", h, m, bg, bp] =>
    match hexOr h, c22Mode m, c22Bool bg, c22Bool bp with
    | some peer, some m, some bg, some bp =>
      c22Verdict (C22.verdict peer m bg bp) ++ " " ++
        ",".intercalate ((C22.clientTrace peer m bg bp).map c22Ev)
    | _, _, _, _ => "bad-op"
  | ["cls", fam, n] =>
    -- class by interval table and by membership in the interpreter's network constants
    match n.toNat? with
    | some n =>
      let a : Option C22.Addr := if fam == "4" then some (.v4 n) else if fam == "6" then some (.v6 n none) else none
      match a with
      | some a =>
        let f := fun (c : Gen.C22.Cls) => s!"{c.loop},{c.priv},{c.glob}"
        f (C22.classify a) ++ " " ++ f (C22.memberCls a)
      | none => "bad-op"
    | none => "bad-op"
  | ["render4", n] =>
    -- the text forms the read-back theorems are about (tied to the OS' inet_ntop by the harness)
    match n.toNat? with
    | some n =>
      if n < 4294967296 then
        let (a, b, c, d) := (n / 16777216, n / 65536 % 256, n / 256 % 256, n % 256)
        showBytes (Lemmas.C22.dotted a b c d) ++ " " ++ showBytes (Lemmas.C22.mappedText a b c d) ++ " " ++
          showBytes (Lemmas.C22.mappedHexText (n / 65536) (n % 65536))
      else "bad-op"
    | none => "bad-op"
  | ["parse", h] =>
    match hexOr h with
    | some t =>
      match C22.parseIp t with
      | some (.v4 n) => s!"v4 {n}"
      | some (.v6 n none) => s!"v6 {n} none"
      | some (.v6 n (some sc)) => s!"v6 {n} {showBytes sc}"
      | none => "err"
    | none => "bad-op"
  | _ => "bad-op"

def main : IO Unit := runPure c22Step
