import MitmVerif.Model.C23
import Driver.Proto
open MitmVerif Driver

def c23Tp (s : String) : Option C23.Transport :=
  match s with | "tcp" => some .tcp | "udp" => some .udp | _ => none

def c23ModeTp (s : String) : Option C23.ModeTransport :=
  match s with | "tcp" => some .tcp | "udp" => some .udp | "both" => some .both | _ => none

/-- `hosthex:port` -/
def c23Addr (s : String) : Option (C22.Text × Nat) :=
  match s.splitOn ":" with
  | [h, p] => match hexOr h, p.toNat? with
    | some h, some p => some (h, p)
    | _, _ => none
  | _ => none

/-- `tp/hosthex:port,hosthex:port` -/
def c23Server (s : String) : Option C23.Server :=
  match s.splitOn "/" with
  | [tp, as] =>
    match c23ModeTp tp, (as.splitOn ",").mapM c23Addr with
    | some tp, some as => some ⟨tp, as⟩
    | _, _ => none
  | [tp] => (c23ModeTp tp).map (⟨·, []⟩)
  | _ => none

/-- `;`-separated servers, `none` for no server at all -/
def c23Servers (s : String) : Option (List C23.Server) :=
  if s == "none" then some [] else (s.splitOn ";").mapM c23Server

def c23Ev : C23.Ev → String
  | .hookServerConnect => "hookServerConnect" | .hookServerConnectError => "hookServerConnectError"
  | .completedKilled => "completedKilled" | .socketOpen => "socketOpen" | .completedError => "completedError"
  | .hookServerConnected => "hookServerConnected" | .completedOk => "completedOk"
  | .handleConnection => "handleConnection" | .hookServerDisconnected => "hookServerDisconnected"

def c23Step (line : String) : String :=
  match fields line with
  | ["sc", dh, dp, tp, ok, srv] =>
    match hexOr dh, dp.toNat?, c23Tp tp, c23Servers srv with
    | some dh, some dp, some tp, some servers =>
      if ok != "0" && ok != "1" then "bad-op" else
      (if C23.selfConnect servers dh dp tp then "blocked" else "open") ++ " " ++
      (if C23.denotesOwnSocket servers dh dp tp then "own" else "other") ++ " " ++
      ",".intercalate ((C23.openTrace servers dh dp tp (ok == "1")).map c23Ev)
    | _, _, _, _ => "bad-op"
  | _ => "bad-op"

def main : IO Unit := runPure c23Step
