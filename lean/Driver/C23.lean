import MitmVerif.Model.C23
import Driver.Proto
open MitmVerif Driver

def c23Tp (s : String) : Option C23.Transport :=
  match s with | "tcp" => some .tcp | "udp" => some .udp | _ => none

def c23ModeTp (s : String) : Option C23.ModeTransport :=
  match s with | "tcp" => some .tcp | "udp" => some .udp | "both" => some .both | _ => none

/-- `hosthex:port` -/
def c23Addr (s : String) : Option (C22.Text × Nat) :=
  match s.splitOn ":" with
  | [h, p] => match hexOr h, p.toNat? with
    | some h, some p => some (h, p)
    | _, _ => none
  | _ => none

/-- `tp/hosthex:port,hosthex:port` -/
def c23Server (s : String) : Option C23.Server :=
  match s.splitOn "/" with
  | [tp, as] =>
    match c23ModeTp tp, (as.splitOn ",").mapM c23Addr with
    | some tp, some as => some ⟨tp, as⟩
    | _, _ => none
  | [tp] => (c23ModeTp tp).map (⟨·, []⟩)
  | _ => none

/-- `;`-separated servers, `none` for no server at all -/
def c23Servers (s : String) : Option (List C23.Server) :=
  if s == "none" then some [] else (s.splitOn ";").mapM c23Server

def c23Ev : C23.Ev → String
  | .hookServerConnect => "hookServerConnect" | .hookServerConnectError => "hookServerConnectError"
  | .completedKilled => "completedKilled" | .socketOpen => "socketOpen" | .completedError => "completedError"
  | .hookServerConnected => "hookServerConnected" | .completedOk => "completedOk"
  | .handleConnection => "handleConnection" | .hookServerDisconnected => "hookServerDisconnected"

/-- `k=tp/hh:port,hh:port` joined by `&`; `-` for none -/
def c23Keyed (s : String) : Option (List (Nat × C23.Server)) :=
  if s == "-" then some [] else
  (s.splitOn "&").mapM fun e =>
    match e.splitOn "=" with
    | [k, srv] => match k.toNat?, c23Server srv with
      | some k, some srv => some (k, srv)
      | _, _ => none
    | _ => none

def c23Keys (s : String) : Option (List Nat) :=
  if s == "-" then some [] else (s.splitOn ",").mapM String.toNat?

/-- `R;<0|1>;<keys>;<start>`  or  `C;<dhhex>;<dp>;<tp>;<0|1>` -/
def c23Op (s : String) : Option C23.Op :=
  match s.splitOn ";" with
  | ["R", so, keys, start] =>
    match c23Keys keys, c23Keyed start with
    | some keys, some start => if so == "1" then some (.reconfigure true keys start)
                               else if so == "0" then some (.reconfigure false keys start) else none
    | _, _ => none
  | ["C", dh, dp, tp, ok] =>
    match hexOr dh, dp.toNat?, c23Tp tp with
    | some dh, some dp, some tp => if ok == "1" then some (.connect dh dp tp true)
                                   else if ok == "0" then some (.connect dh dp tp false) else none
    | _, _, _ => none
  | _ => none

def c23ShowTp : C23.ModeTransport → String
  | .tcp => "tcp" | .udp => "udp" | .both => "both"

def c23ShowState (st : C23.State) : String :=
  if st.isEmpty then "-" else
  "&".intercalate (st.map fun (k, srv) =>
    s!"{k}={c23ShowTp srv.transport}" ++ (if srv.addrs.isEmpty then "" else
      "/" ++ ",".intercalate (srv.addrs.map fun (h, p) => s!"{showBytes h}:{p}")))

def c23ShowOut : C23.Out → String
  | .listeners st => "L;" ++ c23ShowState st
  | .trace evs => "T;" ++ ",".intercalate (evs.map c23Ev)

def c23Step (line : String) : String :=
  match fields line with
  | ["sc", dh, dp, tp, ok, srv] =>
    match hexOr dh, dp.toNat?, c23Tp tp, c23Servers srv with
    | some dh, some dp, some tp, some servers =>
      if ok != "0" && ok != "1" then "bad-op" else
      (if C23.selfConnect servers dh dp tp then "blocked" else "open") ++ " " ++
      (if C23.denotesOwnSocket servers dh dp tp then "own" else "other") ++ " " ++
      ",".intercalate ((C23.openTrace servers dh dp tp (ok == "1")).map c23Ev)
    | _, _, _, _ => "bad-op"
  | "conn" :: dh :: dp :: tp :: steps =>
    -- repeated attempts on one Server object: each step `ok~servers`
    match hexOr dh, dp.toNat?, c23Tp tp with
    | some dh, some dp, some tp =>
      let parsed := steps.mapM fun st =>
        match st.splitOn "~" with
        | [ok, srv] => match c23Servers srv with
          | some servers => if ok == "1" then some (servers, true) else if ok == "0" then some (servers, false) else none
          | none => none
        | _ => none
      match parsed with
      | some l =>
        " ".intercalate ((C23.attempts none dh dp tp l).map fun (e, tr) =>
          (match e with | none => "open" | some .destinationUnknown => "blocked" | some .dialError => "stale") ++
          ";" ++ ",".intercalate (tr.map c23Ev))
      | none => "bad-op"
    | _, _, _ => "bad-op"
  | "lrun" :: evs =>
    -- per-instance start/stop events of updates in flight: `B;so;keys` `S;k` `D` `U;k=srv` `C;dh;dp;tp;ok`
    let parse := fun (e : String) =>
      match e.splitOn ";" with
      | ["B", so, keys] => match c23Keys keys with
        | some ks => if so == "1" then some (C23.LEv.beginUpdate true ks) else if so == "0" then some (.beginUpdate false ks) else none
        | none => none
      | ["S", k] => k.toNat?.map C23.LEv.stopped
      | ["D"] => some .stopsDone
      | ["U", ks] => match c23Keyed ks with
        | some [(k, srv)] => some (.started k srv)
        | _ => none
      | ["C", dh, dp, tp, ok] =>
        match hexOr dh, dp.toNat?, c23Tp tp with
        | some dh, some dp, some tp => if ok == "1" then some (.connect dh dp tp true)
                                       else if ok == "0" then some (.connect dh dp tp false) else none
        | _, _, _ => none
      | _ => none
    match evs.mapM parse with
    | some evs => " ".intercalate ((C23.lrun C23.LState.empty evs).filterMap fun o =>
        o.map fun tr => "T;" ++ ",".intercalate (tr.map c23Ev))
    | none => "bad-op"
  | "run" :: ops =>
    match ops.mapM c23Op with
    | some ops => " ".intercalate ((C23.run [] ops).map c23ShowOut)
    | none => "bad-op"
  | _ => "bad-op"

def main : IO Unit := runPure c23Step
