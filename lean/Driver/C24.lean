import MitmVerif.Model.C24
import MitmVerif.Model.C24_Route
import MitmVerif.Model.C24_Cred
import Driver.Proto
open MitmVerif Driver MitmVerif.C24

namespace C24Driver

def parseMode : String → Option Mode
  | "regular" => some .regular
  | "upstream" => some .upstream
  | "reverse" => some .reverse
  | "transparent" => some .transparent
  | "socks5" => some .socks5
  | _ => none

def parseEv (s : String) : Option (Nat × Ev) :=
  match s.splitOn "/" with
  | [c, k] => do
    let c ← c.toNat?
    match k with
    | "http" => some (c, .req false)
    | "http2" => some (c, .req false)
    | "https" => some (c, .req true)
    | "c80" => some (c, .connect)
    | "c443" => some (c, .connect)
    | "drop" => some (c, .drop)
    | _ => none
  | _ => none

def showDest : Dest → String
  | .proxy => "proxy"
  | .originViaTunnel => "originViaTunnel"
  | .originDirect => "originDirect"
  | .reverseTarget => "reverseTarget"

def showWrite (w : Write) : String :=
  showDest w.dest ++ "." ++ (if w.form = .connect then "connect" else "request") ++ "." ++
    (match w.cred with | none => "none" | some .proxyAuthorization => "pa" | some .authorization => "a") ++
    (if w.tls then ".tls" else "")

def showStep (k : Kind) (ws : List Write) : String :=
  let body := "[" ++ "+".intercalate (ws.map showWrite) ++ "]"
  match k with
  | .response => "R" ++ body
  | .tunnel => "T" ++ body
  | .invalid => "E" ++ body
  | .ignored => "I" ++ body
  | .noop => "N" ++ body

def runLine (old : Bool) (auth : Bool) (modes : List Mode) (evs : List (Nat × Ev)) : Option String := do
  let modeOf : Nat → Mode := fun c => modes.getD c .regular
  let mut σ := State.init
  let mut outs : List String := []
  for (c, e) in evs do
    if c ≥ modes.length then none
    let r := if old then stepOld auth (modeOf c) σ c e else step auth (modeOf c) σ c e
    σ := r.1
    outs := outs ++ [showStep r.2.1 r.2.2]
  let tl := (List.range modes.length).filter (fun c => σ.tunneled.contains c)
  pure (" ".intercalate outs ++ " | " ++ (if tl.isEmpty then "-" else ",".intercalate (tl.map toString)))

open MitmVerif.C24.Route in
def parseREv (s : String) : Option (Nat × REv) :=
  match s.splitOn "/" with
  | [c, "req", h, p, t] => do
    let c ← c.toNat?; let h ← h.toNat?; let p ← p.toNat?
    if t ≠ "0" ∧ t ≠ "1" then none else pure (c, .req h p (t = "1"))
  | [c, "drop"] => do let c ← c.toNat?; pure (c, .drop)
  | [c, "connect", h, p] => do
    let c ← c.toNat?; let h ← h.toNat?; let p ← p.toNat?
    pure (c, .connect h p)
  | _ => none

open MitmVerif.C24.Route in
def showConn (c : UpConn) (fresh : Bool) : String :=
  "{" ++ toString c.host ++ ":" ++ toString c.port ++ ":" ++ (if c.tls then "1" else "0") ++ ":" ++
    (match c.sni with | some h => toString h | none => "-") ++ ":" ++ (if c.via then "1" else "0") ++ ":" ++
    toString c.idx ++ ":" ++ (if fresh then "1" else "0") ++ "}"

open MitmVerif.C24.Route in
def showROut (m : Mode) (o : ROut) : String :=
  let ws := match o.conn with
    | some c => o.writes.map (fun w => showWrite ⟨partyOf m c w, w.form, c.tls && w.form == .request, w.cred⟩)
    | none => []
  let body := (match o.conn with | some c => showConn c o.fresh | none => "") ++ "[" ++ "+".intercalate ws ++ "]"
  match o.kind with
  | .response => "R" ++ body
  | .tunnel => "T" ++ body
  | .invalid => "E" ++ body
  | .ignored => "I" ++ body
  | .noop => "N" ++ body

open MitmVerif.C24.Route in
def routeLine (auth : Bool) (modes : List Mode) (evs : List (Nat × REv)) : Option String := do
  let modeOf : Nat → Mode := fun c => modes.getD c .regular
  if evs.any (fun x => x.1 ≥ modes.length) then none
  let outs := rrun auth modeOf (RState.init modeOf) evs
  pure (" ".intercalate (outs.map (fun x => showROut (modeOf x.1) x.2)))

/-- `A0` / `A1` tokens switch the state of the `upstream_auth` option for the events that follow -/
def withAuth (auth0 : Bool) (toks : List String) : List (Bool × String) :=
  (toks.foldl (fun (acc : Bool × List (Bool × String)) t =>
    if t = "A0" then (false, acc.2) else if t = "A1" then (true, acc.2) else (acc.1, acc.2 ++ [(acc.1, t)])) (auth0, [])).2

open MitmVerif.C24.Route in
def routeVarLine (modes : List Mode) (evs : List (Nat × Bool × REv)) : Option String := do
  let modeOf : Nat → Mode := fun c => modes.getD c .regular
  if evs.any (fun x => x.1 ≥ modes.length) then none
  let outs := rrunVar modeOf (RState.init modeOf) evs
  pure (" ".intercalate (outs.map (fun x => showROut (modeOf x.1) x.2)))

def runVarLine (modes : List Mode) (evs : List (Nat × Bool × Ev)) : Option String := do
  let modeOf : Nat → Mode := fun c => modes.getD c .regular
  if evs.any (fun x => x.1 ≥ modes.length) then none
  let outs := runVar modeOf State.init evs
  let fin := evs.foldl (fun σ x => (step x.2.1 (modeOf x.1) σ x.1 x.2.2).1) State.init
  let tl := (List.range modes.length).filter (fun c => fin.tunneled.contains c)
  pure (" ".intercalate (outs.map (fun x => showStep x.2.1 x.2.2)) ++ " | " ++
    (if tl.isEmpty then "-" else ",".intercalate (tl.map toString)))

def hexNat (s : String) : Option Nat :=
  if s.isEmpty then none else
  s.toList.foldl (fun acc c => match acc, Hex.value? c with
    | some n, some d => some (n * 16 + d)
    | _, _ => none) (some 0)

/-- text on the wire: code points in hex separated by '.', "-" = empty -/
def parseCps (s : String) : Option (List Nat) :=
  if s = "-" then some [] else (s.splitOn ".").mapM hexNat

def stepLine (line : String) : String :=
  match fields line with
  | ["replay", auth, run, https, target] =>
    if (auth ≠ "0" ∧ auth ≠ "1") ∨ (https ≠ "0" ∧ https ≠ "1") ∨ (target ≠ "0" ∧ target ≠ "1") then "bad-op" else
    match parseMode run with
    | some m => "[" ++ "+".intercalate ((replayWrites (auth = "1") m (https = "1") (target = "1")).map showWrite) ++ "]"
    | none => "bad-op"
  | ["upval", t] =>
    match parseCps t with
    | some t => match MitmVerif.C24.Cred.upstreamAuthValue t with
      | some v => "ok " ++ showBytes (v.map UInt8.ofNat)
      | none => "err"
    | none => "bad-op"
  | "routev" :: auth :: modes :: evs =>
    if auth ≠ "0" ∧ auth ≠ "1" then "bad-op" else
    match (modes.splitOn ",").mapM parseMode,
          (withAuth (auth = "1") evs).mapM (fun x => (parseREv x.2).map (fun e => (e.1, x.1, e.2))) with
    | some ms, some es => (routeVarLine ms es).getD "bad-op"
    | _, _ => "bad-op"
  | "runv" :: auth :: modes :: evs =>
    if auth ≠ "0" ∧ auth ≠ "1" then "bad-op" else
    match (modes.splitOn ",").mapM parseMode,
          (withAuth (auth = "1") evs).mapM (fun x => (parseEv x.2).map (fun e => (e.1, x.1, e.2))) with
    | some ms, some es => (runVarLine ms es).getD "bad-op"
    | _, _ => "bad-op"
  | "route" :: auth :: modes :: evs =>
    if auth ≠ "0" ∧ auth ≠ "1" then "bad-op" else
    match (modes.splitOn ",").mapM parseMode, evs.mapM parseREv with
    | some ms, some es => (routeLine (auth = "1") ms es).getD "bad-op"
    | _, _ => "bad-op"
  | op :: auth :: modes :: evs =>
    if op ≠ "run" ∧ op ≠ "runold" then "bad-op" else
    if auth ≠ "0" ∧ auth ≠ "1" then "bad-op" else
    match (modes.splitOn ",").mapM parseMode, evs.mapM parseEv with
    | some ms, some es => (runLine (op = "runold") (auth = "1") ms es).getD "bad-op"
    | _, _ => "bad-op"
  | _ => "bad-op"

end C24Driver

def main : IO Unit := runPure C24Driver.stepLine
