import MitmVerif.Model.C24
import Driver.Proto
open MitmVerif Driver MitmVerif.C24

namespace C24Driver

def parseMode : String → Option Mode
  | "regular" => some .regular
  | "upstream" => some .upstream
  | "reverse" => some .reverse
  | "transparent" => some .transparent
  | "socks5" => some .socks5
  | _ => none

def parseEv (s : String) : Option (Nat × Ev) :=
  match s.splitOn "/" with
  | [c, k] => do
    let c ← c.toNat?
    match k with
    | "http" => some (c, .req false)
    | "http2" => some (c, .req false)
    | "https" => some (c, .req true)
    | "c80" => some (c, .connect)
    | "c443" => some (c, .connect)
    | _ => none
  | _ => none

def showDest : Dest → String
  | .proxy => "proxy"
  | .originViaTunnel => "originViaTunnel"
  | .originDirect => "originDirect"
  | .reverseTarget => "reverseTarget"

def showWrite (w : Write) : String :=
  showDest w.dest ++ "." ++ (if w.form = .connect then "connect" else "request") ++ "." ++
    (match w.cred with | none => "none" | some .proxyAuthorization => "pa" | some .authorization => "a") ++
    (if w.tls then ".tls" else "")

def showStep (k : Kind) (ws : List Write) : String :=
  let body := "[" ++ "+".intercalate (ws.map showWrite) ++ "]"
  match k with
  | .response => "R" ++ body
  | .tunnel => "T" ++ body
  | .invalid => "E" ++ body
  | .ignored => "I" ++ body

def runLine (old : Bool) (auth : Bool) (modes : List Mode) (evs : List (Nat × Ev)) : Option String := do
  let modeOf : Nat → Mode := fun c => modes.getD c .regular
  let mut σ := State.init
  let mut outs : List String := []
  for (c, e) in evs do
    if c ≥ modes.length then none
    let r := if old then stepOld auth (modeOf c) σ c e else step auth (modeOf c) σ c e
    σ := r.1
    outs := outs ++ [showStep r.2.1 r.2.2]
  let tl := (List.range modes.length).filter (fun c => σ.tunneled.contains c)
  pure (" ".intercalate outs ++ " | " ++ (if tl.isEmpty then "-" else ",".intercalate (tl.map toString)))

def stepLine (line : String) : String :=
  match fields line with
  | op :: auth :: modes :: evs =>
    if op ≠ "run" ∧ op ≠ "runold" then "bad-op" else
    if auth ≠ "0" ∧ auth ≠ "1" then "bad-op" else
    match (modes.splitOn ",").mapM parseMode, evs.mapM parseEv with
    | some ms, some es => (runLine (op = "runold") (auth = "1") ms es).getD "bad-op"
    | _, _ => "bad-op"
  | _ => "bad-op"

end C24Driver

def main : IO Unit := runPure C24Driver.stepLine
