import MitmVerif.Model.C25
import Driver.Proto
open MitmVerif Driver
open MitmVerif.C25

namespace C25Drv

def optHex (s : String) : Option (Option Bytes) :=
  if s = "!" then some none else (hexOr s).map some

/-- `d:raw:text;e:text:raw;...` (`!` = the codec raises) -/
def parseTable (s : String) : Option (List (Bytes × Option Bytes) × List (Bytes × Option Bytes)) :=
  if s = "-" then some ([], []) else
  (s.splitOn ";").foldr (fun ent acc =>
    match acc, ent.splitOn ":" with
    | some (dt, et), [k, a, b] =>
      match hexOr a, optHex b with
      | some ka, some vb => if k = "d" then some ((ka, vb) :: dt, et) else if k = "e" then some (dt, (ka, vb) :: et) else none
      | _, _ => none
    | _, _ => none) (some ([], []))

def showB (b : Bool) : String := if b then "1" else "0"
def showQ (q : Question) : String := s!"{showBytes q.name}:{q.type}:{q.cls}"
def showRR (r : RR) : String := s!"{showBytes r.name}:{r.type}:{r.cls}:{r.ttl}:{showBytes r.data}"
def showList {α} (f : α → String) (l : List α) : String := if l.isEmpty then "-" else ";".intercalate (l.map f)

def showMsg (m : Msg) : String :=
  s!"{m.id},{showB m.query},{m.opCode},{showB m.aa},{showB m.tc},{showB m.rd},{showB m.ra},{m.reserved},{m.rcode} " ++
  s!"{showList showQ m.questions} {showList showRR m.answers} {showList showRR m.authorities} {showList showRR m.additionals}"

def parseQ (s : String) : Option Question :=
  match s.splitOn ":" with
  | [n, t, c] => match hexOr n, t.toNat?, c.toNat? with
    | some n, some t, some c => some ⟨n, t, c⟩
    | _, _, _ => none
  | _ => none

def parseRR (s : String) : Option RR :=
  match s.splitOn ":" with
  | [n, t, c, ttl, d] => match hexOr n, t.toNat?, c.toNat?, ttl.toNat?, hexOr d with
    | some n, some t, some c, some ttl, some d => some ⟨n, t, c, ttl, d⟩
    | _, _, _, _, _ => none
  | _ => none

def parseList {α} (f : String → Option α) (s : String) : Option (List α) :=
  if s = "-" then some [] else (s.splitOn ";").mapM f

def parseMsg (h q an ns ar : String) : Option Msg :=
  match (h.splitOn ",").mapM String.toNat?, parseList parseQ q, parseList parseRR an, parseList parseRR ns, parseList parseRR ar with
  | some [id, qr, op, aa, tc, rd, ra, z, rc], some q, some an, some ns, some ar =>
    some { id := id, query := qr = 1, opCode := op, aa := aa = 1, tc := tc = 1, rd := rd = 1, ra := ra = 1,
           reserved := z, rcode := rc, questions := q, answers := an, authorities := ns, additionals := ar }
  | _, _, _, _, _ => none

/-- run `f` under the recorded codec table; a result that depends on an entry the table lacks is reported -/
def withTable (tbl : String) (f : Idna → String) : String :=
  match parseTable tbl with
  | none => "bad-op"
  | some (dt, et) =>
    let a := f (tableIdna dt et none)
    let b := f (tableIdna dt et (some [0x21]))
    if a = b then a else "idna-miss"

def step (line : String) : String :=
  match fields line with
  | ["unpack", tbl, h] =>
    match hexOr h with
    | some b => withTable tbl fun I => match unpack I b with | some m => "ok " ++ showMsg m | none => "err"
    | none => "bad-op"
  | ["pack", tbl, h, q, an, ns, ar] =>
    match parseMsg h q an ns ar with
    | some m => withTable tbl fun I => match pack I m with | some b => "ok " ++ showBytes b | none => "err"
    | none => "bad-op"
  | ["chain", tbl, h] =>            -- decode, re-encode, decode again: the model predicts all three
    match hexOr h with
    | some b => withTable tbl fun I =>
        match unpack I b with
        | none => "err"
        | some m =>
          "ok " ++ showMsg m ++ " | " ++
          (match pack I m with
           | none => "err"
           | some p => "ok " ++ showBytes p ++ " | " ++ (match unpack I p with | some m2 => "ok " ++ showMsg m2 | none => "err"))
    | none => "bad-op"
  | ["rt", tbl, h, q, an, ns, ar] => -- encode a constructed message and decode the model's own bytes
    match parseMsg h q an ns ar with
    | some m => withTable tbl fun I =>
        match pack I m with
        | none => "err"
        | some p => "ok " ++ showBytes p ++ " | " ++ (match unpack I p with | some m2 => "ok " ++ showMsg m2 | none => "err")
    | none => "bad-op"
  | ["name", tbl, h, off] =>
    match hexOr h, off.toNat? with
    | some b, some o => withTable tbl fun I =>
        match unpackName I b o [] 0 with | some ((t, n), _) => s!"ok {showBytes t} {n}" | none => "err"
    | _, _ => "bad-op"
  | ["expand", h, off, len, ty] =>
    match hexOr h, off.toNat?, len.toNat?, ty.toNat? with
    | some b, some o, some l, some t =>
      if b.length < o + l then "bad-op" else
      match rrData b o l t with | some d => "ok " ++ showBytes d | none => "err"
    | _, _, _, _ => "bad-op"
  | ["unpackt", tbl, h] =>           -- decode + "did every record match the layout of its type"
    match hexOr h with
    | some b => withTable tbl fun I =>
        match unpackT I b with | some (m, ok) => "ok " ++ showMsg m ++ (if ok then " 1" else " 0") | none => "err"
    | none => "bad-op"
  | ["wfascii", h, q, an, ns, ar] =>
    match parseMsg h q an ns ar with
    | some m => if wellFormedAscii m then "1" else "0"
    | none => "bad-op"
  | ["plain", ty, h] =>
    match ty.toNat?, hexOr h with
    | some t, some d => if rdataPlain t d then "1" else "0"
    | _, _ => "bad-op"
  | _ => "bad-op"

end C25Drv

def main : IO Unit := runPure C25Drv.step
