import MitmVerif.Model.C26
import MitmVerif.Lemmas.C26Live
import Driver.Proto
open MitmVerif Driver
open MitmVerif.C25 MitmVerif.C26

namespace C26Drv

def optHex (s : String) : Option (Option Bytes) :=
  if s = "!" then some none else (hexOr s).map some

def parseTable (s : String) : Option (List (Bytes × Option Bytes) × List (Bytes × Option Bytes)) :=
  if s = "-" then some ([], []) else
  (s.splitOn ";").foldr (fun ent acc =>
    match acc, ent.splitOn ":" with
    | some (dt, et), [k, a, b] =>
      match hexOr a, optHex b with
      | some ka, some vb => if k = "d" then some ((ka, vb) :: dt, et) else if k = "e" then some (dt, (ka, vb) :: et) else none
      | _, _ => none
    | _, _ => none) (some ([], []))

def withTable (tbl : String) (f : Idna → String) : String :=
  match parseTable tbl with
  | none => "bad-op"
  | some (dt, et) =>
    let a := f (tableIdna dt et none)
    let b := f (tableIdna dt et (some [0x21]))
    if a = b then a else "idna-miss"

def showFwd : Fwd → String
  | .crashed => "crashed"
  | .done outs closed => (if closed then "closed " else "sent ") ++ (if outs.isEmpty then "-" else ",".intercalate (outs.map showBytes))

def showList {α} (f : α → String) (l : List α) : String := if l.isEmpty then "-" else ";".intercalate (l.map f)
def showRQ (q : DnsRef.RQ) : String := s!"{showBytes (wire q.labels ++ [0])}:{q.type}:{q.cls}"
def showRRec (r : DnsRef.RRec) : String := s!"{showBytes (wire r.labels ++ [0])}:{r.type}:{r.cls}:{r.ttl}:{showBytes r.rdata}"
def showRef (m : DnsRef.RMsg) : String :=
  s!"{m.id},{m.flags} {showList showRQ m.questions} {showList showRRec m.answers} {showList showRRec m.authorities} {showList showRRec m.additionals}"

def step (line : String) : String :=
  match fields line with
  | ["fwd", tbl, proto, h] =>
    match hexOr h with
    | some b =>
      if proto = "udp" then withTable tbl fun I => showFwd (forwardUdp I b)
      else if proto = "tcp" then withTable tbl fun I => showFwd (forwardTcp I b)
      else "bad-op"
    | none => "bad-op"
  | ["cnames", ns] =>                -- the reference compressing encoder: names `l.l.l,l.l,-` (hex labels, `-` = root)
    let parseName (s : String) : Option (List Bytes) := if s = "-" then some [] else (s.splitOn ".").mapM hexOr
    match (ns.splitOn ",").mapM parseName with
    | some names => showBytes (cnames [] 0 names)
    | none => "bad-op"
  | ["live", h] =>
    match hexOr h with
    | some b => if liveCheck b then "1" else "0"
    | none => "bad-op"
  | ["ref", h] =>
    match hexOr h with
    | some b => match DnsRef.decode b with | some m => "ok " ++ showRef m | none => "err"
    | none => "bad-op"
  | _ => "bad-op"

end C26Drv

def main : IO Unit := runPure C26Drv.step
