import MitmVerif.Model.C27_Async
import Driver.Proto
open MitmVerif Driver
open MitmVerif.C25 MitmVerif.C27

namespace C27Drv

def optHex (s : String) : Option (Option Bytes) :=
  if s = "!" then some none else (hexOr s).map some

/-- `d:raw:text;e:text:raw;...` (`!` = the codec raises) — the recorded idna codec table of the case -/
def parseTable (s : String) : Option (List (Bytes × Option Bytes) × List (Bytes × Option Bytes)) :=
  if s = "-" then some ([], []) else
  (s.splitOn ";").foldr (fun ent acc =>
    match acc, ent.splitOn ":" with
    | some (dt, et), [k, a, b] =>
      match hexOr a, optHex b with
      | some ka, some vb => if k = "d" then some ((ka, vb) :: dt, et) else if k = "e" then some (dt, (ka, vb) :: et) else none
      | _, _ => none
    | _, _ => none) (some ([], []))

def showB (b : Bool) : String := if b then "1" else "0"
def showQ (q : Question) : String := s!"{showBytes q.name}:{q.type}:{q.cls}"
def showRR (r : RR) : String := s!"{showBytes r.name}:{r.type}:{r.cls}:{r.ttl}:{showBytes r.data}"
def showList {α} (f : α → String) (l : List α) : String := if l.isEmpty then "-" else ";".intercalate (l.map f)

def showMsg (m : Msg) : String :=
  s!"{m.id},{showB m.query},{m.opCode},{showB m.aa},{showB m.tc},{showB m.rd},{showB m.ra},{m.reserved},{m.rcode} " ++
  s!"{showList showQ m.questions} {showList showRR m.answers} {showList showRR m.authorities} {showList showRR m.additionals}"

def showOptMsg : Option Msg → String
  | none => "none"
  | some m => "[" ++ showMsg m ++ "]"

def showHook : Hook → String
  | .request => "dns_request" | .response => "dns_response" | .error => "dns_error"

def showOut : Out → String
  | .hook h f => s!"hook {showHook h} {showOptMsg f.request} {showOptMsg f.response} {showB f.error}"
  | .opened .ok => "open ok"
  | .opened .fail => "open fail"
  | .opened .killed => "open killed"
  | .toServer _ w => "send server " ++ showBytes w
  | .toClient _ w => "send client " ++ showBytes w
  | .closeClient => "close client"
  | .closeServer => "close server"
  | .crash => "crash"

def showOuts (l : List Out) : String := if l.isEmpty then "-" else " | ".intercalate (l.map showOut)

/-- `p` | `x` | `e` | `r=<hex>` | `r=<hex>@<id>` (response decoded from the bytes, then its id overwritten) -/
def parseAct (I : Idna) (s : String) : Option Act :=
  if s = "p" then some .pass else if s = "x" then some .clear else if s = "e" then some .err
  else match s.splitOn "=" with
    | ["r", v] =>
      match v.splitOn "@" with
      | [h] => (hexOr h).bind (unpack I) |>.map Act.respond
      | [h, i] =>
        match (hexOr h).bind (unpack I), i.toNat? with
        | some m, some n => some (.respond { m with id := n })
        | _, _ => none
      | _ => none
    | _ => none

def parseActs (I : Idna) (s : String) : Option (List Act) :=
  if s = "-" then some [] else (s.splitOn ",").mapM (parseAct I)

def parseConns (s : String) : Option (List Bool) :=
  if s = "-" then some [] else s.toList.mapM (fun ch => if ch = '1' then some true else if ch = '0' then some false else none)

/-- the model runs under two instances of the idna parameter that differ exactly on the entries the table lacks;
    differing output = the model asked for something the harness did not record -/
structure DS where
  ca : Option Cfg := none
  cb : Option Cfg := none
  sa : State := {}
  sb : State := {}
  aa : AState := {}          -- the same layer behind `Layer.handle_event` (asynchronous hook completion)
  ab : AState := {}

def evStep (s : DS) (ev : Ev) : DS × String :=
  match s.ca, s.cb with
  | some ca, some cb =>
    let ra := step ca s.sa ev
    let rb := step cb s.sb ev
    let a := showOuts ra.2
    let b := showOuts rb.2
    ({ s with sa := ra.1, sb := rb.1 }, if a = b then a else "idna-miss")
  | _, _ => (s, "bad-op")

def aStep (s : DS) (e : AEv) : DS × String :=
  match s.ca, s.cb with
  | some ca, some cb =>
    let ra := astep ca s.aa e
    let rb := astep cb s.ab e
    let a := showOuts ra.2
    let b := showOuts rb.2
    ({ s with aa := ra.1, ab := rb.1 }, if a = b then a else "idna-miss")
  | _, _ => (s, "bad-op")

def stepLine (s : DS) (line : String) : DS × String :=
  match fields line with
  | ["reset", tbl, tcp, up, acts, conns] =>
    match parseTable tbl with
    | none => (s, "bad-op")
    | some (dt, et) =>
      let ia := tableIdna dt et none
      let ib := tableIdna dt et (some [0x21])
      match parseActs ia acts, parseActs ib acts, parseConns conns with
      | some aa, some ab, some cs =>
        if (tcp = "0" ∨ tcp = "1") ∧ (up = "0" ∨ up = "1") then
          ({ ca := some ⟨ia, tcp = "1", up = "1"⟩, cb := some ⟨ib, tcp = "1", up = "1"⟩,
             sa := C27.init aa cs, sb := C27.init ab cs,
             aa := { σ := C27.init aa cs }, ab := { σ := C27.init ab cs } }, "ok")
        else (s, "bad-op")
      | _, _, _ => (s, "bad-op")
  | ["c", h] => match hexOr h with | some d => evStep s (.clientData d) | none => (s, "bad-op")
  | ["s", h] => match hexOr h with | some d => evStep s (.serverData d) | none => (s, "bad-op")
  | ["cc"] => evStep s .clientClose
  | ["sc"] => evStep s .serverClose
  | ["a", "c", h] => match hexOr h with | some d => aStep s (.arrive (.clientData d)) | none => (s, "bad-op")
  | ["a", "s", h] => match hexOr h with | some d => aStep s (.arrive (.serverData d)) | none => (s, "bad-op")
  | ["a", "cc"] => aStep s (.arrive .clientClose)
  | ["a", "sc"] => aStep s (.arrive .serverClose)
  | ["a", "done"] => if s.aa.paused.isSome then aStep s .complete else (s, "not-paused")
  | ["a", "idle?"] => (s, if s.aa.paused.isSome then "paused" else if s.aa.queue.isEmpty then "idle" else "queued")
  | _ => (s, "bad-op")

end C27Drv

def main : IO Unit := runState C27Drv.stepLine {}
