import MitmVerif.Model.C28
import MitmVerif.Model.C28_Wire
import Driver.Proto
open MitmVerif Driver MitmVerif.C28

namespace C28D

def side (b : Bool) : String := if b then "c" else "s"
def typ (b : Bool) : String := if b then "t" else "b"

def parseSide (s : String) : Option Bool :=
  if s = "c" then some true else if s = "s" then some false else none
def parseTyp (s : String) : Option Bool :=
  if s = "t" then some true else if s = "b" then some false else none
def parseBit (s : String) : Option Bool :=
  if s = "1" then some true else if s = "0" then some false else none

def showReason : Option Bytes → String
  | none => "none"
  | some b => showBytes b

def parseReason (s : String) : Option (Option Bytes) :=
  if s = "none" then some none else (hexOr s).map some

def showFrames (fr : List (Bytes × Bool)) : String :=
  ";".intercalate (fr.map (fun pf => showBytes pf.1 ++ (if pf.2 then "!" else "+")))

def showOut : Out → String
  | .hookMsg i => "H" ++ toString i
  | .sendMsg tc t fr => "M" ++ side tc ++ "." ++ typ t ++ "." ++ showFrames fr
  | .sendPing tc p => "PI" ++ side tc ++ "." ++ showBytes p
  | .sendPong tc p => "PO" ++ side tc ++ "." ++ showBytes p
  | .sendClose tc c r => "CL" ++ side tc ++ "." ++ toString c ++ "." ++ showReason r
  | .closeConn c => "CC" ++ side c
  | .hookEnd => "E"
  | .crash => "X"

def showOuts (o : List Out) : String := if o.isEmpty then "-" else " ".intercalate (o.map showOut)

def parseEv (s : String) : Option WsEv :=
  match s.splitOn "." with
  | ["m", t, h, ff, mf] =>
    match parseTyp t, hexOr h, parseBit ff, parseBit mf with
    | some t, some d, some ff, some mf => some (.msg t d ff mf)
    | _, _, _, _ => none
  | ["pi", h] => (hexOr h).map .ping
  | ["po", h] => (hexOr h).map .pong
  | ["cl", k, c, r] =>
    let kind : Option CloseKind :=
      if k = "f" then some .frame else if k = "e" then some .eof else if k = "p" then some .parseFail else none
    match kind, c.toNat?, parseReason r with
    | some k, some c, some r => some (.close k c r)
    | _, _, _ => none
  | _ => none

def parseAll {α β : Type} (f : α → Option β) : List α → Option (List β)
  | [] => some []
  | a :: as => match f a, parseAll f as with
    | some b, some bs => some (b :: bs)
    | _, _ => none

def parseAction (s : String) : Option Action :=
  if s = "k" then some .keep
  else if s = "d" then some .drop
  else if s.startsWith "e" then (hexOr (s.drop 1).toString).map .edit
  else none

def parseLens (s : String) : Option (List Nat) :=
  if s = "-" then some [] else parseAll String.toNat? (s.splitOn ",")

structure DSt where
  st : St := {}
  pol : List Action := []

def polOf (l : List Action) : Policy := fun i _ => l.getD i .keep

def showMsg (m : Msg) : String :=
  typ m.text ++ side m.fromClient ++ (if m.injected then "i" else "r") ++ (if m.dropped then "d" else "f")
    ++ ":" ++ showBytes m.content

def showBuf (b : List Bytes) : String := "|".intercalate (b.map showBytes)

def showState (s : St) : String :=
  "msgs=" ++ (if s.msgs.isEmpty then "-" else ",".intercalate (s.msgs.map showMsg))
  ++ " closed=" ++ (match s.closed with
      | none => "none"
      | some (bc, code, r) => side bc ++ "." ++ toString code ++ "." ++ showReason r)
  ++ " done=" ++ (if s.done then "1" else "0") ++ " crashed=" ++ (if s.crashed then "1" else "0")
  ++ " bufc=" ++ showBuf s.bufC ++ " bufs=" ++ showBuf s.bufS

def showFrame (f : Wire.Frame) : String :=
  (if f.fin then "1" else "0") ++ "." ++ toString f.rsv ++ "." ++ toString f.opcode ++ "." ++
  (match f.key with | some k => showBytes k | none => "none") ++ "." ++ showBytes f.payload

def showEv : WsEv → String
  | .msg t d ff mf => "m." ++ typ t ++ "." ++ showBytes d ++ "." ++ (if ff then "1" else "0") ++ "." ++ (if mf then "1" else "0")
  | .ping p => "pi." ++ showBytes p
  | .pong p => "po." ++ showBytes p
  | .close k c r => "cl." ++ (match k with | .frame => "f" | .eof => "e" | .parseFail => "p") ++ "." ++ toString c ++ "." ++ showReason r

def wireLine (fs : List String) : Option String :=
  match fs with
  | ["uinc", chunks] =>
    match parseAll hexOr (chunks.splitOn ",") with
    | some cs =>
      match decodeChunks [] cs with
      | some r => some (",".intercalate (r.1.map showBytes))
      | none => some "fail"
    | none => none
  | ["fenc", fin, rsv, op, key, pl] =>
    match parseBit fin, rsv.toNat?, op.toNat?, parseReason key, hexOr pl with
    | some fin, some rsv, some op, some key, some pl =>
      some (showBytes (Wire.encodeFrame { fin := fin, rsv := rsv, opcode := op, key := key, payload := pl }))
    | _, _, _, _, _ => none
  | ["fdec", cl, h] =>
    match parseBit cl, hexOr h with
    | some cl, some b =>
      let r := Wire.decodeStream cl Wire.noExt (b.length + 1) b
      some ((if r.1.isEmpty then "-" else " ".intercalate (r.1.map showFrame)) ++ " | " ++ toString r.2.1.length ++ " " ++
            (if r.2.2 then "fail" else "ok"))
    | _, _ => none
  | ["fev", cl, h] =>
    match parseBit cl, hexOr h with
    | some cl, some b =>
      match Wire.streamEventsU cl Wire.noExt (b.length + 1) none [] b with
      | none => some "fail"
      | some evs => some (if evs.isEmpty then "-" else " ".intercalate (evs.map showEv))
    | _, _ => none
  | _ => none

def stepLine (d : DSt) (line : String) : DSt × String :=
  match wireLine (fields line) with
  | some r => (d, r)
  | none =>
  match fields line with
  | ["reset"] => ({}, "ok")
  | ["san", h] =>
    match hexOr h with
    | some b => (d, showBytes (san b))
    | none => (d, "bad-op")
  | ["frag", t, lens, h] =>
    match parseBit t, parseLens lens, hexOr h with
    | some t, some lens, some c => (d, showFrames (fragmentize FRAGMENT_SIZE lens t c))
    | _, _, _ => (d, "bad-op")
  | "policy" :: acts =>
    match parseAll parseAction acts with
    | some l => ({ d with pol := l }, "ok")
    | none => (d, "bad-op")
  | "data" :: sd :: evs =>
    match parseSide sd, parseAll parseEv evs with
    | some fc, some evs =>
      let r := step FRAGMENT_SIZE (polOf d.pol) d.st (.data fc evs)
      ({ d with st := r.1 }, showOuts r.2)
    | _, _ => (d, "bad-op")
  | ["inject", sd, t, h] =>
    match parseSide sd, parseTyp t, hexOr h with
    | some fc, some t, some c =>
      let r := step FRAGMENT_SIZE (polOf d.pol) d.st (.inject fc t c)
      ({ d with st := r.1 }, showOuts r.2)
    | _, _, _ => (d, "bad-op")
  | ["state"] => (d, showState d.st)
  | _ => (d, "bad-op")

end C28D

def main : IO Unit := runState C28D.stepLine {}
