import MitmVerif.Model.C29
import Driver.Proto
open MitmVerif Driver
open MitmVerif.C29

namespace C29Driver

def side? : String → Option Side
  | "c" => some .client
  | "s" => some .server
  | _ => none

def bool? : String → Option Bool
  | "0" => some false
  | "1" => some true
  | _ => none

def showSide : Side → String
  | .client => "c"
  | .server => "s"

def showOut : Output → String
  | .hook .start => "H:start"
  | .hook (.message fc d) => "H:msg:" ++ (if fc then "c" else "s") ++ ":" ++ showBytes d
  | .hook .end_ => "H:end"
  | .hook .error => "H:err"
  | .openServer => "O"
  | .send to d => "S:" ++ showSide to ++ ":" ++ showBytes d
  | .close c half => "C:" ++ showSide c ++ ":" ++ (if half then "h" else "f")

def showConn (c : Conn) : String :=
  (if c.canRead then "r" else "-") ++ (if c.canWrite then "w" else "-")

def showPhase : Phase → String
  | .idle => "idle" | .start => "start" | .relay => "relay" | .done => "done"

def showOuts (l : List Output) : String :=
  if l.isEmpty then "-" else ",".intercalate (l.map showOut)

def parseInput : List String → Option Input
  | ["start"] => some .start
  | ["data", s, h] => do let s ← side? s; let b ← hexOr h; pure (.data s b)
  | ["inject", fc, h] => do let fc ← bool? fc; let b ← hexOr h; pure (.inject fc b)
  | ["closed", s, f] => do let s ← side? s; let f ← bool? f; pure (.closed s f)
  | ["hook", "none"] => some (.hookDone none)
  | ["hook", h] => do let b ← hexOr h; pure (.hookDone (some b))
  | ["connect", e] => do let e ← bool? e; pure (.connectDone e)
  | ["hookkill"] => some .hookKill
  | ["connectr", "none"] => some (replyInput none)
  | ["connectr", h] => do let b ← hexOr h; pure (replyInput (some b))
  | _ => none

def render (new : State) : String :=
  showOuts new.trace ++ " c=" ++ showConn new.client ++ " s=" ++ showConn new.server
    ++ " ph=" ++ showPhase new.phase ++ " paused=" ++ (if new.pending = .none then "0" else "1")
    ++ " q=" ++ toString new.queue.length ++ " n=" ++ toString new.flowMessages.length
    ++ " live=" ++ (if new.live then "1" else "0") ++ " err=" ++ (if new.error then "1" else "0")
    -- the CONTENTS of `flow.messages` (direction + bytes of every message, the one whose hook is pending included)
    ++ " m=" ++ (if new.flowMessages.isEmpty then "-" else
        ",".intercalate (new.flowMessages.map fun m => (if m.fromClient then "c" else "s") ++ ":" ++ showBytes m.content))

def stepLine (st : State) (line : String) : State × String :=
  match fields line with
  | ["reset", p, f, c] =>
    match (match p with | "tcp" => some Proto.tcp | "udp" => some Proto.udp | _ => none), bool? f, bool? c with
    | some p, some f, some c => (init p f c, "ok")
    | _, _, _ => (st, "bad-op")
  | ["openreply", k, h] =>
    -- what `open_connection` completes the command with: k = ok | oserror | cancelled, h = str(e)
    match (match k with | "ok" => some ConnectOutcome.ok | "cancelled" => some ConnectOutcome.cancelled
                        | "oserror" => (hexOr h).map ConnectOutcome.oserror | _ => none) with
    | some o => (st, match openConnectionReply o with | none => "none" | some b => showBytes b)
    | none => (st, "bad-op")
  | ["resetx", p, f, c, cd, sd] =>
    match (match p with | "tcp" => some Proto.tcp | "udp" => some Proto.udp | _ => none), bool? f, bool? c, bool? cd, bool? sd with
    | some p, some f, some c, some cd, some sd => (initX p f c cd sd, "ok")
    | _, _, _, _, _ => (st, "bad-op")
  | fs =>
    match parseInput fs with
    | some i =>
      -- the driver keeps the ghost log empty between steps (`step` only ever appends to it),
      -- so after one step it holds exactly the commands of that step
      let st' := step { st with trace := [] } i
      ({ st' with trace := [] }, render st')
    | none => (st, "bad-op")

end C29Driver

def main : IO Unit := runState C29Driver.stepLine (C29.init .tcp true true)
