import MitmVerif.Model.C30
import Driver.Proto
open MitmVerif Driver
open MitmVerif.C29 (Side Hook)
open MitmVerif.C30

namespace C30Driver

def bool? : String → Option Bool
  | "0" => some false
  | "1" => some true
  | _ => none

def cs (toClient : Bool) : String := if toClient then "c" else "s"
def showSide : Side → String
  | .client => "c"
  | .server => "s"

def showHook : Hook → String
  | .start => "start"
  | .message fc d => "msg:" ++ (if fc then "c" else "s") ++ ":" ++ showBytes d
  | .end_ => "end"
  | .error => "err"

def showOut : QOut → String
  | .data tc id d fin => "D:" ++ cs tc ++ ":" ++ toString id ++ ":" ++ showBytes d ++ ":" ++ (if fin then "1" else "0")
  | .reset tc id code => "R:" ++ cs tc ++ ":" ++ toString id ++ ":" ++ toString code
  | .stop tc id => "T:" ++ cs tc ++ ":" ++ toString id ++ ":0"
  | .closeQuic tc code => "Q:" ++ cs tc ++ ":" ++ toString code
  | .hook (some cid) h => "H:" ++ toString cid ++ ":" ++ showHook h
  | .hook none h => "H:dg:" ++ showHook h
  | .dgram (.send to d) => "S:" ++ showSide to ++ ":" ++ showBytes d
  | .dgram (.close c half) => "C:" ++ showSide c ++ ":" ++ (if half then "h" else "f")
  | .dgram .openServer => "O"
  | .dgram (.hook h) => "H:dg:" ++ showHook h
  | .fault => "X"

def insertBy (x : Nat × Option Nat) : List (Nat × Option Nat) → List (Nat × Option Nat)
  | [] => [x]
  | y :: t => if x.1 ≤ y.1 then x :: y :: t else y :: insertBy x t

def sortPairs (l : List (Nat × Option Nat)) : List (Nat × Option Nat) := l.foldr insertBy []

def showPair (p : Nat × Option Nat) : String :=
  toString p.1 ++ "/" ++ (match p.2 with | some s => toString s | none => "n")

def render (m : Mux C29.State) (outs : List QOut) : String :=
  let ps := sortPairs (m.streams.map fun s => (s.cid, s.sid))
  (if outs.isEmpty then "-" else ",".intercalate (outs.map showOut))
    ++ " pairs=" ++ (if ps.isEmpty then "-" else ";".intercalate (ps.map showPair))
    ++ " next=" ++ toString m.next.n0 ++ "," ++ toString m.next.n1 ++ "," ++ toString m.next.n2 ++ "," ++ toString m.next.n3

def parse : List String → Option QIn
  | ["start"] => some .start
  | ["sd", fc, id, h, fin] => do
    let fc ← bool? fc; let id ← id.toNat?; let b ← hexOr h; let fin ← bool? fin; pure (.streamData fc id b fin)
  | ["sr", fc, id, code] => do let fc ← bool? fc; let id ← id.toNat?; let c ← code.toNat?; pure (.streamReset fc id c)
  | ["cc", fc, code] => do let fc ← bool? fc; let c ← code.toNat?; pure (.connClosed fc c)
  | ["dg", fc, h] => do let fc ← bool? fc; let b ← hexOr h; pure (.dgram fc b)
  | ["hook", t, e] => do
    let tgt ← (if t = "dg" then some none else t.toNat?.map some)
    let ed ← (if e = "none" then some none else (hexOr e).map some)
    pure (.hookDone tgt ed)
  | _ => none

/-- driver state: the layer model + the owners of the hooks that are still unanswered, in the order they were yielded
    (the world answers them in any order the schedule likes: `hookidx k e` completes the k-th pending one).  The model
    PREDICTS which stream's hook that is; the harness compares it with the hook the real layer had emitted. -/
structure DState where
  mq : MuxQ C29.State
  pend : List (Option Nat)

def hookOwners (outs : List QOut) : List (Option Nat) :=
  outs.filterMap fun o => match o with | .hook ow _ => some ow | _ => none

def showOwner : Option Nat → String
  | some c => toString c
  | none => "dg"

def stepLine (d : DState) (line : String) : DState × String :=
  match fields line with
  | ["reset"] => (⟨MuxQ.init relayOps true, []⟩, "ok")
  | ["resetq"] => (⟨MuxQ.init relayOps false, []⟩, "ok")      -- the server connection is not up yet
  | ["connectq", e] =>
    match bool? e with
    | some err =>
      let r := stepQ relayOps d.mq (.connectDone err)
      (⟨r.1, d.pend ++ hookOwners r.2⟩, render r.1.m r.2)
    | none => (d, "bad-op")
  | ["hookidx", k, e] =>
    match k.toNat?, (if e = "none" then some none else (hexOr e).map some) with
    | some k, some ed =>
      if d.pend.isEmpty then (d, "bad-op")
      else
        let i := k % d.pend.length
        let ow := (d.pend[i]?).getD none
        let r := stepQ relayOps d.mq (.ev (.hookDone ow ed))
        (⟨r.1, d.pend.eraseIdx i ++ hookOwners r.2⟩, "own=" ++ showOwner ow ++ " " ++ render r.1.m r.2)
    | _, _ => (d, "bad-op")
  | fs =>
    match parse fs with
    | some i => let r := stepQ relayOps d.mq (.ev i); (⟨r.1, d.pend ++ hookOwners r.2⟩, render r.1.m r.2)
    | none => (d, "bad-op")

end C30Driver

def main : IO Unit := runState C30Driver.stepLine ⟨MuxQ.init relayOps true, []⟩
