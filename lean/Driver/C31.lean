import MitmVerif.Model.C31
import Driver.Proto
open MitmVerif Driver MitmVerif.C31

/-- `ok:<hex>` / `str` / `verr` / `terr` (the only shapes an uncached codec call can have) -/
def parseFresh (s : String) : Option Res :=
  if s = "str" then some .str
  else if s = "verr" then some .verr
  else if s = "terr" then some .terr
  else if s.startsWith "ok:" then (hexOr (s.drop 3).toString).map Res.ok
  else none

def showRes : Res → String
  | .ok b => "ok:" ++ showBytes b
  | .str => "str"
  | .verr => "verr"
  | .terr => "terr"
  | .nil => "nil"
  | .done => "done"

def showOptBytes : Option Bytes → String
  | some b => showBytes b
  | none => "none"

def parseOptBytes (s : String) : Option (Option Bytes) :=
  if s = "none" then some none else (hexOr s).map some

def parseBool (s : String) : Option Bool :=
  if s = "0" then some false else if s = "1" then some true else none

def showNeed : Need → String
  | .no => "-"
  | .dec n e x => s!"D:{showBytes n}:{showBytes e}:{showBytes x}"
  | .enc n e d => s!"E:{showBytes n}:{showBytes e}:{showBytes d}"

def showCache : Cache → String
  | none => "none"
  | some e => s!"{showBytes e.encoded}:{showBytes e.coding}:{showBytes e.errors}:{showBytes e.decoded}"

def showMsg (m : Msg) : String :=
  let cl := match m.cl with | some n => toString n | none => "none"
  let tr := match m.tr with | .absent => 0 | .empty => 1 | .nonEmpty => 2
  let ver := match m.ver with | .h11 => 0 | .h2 => 1 | .h3 => 2
  s!"{showOptBytes m.raw},{showOptBytes m.ce},{if m.te then 1 else 0},{cl},{tr},{ver}"

/-- driver session: the model state plus the last bytes value a `dec` / `get` op returned — so that the histories'
    value modes `last` (`m.content = m.content`-style re-assignment) and `rawof j` (another message's raw body) are
    RESOLVED BY THE MODEL from its own state, not copied from the implementation's run -/
structure Sess where
  st : State
  last : Bytes

def doOp (ss : Sess) (op : Op) (fresh : Res) : Sess × String :=
  let s := ss.st
  let nd := need s op
  let (s', r) := stepWith s op fresh
  let last' := match op, r with
    | .dec _ _ _, .ok b => b
    | .getContent _ _, .ok b => b
    | _, _ => ss.last
  (⟨s', last'⟩, s!"{showRes r} {showNeed nd} {showCache s'.cache} {showMsg s'.m0} {showMsg s'.m1}")

def bad (s : Sess) : Sess × String := (s, "bad-op")

/-- value field of `set` / `raw`: `none`, `last`, `rawof0`, `rawof1`, or hex bytes -/
def parseVal (ss : Sess) (v : String) : Option (Option Bytes) :=
  if v = "last" then some (some ss.last)
  else if v = "rawof0" then some ss.st.m0.raw
  else if v = "rawof1" then some ss.st.m1.raw
  else parseOptBytes v

/-- outcome of a library call supplied by the harness: `ok:<hex>` or `err` (the library raised) -/
def parseLib (s : String) : Option (Option Bytes) :=
  if s = "err" then some none
  else if s.startsWith "ok:" then (hexOr (s.drop 3).toString).map some
  else none

def c31Step (s : Sess) (line : String) : Sess × String :=
  match fields line with
  | ["reset"] => (⟨init, []⟩, "ok")
  -- `guard <d> <n> <errors> <ref of the cache entry's bytes> <uncached enc result>`: the theorems' guards in the
  -- CURRENT (pre-op) cache state: is `encode(d, n, errors)` a hit (on which bytes), `lenientHit`, `nonCanonicalHit`
  | ["guard", d, n, e, rf, f] =>
    match hexOr d, hexOr n, hexOr e, parseLib rf, parseFresh f with
    | some d, some n, some e, some rf, some f =>
      let h := match encHit s.st.cache d n e with | some x => showBytes x | none => "miss"
      let l := if lenientHitWith s.st.cache d n rf then "1" else "0"
      let c := if nonCanonicalHitWith s.st.cache d n e f then "1" else "0"
      (s, s!"H:{h} L:{l} N:{c}")
    | _, _, _, _, _ => bad s
  -- `content <i> <strict> <fresh>`: the cache-free reading `contentOf` of message i in the current model state
  | ["content", i, st, f] =>
    match parseBool i, parseBool st, parseFresh f with
    | some i, some st, some f => (s, showRes (contentOfWith (s.st.msg i) st f))
    | _, _, _ => bad s
  -- `own <custom_decode key> <x> <lib1> <lib2>`: mitmproxy's own decoder function for that key, as transcribed
  | ["own", n, x, l1, l2] =>
    match hexOr n, hexOr x, parseLib l1, parseLib l2 with
    | some n, some x, some l1, some l2 =>
      (s, match decFnOf n with
          | some fn => showRes (ownDecodeWith fn x l1 l2)
          | none => "nofn")
    | _, _, _, _ => bad s
  | ["dec", x, c, e, f] =>
    match hexOr x, hexOr c, hexOr e, parseFresh f with
    | some x, some c, some e, some f => doOp s (.dec x c e) f
    | _, _, _, _ => bad s
  | ["enc", d, c, e, f] =>
    match hexOr d, hexOr c, hexOr e, parseFresh f with
    | some d, some c, some e, some f => doOp s (.enc d c e) f
    | _, _, _, _ => bad s
  | ["set", i, v, f] =>
    match parseBool i, parseVal s v, parseFresh f with
    | some i, some v, some f => doOp s (.setContent i v) f
    | _, _, _ => bad s
  | ["get", i, st, f] =>
    match parseBool i, parseBool st, parseFresh f with
    | some i, some st, some f => doOp s (.getContent i st) f
    | _, _, _ => bad s
  | ["mdec", i, st, f] =>
    match parseBool i, parseBool st, parseFresh f with
    | some i, some st, some f => doOp s (.mdecode i st) f
    | _, _, _ => bad s
  | ["menc", i, c, f] =>
    match parseBool i, hexOr c, parseFresh f with
    | some i, some c, some f => doOp s (.mencode i c) f
    | _, _, _ => bad s
  | ["raw", i, v] =>
    match parseBool i, parseVal s v with
    | some i, some v => doOp s (.setRaw i v) .verr
    | _, _ => bad s
  | ["ce", i, v] =>
    match parseBool i, parseOptBytes v with
    | some i, some v => doOp s (.setCe i v) .verr
    | _, _ => bad s
  | ["te", i, on] =>
    match parseBool i, parseBool on with
    | some i, some on => doOp s (.setTe i on) .verr
    | _, _ => bad s
  | ["cl", i, n] =>
    match parseBool i with
    | some i =>
      if n = "none" then doOp s (.setCl i none) .verr
      else match n.toNat? with
        | some k => doOp s (.setCl i (some k)) .verr
        | none => bad s
    | none => bad s
  | ["tr", i, t] =>
    match parseBool i with
    | some i =>
      if t = "0" then doOp s (.setTr i .absent) .verr
      else if t = "1" then doOp s (.setTr i .empty) .verr
      else if t = "2" then doOp s (.setTr i .nonEmpty) .verr
      else bad s
    | none => bad s
  | ["ver", i, w] =>
    match parseBool i with
    | some i =>
      if w = "0" then doOp s (.setVer i .h11) .verr
      else if w = "1" then doOp s (.setVer i .h2) .verr
      else if w = "2" then doOp s (.setVer i .h3) .verr
      else bad s
    | none => bad s
  | _ => bad s

def main : IO Unit := runState c31Step ⟨init, []⟩
