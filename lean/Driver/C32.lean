import MitmVerif.Model.C32
import Driver.Proto
open MitmVerif Driver

namespace C32Driver
open MitmVerif.C32

/-- 3-byte big-endian code points -/
def cpsDec : Bytes → Option Str
  | [] => some []
  | a :: b :: c :: r => (cpsDec r).map ((a.toNat * 65536 + b.toNat * 256 + c.toNat) :: ·)
  | _ => none

def cpsEnc (s : Str) : Bytes :=
  s.flatMap (fun c => [UInt8.ofNat (c / 65536), UInt8.ofNat (c / 256 % 256), UInt8.ofNat (c % 256)])

def strField (f : String) : Option Str := (hexOr f).bind cpsDec
def showStr (s : Str) : String := showBytes (cpsEnc s)

def optBytes (f : String) : Option (Option Bytes) :=
  if f = "err" then some none else (hexOr f).map some

def decAns (f : String) : Option (Option Bytes) :=
  if f = "err" then some none
  else if f.startsWith "ok:" then (hexOr (f.drop 3).toString).map some else none

def rt (ctF textF n0F encF u8F n1F decF looseF : String) : String :=
  let ct? : Option (Option Str) := if ctF = "none" then some none else (strField ctF).map some
  match ct?, hexOr textF, strField n0F, optBytes encF, hexOr u8F, strField n1F, decAns decF, hexOr looseF with
  | some ct, some text, some n0, some encres, some u8, some n1, some decres, some loose =>
    let m : Msg := { ct := ct, content := [] }
    let n0m := inferEncoding (ctOf m) []
    if n0m ≠ n0 then "lib-miss enc " ++ showStr n0m else
    let L : Lib Bytes := { enc := fun _ _ => encres, dec := fun _ _ => decres, u8se := fun _ => u8, u8seDec := fun _ => loose }
    let m' := setText L m text
    let n1m := inferEncoding (ctOf m') m'.content
    if n1m ≠ n1 then "lib-miss dec " ++ showStr n1m else
    let sh (o : Option Bytes) : String := match o with | some t => "ok:" ++ showBytes t | none => "err"
    (match m'.ct with | some c => showStr c | none => "none") ++ " " ++ showBytes m'.content ++ " " ++
      sh (getText L m' true) ++ " " ++ sh (getText L m' false)
  | _, _, _, _, _, _, _, _ => "bad-op"

def step (line : String) : String :=
  match fields line with
  | ["infer", ct, body] =>
    (match strField ct, hexOr body with
     | some c, some b => showStr (inferEncoding c b)
     | _, _ => "bad-op")
  | ["rt", a, b, c, d, e, f, g, h] => rt a b c d e f g h
  | _ => "bad-op"

end C32Driver

def main : IO Unit := runPure C32Driver.step
