import MitmVerif.Model.C33
import Driver.Proto
open MitmVerif Driver

namespace C33Driver
open MitmVerif.C33

def cpsDec : Bytes → Option Str
  | [] => some []
  | a :: b :: c :: r => (cpsDec r).map ((a.toNat * 65536 + b.toNat * 256 + c.toNat) :: ·)
  | _ => none

def cpsEnc (s : Str) : Bytes :=
  s.flatMap (fun c => [UInt8.ofNat (c / 65536), UInt8.ofNat (c / 256 % 256), UInt8.ofNat (c % 256)])

def strField (f : String) : Option Str := (hexOr f).bind cpsDec
def showStr (s : Str) : String := showBytes (cpsEnc s)
def optStr (f : String) : Option (Option Str) := if f = "none" then some none else (strField f).map some

/-- impossible code point: marks a library question the harness did not answer -/
def miss : Str := [1114112]

def parseTable (f : String) : Option (List (Str × Str)) :=
  if f = "-" then some [] else
  (f.splitOn ",").foldr (fun kv acc =>
    match acc, kv.splitOn "=" with
    | some l, [k, v] => (match strField k, strField v with | some a, some b => some ((a, b) :: l) | _, _ => none)
    | _, _ => none) (some [])

def showReq (st : String) (r : Req) : String :=
  st ++ " " ++ showStr r.scheme ++ " " ++ showStr r.host ++ " " ++ toString r.port ++ " " ++ showStr r.path ++ " " ++
    (match r.hostHeader with | some h => showStr h | none => "none") ++ " " ++ showStr r.authority ++ " " ++ showStr (url r)

def doEdit (r : Req) (kind arg a1 a2 a3 a4 a5 a6 a7 tbl : String) : Option Req × String :=
  match parseTable tbl with
  | none => (some r, "bad-op")
  | some table =>
    let norm : Str → Str := fun v => ((table.find? (fun e => e.1 == v)).map (·.2)).getD miss
    let mkLib (split : Str → Option (Str × Str × Str)) (idn : Str → Option Str) (valid : Bool) : UrlLib :=
      { split := split, idnaRt := idn, validHost := fun _ => valid, normAuth := norm }
    let fin (st : String) (r' : Req) : Option Req × String :=
      if r'.authority = miss then (some r', "lib-miss auth") else (some r', showReq st r')
    if kind = "host" then
      match strField arg with
      | some h => fin "ok" (setHost (mkLib (fun _ => none) (fun _ => none) false) r h)
      | none => (some r, "bad-op")
    else if kind = "port" then
      match arg.toNat? with
      | some p => fin "ok" (setPort (mkLib (fun _ => none) (fun _ => none) false) r p)
      | none => (some r, "bad-op")
    else if kind = "url" then
      match strField arg with
      | none => (some r, "bad-op")
      | some u =>
        if a1 = "err" then fin "err" r
        else match strField a2, strField a3, strField a4, optStr a7 with
          | some sch, some netloc, some full, some hn =>
            if !(u.any (fun c => c ≥ 128)) && hostname netloc ≠ hn then (some r, "lib-miss hostname " ++ (match hostname netloc with | some x => showStr x | none => "none"))
            else
              let idn : Option (Option Str) :=
                if a5 = "err" then some none
                else if a5.startsWith "ok:" then (strField (a5.drop 3).toString).map some else none
              match idn with
              | none => (some r, "bad-op")
              | some idnAns =>
                -- the composite the theorems are about: urlsplit's reading + the re-assembly + the "/" glue, run as a whole
                -- (urllib accepted the URL, so `_check_bracketed_host` did not raise: validBracketed answers true)
                let Qd : PyLib := withRest { validBracketed := fun _ => true, normRest := fun _ r => r, idnaRt := fun _ => idnAns,
                                             validHost := fun _ => a6 = "1", normAuth := norm }
                if !(u.any (fun c => c ≥ 128)) && (pyLib Qd).split u ≠ some (sch, netloc, full) then
                  (some r, "lib-miss split " ++ (match (pyLib Qd).split u with
                    | some t => showStr t.1 ++ " " ++ showStr t.2.1 ++ " " ++ showStr t.2.2 | none => "err"))
                else
                let L := mkLib (fun _ => some (sch, netloc, full)) (fun _ => idnAns) (a6 = "1")
                (match setUrl L r u with
                 | some r' => fin "ok" r'
                 | none => fin "err" r)
          | _, _, _, _ => (some r, "bad-op")
    else (some r, "bad-op")

def step (st : Option Req) (line : String) : Option Req × String :=
  match fields line with
  | ["pa", s, chk, hostq, valid] =>
    (match strField s, strField hostq with
     | some a, some hq =>
       let hostAsked := (authorityMatch a).map (·.1)
       if hostAsked.isSome ∧ hostAsked ≠ some hq then (st, "lib-miss host")
       else
         let v : Str → Bool := fun _ => valid = "1"
         if chk = "1" then
           (match parseAuthority v a with
            | some (h, p) => (st, "ok " ++ showStr h ++ " " ++ (match p with | some n => toString n | none => "none"))
            | none => (st, "err"))
         else
           let r := parseAuthorityLoose v a
           (st, "ok " ++ showStr r.1 ++ " " ++ (match r.2 with | some n => toString n | none => "none"))
     | _, _ => (st, "bad-op"))
  | ["init", h2, method, hosthdr, auth, scheme, host, port, path, kind, arg, a1, a2, a3, a4, a5, a6, a7, tbl, "end"] =>
    (match strField method, optStr hosthdr, strField auth, strField scheme, strField host, port.toNat?, strField path with
     | some m, some hh, some au, some sc, some ho, some po, some pa =>
       let r : Req := { h2 := h2 = "1", method := m, scheme := sc, host := ho, port := po, path := pa, hostHeader := hh, authority := au }
       doEdit r kind arg a1 a2 a3 a4 a5 a6 a7 tbl
     | _, _, _, _, _, _, _ => (st, "bad-op"))
  | ["next", kind, arg, a1, a2, a3, a4, a5, a6, a7, tbl, "end"] =>
    (match st with
     | some r => doEdit r kind arg a1 a2 a3 a4 a5 a6 a7 tbl
     | none => (st, "bad-op"))
  | ["split", u, vb] =>
    (match strField u with
     | some a =>
       (match pySplit (fun _ => vb = "1") a with
        | some (sc, nl, rest) => (st, "ok " ++ showStr sc ++ " " ++ showStr nl ++ " " ++ showStr rest)
        | none => (st, "err"))
     | none => (st, "bad-op"))
  | ["normrest", sc, rest] =>
    (match strField sc, strField rest with
     | some a, some b => (st, showStr (normRestPy a b))
     | _, _ => (st, "bad-op"))
  | ["reset"] => (none, "ok")
  | _ => (st, "bad-op")

end C33Driver

def main : IO Unit := runState C33Driver.step none
