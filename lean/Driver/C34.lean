import MitmVerif.Model.C34
import Driver.Proto
open MitmVerif Driver

namespace C34Driver
open MitmVerif.C34

def cpsDec : Bytes → Option Str
  | [] => some []
  | a :: b :: c :: r => (cpsDec r).map ((a.toNat * 65536 + b.toNat * 256 + c.toNat) :: ·)
  | _ => none

def cpsEnc (s : Str) : Bytes :=
  s.flatMap (fun c => [UInt8.ofNat (c / 65536), UInt8.ofNat (c / 256 % 256), UInt8.ofNat (c % 256)])

def strField (f : String) : Option Str := (hexOr f).bind cpsDec
def showStr (s : Str) : String := showBytes (cpsEnc s)

def allSome {α : Type} : List (Option α) → Option (List α)
  | [] => some []
  | none :: _ => none
  | some x :: r => (allSome r).map (x :: ·)

/-- `k=v,k=v` (`!` = no value, `-` = empty list) -/
def parsePairs (f : String) : Option (List (Str × Option Str)) :=
  if f = "-" then some [] else
  allSome ((f.splitOn ",").map (fun kv =>
    match kv.splitOn "=" with
    | [k, v] =>
      (match strField k with
       | some a => if v = "!" then some (a, none) else (strField v).map (fun b => (a, some b))
       | none => none)
    | _ => none))

def showPairs (ps : List (Str × Option Str)) : String :=
  if ps.isEmpty then "-" else
  ",".intercalate (ps.map (fun p => showStr p.1 ++ "=" ++ (match p.2 with | some v => showStr v | none => "!")))

def showCookies (cs : List (List (Str × Option Str))) : String := "|".intercalate (cs.map showPairs)

def parseParts (f : String) : Option (List (Bytes × Bytes × Bytes)) :=
  if f = "-" then some [] else
  allSome ((f.splitOn ",").map (fun e =>
    match e.splitOn "=" with
    | [k, v, c] => (match hexOr k, hexOr v, hexOr c with | some a, some b, some d => some (a, b, d) | _, _, _ => none)
    | _ => none))

def showBPairs (ps : List (Bytes × Bytes)) : String :=
  if ps.isEmpty then "-" else ",".intercalate (ps.map (fun p => showBytes p.1 ++ "=" ++ showBytes p.2))

def step (line : String) : String :=
  match fields line with
  | ["ckfmt", ps] =>
    (match parsePairs ps with
     | some l =>
       (match allSome (l.map (fun p => p.2.map (fun v => (p.1, v)))) with
        | some pairs =>
          let h := formatCookie pairs
          showStr h ++ " " ++ showPairs ((getCookies (setCookies pairs)).map (fun p => (p.1, some p.2)))
        | none => "bad-op")
     | none => "bad-op")
  | ["ckparse", h] =>
    (match strField h with
     | some s => showPairs ((parseCookie s).map (fun p => (p.1, some p.2)))
     | none => "bad-op")
  | ["scfmt", ps] =>
    (match parsePairs ps with
     | some l => let h := formatSetCookie l; showStr h ++ " " ++ showCookies (parseSetCookie h)
     | none => "bad-op")
  | ["scparse", h] =>
    (match strField h with
     | some s => showCookies (parseSetCookie s)
     | none => "bad-op")
  | ["mprt", bq, b, parts] =>
    (match hexOr bq, hexOr b, parseParts parts with
     | some bq, some b, some ps =>
       (match encodeMultipart bq ps with
        | none => "raise"
        | some body => showBytes body ++ " " ++ showBPairs ((decodeMultipart b body).getD []))
     | _, _, _ => "bad-op")
  | ["formenc", enc, similar] =>
    (match strField enc, strField similar with
     | some e, some sim =>
       let U : UrlCodec := { urlencode := fun _ => e, parseQsl := fun _ => [], quote := id, unquote := id }
       showStr (encodeForm U [] sim)
     | _, _ => "bad-op")
  | ["tparts", sc, path] =>
    (match strField sc, strField path with
     | some a, some b =>
       let t := targetParts a b
       showStr t.path ++ " " ++ showStr t.params ++ " " ++ showStr t.query ++ " " ++ showStr t.fragment
     | _, _ => "bad-op")
  | ["tset", sc, path, which, comps, enc] =>
    -- comps: the already quoted components (`,`-separated, `none` = no component); enc: the already urlencoded query
    (match strField sc, strField path, (if comps = "none" then some [] else allSome ((comps.splitOn ",").map strField)), strField enc with
     | some a, some b, some qs, some e =>
       let U : UrlCodec := { urlencode := fun _ => e, parseQsl := fun _ => [], quote := id, unquote := id }
       if which = "path" then showStr (setPathComponents U a b qs)
       else if which = "query" then showStr (setQueryOf U a b [])
       else "bad-op"
     | _, _, _, _ => "bad-op")
  | "scview" :: hdrs =>
    -- Response.cookies getter over all Set-Cookie header values
    (match allSome (hdrs.map strField) with
     | some hs => let v := getSetCookies hs; if v.isEmpty then "none" else showCookies v
     | none => "bad-op")
  | "scset" :: cookies =>
    -- Response.cookies setter: the header values written, then the view read back from them
    (match allSome (cookies.map parsePairs) with
     | some cs =>
       let hs := setSetCookies cs
       (if hs.isEmpty then "none" else " ".intercalate (hs.map showStr)) ++ " | " ++
         (let v := getSetCookies hs; if v.isEmpty then "none" else showCookies v)
     | none => "bad-op")
  | ["formglue", ct] =>
    -- the content-type test of `_get_urlencoded_form` and the header `_set_urlencoded_form` leaves behind
    (match (if ct = "none" then some none else (strField ct).map some) with
     | some c =>
       let L : FormLib := { U := { urlencode := fun _ => [], parseQsl := fun _ => [([120], [])], quote := id, unquote := id },
                            getText := fun _ _ => [], encodeAscii := fun _ => [] }
       (if (getForm L { ct := c, body := [] }).isEmpty then "0" else "1") ++ " " ++
         (match (setForm L { ct := c, body := [] } []).ct with | some x => showStr x | none => "none")
     | none => "bad-op")
  | ["mpdec", b, body] =>
    (match hexOr b, hexOr body with
     | some b, some body =>
       (match decodeMultipart b body with
        | some l => showBPairs l
        | none => "raise")
     | _, _ => "bad-op")
  | _ => "bad-op"

end C34Driver

def main : IO Unit := runPure C34Driver.step
