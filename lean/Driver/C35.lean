import MitmVerif.Model.C35
import MitmVerif.Model.C35_Str
import MitmVerif.Model.C35_Gen
import MitmVerif.Model.C35_View
import Driver.Proto
open MitmVerif Driver
open MitmVerif.C35
open MitmVerif.C35.Api (AOp ARet K1 KV POp)

/-
  One case per line:
    seq <nfields> (n v)* [kw …] (call)*   run `Api.run` (the str/bytes API layer over `C35.step`; `Api.construct` first when
                                    keyword arguments are given) on the store [fields]; reply: per call `<ret> S <store>` joined by " ; ".
                                    (`api_run_refines_total` relates `Api.run` to `Spec.run`, `run_refines` relates `C35.run` to it.)
    view  <n> (uK uV)* (call)*      `Gen.View.runOps id (Gen.first []) idLens`     (MultiDict / MultiDictView / request.query)
    viewc <n> (uK uV)* (call)*      `C35.cookieRun` = `Gen.View.runOps … cookieLens` plus the Cookie header column
                                    (`Props.C35.cookieRun_is_view_run`)            (request.cookies)
    ctor  <n> (arg arg)* [kw …]     `Api.constructFull`
    nat / natr <hex>, enc u<cps>    `native`, `nativeRange`, `alwaysBytes`
    rt  <nfields> (n v)*            `bytes <hex> lines <n> <hex>* res <readHeaders result>`
    rd  <nlines> <hex>*             `<readHeaders result>`
-/
namespace C35Driver

def takeBytes : Nat → List String → Option (List Bytes × List String)
  | 0, ts => some ([], ts)
  | _ + 1, [] => none
  | n + 1, t :: ts =>
    match hexOr t, takeBytes n ts with
    | some b, some (bs, rest) => some (b :: bs, rest)
    | _, _ => none

def pairUp : List Bytes → Fields
  | a :: b :: rest => (a, b) :: pairUp rest
  | _ => []

def takeFields (n : Nat) (ts : List String) : Option (Fields × List String) :=
  match takeBytes (2 * n) ts with
  | some (bs, rest) => some (pairUp bs, rest)
  | none => none

def flag? (s : String) : Option Bool := if s = "1" then some true else if s = "0" then some false else none

def hexNat? (s : String) : Option Nat :=
  if s.isEmpty then none
  else s.toList.foldl (fun acc c => match acc, Hex.value? c with
    | some a, some d => some (a * 16 + d)
    | _, _ => none) (some 0)

/-- `u61.e9.dc80` / `u-` -/
def cps? (s : String) : Option PyStr :=
  if s = "-" then some []
  else (s.splitOn ".").foldr (fun w acc => match hexNat? w, acc with
    | some n, some l => some (n :: l)
    | _, _ => none) (some [])

/-- a `str | bytes` argument: `b<hex>` or `u<code points>` -/
def arg? (s : String) : Option Arg :=
  match s.toList with
  | 'b' :: r => (hexOr (String.ofList r)).map Arg.b
  | 'u' :: r => (cps? (String.ofList r)).map Arg.s
  | _ => none

def takeArgs : Nat → List String → Option (List Arg × List String)
  | 0, ts => some ([], ts)
  | _ + 1, [] => none
  | n + 1, t :: ts =>
    match arg? t, takeArgs n ts with
    | some b, some (bs, rest) => some (b :: bs, rest)
    | _, _ => none

def pairArgs : List Arg → List (Arg × Arg)
  | a :: b :: rest => (a, b) :: pairArgs rest
  | _ => []

/-- parse one call from the front of the token list -/
def parseOp : List String → Option (AOp × List String)
  | o :: t :: rest =>
    match t.toNat? with
    | none => none
    | some t =>
      let k1 (kind : K1) : Option (AOp × List String) :=
        match rest with
        | k :: r => (arg? k).map (fun k => (AOp.k1 kind t k, r))
        | _ => none
      let k2 (kind : KV) : Option (AOp × List String) :=
        match rest with
        | k :: v :: r => match arg? k, arg? v with
          | some k, some v => some (AOp.kv kind t k v, r)
          | _, _ => none
        | _ => none
      let plain (op : POp) : Option (AOp × List String) := some (AOp.plain op, rest)
      if o = "gi" then k1 .getItem
      else if o = "ge" then k1 .get
      else if o = "ga" then k1 .getAll
      else if o = "co" then k1 .contains
      else if o = "di" then k1 .delItem
      else if o = "po" then k1 .pop
      else if o = "si" then k2 .setItem
      else if o = "ad" then k2 .add
      else if o = "sd" then k2 .setdefault
      else if o = "sa" then
        match rest with
        | k :: n :: r => match arg? k, n.toNat? with
          | some k, some n => (takeArgs n r).map (fun (vs, r') => (AOp.setAll t k vs, r'))
          | _, _ => none
        | _ => none
      else if o = "in" then
        match rest with
        | i :: k :: v :: r => match i.toInt?, arg? k, arg? v with
          | some i, some k, some v => some (AOp.insert t i k v, r)
          | _, _, _ => none
        | _ => none
      else if o = "up" then
        match rest with
        | n :: r => match n.toNat? with
          | some n => (takeArgs (2 * n) r).map (fun (ps, r') => (AOp.update t (pairArgs ps), r'))
          | none => none
        | _ => none
      else if o = "eq" then
        match rest with
        | u :: r => u.toNat?.map (fun u => (AOp.plain (POp.eq t u), r))
        | _ => none
      else if o = "ks" then
        match rest with
        | m :: r => (flag? m).map (fun m => (AOp.plain (POp.keys t m), r))
        | _ => none
      else if o = "vs" then
        match rest with
        | m :: r => (flag? m).map (fun m => (AOp.plain (POp.values t m), r))
        | _ => none
      else if o = "it" then plain (POp.iter t)
      else if o = "ln" then plain (POp.len t)
      else if o = "cp" then plain (POp.copy t)
      else if o = "im" then plain (POp.itemsMulti t)
      else if o = "is" then plain (POp.items t)
      else if o = "pi" then plain (POp.popitem t)
      else if o = "cl" then plain (POp.clear t)
      else if o = "by" then plain (POp.toBytes t)
      else none
  | _ => none

partial def parseOps (ts : List String) : Option (List AOp) :=
  if ts.isEmpty then some []
  else match parseOp ts with
    | none => none
    | some (op, rest) => (parseOps rest).map (op :: ·)

def hexWord (n : Nat) : String :=
  if n < 16 then String.singleton (Hex.digit n) else String.ofList (go n [])
where go (n : Nat) (acc : List Char) : List Char :=
  if h : n = 0 then acc else go (n / 16) (Hex.digit (n % 16) :: acc)
  termination_by n
  decreasing_by omega

def showStr (s : PyStr) : String := if s.isEmpty then "u-" else "u" ++ ".".intercalate (s.map hexWord)

def showArg : Arg → String
  | .b x => "b" ++ showBytes x
  | .s x => showStr x

def showList (tag : String) (l : List Bytes) : String :=
  " ".intercalate ([tag, toString l.length] ++ l.map showBytes)

def showFields (fs : Fields) : String :=
  " ".intercalate (toString fs.length :: fs.flatMap (fun f => [showBytes f.1, showBytes f.2]))

def showRet : ARet → String
  | .none => "none"
  | .keyError => "keyerror"
  | .unicodeError => "unicodeerror"
  | .badObj => "badobj"
  | .str b => "val " ++ showStr b
  | .arg a => "val " ++ showArg a
  | .opt none => "nothing"
  | .opt (some b) => "some " ++ showStr b
  | .strs l => " ".intercalate (["list", toString l.length] ++ l.map showStr)
  | .bool b => if b then "true" else "false"
  | .nat n => "int " ++ toString n
  | .pairs l => " ".intercalate (["pairs", toString l.length] ++ l.flatMap (fun f => [showStr f.1, showStr f.2]))
  | .pair k v => "pair " ++ showStr k ++ " " ++ showStr v
  | .obj n => "obj " ++ toString n
  | .bytes b => "bytes " ++ showBytes b

/-! `view`: the generic `_MultiDict` model at `_kconv = id`, `_reduce_values = values[0]` (MultiDict / MultiDictView),
    keys and values are `str`; run as a view over a parent that stores what it is given. -/

abbrev VOp := Gen.MOp PyStr PyStr

def str? (s : String) : Option PyStr := match arg? s with | some (.s x) => some x | _ => none

def takeStrs : Nat → List String → Option (List PyStr × List String)
  | 0, ts => some ([], ts)
  | _ + 1, [] => none
  | n + 1, t :: ts => match str? t, takeStrs n ts with
    | some b, some (bs, rest) => some (b :: bs, rest)
    | _, _ => none

def pairStrs : List PyStr → List (PyStr × PyStr)
  | a :: b :: rest => (a, b) :: pairStrs rest
  | _ => []

def parseVOp : List String → Option (VOp × List String)
  | "it" :: r => some (.iter, r)
  | "ln" :: r => some (.len, r)
  | "ga" :: k :: r => (str? k).map (fun k => (.getAll k, r))
  | "gi" :: k :: r => (str? k).map (fun k => (.getItem k, r))
  | "di" :: k :: r => (str? k).map (fun k => (.delItem k, r))
  | "si" :: k :: v :: r => match str? k, str? v with | some k, some v => some (.setItem k v, r) | _, _ => none
  | "ad" :: k :: v :: r => match str? k, str? v with | some k, some v => some (.add k v, r) | _, _ => none
  | "in" :: i :: k :: v :: r => match i.toInt?, str? k, str? v with
    | some i, some k, some v => some (.insert i k v, r) | _, _, _ => none
  | "sa" :: k :: n :: r => match str? k, n.toNat? with
    | some k, some n => (takeStrs n r).map (fun (vs, r') => (.setAll k vs, r'))
    | _, _ => none
  | _ => none

partial def parseVOps (ts : List String) : Option (List VOp) :=
  if ts.isEmpty then some []
  else match parseVOp ts with
    | none => none
    | some (op, rest) => (parseVOps rest).map (op :: ·)

def showStrFields (fs : List (PyStr × PyStr)) : String :=
  " ".intercalate (toString fs.length :: fs.flatMap (fun f => [showStr f.1, showStr f.2]))

def showMRet : Gen.MRet PyStr PyStr → String
  | .none => "none"
  | .keyError => "keyerror"
  | .vals l => " ".intercalate (["list", toString l.length] ++ l.map showStr)
  | .val v => "val " ++ showStr v
  | .keys l => " ".intercalate (["list", toString l.length] ++ l.map showStr)
  | .nat n => "int " ++ toString n

/-- the parent of the modelled view: it stores exactly what the setter is given -/
def idLens : Gen.Lens (List (PyStr × PyStr)) PyStr PyStr := ⟨id, fun _ fs => fs⟩

def showStore (st : Store) : String :=
  "S " ++ toString st.length ++ String.join (st.map (fun o => " / " ++ showFields o))

def showRead : Except RdErr Fields → String
  | .ok fs => "ok " ++ showFields fs
  | .error .value => "valueerror"
  | .error .index => "indexerror"

def stepLine (line : String) : String :=
  match fields line with
  | "seq" :: n :: rest =>
    match n.toNat? with
    | none => "bad-op"
    | some n => match takeFields n rest with
      | none => "bad-op"
      | some (fields0, rest) =>
        -- optional constructor keyword arguments: `kw <m> (u<name> <value>)*`
        let kw : Option (Option (List (PyStr × Arg)) × List String) :=
          match rest with
          | "kw" :: m :: r => match m.toNat? with
            | some m => match takeArgs (2 * m) r with
              | some (as, r') =>
                let ps := (pairArgs as).filterMap (fun p => match p.1 with | .s nm => some (nm, p.2) | .b _ => none)
                if ps.length = m then some (some ps, r') else none
              | none => none
            | none => none
          | _ => some (none, rest)
        match kw with
        | none => "bad-op"
        | some (kwargs, rest) =>
          match parseOps rest with
          | none => "bad-op"
          | some ops =>
            match (match kwargs with | none => some fields0 | some ps => Api.construct fields0 ps) with
            | none => "unicodeerror"
            | some init =>
              let tr := Api.run [init] ops
              let steps := tr.map (fun r => showRet r.1 ++ " " ++ showStore r.2)
              let steps := if kwargs.isSome then ("init " ++ showStore [init]) :: steps else steps
              if steps.isEmpty then "empty" else " ; ".intercalate steps
  | "view" :: n :: rest =>
    match n.toNat? with
    | none => "bad-op"
    | some n => match takeStrs (2 * n) rest with
      | none => "bad-op"
      | some (fl, rest) => match parseVOps rest with
        | none => "bad-op"
        | some ops =>
          let tr := Gen.View.runOps (id : PyStr → PyStr) (Gen.first []) idLens (pairStrs fl) ops
          if tr.isEmpty then "empty"
          else " ; ".intercalate (tr.map (fun r => showMRet r.1 ++ " F " ++ showStrFields r.2))
  | "viewc" :: n :: rest =>
    -- request.cookies: the C34 cookie codec as getter/setter under the generic _MultiDict methods
    match n.toNat? with
    | none => "bad-op"
    | some n => match takeStrs (2 * n) rest with
      | none => "bad-op"
      | some (fl, rest) => match parseVOps rest with
        | none => "bad-op"
        | some ops =>
          let tr := C35.cookieRun (pairStrs fl) ops (C34.setCookies (pairStrs fl))
          if tr.isEmpty then "empty"
          else " ; ".intercalate (tr.map (fun r => showMRet r.1 ++ " F " ++ showStrFields r.2.1 ++ " H " ++
            " ".intercalate (toString r.2.2.length :: r.2.2.map showStr)))
  | "ctor" :: n :: rest =>
    match n.toNat? with
    | none => "bad-op"
    | some n => match takeArgs (2 * n) rest with
      | none => "bad-op"
      | some (fas, rest) =>
        let kw : Option (List (PyStr × Arg)) :=
          match rest with
          | [] => some []
          | "kw" :: m :: r => match m.toNat? with
            | some m => match takeArgs (2 * m) r with
              | some (as, []) =>
                let ps := (pairArgs as).filterMap (fun p => match p.1 with | .s nm => some (nm, p.2) | .b _ => none)
                if ps.length = m then some ps else none
              | _ => none
            | none => none
          | _ => none
        match kw with
        | none => "bad-op"
        | some kw => match Api.constructFull (pairArgs fas) kw with
          | .ok fs => "ok " ++ showFields fs
          | .error .typeError => "typeerror"
          | .error .unicodeError => "unicodeerror"
  | ["nat", h] =>
    match hexOr h with
    | some b => showStr (C35.native b)
    | none => "bad-op"
  | ["natr", h] =>
    match hexOr h with
    | some b => showStr (C35.nativeRange b)
    | none => "bad-op"
  | ["enc", u] =>
    match arg? u with
    | some a => (match alwaysBytes a with | some b => "b" ++ showBytes b | none => "unicodeerror")
    | none => "bad-op"
  | "rt" :: n :: rest =>
    match n.toNat? with
    | none => "bad-op"
    | some n => match takeFields n rest with
      | some (fs, []) =>
        let block := C35.toBytes fs
        let lines := C35.splitLines block
        "bytes " ++ showBytes block ++ " " ++ showList "lines" lines ++ " res " ++ showRead (C35.readHeaders lines)
      | _ => "bad-op"
  | "rd" :: n :: rest =>
    match n.toNat? with
    | none => "bad-op"
    | some n => match takeBytes n rest with
      | some (ls, []) => showRead (C35.readHeaders ls)
      | _ => "bad-op"
  | _ => "bad-op"

end C35Driver

def main : IO Unit := runPure C35Driver.stepLine
