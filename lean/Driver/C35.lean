import MitmVerif.Model.C35
import Driver.Proto
open MitmVerif Driver
open MitmVerif.C35

/-
  One case per line:
    seq <nfields> (n v)* (op)*      run `C35.run` on the store [fields]; reply: per step `<ret> S <store>` joined by " ; "
    rt  <nfields> (n v)*            `bytes <hex> lines <n> <hex>* res <readHeaders result>`
    rd  <nlines> <hex>*             `<readHeaders result>`
-/
namespace C35Driver

def takeBytes : Nat → List String → Option (List Bytes × List String)
  | 0, ts => some ([], ts)
  | _ + 1, [] => none
  | n + 1, t :: ts =>
    match hexOr t, takeBytes n ts with
    | some b, some (bs, rest) => some (b :: bs, rest)
    | _, _ => none

def pairUp : List Bytes → Fields
  | a :: b :: rest => (a, b) :: pairUp rest
  | _ => []

def takeFields (n : Nat) (ts : List String) : Option (Fields × List String) :=
  match takeBytes (2 * n) ts with
  | some (bs, rest) => some (pairUp bs, rest)
  | none => none

def flag? (s : String) : Option Bool := if s = "1" then some true else if s = "0" then some false else none

/-- parse one operation from the front of the token list -/
def parseOp : List String → Option (Op × List String)
  | o :: t :: rest =>
    match t.toNat? with
    | none => none
    | some t =>
      let k1 (mk : Bytes → Op) : Option (Op × List String) :=
        match rest with
        | k :: r => (hexOr k).map (fun k => (mk k, r))
        | _ => none
      let k2 (mk : Bytes → Bytes → Op) : Option (Op × List String) :=
        match rest with
        | k :: v :: r => match hexOr k, hexOr v with
          | some k, some v => some (mk k v, r)
          | _, _ => none
        | _ => none
      if o = "gi" then k1 (Op.getItem t)
      else if o = "ge" then k1 (Op.get t)
      else if o = "ga" then k1 (Op.getAll t)
      else if o = "co" then k1 (Op.contains t)
      else if o = "di" then k1 (Op.delItem t)
      else if o = "po" then k1 (Op.pop t)
      else if o = "si" then k2 (Op.setItem t)
      else if o = "ad" then k2 (Op.add t)
      else if o = "sd" then k2 (Op.setdefault t)
      else if o = "sa" then
        match rest with
        | k :: n :: r => match hexOr k, n.toNat? with
          | some k, some n => (takeBytes n r).map (fun (vs, r') => (Op.setAll t k vs, r'))
          | _, _ => none
        | _ => none
      else if o = "in" then
        match rest with
        | i :: k :: v :: r => match i.toInt?, hexOr k, hexOr v with
          | some i, some k, some v => some (Op.insert t i k v, r)
          | _, _, _ => none
        | _ => none
      else if o = "up" then
        match rest with
        | n :: r => match n.toNat? with
          | some n => (takeFields n r).map (fun (ps, r') => (Op.update t ps, r'))
          | none => none
        | _ => none
      else if o = "eq" then
        match rest with
        | u :: r => u.toNat?.map (fun u => (Op.eq t u, r))
        | _ => none
      else if o = "ks" then
        match rest with
        | m :: r => (flag? m).map (fun m => (Op.keys t m, r))
        | _ => none
      else if o = "vs" then
        match rest with
        | m :: r => (flag? m).map (fun m => (Op.values t m, r))
        | _ => none
      else if o = "it" then some (Op.iter t, rest)
      else if o = "ln" then some (Op.len t, rest)
      else if o = "cp" then some (Op.copy t, rest)
      else if o = "im" then some (Op.itemsMulti t, rest)
      else if o = "is" then some (Op.items t, rest)
      else if o = "pi" then some (Op.popitem t, rest)
      else if o = "cl" then some (Op.clear t, rest)
      else if o = "by" then some (Op.toBytes t, rest)
      else none
  | _ => none

partial def parseOps (ts : List String) : Option (List Op) :=
  if ts.isEmpty then some []
  else match parseOp ts with
    | none => none
    | some (op, rest) => (parseOps rest).map (op :: ·)

def showList (tag : String) (l : List Bytes) : String :=
  " ".intercalate ([tag, toString l.length] ++ l.map showBytes)

def showFields (fs : Fields) : String :=
  " ".intercalate (toString fs.length :: fs.flatMap (fun f => [showBytes f.1, showBytes f.2]))

def showRet : Ret → String
  | .none => "none"
  | .keyError => "keyerror"
  | .badObj => "badobj"
  | .val b => "val " ++ showBytes b
  | .opt none => "nothing"
  | .opt (some b) => "some " ++ showBytes b
  | .list l => showList "list" l
  | .bool b => if b then "true" else "false"
  | .nat n => "int " ++ toString n
  | .pairs l => " ".intercalate (["pairs", toString l.length] ++ l.flatMap (fun f => [showBytes f.1, showBytes f.2]))
  | .pair k v => "pair " ++ showBytes k ++ " " ++ showBytes v
  | .obj n => "obj " ++ toString n
  | .bytes b => "bytes " ++ showBytes b

def showStore (st : Store) : String :=
  "S " ++ toString st.length ++ String.join (st.map (fun o => " / " ++ showFields o))

def showRead : Except RdErr Fields → String
  | .ok fs => "ok " ++ showFields fs
  | .error .value => "valueerror"
  | .error .index => "indexerror"

def stepLine (line : String) : String :=
  match fields line with
  | "seq" :: n :: rest =>
    match n.toNat? with
    | none => "bad-op"
    | some n => match takeFields n rest with
      | none => "bad-op"
      | some (init, rest) => match parseOps rest with
        | none => "bad-op"
        | some ops =>
          let tr := C35.run [init] ops
          if tr.isEmpty then "empty"
          else " ; ".intercalate (tr.map (fun r => showRet r.1 ++ " " ++ showStore r.2))
  | "rt" :: n :: rest =>
    match n.toNat? with
    | none => "bad-op"
    | some n => match takeFields n rest with
      | some (fs, []) =>
        let block := C35.toBytes fs
        let lines := C35.splitLines block
        "bytes " ++ showBytes block ++ " " ++ showList "lines" lines ++ " res " ++ showRead (C35.readHeaders lines)
      | _ => "bad-op"
  | "rd" :: n :: rest =>
    match n.toNat? with
    | none => "bad-op"
    | some n => match takeBytes n rest with
      | some (ls, []) => showRead (C35.readHeaders ls)
      | _ => "bad-op"
  | _ => "bad-op"

end C35Driver

def main : IO Unit := runPure C35Driver.stepLine
