import MitmVerif.Model.C36_Gate
import MitmVerif.Model.C36_Read
import Driver.WireC36
import Driver.Proto
open MitmVerif Driver MitmVerif.C36
open C36Wire

def c36Step (line : String) : String :=
  match fields line with
  | ["dumps", v] =>
    match parse v with
    | some x => showBytes (dumps x)
    | none => "bad-op"
  | ["enc", v] =>
    match parse v with
    | some x => showBytes (enc x)
    | none => "bad-op"
  | ["pop", d, h] =>
    match d.toNat?, hexOr h with
    | some d, some b => showRes (popTop d b)
    | _, _ => "bad-op"
  | ["load", m, d, h] =>
    match m.toNat?, d.toNat?, hexOr h with
    | some m, some d, some b => showRes (load m d b)
    | _, _, _ => "bad-op"
  | ["loadseg", m, d, h, cuts] =>
    -- load through a buffered reader over the content cut into segments at the given offsets
    match m.toNat?, d.toNat?, hexOr h with
    | some m, some d, some b =>
      let offs := if cuts = "-" then [] else (cuts.splitOn ",").map (fun x => x.toNat?.getD 0)
      let rec cut (b : Bytes) (prev : Nat) : List Nat → List Bytes
        | [] => [b]
        | o :: t => b.take (o - prev) :: cut (b.drop (o - prev)) o t
      let segs := cut b 0 offs
      match loadVia readN m d (b.length + 2) segs with
      | .ok (v, rest) => showRes (.ok (v, rest.flatten))
      | .error e => showRes (.error e)
    | _, _, _ => "bad-op"
  | ["read", m, d, oc, h] =>
    match m.toNat?, d.toNat?, hexOr h with
    | some m, some d, some b =>
      let env : Env Nat := { memLimit := m, depth := d, fromState := outcome (if oc = "-" then [] else oc.toList),
                             har := fun _ => ([], true) }
      if (sniff b).1 then "har"
      else
        let r := readAll (converted env) b
        let tr := gateTrace m d (if oc = "-" then [] else oc.toList) 0 b
        toString r.1.length ++ " " ++ showEnd r.2 ++ " " ++ (if tr.isEmpty then "-" else String.ofList tr)
    | _, _, _ => "bad-op"
  | _ => "bad-op"

def main : IO Unit := runPure c36Step
