import MitmVerif.Model.C37
import MitmVerif.Model.C37_Addon
import Driver.WireC36
import Driver.Proto
open MitmVerif Driver MitmVerif.C36 MitmVerif.C37 C36Wire

/-! stateful driver: the state is the stream file.
    `reset` | `noop` | `save <V>` | `done <V>;<V>;…` → new file length
    `file` → hex of the file
    `cuts <mem> <depth> <outcomes> <hex> <n1,n2,…>` → `<count>:<end>` for the file cut at every listed offset -/

def parseMany (s : String) : Option (List Value) :=
  if s = "-" then some [] else
  (s.splitOn ";").foldr (fun t acc => match acc, parse t with
    | some l, some v => some (v :: l)
    | _, _ => none) (some [])

def readCut (m d : Nat) (oc : String) (b : Bytes) (n : Nat) : String :=
  let env : Env Nat := { memLimit := m, depth := d, fromState := outcome (if oc = "-" then [] else oc.toList),
                         har := fun _ => ([], true) }
  let p := b.take n
  if (sniff p).1 then "har" else
  let r := readAll (converted env) p
  toString r.1.length ++ ":" ++ showEnd r.2

def c37File (file : Bytes) (line : String) : Bytes × String :=
  match fields line with
  | ["reset"] => ([], "0")
  | ["noop"] => let f := step file .noop; (f, toString f.length)
  | ["save", v] =>
    match parse v with
    | some x => let f := step file (.save x); (f, toString f.length)
    | none => (file, "bad-op")
  | ["done", vs] =>
    match parseMany vs with
    | some l => let f := step file (.done l); (f, toString f.length)
    | none => (file, "bad-op")
  | ["file"] => (file, showBytes file)
  | ["cuts", m, d, oc, h, ns] =>
    match m.toNat?, d.toNat?, hexOr h with
    | some m, some d, some b =>
      let offs := (ns.splitOn ",").map String.toNat?
      if offs.any Option.isNone then (file, "bad-op") else
      (file, ",".intercalate (offs.map (fun o => readCut m d oc b (o.getD 0))))
    | _, _, _ => (file, "bad-op")
  | ["pybuf", b, ns] =>
    -- CPython BufferedWriter with buffer size b: bytes on disk after each FlowWriter.add of records of these sizes
    match b.toNat? with
    | some bsz =>
      let sizes := (ns.splitOn ",").map String.toNat?
      if sizes.any Option.isNone then (file, "bad-op") else
      let recs := sizes.map (fun o => List.replicate (o.getD 0) (0 : UInt8))
      let sts := pyExplicit bsz BFile.empty recs
      (file, ",".intercalate (sts.map (fun st => toString st.disk.length)))
    | none => (file, "bad-op")
  | _ => (file, "bad-op")

def parseHook (s : String) : Option Hook :=
  match s with
  | "request" => some .request | "response" => some .response | "error" => some .error
  | "websocket_end" => some .websocket_end | "tcp_start" => some .tcp_start | "tcp_end" => some .tcp_end
  | "tcp_error" => some .tcp_error | "udp_start" => some .udp_start | "udp_end" => some .udp_end
  | "udp_error" => some .udp_error | "dns_request" => some .dns_request | "dns_response" => some .dns_response
  | "dns_error" => some .dns_error | _ => none

/-- `fid:m:wire;…` -/
def parseCands (s : String) : Option (List (Nat × Bool × Value)) :=
  if s = "-" then some [] else
  (s.splitOn ";").foldr (fun t acc =>
    match acc, t.splitOn ":" with
    | some l, [f, m, w] =>
      match f.toNat?, parse w with
      | some fid, some v => some ((fid, m == "1", v) :: l)
      | _, _ => none
    | _, _ => none) (some [])

structure St where
  file : Bytes
  sv : Save

/-- one input of the addon model applied to (addon state, stream file) -/
def addonApply (st : St) (i : AddonIn) : St × String :=
  let r := addonStep st.sv i
  let f := step st.file r.2
  (⟨f, r.1⟩, toString f.length)

def c37Step (st : St) (line : String) : St × String :=
  match fields line with
  | ["hkinit"] => (⟨[], Save.init⟩, "0")
  | ["hkstart"] => addonApply st .start
  | ["hk", h, fid, ws, m, w] =>
    match parseHook h, fid.toNat?, parse w with
    | some hk, some n, some v => addonApply st (.hook hk n (ws == "1") (m == "1") v)
    | _, _, _ => (st, "bad-op")
  | ["hkdone", cs] =>
    match parseCands cs with
    | some l => addonApply st (.done l)
    | none => (st, "bad-op")
  | _ =>
    let r := c37File st.file line
    (⟨r.1, st.sv⟩, r.2)

def main : IO Unit := runState c37Step ⟨[], Save.init⟩
