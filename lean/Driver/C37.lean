import MitmVerif.Model.C37
import Driver.WireC36
import Driver.Proto
open MitmVerif Driver MitmVerif.C36 MitmVerif.C37 C36Wire

/-! stateful driver: the state is the stream file.
    `reset` | `noop` | `save <V>` | `done <V>;<V>;…` → new file length
    `file` → hex of the file
    `cuts <mem> <depth> <outcomes> <hex> <n1,n2,…>` → `<count>:<end>` for the file cut at every listed offset -/

def parseMany (s : String) : Option (List Value) :=
  if s = "-" then some [] else
  (s.splitOn ";").foldr (fun t acc => match acc, parse t with
    | some l, some v => some (v :: l)
    | _, _ => none) (some [])

def readCut (m d : Nat) (oc : String) (b : Bytes) (n : Nat) : String :=
  let env : Env Nat := { memLimit := m, depth := d, fromState := outcome (if oc = "-" then [] else oc.toList),
                         har := fun _ => ([], true) }
  let p := b.take n
  if (sniff p).1 then "har" else
  let r := readAll (converted env) p
  toString r.1.length ++ ":" ++ showEnd r.2

def c37Step (file : Bytes) (line : String) : Bytes × String :=
  match fields line with
  | ["reset"] => ([], "0")
  | ["noop"] => let f := step file .noop; (f, toString f.length)
  | ["save", v] =>
    match parse v with
    | some x => let f := step file (.save x); (f, toString f.length)
    | none => (file, "bad-op")
  | ["done", vs] =>
    match parseMany vs with
    | some l => let f := step file (.done l); (f, toString f.length)
    | none => (file, "bad-op")
  | ["file"] => (file, showBytes file)
  | ["cuts", m, d, oc, h, ns] =>
    match m.toNat?, d.toNat?, hexOr h with
    | some m, some d, some b =>
      let offs := (ns.splitOn ",").map String.toNat?
      if offs.any Option.isNone then (file, "bad-op") else
      (file, ",".intercalate (offs.map (fun o => readCut m d oc b (o.getD 0))))
    | _, _, _ => (file, "bad-op")
  | ["pybuf", b, ns] =>
    -- CPython BufferedWriter with buffer size b: bytes on disk after each FlowWriter.add of records of these sizes
    match b.toNat? with
    | some bsz =>
      let sizes := (ns.splitOn ",").map String.toNat?
      if sizes.any Option.isNone then (file, "bad-op") else
      let recs := sizes.map (fun o => List.replicate (o.getD 0) (0 : UInt8))
      let sts := pyExplicit bsz BFile.empty recs
      (file, ",".intercalate (sts.map (fun st => toString st.disk.length)))
    | none => (file, "bad-op")
  | _ => (file, "bad-op")

def main : IO Unit := runState c37Step []
