import MitmVerif.Model.C38
import MitmVerif.Gen.C38
import MitmVerif.Model.C38_Conv
import MitmVerif.Model.C38_State
import MitmVerif.Model.C38_Tuple
import MitmVerif.Model.C38_Bytes
import MitmVerif.Model.C38_Migrate
import Driver.Proto
open MitmVerif Driver MitmVerif.C38 MitmVerif.Gen.C38

def parseVer : List String → Option Ver
  | ["int", n] => n.toInt?.map Ver.int
  | ["tup", a, b] => match a.toNat?, b.toNat? with
    | some a, some b => some (.tup a b)
    | _, _ => none
  | _ => none

def showOutcome : Outcome → String
  | .ok => "ok" | .errUpdate => "errUpdate" | .errUnknown => "errUnknown" | .diverged => "diverged"

def c38Step (line : String) : String :=
  match fields line with
  | "mig" :: rest => match parseVer rest with
    | some v => showOutcome (migrate graph current (graph.length + 1) v)
    | none => "bad-op"
  | "steps" :: rest => match parseVer rest with
    | some v => match steps graph current (graph.length + 1) v with
      | some n => toString n
      | none => "none"
    | none => "bad-op"
  | ["conv", v, h] =>
    -- one converter step on a tnetstring-encoded state: decode (C36 model), convert, encode
    match v.toNat?, hexOr h with
    | some v, some b =>
      match MitmVerif.C36.popTop 64 b, (MitmVerif.C38Conv.conv v <|> MitmVerif.C38Conv.convOld v) with
      | .ok (.dict kvs, []), some f =>
        match f kvs with
        | some d' => "ok " ++ showBytes (MitmVerif.C36.dumps (.dict d'))
        | none => "none"
      | .ok _, none => "unmodelled"
      | _, _ => "bad-state"
    | _, _ => "bad-op"
  | ["convt", a, b, h] =>
    match a.toNat?, b.toNat?, hexOr h with
    | some a, some b, some bs =>
      match MitmVerif.C36.popTop 64 bs, (MitmVerif.C38Conv.convTuple a b <|> (if a = 0 then MitmVerif.C38Conv.convBytes b else none)) with
      | .ok (.dict kvs, []), some f =>
        match f kvs with
        | some d' => "ok " ++ showBytes (MitmVerif.C36.dumps (.dict d'))
        | none => "none"
      | .ok _, none => "unmodelled"
      | _, _ => "bad-state"
    | _, _, _ => "bad-op"
  | ["golden"] => "golden"
  | _ => "bad-op"

/-- the process-global tables of the two stateful converters, as the driver keeps them between lines -/
structure DSt where
  ws  : MitmVerif.C38Conv.Tbl MitmVerif.C38Conv.Dict
  ids : MitmVerif.C38Conv.Ids
  fadd : List (Bytes × Bytes) := []      -- library answers handed in by the harness: text of a float ↦ text of that float + 1

def freshId (n : Nat) : MitmVerif.C36.Value := .str (("uuid-" ++ toString n).toUTF8.toList)

def c38StepSt (st : DSt) (line : String) : DSt × String :=
  match fields line with
  | ["tables-reset"] => ({ ws := [], ids := { client := [], server := [], drawn := 0 }, fadd := [] }, "ok")
  | ["fadd", a, b] =>
    match hexOr a, hexOr b with
    | some a, some b => ({ st with fadd := (a, b) :: st.fadd }, "ok")
    | _, _ => (st, "bad-op")
  | ["conv11", h] =>
    match hexOr h with
    | some b =>
      match MitmVerif.C36.popTop 64 b with
      | .ok (.dict kvs, []) =>
        match MitmVerif.C38Conv.conv_11_12_st st.ws kvs with
        | some (g', d') => ({ st with ws := g' }, s!"ok {showBytes (MitmVerif.C36.dumps (.dict d'))} {g'.length}")
        | none => (st, "none")
      | _ => (st, "bad-state")
    | none => (st, "bad-op")
  | ["migrate", h] =>
    -- the whole migrate_flow loop on one record, tables carried over from the previous lines
    match hexOr h with
    | some b =>
      match MitmVerif.C36.popTop 64 b, current with
      | .ok (.dict kvs, []), .int cur =>
        match MitmVerif.C38Conv.migrateFlowF freshId (fun t => (st.fadd.find? (fun p => p.1 == t)).map (·.2)) cur 64 { ws := st.ws, ids := st.ids } none kvs with
        | some (some (st', d')) => ({ st with ws := st'.ws, ids := st'.ids }, s!"ok {showBytes (MitmVerif.C36.dumps (.dict d'))} {st'.ws.length}")
        | some none => (st, "none")
        | none => (st, "diverged")
      | _, _ => (st, "bad-state")
    | none => (st, "bad-op")
  | ["shape12", h] =>
    -- the executable shape under which format_12_records_load proves that the record loads
    match hexOr h with
    | some b =>
      match MitmVerif.C36.popTop 64 b with
      | .ok (.dict kvs, []) => (st, if MitmVerif.C38Conv.shape12B kvs then "1" else "0")
      | _ => (st, "bad-state")
    | none => (st, "bad-op")
  | ["conv4", h] =>
    match hexOr h with
    | some b =>
      match MitmVerif.C36.popTop 64 b with
      | .ok (.dict kvs, []) =>
        match MitmVerif.C38Conv.conv_4_5_st freshId st.ids kvs with
        | some (g', d') =>
          ({ st with ids := g' }, s!"ok {showBytes (MitmVerif.C36.dumps (.dict d'))} {g'.client.length} {g'.server.length} {g'.drawn}")
        | none => (st, "none")
      | _ => (st, "bad-state")
    | none => (st, "bad-op")
  | _ => (st, c38Step line)

def main : IO Unit := runState c38StepSt { ws := [], ids := { client := [], server := [], drawn := 0 } }
