import MitmVerif.Model.C39
import MitmVerif.Model.C39_Flt
import Driver.Proto
open MitmVerif Driver

/-
  C39 driver.  F = a small filter AST, C = Nat (content code: typ = c%4 (0 http,1 tcp,2 udp,3 dns),
  resp = bit 2, err = bit 3, ws = bit 4, marked = bit 5, replayed = bit 6, POST = bit 7, status 404 = bit 8,
  version = c/512).  14 filter atoms + not/and/or.
  Clock: now = 4*hour + minute.  Patterns: 0 → path 0, 1 → 1, 3 → 3, 2 = "r%M" → 10+minute,
  4 = "d%H/x%M" → 200+now, 5 = "h%H" → 300+hour; paths 3, 12 and 301 cannot be opened.
    reset
    hook <name> <f> | edit <f> <c> | tick <t> | done
    update <file> <filt>     file: _ (not passed) | none | a<pat> (append) | w<pat>;  filt: _ | unset | bad | <polish AST, comma separated>
    dump                     → every file, records sorted
  reply: <raised> <exited> <stream-open> <active ids sorted | -> <changes>   changes = path:kept:added(sorted f.c,…) joined by ";" or "-"
-/
namespace C39Driver
open MitmVerif.C39

def env : Env Flt Nat := fltEnv driverFmt driverOpenFails

def parseFlt : Nat → List String → Option (Flt × List String)
  | 0, _ => none
  | _, [] => none
  | n + 1, t :: ts =>
    match t with
    | "all" => some (.all, ts) | "http" => some (.http, ts) | "tcp" => some (.tcp, ts) | "udp" => some (.udp, ts)
    | "dns" => some (.dns, ts) | "ws" => some (.ws, ts) | "resp" => some (.resp, ts) | "err" => some (.err, ts)
    | "marked" => some (.marked, ts)
    | "noresp" => some (.noresp, ts) | "replay" => some (.replay, ts) | "post" => some (.post, ts)
    | "c200" => some (.c200, ts) | "c404" => some (.c404, ts)
    | "not" => match parseFlt n ts with
      | some (a, r) => some (.not a, r)
      | none => none
    | "and" => match parseFlt n ts with
      | some (a, r) => match parseFlt n r with
        | some (b, r') => some (.and a b, r')
        | none => none
      | none => none
    | "or" => match parseFlt n ts with
      | some (a, r) => match parseFlt n r with
        | some (b, r') => some (.or a b, r')
        | none => none
      | none => none
    | _ => none

def parseFiltArg (s : String) : Option (Option (FiltOpt Flt)) :=
  if s = "_" then some none
  else if s = "unset" then some (some .unset)
  else if s = "bad" then some (some .bad)
  else match parseFlt 64 (s.splitOn ",") with
    | some (g, []) => some (some (.ok g))
    | _ => none

def parseFileArg (s : String) : Option (Option (Option Spec)) :=
  if s = "_" then some none
  else if s = "none" then some (some none)
  else match s.toList with
    | 'a' :: r => (String.ofList r).toNat?.map fun p => some (some ⟨true, p⟩)
    | 'w' :: r => (String.ofList r).toNat?.map fun p => some (some ⟨false, p⟩)
    | _ => none

def parseHook : String → Option Hook
  | "request" => some .request | "response" => some .response | "error" => some .error
  | "websocket_end" => some .websocketEnd
  | "tcp_start" => some .tcpStart | "tcp_end" => some .tcpEnd | "tcp_error" => some .tcpError
  | "udp_start" => some .udpStart | "udp_end" => some .udpEnd | "udp_error" => some .udpError
  | "dns_request" => some .dnsRequest | "dns_response" => some .dnsResponse | "dns_error" => some .dnsError
  | _ => none

def recLe (a b : Rec Nat) : Bool := a.flow < b.flow || (a.flow == b.flow && a.content ≤ b.content)
def showRecs (l : List (Rec Nat)) : String :=
  ",".intercalate ((l.mergeSort recLe).map fun r => toString r.flow ++ "." ++ toString r.content)

def allPaths : List Path := [0, 1, 3, 10, 11, 12, 13] ++ List.range' 200 16 ++ List.range' 300 4

def isPrefix : List (Rec Nat) → List (Rec Nat) → Bool
  | [], _ => true
  | _ :: _, [] => false
  | a :: l, b :: m => a == b && isPrefix l m

def changes (old new : FS Nat) : String :=
  let parts := allPaths.filterMap fun p =>
    let o := old.files p; let n := new.files p
    if new.trunc p != old.trunc p && !o.isEmpty then some (toString p ++ ":0:" ++ showRecs n)
    else if o == n then none
    else if isPrefix o n then some (toString p ++ ":" ++ toString o.length ++ ":" ++ showRecs (n.drop o.length))
    else some (toString p ++ ":0:" ++ showRecs n)
  if parts.isEmpty then "-" else ";".intercalate parts

structure DS where
  s : St Flt Nat
  fs : FS Nat

def ds0 : DS := { s := init (fun _ => 0), fs := { files := fun _ => [], cur := none, trunc := fun _ => 0 } }

def b2s (b : Bool) : String := if b then "1" else "0"

def reply (d : DS) (s' : St Flt Nat) (io : List (Act Nat)) (raised : Bool) : DS × String :=
  let fs' := fsRun d.fs io
  let act := (s'.active.mergeSort (· ≤ ·))
  ({ s := s', fs := fs' },
   b2s raised ++ " " ++ b2s s'.exited ++ " " ++ b2s s'.stream.isSome ++ " " ++
   (if act.isEmpty then "-" else showNatList act) ++ " " ++ changes d.fs fs')

def runEv (d : DS) (e : Ev Flt Nat) : DS × String :=
  let r := step env d.s e
  let raised := match e with
    | .update file filt => if d.s.exited then false else (update env d.s file filt).2.2
    | _ => false
  reply d r.1 r.2 raised

def stepLine (d : DS) (line : String) : DS × String :=
  let bad := (d, "bad-op")
  match fields line with
  | ["reset"] => (ds0, "ok")
  | ["hook", h, f] =>
    match parseHook h, f.toNat? with
    | some h, some f => runEv d (.hook h f)
    | _, _ => bad
  | ["edit", f, c] =>
    match f.toNat?, c.toNat? with
    | some f, some c => runEv d (.edit f c)
    | _, _ => bad
  | ["tick", t] =>
    match t.toNat? with
    | some t => runEv d (.tick t)
    | none => bad
  | ["done"] => runEv d .done
  | ["update", file, filt] =>
    match parseFileArg file, parseFiltArg filt with
    | some file, some filt => runEv d (.update file filt)
    | _, _ => bad
  | ["spec", sx] =>
    match hexOr sx with
    | some s => (d, (if specMode s then "a " else "w ") ++ showBytes (specPath s))
    | none => bad
  | ["dump"] =>
    let parts := allPaths.filterMap fun p =>
      let n := d.fs.files p
      if n.isEmpty then none else some (toString p ++ ":" ++ showRecs n)
    (d, if parts.isEmpty then "-" else ";".intercalate parts)
  | _ => bad
end C39Driver

def main : IO Unit := runState C39Driver.stepLine C39Driver.ds0
