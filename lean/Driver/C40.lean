import MitmVerif.Model.C40
import Driver.Proto
open MitmVerif Driver

/-
  C40 driver: a store over V = Nat (component state values are interned to numbers by the harness).
    reset                       -> ok
    new <id> <live> <v,v,…>     -> store rendering      (first flow, from a state)
    mut <a> <j> <v> | reb <a> <j> <v> | backup <a> | revert <a> | copy <a> <freshid>
  rendering: flows joined by "|", each  id:live:c,c,…:B:m   with B = "-" or bid/c,c,…  and m = modified()
  set_state restores components 0..2 (client_conn, server_conn, error) in place, the others by assignment.
-/
namespace C40Driver
open MitmVerif.C40

def natList (s : String) : Option (List Nat) :=
  if s = "-" then some [] else (s.splitOn ",").mapM String.toNat?

def showList (l : List Nat) : String := if l.isEmpty then "-" else showNatList l

def ip : Nat → Bool := fun j => j < 3

def render (σ : Store Nat) : String :=
  if σ.flows.isEmpty then "-" else
  "|".intercalate (σ.flows.map fun f =>
    let b := match f.backup with
      | none => "-"
      | some (i, vs) => toString i ++ "/" ++ showList vs
    toString f.id ++ ":" ++ (if f.live then "1" else "0") ++ ":" ++ showList (content σ f) ++ ":" ++ b ++ ":" ++
      (if modified σ f then "1" else "0"))

def stepLine (σ : Store Nat) (line : String) : Store Nat × String :=
  let bad := (σ, "bad-op")
  match fields line with
  | ["reset"] => (empty 0, "ok")
  | ["new", i, l, vs] =>
    match i.toNat?, natList vs with
    | some i, some vs => if l = "0" ∨ l = "1" then let σ' := newFlow σ i (l = "1") vs; (σ', render σ') else bad
    | _, _ => bad
  | ["mut", a, j, v] =>
    match a.toNat?, j.toNat?, v.toNat? with
    | some a, some j, some v => let σ' := step ip σ (.mutate a j v); (σ', render σ')
    | _, _, _ => bad
  | ["reb", a, j, v] =>
    match a.toNat?, j.toNat?, v.toNat? with
    | some a, some j, some v => let σ' := step ip σ (.rebind a j v); (σ', render σ')
    | _, _, _ => bad
  | ["backup", a] =>
    match a.toNat? with
    | some a => let σ' := step ip σ (.backup a); (σ', render σ')
    | none => bad
  | ["revert", a] =>
    match a.toNat? with
    | some a => let σ' := step ip σ (.revert a); (σ', render σ')
    | none => bad
  | ["copy", a, n] =>
    match a.toNat?, n.toNat? with
    | some a, some n => let σ' := step ip σ (.copy a n); (σ', render σ')
    | _, _ => bad
  | _ => bad
end C40Driver

def main : IO Unit := runState C40Driver.stepLine (MitmVerif.C40.empty 0)
