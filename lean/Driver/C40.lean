import MitmVerif.Model.C40
import MitmVerif.Model.C40_Http
import Driver.Proto
open MitmVerif Driver

/-
  C40 driver: a store over V = Nat (component state values are interned to numbers by the harness).
    reset                       -> ok
    new <id> <live> <v,v,…>     -> store rendering      (first flow, from a state)
    mut <a> <j> <v> | reb <a> <j> <v> | backup <a> | revert <a> | copy <a> <freshid>
  rendering: flows joined by "|", each  id:live:c,c,…:B:m   with B = "-" or bid/c,c,…  and m = modified()
  set_state restores components 0..2 (client_conn, server_conn, error) in place, the others by assignment.
-/
namespace C40Driver
open MitmVerif.C40

def natList (s : String) : Option (List Nat) :=
  if s = "-" then some [] else (s.splitOn ",").mapM String.toNat?

def showList (l : List Nat) : String := if l.isEmpty then "-" else showNatList l

def ip : Nat → Bool := fun j => j < 3

def render (σ : Store Nat) : String :=
  if σ.flows.isEmpty then "-" else
  "|".intercalate (σ.flows.map fun f =>
    let b := match f.backup with
      | none => "-"
      | some (i, vs) => toString i ++ "/" ++ showList vs
    toString f.id ++ ":" ++ (if f.live then "1" else "0") ++ ":" ++ showList (content σ f) ++ ":" ++ b ++ ":" ++
      (if modified σ f then "1" else "0"))

def stepLine (σ : Store Nat) (line : String) : Store Nat × String :=
  let bad := (σ, "bad-op")
  match fields line with
  | ["reset"] => (empty 0, "ok")
  | ["new", i, l, vs] =>
    match i.toNat?, natList vs with
    | some i, some vs => if l = "0" ∨ l = "1" then let σ' := newFlow σ i (l = "1") vs; (σ', render σ') else bad
    | _, _ => bad
  | ["mut", a, j, v] =>
    match a.toNat?, j.toNat?, v.toNat? with
    | some a, some j, some v => let σ' := step ip σ (.mutate a j v); (σ', render σ')
    | _, _, _ => bad
  | ["reb", a, j, v] =>
    match a.toNat?, j.toNat?, v.toNat? with
    | some a, some j, some v => let σ' := step ip σ (.rebind a j v); (σ', render σ')
    | _, _, _ => bad
  | ["backup", a] =>
    match a.toNat? with
    | some a => let σ' := step ip σ (.backup a); (σ', render σ')
    | none => bad
  | ["revert", a] =>
    match a.toNat? with
    | some a => let σ' := step ip σ (.revert a); (σ', render σ')
    | none => bad
  | ["copy", a, n] =>
    match a.toNat?, n.toNat? with
    | some a, some n => let σ' := step ip σ (.copy a n); (σ', render σ')
    | _, _ => bad
  | _ => bad

/-
  typed layer (Model/C40_Http.lean): a second store over V = Comp.
    treset | tnew <id> <live> <comp+comp+…> | tedit <a> <edit…> | tbackup <a> | trevert <a> | tcopy <a> <fresh>
  component tokens: C<a.a.…>  E~|E<msg>.<ts>  B0|B1  A<n>  M<k=v.k=v>  Q<msg>  R~|R<msg>  W~|W<a.a.…>/<m;m;…>
    msg = <atoms a.a.…>/<hex=hex,…>/<~|hex>/<~|!hex=hex,…>      ws message = typ.fc.hex.ts.dropped.injected
-/
def splitNE (s : String) (sep : String) : List String := if s = "" then [] else s.splitOn sep

def atoms? (s : String) : Option (List Nat) := (splitNE s ".").mapM String.toNat?
def showAtoms (l : List Nat) : String := ".".intercalate (l.map toString)

def field? (s : String) : Option (Bytes × Bytes) :=
  match s.splitOn "=" with
  | [k, v] => match hexOr k, hexOr v with
    | some k, some v => some (k, v)
    | _, _ => none
  | _ => none
def fields? (s : String) : Option Fields := (splitNE s ",").mapM field?
def showFields (h : Fields) : String := ",".intercalate (h.map fun kv => showBytes kv.1 ++ "=" ++ showBytes kv.2)

def optBytes? (s : String) : Option (Option Bytes) := if s = "~" then some none else (hexOr s).map some
def showOptBytes : Option Bytes → String | none => "~" | some b => showBytes b
def optFields? (s : String) : Option (Option Fields) :=
  if s = "~" then some none else
  match s.toList with
  | '!' :: r => (fields? (String.ofList r)).map some
  | _ => none
def showOptFields : Option Fields → String | none => "~" | some h => "!" ++ showFields h

def msg? (s : String) : Option Msg :=
  match s.splitOn "/" with
  | [a, h, c, t] => match atoms? a, fields? h, optBytes? c, optFields? t with
    | some a, some h, some c, some t => some ⟨a, h, c, t⟩
    | _, _, _, _ => none
  | _ => none
def showMsg (m : Msg) : String :=
  showAtoms m.atoms ++ "/" ++ showFields m.headers ++ "/" ++ showOptBytes m.content ++ "/" ++ showOptFields m.trailers

def bool? (s : String) : Option Bool := if s = "1" then some true else if s = "0" then some false else none
def b2s (b : Bool) : String := if b then "1" else "0"

def wsMsg? (s : String) : Option WsMsg :=
  match s.splitOn "." with
  | [t, fc, c, ts, d, i] => match t.toNat?, bool? fc, hexOr c, ts.toNat?, bool? d, bool? i with
    | some t, some fc, some c, some ts, some d, some i => some ⟨t, fc, c, ts, d, i⟩
    | _, _, _, _, _, _ => none
  | _ => none
def showWsMsg (m : WsMsg) : String :=
  toString m.typ ++ "." ++ b2s m.fromClient ++ "." ++ showBytes m.content ++ "." ++ toString m.ts ++ "." ++
    b2s m.dropped ++ "." ++ b2s m.injected

def tmsg? (s : String) : Option TMsg :=
  match s.splitOn "." with
  | [fc, c, ts] => match bool? fc, hexOr c, ts.toNat? with
    | some fc, some c, some ts => some ⟨fc, c, ts⟩
    | _, _, _ => none
  | _ => none
def showTMsg (m : TMsg) : String := b2s m.fromClient ++ "." ++ showBytes m.content ++ "." ++ toString m.ts

def dnsMsg? (s : String) : Option DnsMsg :=
  match s.splitOn "/" with
  | [a, qs] => match atoms? a, (splitNE qs ";").mapM atoms? with
    | some a, some qs => some ⟨a, qs⟩
    | _, _ => none
  | _ => none
def showDnsMsg (m : DnsMsg) : String := showAtoms m.atoms ++ "/" ++ ";".intercalate (m.questions.map showAtoms)

def comp? (s : String) : Option Comp :=
  match s.toList with
  | 'T' :: r => ((splitNE (String.ofList r) ";").mapM tmsg?).map .tmsgs
  | 'D' :: r =>
    let r := String.ofList r
    if r = "~" then some (.dns none) else (dnsMsg? r).map fun m => .dns (some m)
  | 'C' :: r => (atoms? (String.ofList r)).map .conn
  | 'E' :: r =>
    let r := String.ofList r
    if r = "~" then some (.err none) else
    match atoms? r with
    | some [m, t] => some (.err (some ⟨m, t⟩))
    | _ => none
  | 'B' :: r => (bool? (String.ofList r)).map .flag
  | 'A' :: r => (String.ofList r).toNat?.map .atom
  | 'M' :: r =>
    ((splitNE (String.ofList r) ".").mapM fun (kv : String) => match String.splitOn kv "=" with
      | [k, v] => match String.toNat? k, String.toNat? v with
        | some k, some v => some (k, v)
        | _, _ => none
      | _ => none).map .mdata
  | 'Q' :: r => (msg? (String.ofList r)).map .req
  | 'R' :: r =>
    let r := String.ofList r
    if r = "~" then some (.resp none) else (msg? r).map fun m => .resp (some m)
  | 'W' :: r =>
    let r := String.ofList r
    if r = "~" then some (.ws none) else
    match r.splitOn "/" with
    | [a, ms] => match atoms? a, (splitNE ms ";").mapM wsMsg? with
      | some a, some ms => some (.ws (some ⟨ms, a⟩))
      | _, _ => none
    | _ => none
  | _ => none

def showComp : Comp → String
  | .conn fs => "C" ++ showAtoms fs
  | .err none => "E~"
  | .err (some e) => "E" ++ toString e.msg ++ "." ++ toString e.ts
  | .flag b => "B" ++ b2s b
  | .atom a => "A" ++ toString a
  | .mdata m => "M" ++ ".".intercalate (m.map fun kv => toString kv.1 ++ "=" ++ toString kv.2)
  | .req r => "Q" ++ showMsg r
  | .resp none => "R~"
  | .resp (some r) => "R" ++ showMsg r
  | .ws none => "W~"
  | .ws (some w) => "W" ++ showAtoms w.atoms ++ "/" ++ ";".intercalate (w.messages.map showWsMsg)
  | .tmsgs l => "T" ++ ";".intercalate (l.map showTMsg)
  | .dns none => "D~"
  | .dns (some m) => "D" ++ showDnsMsg m

def showComps (l : List Comp) : String := "+".intercalate (l.map showComp)

def renderT (σ : Store Comp) : String :=
  if σ.flows.isEmpty then "-" else
  "|".intercalate (σ.flows.map fun f =>
    let b := match f.backup with
      | none => "-"
      | some (i, vs) => toString i ++ "+" ++ showComps vs
    toString f.id ++ ":" ++ b2s f.live ++ ":" ++ showComps (content σ f) ++ ":" ++ b ++ ":" ++ b2s (modified σ f))

def msgEdit? : List String → Option MsgEdit
  | ["atom", k, a] => match k.toNat?, a.toNat? with
    | some k, some a => some (.atom k a)
    | _, _ => none
  | ["hset", k, v] => match hexOr k, hexOr v with
    | some k, some v => some (.hset k v)
    | _, _ => none
  | ["hdel", k] => (hexOr k).map .hdel
  | ["hrep", h] => match optFields? h with
    | some (some h) => some (.hrep h)
    | _ => none
  | ["hadd", k, v] => match hexOr k, hexOr v with
    | some k, some v => some (.hadd k v)
    | _, _ => none
  | ["content", c] => (optBytes? c).map .content
  | ["contentce", c, r] =>
    let res : Option EncRes := if r = "verr" then some .verr else
      match r.toList with
      | 'o' :: 'k' :: ':' :: x => (hexOr (String.ofList x)).map .ok
      | _ => none
    match optBytes? c, res with
    | some c, some r => some (.contentCE c r)
    | _, _ => none
  | ["tset", t] => (optFields? t).map .tset
  | ["thset", k, v] => match hexOr k, hexOr v with
    | some k, some v => some (.thset k v)
    | _, _ => none
  | _ => none

def dnsEdit? : List String → Option DnsEdit
  | ["atom", k, a] => match k.toNat?, a.toNat? with
    | some k, some a => some (.atom k a)
    | _, _ => none
  | ["qname", i, a] => match i.toNat?, a.toNat? with
    | some i, some a => some (.qname i a)
    | _, _ => none
  | ["qappend", q] => (atoms? q).map .qappend
  | ["qclear"] => some .qclear
  | _ => none

def edit? : List String → Option Edit
  | ["msgs", "append", m] => (tmsg? m).map fun m => .msgs (.append m)
  | ["msgs", "pop"] => some (.msgs .pop)
  | ["msgs", "setc", i, c] => match i.toNat?, hexOr c with
    | some i, some c => some (.msgs (.setContent i c))
    | _, _ => none
  | ["msgs", "setfc", i, b] => match i.toNat?, bool? b with
    | some i, some b => some (.msgs (.setFc i b))
    | _, _ => none
  | ["msgsrep", t] => match comp? t with
    | some (.tmsgs l) => some (.msgsReplace l)
    | _ => none
  | "dreq" :: r => (dnsEdit? r).map .dreq
  | "dresp" :: r => (dnsEdit? r).map .dresp
  | ["dreqrep", d] => match comp? d with
    | some (.dns (some m)) => some (.dreqReplace m)
    | _ => none
  | ["dresprep", d] => match comp? d with
    | some (.dns m) => some (.drespReplace m)
    | _ => none
  | ["conn", j, k, a] => match j.toNat?, k.toNat?, a.toNat? with
    | some j, some k, some a => some (.connField j k a)
    | _, _, _ => none
  | ["errset", e] => match comp? ("E" ++ e) with
    | some (.err e) => some (.errSet e)
    | _ => none
  | ["errmsg", a] => a.toNat?.map .errMsg
  | ["flag", b] => (bool? b).map .flagSet
  | ["atom", j, a] => match j.toNat?, a.toNat? with
    | some j, some a => some (.atomSet j a)
    | _, _ => none
  | ["mset", k, v] => match k.toNat?, v.toNat? with
    | some k, some v => some (.metaSet k v)
    | _, _ => none
  | ["mdel", k] => k.toNat?.map .metaDel
  | ["mrep", m] => match comp? m with
    | some (.mdata m) => some (.metaReplace m)
    | _ => none
  | "req" :: r => (msgEdit? r).map .req
  | "resp" :: r => (msgEdit? r).map .resp
  | ["reqrep", q] => match comp? q with
    | some (.req r) => some (.reqReplace r)
    | _ => none
  | ["resprep", q] => match comp? q with
    | some (.resp r) => some (.respReplace r)
    | _ => none
  | ["ws", "append", m] => (wsMsg? m).map fun m => .ws (.append m)
  | ["ws", "pop"] => some (.ws .pop)
  | ["ws", "setc", i, c] => match i.toNat?, hexOr c with
    | some i, some c => some (.ws (.setContent i c))
    | _, _ => none
  | ["ws", "drop", i, b] => match i.toNat?, bool? b with
    | some i, some b => some (.ws (.drop i b))
    | _, _ => none
  | ["ws", "atom", k, a] => match k.toNat?, a.toNat? with
    | some k, some a => some (.ws (.atom k a))
    | _, _ => none
  | ["wsrep", w] => match comp? w with
    | some (.ws w) => some (.wsReplace w)
    | _ => none
  | _ => none

def stepLineT (σ : Store Comp) (fs : List String) : Option (Store Comp × String) :=
  let out := fun (σ' : Store Comp) => some (σ', renderT σ')
  match fs with
  | ["treset"] => some (empty (.flag false), "ok")
  | ["tnew", i, l, cs] =>
    match i.toNat?, bool? l, (cs.splitOn "+").mapM comp? with
    | some i, some l, some cs => out (newFlow σ i l cs)
    | _, _, _ => none
  | "tedit" :: a :: e =>
    match a.toNat?, edit? e with
    | some a, some e => out (stepT ip σ (.edit a e))
    | _, _ => none
  | ["tbackup", a] => a.toNat?.bind fun a => out (stepT ip σ (.backup a))
  | ["trevert", a] => a.toNat?.bind fun a => out (stepT ip σ (.revert a))
  | ["tcopy", a, n] => match a.toNat?, n.toNat? with
    | some a, some n => out (stepT ip σ (.copy a n))
    | _, _ => none
  | _ => none

structure DS where
  g : Store Nat
  t : Store Comp

def stepBoth (d : DS) (line : String) : DS × String :=
  match fields line with
  | "treset" :: _ | "tnew" :: _ | "tedit" :: _ | "tbackup" :: _ | "trevert" :: _ | "tcopy" :: _ =>
    match stepLineT d.t (fields line) with
    | some (t', o) => ({ d with t := t' }, o)
    | none => (d, "bad-op")
  | _ => let (g', o) := stepLine d.g line; ({ d with g := g' }, o)
end C40Driver

def main : IO Unit :=
  runState C40Driver.stepBoth { g := MitmVerif.C40.empty 0, t := MitmVerif.C40.empty (.flag false) }
