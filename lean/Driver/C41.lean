import MitmVerif.Model.C41_Spec
import MitmVerif.Model.C41_Lib
import MitmVerif.Model.C41_Url
import MitmVerif.Model.C41_Host
import Driver.Proto
open MitmVerif Driver MitmVerif.C41

namespace C41Driver

/-- library answers supplied with the case: `tag,arg,..=answer` joined by `;` (hex fields, `!` = none) -/
abbrev Tab := List (String × String)

def parseTab (s : String) : Tab :=
  if s = "-" then [] else
  (s.splitOn ";").filterMap (fun e => match e.splitOn "=" with
    | [k, v] => some (k, v)
    | _ => none)

def isAscii (b : Bytes) : Bool := b.all (fun x => x.toNat < 128)

def key (tag : String) (args : List Bytes) : String := ",".intercalate (tag :: args.map showBytes)

/-- answer that is a byte string / text; `alt` selects what an unanswered query yields -/
def askB (t : Tab) (alt : Bool) (tag : String) (args : List Bytes) : Bytes :=
  match t.lookup (key tag args) with
  | some v => (hexOr v).getD [0x3f]
  | none => if alt then [0x41] else []

def askO (t : Tab) (alt : Bool) (tag : String) (args : List Bytes) : Option Bytes :=
  match t.lookup (key tag args) with
  | some v => if v = "!" then none else some ((hexOr v).getD [0x3f])
  | none => if alt then some [0x41] else none

def optArg (o : Option Bytes) : Bytes := match o with | some b => 0x2b :: b | none => [0x21]

def isWs (x : UInt8) : Bool := x.toNat = 32 || (9 ≤ x.toNat && x.toNat ≤ 13) || (28 ≤ x.toNat && x.toNat ≤ 31)
def stripAscii (b : Bytes) : Bytes := ((b.dropWhile isWs).reverse.dropWhile isWs).reverse

/-- the primitives: ASCII cases are computed, everything else is looked up in the answers supplied with the case -/
def mkPrim (t : Tab) (alt : Bool) : Prim where
  sdec := fun b => if isAscii b then b else askB t alt "sd" [b]
  senc := fun s => if isAscii s then some s else askO t alt "se" [s]
  upper := fun s => askB t alt "up" [s]
  lower := fun s => if isAscii s then asciiLower s else askB t alt "lo" [s]
  strip := fun s => if isAscii s then stripAscii s else askB t alt "st" [s]
  b64enc := fun b => askB t alt "be" [b]
  b64dec := fun s => askO t alt "bd" [s]
  utf8Valid := fun b => if isAscii b then true else match t.lookup (key "u8" [b]) with
    | some v => v = "01"
    | none => alt
  ceDec := fun c b => askO t alt "cd" [c, b]
  ceEnc := fun c b => askO t alt "ce" [c, b]
  csDec := fun c b => askO t alt "xd" [c, b]
  csEnc := fun c s => askO t alt "xe" [c, s]
  reMeta := fun b => askO t alt "rm" [b]
  reXml := fun b => askO t alt "rx" [b]
  reCss := fun b => askO t alt "rc" [b]
  urlHostport := fun u => askO t alt "uh" [u]
  urlPretty := fun u h => askB t alt "pu" [u, optArg h]

/-- the IDNA slow-path answers the host transcription still needs -/
def mkHostPrim (t : Tab) (alt : Bool) : HostPrim where
  idnaDecode := fun raw => askO t alt "idd" [raw]
  idnaEncode := fun s => askO t alt "ide" [toText s]

def mkLib (t : Tab) (alt : Bool) : Lib := C41.mkLibH (mkPrim t alt) (mkHostPrim t alt)

def parseHdrs (s : String) : Option Hdrs :=
  if s = "-" then some [] else
  (s.splitOn ",").mapM (fun e => match e.splitOn ":" with
    | [k, v] => do let k ← hexOr k; let v ← hexOr v; pure (k, v)
    | _ => none)

def showHdrs (h : List (Bytes × Bytes)) : String :=
  if h.isEmpty then "-" else ",".intercalate (h.map (fun f => showBytes f.1 ++ ":" ++ showBytes f.2))

def showOptB (o : Option Bytes) : String := match o with | some b => showBytes b | none => "!"

def showMsg (m : Msg) : String := s!"{showBytes m.ver} {showHdrs m.hdrs} {showBytes m.body}"

def showFlow (f : Flow) : String :=
  s!"{showBytes f.method} {showBytes f.purl} {showMsg f.req} {f.status} {showMsg f.resp}"

def showEntry (e : Entry) : String :=
  s!"{showBytes e.request.method} {showBytes e.request.url} {showBytes e.request.httpVersion} " ++
  s!"{showHdrs e.request.headers} {showOptB e.request.postData} {e.response.status} " ++
  s!"{showBytes e.response.httpVersion} {showHdrs e.response.headers} {showBytes e.response.text} " ++
  s!"{showOptB e.response.encoding}"

def idJson : Json (List Entry) := ⟨id, some⟩

def run (t : Tab) (alt : Bool) (f : Flow) : String :=
  let lib := mkLib t alt
  let e := exportEntry lib f
  let i := match roundtrip lib idJson [f] with
    | some [f'] => showFlow f'
    | _ => "fail"
  let g := String.ofList ((guardBits lib f).map (fun b => if b then '1' else '0'))
  -- predictions of the transcribed helpers (compared with the real functions by the harness)
  let c := getContent lib f.resp
  let p := s!"{if lib.mostlyBin c then 1 else 0} {showBytes (lib.infer (ctOf lib f.resp) c)} {showBytes (lib.infer (ctOf lib f.req) [])} {showBytes (lib.ctUtf8 (ctOf lib f.req))}"
  s!"E {showEntry e} I {i} G {g} P {p}"

/-- the flows of an `rtl` line: groups of ten fields (as in `rt`), their answer tables merged -/
def parseFlows : List String → Option (List Flow × Tab)
  | [] => some ([], [])
  | m :: u :: rv :: rh :: rb :: st :: sv :: sh :: sb :: tab :: rest =>
    match hexOr m, hexOr u, hexOr rv, parseHdrs rh, hexOr rb, st.toNat?, hexOr sv, parseHdrs sh, hexOr sb, parseFlows rest with
    | some m, some u, some rv, some rh, some rb, some st, some sv, some sh, some sb, some (fs, t) =>
      some ({ method := m, purl := u, req := ⟨rv, rh, rb⟩, status := st, resp := ⟨sv, sh, sb⟩ } :: fs, parseTab tab ++ t)
    | _, _, _, _, _, _, _, _, _, _ => none
  | _ => none

/-- `roundtrip` on the whole list: every imported flow in order, or `fail` (one failing entry loses the file) -/
def runList (t : Tab) (alt : Bool) (fs : List Flow) : String :=
  match roundtrip (mkLib t alt) idJson fs with
  | some fs' => s!"L {fs'.length} " ++ " / ".intercalate (fs'.map showFlow)
  | none => "L fail"

def step (line : String) : String :=
  match fields line with
  | "rtl" :: rest =>
    match parseFlows rest with
    | some (fs, t) => if runList t false fs = runList t true fs then runList t false fs else "lib-miss"
    | none => "bad-op"
  | ["rt", m, u, rv, rh, rb, st, sv, sh, sb, tab] =>
    match hexOr m, hexOr u, hexOr rv, parseHdrs rh, hexOr rb, st.toNat?, hexOr sv, parseHdrs sh, hexOr sb with
    | some m, some u, some rv, some rh, some rb, some st, some sv, some sh, some sb =>
      let f : Flow := { method := m, purl := u, req := ⟨rv, rh, rb⟩, status := st, resp := ⟨sv, sh, sb⟩ }
      let t := parseTab tab
      let a := run t false f
      let b := run t true f
      if a = b then a else "lib-miss"
    | _, _, _, _, _, _, _, _, _ => "bad-op"
  | ["hf", x, tab] =>
    -- tie of the host transcriptions alone: _check_bracketed_host, is_valid_host(str), the IDNA round trip
    match hexOr x with
    | some x =>
      let t := parseTab tab
      let one := fun (alt : Bool) =>
        let H := mkHostPrim t alt
        let s := toStr x
        let rt := match idnaRtT H s with | some r => showBytes (toText r) | none => "!"
        s!"{if validBracketedT s then 1 else 0} {if validHostU H s then 1 else 0} {rt}"
      if one false = one true then one false else "lib-miss"
    | none => "bad-op"
  | _ => "bad-op"

end C41Driver

def main : IO Unit := runPure C41Driver.step
