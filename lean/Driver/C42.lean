import MitmVerif.Model.C42_Print
import MitmVerif.Model.C42_Body
import MitmVerif.Model.C42_Leaf
import Driver.Proto
open MitmVerif Driver

namespace C42Drv
open MitmVerif.C42

def strOfHex (h : String) : Option Str :=
  match hexOr h with
  | some b => match String.fromUTF8? (ByteArray.mk b.toArray) with
    | some s => some s.toList
    | none => none
  | none => none

def hexOfStr (s : Str) : String := showBytes (String.ofList s).toUTF8.toList

mutual
partial def shape : Ast → String
  | .unary c => "U" ++ String.ofList c
  | .rex c a => "R" ++ String.ofList c ++ ":" ++ hexOfStr a
  | .int c n => "I" ++ String.ofList c ++ ":" ++ toString n
  | .not t => "N(" ++ shape t ++ ")"
  | .and l => "A(" ++ ",".intercalate (shapes l) ++ ")"
  | .or l => "O(" ++ ",".intercalate (shapes l) ++ ")"
partial def shapes : List Ast → List String
  | [] => []
  | t :: l => shape t :: shapes l
end

mutual
partial def atoms : Ast → List Ast
  | .not t => atoms t
  | .and l => atomsL l
  | .or l => atomsL l
  | a => [a]
partial def atomsL : List Ast → List Ast
  | [] => []
  | t :: l => atoms t ++ atomsL l
end

def sameAtom : Ast → Ast → Bool
  | .unary c, .unary c' => c == c'
  | .rex c a, .rex c' a' => c == c' && a == a'
  | .int c n, .int c' n' => c == c' && n == n'
  | _, _ => false

/-- the verdict of leaf `a` on pool flow `i`, looked up in the per-atom verdict strings the harness took from the
real `_Action` objects (left to right) -/
def lookup (tbl : List (Ast × List Char)) (a : Ast) (i : Nat) : Bool :=
  match tbl.find? (fun p => sameAtom p.1 a) with
  | some p => p.2.getD i '0' == '1'
  | none => false

def semOf (tbl : List (Ast × List Char)) : Sem Nat :=
  { unary := fun c i => lookup tbl (.unary c) i
    rex := fun c a i => lookup tbl (.rex c a) i
    int := fun c n i => lookup tbl (.int c n) i }

/-! concrete syntax on the wire (prefix notation, one field per token; strings as hex of UTF-8, `-` = empty):
  C    := a w ATOM | g w1 C w2 | n w C | c (and|or|juxt) k C (w C){k}
  ATOM := u code | r code w ARG | b ARG | i code w digits
  ARG  := w text | q quote k ((r|e) char){k} -/

def pChar (h : String) : Option Char :=
  match strOfHex h with
  | some [c] => some c
  | _ => none

def pItems : Nat → List String → Option (List QItem × List String)
  | 0, ts => some ([], ts)
  | n + 1, "r" :: h :: ts =>
    match pChar h, pItems n ts with
    | some c, some (l, r) => some (QItem.raw c :: l, r)
    | _, _ => none
  | n + 1, "e" :: h :: ts =>
    match pChar h, pItems n ts with
    | some c, some (l, r) => some (QItem.esc c :: l, r)
    | _, _ => none
  | _, _ => none

def pArg : List String → Option (Arg × List String)
  | "w" :: h :: ts => (strOfHex h).map (fun a => (Arg.word a, ts))
  | "q" :: qh :: k :: ts =>
    match pChar qh, k.toNat? with
    | some q, some n => (pItems n ts).map (fun (l, r) => (Arg.quoted q l, r))
    | _, _ => none
  | _ => none

def pAtomC : List String → Option (AtomC × List String)
  | "u" :: c :: ts => (strOfHex c).map (fun c => (AtomC.unary c, ts))
  | "r" :: c :: w :: ts =>
    match strOfHex c, strOfHex w, pArg ts with
    | some c, some w, some (a, r) => some (AtomC.rex c w a, r)
    | _, _, _ => none
  | "b" :: ts => (pArg ts).map (fun (a, r) => (AtomC.bare a, r))
  | "i" :: c :: w :: d :: ts =>
    match strOfHex c, strOfHex w, strOfHex d with
    | some c, some w, some d => some (AtomC.int c w d, ts)
    | _, _, _ => none
  | _ => none

def pKind : String → Option Kind
  | "and" => some .and | "or" => some .or | "juxt" => some .juxt | _ => none

mutual
partial def pC : List String → Option (C × List String)
  | "a" :: w :: ts =>
    match strOfHex w, pAtomC ts with
    | some w, some (a, r) => some (C.atom w a, r)
    | _, _ => none
  | "g" :: w1 :: ts =>
    match strOfHex w1, pC ts with
    | some w1, some (e, w2 :: r) => (strOfHex w2).map (fun w2 => (C.group w1 e w2, r))
    | _, _ => none
  | "n" :: w :: ts =>
    match strOfHex w, pC ts with
    | some w, some (e, r) => some (C.not w e, r)
    | _, _ => none
  | "c" :: k :: cnt :: ts =>
    match pKind k, cnt.toNat?, pC ts with
    | some k, some n, some (f, r) => (pCL n r).map (fun (l, r') => (C.chain k f l, r'))
    | _, _, _ => none
  | _ => none
partial def pCL : Nat → List String → Option (CL × List String)
  | 0, ts => some (CL.nil, ts)
  | n + 1, w :: ts =>
    match strOfHex w, pC ts with
    | some w, some (e, r) => (pCL n r).map (fun (l, r') => (CL.cons w e l, r'))
    | _, _ => none
  | _, _ => none
end

/-! trees on the wire: T := U code | R code arg | I code n | N T | A k T{k} | O k T{k} -/
mutual
partial def pT : List String → Option (Ast × List String)
  | "U" :: c :: ts => (strOfHex c).map (fun c => (Ast.unary c, ts))
  | "R" :: c :: a :: ts =>
    match strOfHex c, strOfHex a with
    | some c, some a => some (Ast.rex c a, ts)
    | _, _ => none
  | "I" :: c :: n :: ts =>
    match strOfHex c, n.toNat? with
    | some c, some n => some (Ast.int c n, ts)
    | _, _ => none
  | "N" :: ts => (pT ts).map (fun (t, r) => (Ast.not t, r))
  | "A" :: k :: ts =>
    match k.toNat? with
    | some n => (pTL n ts).map (fun (l, r) => (Ast.and l, r))
    | none => none
  | "O" :: k :: ts =>
    match k.toNat? with
    | some n => (pTL n ts).map (fun (l, r) => (Ast.or l, r))
    | none => none
  | _ => none
partial def pTL : Nat → List String → Option (List Ast × List String)
  | 0, ts => some ([], ts)
  | n + 1, ts =>
    match pT ts with
    | some (t, r) => (pTL n r).map (fun (l, r') => (t :: l, r'))
    | none => none
end

/-! a flow view on the wire (op `lv`, 20 fields):
  kind req resp method host prettyHost prettyUrl status ws msgs dnsReq dnsResp dnsQName src dst meta marked comment error replay
  req/resp := none | hdr/cts/raw/ce/dec   (cts: `.` or comma list; raw: none|hex; ce: none|hex; dec: fail|hex)
  ws := none | `.` | c:hex,s:hex,…     msgs := `.` | c:hex,…     optional fields := none | hex -/

def optHex (s : String) : Option (Option Bytes) :=
  if s == "none" then some none else (hexOr s).map some

def pList (s : String) : Option (List Bytes) :=
  if s == "." then some [] else (s.splitOn ",").mapM hexOr

def pDirs (s : String) : Option (List DirMsg) :=
  if s == "." then some []
  else (s.splitOn ",").mapM (fun e =>
    match e.splitOn ":" with
    | [d, h] => (hexOr h).map (fun b => { fromClient := d == "c", content := b })
    | _ => none)

/-- (message, outcome of the content decoder on it) -/
def pHMsg (s : String) : Option (Option (HMsg × Option Bytes)) :=
  if s == "none" then some none
  else match s.splitOn "/" with
    | [hdr, cts, raw, ce, dec] =>
      match hexOr hdr, pList cts, optHex raw, (if ce == "none" then some none else (strOfHex ce).map some), (if dec == "fail" then some none else (hexOr dec).map some) with
      | some h, some c, some r, some e, some d => some (some ({ hdrBlock := h, ctValues := c, body := { raw := r, ce := e } }, d))
      | _, _, _, _, _ => none
    | _ => none

def pKindF : String → Option FKind
  | "http" => some .http | "tcp" => some .tcp | "udp" => some .udp | "dns" => some .dns | "other" => some .other | _ => none

def pReplay : String → Option Replay
  | "none" => some .none | "request" => some .request | "response" => some .response | "other" => some .other | _ => none

def showList (l : List Bytes) : String := if l.isEmpty then "." else ",".intercalate (l.map showBytes)
def b01 (b : Bool) : String := if b then "1" else "0"

def leafLine (f : FlowView) (dec : Str → Bytes → Option Bytes) : String :=
  let rex := Gen.rexCodes.map (fun c =>
    let sp := specOf c []
    String.ofList c ++ "=" ++ b01 sp.bin ++ b01 sp.ignorecase ++ b01 sp.multiline ++ b01 sp.dotall ++ ":" ++ showList (leafReads dec c f))
  -- ~a: the patterns and the subjects they are tried on; the verdict is formed by the harness with the real engine
  let asset := "@a=" ++ showList (Gen.assetPatterns.map (fun p => (String.ofList p).toUTF8.toList)) ++ ":" ++
    showList (if isHttp f then ctOf f.resp else [])
  let un := (Gen.unaryCodes.filter (· != ['a'])).map (fun c => String.ofList c ++ "=" ++ b01 (unaryV (fun _ _ => false) c f))
  let ints := Gen.intCodes.map (fun c => String.ofList c ++ "=" ++ (if intV c f.status f then toString f.status else "none"))
  ";".intercalate (rex ++ [asset]) ++ "|" ++ ",".intercalate un ++ "|" ++ ",".intercalate ints

def step (line : String) : String :=
  match fields line with
  | "px" :: h :: bits =>
    match strOfHex h with
    | none => "bad-op"
    | some s =>
      match parseStruct s with
      | none => "reject"
      | some t =>
        let as := atoms t
        if as.length ≠ bits.length then shape t ++ " -"
        else
          let tbl := as.zip (bits.map String.toList)
          let n := match bits with | b :: _ => b.length | [] => 0
          let v := (List.range n).map (fun i => if eval (semOf tbl) t i then '1' else '0')
          shape t ++ " " ++ (if v.isEmpty then "-" else String.ofList v)
  | "rn" :: ts =>
    match pC ts with
    | some (e, []) =>
      hexOfStr e.render ++ " " ++ (if decide e.WF then "1" else "0") ++ " " ++ shape e.ast
    | _ => "bad-op"
  | ["bd", raw, ce, dec] =>
    -- what a body operator searches in a message: raw ("none" | hex), Content-Encoding ("none" | hex of the value),
    -- outcome of the content decoder on (coding, raw) ("fail" | hex)
    let rawO : Option (Option Bytes) := if raw == "none" then some none else (hexOr raw).map some
    let ceO : Option (Option Str) := if ce == "none" then some none else (strOfHex ce).map some
    let decO : Option (Option Bytes) := if dec == "fail" then some none else (hexOr dec).map some
    match rawO, ceO, decO with
    | some r, some c, some d =>
      match searched (fun _ _ => d) ⟨r, c⟩ with
      | some b => showBytes b
      | none => "none"
    | _, _, _ => "bad-op"
  | ["lv", kind, req, resp, method, host, phost, purl, status, ws, msgs, dq, ds, qn, src, dst, metaT, marked, comment, err, rep] =>
    match pKindF kind, pHMsg req, pHMsg resp, hexOr method, hexOr host, hexOr phost, hexOr purl, status.toNat? with
    | some k, some rq, some rs, some m, some h, some ph, some pu, some st =>
      match (if ws == "none" then some none else (pDirs ws).map some), pDirs msgs, optHex dq, optHex ds, optHex qn, optHex src, optHex dst with
      | some w, some ms, some dq, some ds, some qn, some sr, some dt =>
        match hexOr metaT, hexOr marked, hexOr comment, pReplay rep with
        | some me, some mk, some co, some rp =>
          let f : FlowView := { kind := k, req := rq.map (·.1), resp := rs.map (·.1), method := m, host := h, prettyHost := ph,
                                prettyUrl := pu, status := st, ws := w, msgs := ms, dnsReq := dq, dnsResp := ds, dnsQName := qn,
                                src := sr, dst := dt, metaText := me, marked := mk, comment := co, error := err == "1", replay := rp }
          let tbl : List (Option Str × Option Bytes × Option Bytes) :=
            (rq.toList ++ rs.toList).map (fun p => (p.1.body.ce, p.1.body.raw, p.2))
          let dec : Str → Bytes → Option Bytes := fun c raw =>
            match tbl.find? (fun e => e.1 == some c && e.2.1 == some raw) with
            | some e => e.2.2
            | none => none
          leafLine f dec
        | _, _, _, _ => "bad-op"
      | _, _, _, _, _, _, _ => "bad-op"
    | _, _, _, _, _, _, _, _ => "bad-op"
  | "pc" :: h :: bad =>
    -- `parse compiles s` (the model of flowfilter.parse itself): `compiles code arg` is false exactly for the listed
    -- (code:arg) pairs - the harness asks the real re.compile per (operator, argument) of the tree it rendered
    match strOfHex h with
    | none => "bad-op"
    | some s =>
      let pairs : List (Str × Str) := bad.filterMap (fun e =>
        match e.splitOn ":" with
        | [c, a] => match strOfHex c, strOfHex a with
          | some c, some a => some (c, a)
          | _, _ => none
        | _ => none)
      if pairs.length ≠ bad.length then "bad-op"
      else match parse (fun c a => !(pairs.contains (c, a))) s with
        | some t => shape t
        | none => "reject"
  | "pr" :: ts =>
    match pT ts with
    | some (t, []) => hexOfStr (print t)
    | _ => "bad-op"
  | _ => "bad-op"

end C42Drv

def main : IO Unit := runPure C42Drv.step
