import MitmVerif.Model.C42
import Driver.Proto
open MitmVerif Driver

namespace C42Drv
open MitmVerif.C42

def strOfHex (h : String) : Option Str :=
  match hexOr h with
  | some b => match String.fromUTF8? (ByteArray.mk b.toArray) with
    | some s => some s.toList
    | none => none
  | none => none

def hexOfStr (s : Str) : String := showBytes (String.ofList s).toUTF8.toList

mutual
partial def shape : Ast → String
  | .unary c => "U" ++ String.ofList c
  | .rex c a => "R" ++ String.ofList c ++ ":" ++ hexOfStr a
  | .int c n => "I" ++ String.ofList c ++ ":" ++ toString n
  | .not t => "N(" ++ shape t ++ ")"
  | .and l => "A(" ++ ",".intercalate (shapes l) ++ ")"
  | .or l => "O(" ++ ",".intercalate (shapes l) ++ ")"
partial def shapes : List Ast → List String
  | [] => []
  | t :: l => shape t :: shapes l
end

mutual
partial def atoms : Ast → List Ast
  | .not t => atoms t
  | .and l => atomsL l
  | .or l => atomsL l
  | a => [a]
partial def atomsL : List Ast → List Ast
  | [] => []
  | t :: l => atoms t ++ atomsL l
end

def sameAtom : Ast → Ast → Bool
  | .unary c, .unary c' => c == c'
  | .rex c a, .rex c' a' => c == c' && a == a'
  | .int c n, .int c' n' => c == c' && n == n'
  | _, _ => false

/-- the verdict of leaf `a` on pool flow `i`, looked up in the per-atom verdict strings the harness took from the
real `_Action` objects (left to right) -/
def lookup (tbl : List (Ast × List Char)) (a : Ast) (i : Nat) : Bool :=
  match tbl.find? (fun p => sameAtom p.1 a) with
  | some p => p.2.getD i '0' == '1'
  | none => false

def semOf (tbl : List (Ast × List Char)) : Sem Nat :=
  { unary := fun c i => lookup tbl (.unary c) i
    rex := fun c a i => lookup tbl (.rex c a) i
    int := fun c n i => lookup tbl (.int c n) i }

def step (line : String) : String :=
  match fields line with
  | "px" :: h :: bits =>
    match strOfHex h with
    | none => "bad-op"
    | some s =>
      match parseStruct s with
      | none => "reject"
      | some t =>
        let as := atoms t
        if as.length ≠ bits.length then shape t ++ " -"
        else
          let tbl := as.zip (bits.map String.toList)
          let n := match bits with | b :: _ => b.length | [] => 0
          let v := (List.range n).map (fun i => if eval (semOf tbl) t i then '1' else '0')
          shape t ++ " " ++ (if v.isEmpty then "-" else String.ofList v)
  | _ => "bad-op"

end C42Drv

def main : IO Unit := runPure C42Drv.step
