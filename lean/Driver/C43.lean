import MitmVerif.Model.C43
import Driver.Proto
open MitmVerif Driver
open MitmVerif.C43

namespace C43Driver

def bit? (s : String) : Option Bool := if s = "1" then some true else if s = "0" then some false else none

def attr? (s : String) : Option Attr :=
  match s.splitOn "," with
  | [kt, km, ku, kz, mk, bits] => do
    let kt ← kt.toNat?; let km ← km.toNat?; let ku ← ku.toNat?; let kz ← kz.toNat?
    let mk ← bit? mk
    let vs ← bits.toList.mapM (fun c => bit? (String.singleton c))
    pure { kt := kt, km := km, ku := ku, kz := kz, marked := mk, verdicts := vs }
  | _ => none

def ids (l : List Nat) : String := if l.isEmpty then "-" else ",".intercalate (l.map toString)

def showSig : Sig → String
  | .vadd f => s!"a{f}"
  | .vrm f i => s!"r{f}@{i}"
  | .vupd f => s!"u{f}"
  | .vrefresh => "R"
  | .srm f => s!"s{f}"
  | .srefresh => "S"
  | .fchange => "f"

def insertNat (x : Nat) : List Nat → List Nat
  | [] => [x]
  | y :: ys => if x ≤ y then x :: y :: ys else y :: insertNat x ys

def sortNat (l : List Nat) : List Nat := l.foldr insertNat []

def dump (s : VS) : String :=
  let sg := if s.trace.isEmpty then "-" else ",".intercalate (s.trace.map showSig)
  let f := match s.focus with | none => "none" | some f => toString f
  let e := if s.crash then "2" else if s.err then "1" else "0"
  s!"view={ids (shown s)} focus={f} store={ids s.store} settings={ids (sortNat s.settings)} sigs={sg} err={e}"

def op? (fs : List String) : Option Op :=
  match fs with
  | ["mut", f, a] => do pure (.mutate (← f.toNat?) (← attr? a))
  | ["add", f, a] => do pure (.add (← f.toNat?) (← attr? a))
  | ["upd", f, a] => do pure (.update (← f.toNat?) (← attr? a))
  | ["rm", f] => do pure (.remove (← f.toNat?))
  | ["clear"] => some .clear
  | ["clearunmarked"] => some .clearUnmarked
  | ["filter", k] => do pure (.setFilter (← k.toNat?))
  | ["toggle"] => some .toggleMarked
  | ["reversed", b] => do pure (.setReversed (← bit? b))
  | ["order", n] => do pure (.setOrder (← n.toNat?))
  | ["follow", b] => do pure (.focusFollow (← bit? b))
  | ["go", n] => do pure (.go (← n.toInt?))
  | ["next"] => some .next
  | ["prev"] => some .prev
  | ["focus", f] => do pure (.focus (← f.toNat?))
  | ["setval", f] => do pure (.setval (← f.toNat?))
  | _ => none

def stepLine (s : VS) (line : String) : VS × String :=
  match fields line with
  | ["reset"] => (init, "ok")
  | fs =>
    match op? fs with
    | some op => let s' := step s op; (s', dump s')
    | none => (s, "bad-op")

end C43Driver

def main : IO Unit := runState C43Driver.stepLine init
