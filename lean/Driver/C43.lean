import MitmVerif.Model.C43
import MitmVerif.Model.C43_Keys
import Driver.Proto
open MitmVerif Driver
open MitmVerif.C43

namespace C43Driver

def bit? (s : String) : Option Bool := if s = "1" then some true else if s = "0" then some false else none

def attr? (s : String) : Option Attr :=
  match s.splitOn "," with
  | [kt, km, ku, kz, mk, bits] => do
    let kt ← kt.toNat?; let km ← km.toNat?; let ku ← ku.toNat?; let kz ← kz.toNat?
    let mk ← bit? mk
    let vs ← bits.toList.mapM (fun c => bit? (String.singleton c))
    pure { kt := kt, km := km, ku := ku, kz := kz, marked := mk, verdicts := vs }
  | _ => none

def ids (l : List Nat) : String := if l.isEmpty then "-" else ",".intercalate (l.map toString)

def showSig : Sig → String
  | .vadd f => s!"a{f}"
  | .vrm f i => s!"r{f}@{i}"
  | .vupd f => s!"u{f}"
  | .vrefresh => "R"
  | .srm f => s!"s{f}"
  | .srefresh => "S"
  | .fchange => "f"

def insertNat (x : Nat) : List Nat → List Nat
  | [] => [x]
  | y :: ys => if x ≤ y then x :: y :: ys else y :: insertNat x ys

def sortNat (l : List Nat) : List Nat := l.foldr insertNat []

def dump (s : VS) : String :=
  let sg := if s.trace.isEmpty then "-" else ",".intercalate (s.trace.map showSig)
  let f := match s.focus with | none => "none" | some f => toString f
  let e := if s.crash then "2" else if s.err then "1" else "0"
  s!"view={ids (shown s)} focus={f} store={ids s.store} settings={ids (sortNat s.settings)} sigs={sg} err={e}"

def op? (fs : List String) : Option Op :=
  match fs with
  | ["mut", f, a] => do pure (.mutate (← f.toNat?) (← attr? a))
  | ["add", f, a] => do pure (.add (← f.toNat?) (← attr? a))
  | ["upd", f, a] => do pure (.update (← f.toNat?) (← attr? a))
  | ["rm", f] => do pure (.remove (← f.toNat?))
  | ["clear"] => some .clear
  | ["clearunmarked"] => some .clearUnmarked
  | ["filter", k] => do pure (.setFilter (← k.toNat?))
  | ["toggle"] => some .toggleMarked
  | ["reversed", b] => do pure (.setReversed (← bit? b))
  | ["order", n] => do pure (.setOrder (← n.toNat?))
  | ["follow", b] => do pure (.focusFollow (← bit? b))
  | ["go", n] => do pure (.go (← n.toInt?))
  | ["next"] => some .next
  | ["prev"] => some .prev
  | ["focus", f] => do pure (.focus (← f.toNat?))
  | ["setval", f] => do pure (.setval (← f.toNat?))
  | _ => none

/-! the key generators -/
def decB (s : String) : Option Bytes := if s = "_" then some [] else Hex.decodeChars s.toList
def encB (b : Bytes) : String := if b.isEmpty then "_" else Hex.encode b
def optNat? (s : String) : Option (Option Nat) := if s = "N" then some none else s.toNat?.map some

def flowData? (s : String) : Option FlowData :=
  match s.splitOn ":" with
  | ["h", ts, m, u, rq, rs] => do
    let rs ← if rs = "X" then some none else (optNat? rs).map some
    pure (.http (← ts.toNat?) (← decB m) (← decB u) (← optNat? rq) rs)
  | ["t", ts, tcp, a, ls] => do
    let ls ← if ls = "-" then some [] else (ls.splitOn ",").mapM String.toNat?
    pure (.stream (← ts.toNat?) (← bit? tcp) (← decB a) ls)
  | ["d", ts, c, q, r] => do
    let q ← if q = "N" then some none else (decB q).map some
    pure (.dns (← ts.toNat?) (← c.toNat?) q (← optNat? r))
  | _ => none

def showKey : SortKey → String
  | .num n => s!"n{n}"
  | .str b => "s" ++ encB b

def key? (s : String) : Option SortKey :=
  match s.toList with
  | 'n' :: r => (String.ofList r).toNat?.map .num
  | 's' :: r => (decB (String.ofList r)).map .str
  | _ => none

def stepLine (s : VS) (line : String) : VS × String :=
  match fields line with
  | ["reset"] => (init, "ok")
  | ["keygen", slot, d] =>
    match slot.toNat?, flowData? d with
    | some sl, some d => (s, showKey (genKey sl d))
    | _, _ => (s, "bad-op")
  | ["keyle", a, b] =>
    match key? a, key? b with
    | some a, some b => (s, if a.le b then "1" else "0")
    | _, _ => (s, "bad-op")
  | fs =>
    match op? fs with
    | some op => let s' := step s op; (s', dump s')
    | none => (s, "bad-op")

end C43Driver

def main : IO Unit := runState C43Driver.stepLine init
