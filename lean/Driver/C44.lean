import MitmVerif.Model.C44
import Driver.Proto
open MitmVerif Driver MitmVerif.C44

namespace C44Driver

/-- the listener behaviours the correspondence run uses (theorems quantify over all functions) -/
inductive Rule
  | never | always
  | eq (n : Name) (v : Val)      -- raises iff option n currently == v (Python ==)
  | upd (n : Name)               -- raises iff n is among the updated names

def Rule.eval : Rule → Store → List Name → Bool
  | .never, _, _ => false
  | .always, _, _ => true
  | .eq n v, s, _ => match lookup s n with
    | some o => pyEq o.cur v
    | none => false
  | .upd n, _, u => u.contains n

def parseAtom (t : String) : Option Atom :=
  if t = "b0" then some (.b false)
  else if t = "b1" then some (.b true)
  else if t = "n" then some .none
  else if t = "o" then some .other
  else if t.startsWith "s" then (hexOr (t.drop 1).toString).map Atom.s
  else if t.startsWith "i" then ((t.drop 1).toString.toInt?).map Atom.i
  else none

def parseVal (t : String) : Option Val :=
  match t.splitOn "." with
  | "q" :: rest => (rest.mapM parseAtom).map Val.seq
  | [x] => (parseAtom x).map Val.a
  | _ => none

def parseTy (t : String) : Option Ty :=
  match t with
  | "bool" => some .bool | "str" => some .str | "int" => some .int
  | "optstr" => some .optStr | "optint" => some .optInt | "seqstr" => some .seqStr
  | _ => none

def parseKw (t : String) : Option (List (Name × Val)) :=
  if t = "-" then some []
  else (t.splitOn ";").mapM fun kv =>
    match kv.splitOn "=" with
    | [k, v] => match k.toNat?, parseVal v with
      | some k, some v => some (k, v)
      | _, _ => none
    | _ => none

/-- spec strings travel as 3 bytes (big endian) per code point -/
def decodeCps : Bytes → Option PyStr
  | [] => some []
  | a :: b :: c :: r => (decodeCps r).map fun x => (a.toNat * 65536 + b.toNat * 256 + c.toNat) :: x
  | _ => none

def parseSpecs (t : String) : Option (List (Name × Option PyStr)) :=
  if t = "-" then some []
  else (t.splitOn ";").mapM fun kv =>
    match kv.splitOn "=" with
    | [k] => k.toNat?.map fun k => (k, none)
    | [k, v] => match k.toNat?, (hexOr v).bind decodeCps with
      | some k, some v => some (k, some v)
      | _, _ => none
    | _ => none

def parseNames (t : String) : Option (List Name) :=
  if t = "-" then some [] else (t.splitOn ",").mapM (·.toNat?)

def parseRule (t : String) : Option Rule :=
  match t.splitOn ":" with
  | ["never"] => some .never
  | ["always"] => some .always
  | ["eq", n, v] => match n.toNat?, parseVal v with
    | some n, some v => some (.eq n v)
    | _, _ => none
  | ["upd", n] => n.toNat?.map Rule.upd
  | _ => none

/-- `-` (the listener never acts) or `<rule>/<kw>`: when the rule holds the handler issues `update(**kw)` -/
def parseAct (t : String) : Option (Store → List Name → Option (List (Name × Val))) :=
  if t = "-" then some (fun _ _ => none)
  else match t.splitOn "/" with
    | [r, kw] => match parseRule r, parseKw kw with
      | some r, some kw => some (fun s u => if r.eval s u then some kw else none)
      | _, _ => none
    | _ => none

def showAtom : Atom → String
  | .b x => if x then "b1" else "b0"
  | .s x => "s" ++ showBytes x
  | .i x => "i" ++ toString x
  | .none => "n"
  | .other => "o"

/-- canonical rendering: a bool held by an int-typed option prints as the int it equals -/
def showVal (ty : Ty) : Val → String
  | .a (.b x) => if ty = .int ∨ ty = .optInt then (if x then "i1" else "i0") else showAtom (.b x)
  | .a x => showAtom x
  | .seq xs => ".".intercalate ("q" :: xs.map showAtom)

def showStore (s : Store) : String :=
  if s.isEmpty then "-" else ";".intercalate (s.map fun p => toString p.1 ++ "=" ++ showVal p.2.ty p.2.cur)

def insertSorted (n : Nat) : List Nat → List Nat
  | [] => [n]
  | a :: r => if n < a then n :: a :: r else if n = a then a :: r else a :: insertSorted n r

def showObs (o : List Obs) : String :=
  if o.isEmpty then "-" else "/".intercalate (o.map fun ob =>
    toString ob.who ++ "@" ++ "+".intercalate ((ob.updated.foldr insertSorted []).map toString) ++ "@" ++ showStore ob.seen)

def showOut : Outcome → String
  | .ok => "ok" | .typeError => "TypeError" | .optionsError => "OptionsError" | .keyError => "KeyError"
  | .attributeError => "AttributeError" | .valueError => "ValueError" | .runtimeError => "RuntimeError"

def showRes (r : Res) : String :=
  showOut r.out ++ " " ++ showObs r.obs ++ " " ++ showStore r.st.opts ++ " " ++
    (if r.st.deferred.isEmpty then "-" else ",".intercalate (r.st.deferred.map fun p => toString p.1))

/-- the identity YAML: the ideal library of the round-trip law -/
def idYaml : Yaml (List (Name × Val)) := ⟨id, some⟩

def reply (st : St) (r : Option Res) : St × String :=
  match r with
  | some r => (r.st, showRes r)
  | none => (st, "bad-op")

def stepLine (st : St) (line : String) : St × String :=
  match fields line with
  | ["new"] => (St.empty, "ok")
  | ["add", n, ty, v] => reply st do
      let n ← n.toNat?; let ty ← parseTy ty; let v ← parseVal v
      pure (addOptionN st n ty v)
  | ["sub", id, rule, names, act] => reply st do
      let id ← id.toNat?; let rule ← parseRule rule; let ns ← parseNames names; let a ← parseAct act
      pure (subscribe st ⟨id, some ns, rule.eval, a⟩)
  | ["conn", id, rule, act] => reply st do
      let id ← id.toNat?; let rule ← parseRule rule; let a ← parseAct act
      pure (subscribe st ⟨id, none, rule.eval, a⟩)
  | ["upd", kw] => reply st ((parseKw kw).map (updateN st))
  | ["updk", kw] => reply st ((parseKw kw).map (updateKnownN st))
  | ["updd", kw] => reply st ((parseKw kw).map (updateDeferN st))
  | ["merge", kw] => reply st ((parseKw kw).map (mergeN st))
  | ["set", d, specs] =>
      if d = "0" ∨ d = "1" then reply st ((parseSpecs specs).map fun s => setSpecsN st s (d == "1")) else (st, "bad-op")
  | ["load", dir, getcwd, kw] =>
      -- dir = "none" (no cwd argument) or the config directory; the environment as in `relpath`
      match (if dir = "none" then some none else ((hexOr dir).bind decodeCps).map some), (hexOr getcwd).bind decodeCps, parseKw kw with
      | some dir, some getcwd, some kw =>
        let env : PathEnv := ⟨some ("/h/me/".toList.map Char.toNat),
          fun n => if n = "root".toList.map Char.toNat then some ("/root".toList.map Char.toNat) else none, getcwd⟩
        reply st (some (loadN env st dir kw))
      | _, _, _ => (st, "bad-op")
  | ["relpath", cwd, rel, path] =>
      -- the harness fixes HOME=/h/me/ and relies on the password-database entry root -> /root
      match (hexOr cwd).bind decodeCps, (hexOr rel).bind decodeCps, (hexOr path).bind decodeCps with
      | some cwd, some rel, some path =>
        let home : PyStr := "/h/me/".toList.map Char.toNat
        let pw : PyStr → Option PyStr := fun n =>
          if n = "root".toList.map Char.toNat then some ("/root".toList.map Char.toNat) else none
        match relativePath (some home) pw cwd rel path with
        | .ok p => (st, "ok " ++ showBytes (utf8 p.str))
        | .error .value => (st, "ValueError")
        | .error .runtime => (st, "RuntimeError")
      | _, _, _ => (st, "bad-op")
  | ["pd"] => reply st (some (processDeferredN st))
  | ["rst"] => reply st (some (resetN st))
  | ["save"] =>
      match saveLoad idYaml st.opts with
      | some r => (st, showOut r.out ++ " " ++ showStore r.st.opts)
      | none => (st, "bad-op")
  | _ => (st, "bad-op")

end C44Driver

def main : IO Unit := runState C44Driver.stepLine St.empty
