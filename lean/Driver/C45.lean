import MitmVerif.Model.C45
import Driver.Proto
open MitmVerif Driver MitmVerif.C45

namespace C45Driver

/-- strings travel as 3 bytes (big endian) per code point -/
def decodeStr : Bytes → Option Str
  | [] => some []
  | a :: b :: c :: r => (decodeStr r).map fun x => (a.toNat * 65536 + b.toNat * 256 + c.toNat) :: x
  | _ => none

def encodeStr (s : Str) : String :=
  showBytes (s.flatMap fun n => [UInt8.ofNat (n / 65536), UInt8.ofNat (n / 256 % 256), UInt8.ofNat (n % 256)])

def strOf (t : String) : Option Str := (hexOr t).bind decodeStr

def asciiStr (s : String) : Str := s.toList.map Char.toNat

/-- the slice of the Unicode name database the correspondence run uses (names are matched case-insensitively
    by CPython; the generator writes them in upper case) -/
def db : UniDb := ⟨fun nm =>
  if nm = asciiStr "BULLET" then some 0x2022
  else if nm = asciiStr "SPACE" then some 0x20
  else if nm = asciiStr "LATIN SMALL LETTER A" then some 0x61
  else if nm = asciiStr "QUOTATION MARK" then some 0x22
  else none⟩

/-- the registered test commands: `MitmVerif.C45.harnessCmds` (in the model file, so that theorems can speak about it) -/
def cmds : Str → Option SigD := harnessCmds

/-- the process environment the harness fixes: HOME=/h/me/ and the one password-database entry it relies on -/
def env : Env := ⟨some (asciiStr "/h/me/"), fun n => if n = asciiStr "root" then some (asciiStr "/root") else none⟩

def showTVal : TVal → String
  | .s x => encodeStr x
  | .i n => "i:" ++ toString n
  | .b x => if x then "b:1" else "b:0"
  | .l xs => "l:" ++ ",".intercalate (xs.map encodeStr)

def stepLine (line : String) : String :=
  match fields line with
  | ["exec", l] =>
    match strOf l with
    | some l =>
      match executeD db env cmds l with
      | .arity => "arity"
      | .noCommand => "nocmd"
      | .unknown => "unknown"
      | .badArg => "badarg"
      | .call name args => " ".intercalate ("call" :: encodeStr name :: toString args.length :: args.map showTVal)
    | none => "bad-op"
  | ["refsplit", s] =>
    -- the SPECIFICATION side of the splitting clause (compared with the oracle's Python `ref_split`)
    match strOf s with
    | some l =>
      let show_ := fun (ps : List Str) => toString ps.length :: ps.map encodeStr
      " ".intercalate ((if noAdjacent (lex l) then "1" else "0") :: (show_ (refSplit l) ++ show_ (mergeAdjacent (lex l))))
    | none => "bad-op"
  | ["quote", s] =>
    match strOf s with
    | some s => encodeStr (quote s)
    | none => "bad-op"
  | ["lex", s] =>
    match strOf s with
    | some s => " ".intercalate (toString (lex s).length :: (lex s).map encodeStr)
    | none => "bad-op"
  | _ => "bad-op"

end C45Driver

def main : IO Unit := runPure C45Driver.stepLine
