import MitmVerif.Model.C45
import Driver.Proto
open MitmVerif Driver MitmVerif.C45

namespace C45Driver

/-- strings travel as 3 bytes (big endian) per code point -/
def decodeStr : Bytes → Option Str
  | [] => some []
  | a :: b :: c :: r => (decodeStr r).map fun x => (a.toNat * 65536 + b.toNat * 256 + c.toNat) :: x
  | _ => none

def encodeStr (s : Str) : String :=
  showBytes (s.flatMap fun n => [UInt8.ofNat (n / 65536), UInt8.ofNat (n / 256 % 256), UInt8.ofNat (n % 256)])

def strOf (t : String) : Option Str := (hexOr t).bind decodeStr

def asciiStr (s : String) : Str := s.toList.map Char.toNat

/-- the slice of the Unicode name database the correspondence run uses (names are matched case-insensitively
    by CPython; the generator writes them in upper case) -/
def db : UniDb := ⟨fun nm =>
  if nm = asciiStr "BULLET" then some 0x2022
  else if nm = asciiStr "SPACE" then some 0x20
  else if nm = asciiStr "LATIN SMALL LETTER A" then some 0x61
  else if nm = asciiStr "QUOTATION MARK" then some 0x22
  else none⟩

/-- the registered test commands of the harness: every signature shape and every convertible parameter type -/
def choiceOpts : List Str := [asciiStr "a", asciiStr "b c", asciiStr "", asciiStr "'q'"]

def cmds (name : Str) : Option SigD :=
  if name = asciiStr "t.s" then some ⟨[], [], some .str⟩
  else if name = asciiStr "t.v" then some ⟨[], [], some .verbatim⟩
  else if name = asciiStr "t.one" then some ⟨[.str], [], none⟩
  else if name = asciiStr "t.two" then some ⟨[.str, .verbatim], [], none⟩
  else if name = asciiStr "t.mix" then some ⟨[.verbatim], [], some .str⟩
  else if name = asciiStr "t.none" then some ⟨[], [], none⟩
  else if name = asciiStr "t.i" then some ⟨[], [], some .int⟩
  else if name = asciiStr "t.b" then some ⟨[], [], some .bool⟩
  else if name = asciiStr "t.p" then some ⟨[], [], some .path⟩
  else if name = asciiStr "t.ibp" then some ⟨[.int, .bool, .path], [], none⟩
  else if name = asciiStr "t.q" then some ⟨[], [], some .strSeq⟩
  else if name = asciiStr "t.c" then some ⟨[.cutSpec], [], none⟩
  else if name = asciiStr "t.m" then some ⟨[], [], some .marker⟩
  else if name = asciiStr "t.ch" then some ⟨[.choice choiceOpts], [], some .str⟩
  else if name = asciiStr "t.opts" then some ⟨[], [], none⟩
  else if name = asciiStr "t.d" then some ⟨[.str, .str, .int], [.s (asciiStr "dflt"), .i 7], none⟩
  else if name = asciiStr "t.dr" then some ⟨[.verbatim, .bool], [.b true], some .str⟩
  else none

/-- the process environment the harness fixes: HOME=/h/me/ and the one password-database entry it relies on -/
def env : Env := ⟨some (asciiStr "/h/me/"), fun n => if n = asciiStr "root" then some (asciiStr "/root") else none⟩

def showTVal : TVal → String
  | .s x => encodeStr x
  | .i n => "i:" ++ toString n
  | .b x => if x then "b:1" else "b:0"
  | .l xs => "l:" ++ ",".intercalate (xs.map encodeStr)

def stepLine (line : String) : String :=
  match fields line with
  | ["exec", l] =>
    match strOf l with
    | some l =>
      match executeD db env cmds l with
      | .arity => "arity"
      | .noCommand => "nocmd"
      | .unknown => "unknown"
      | .badArg => "badarg"
      | .call name args => " ".intercalate ("call" :: encodeStr name :: toString args.length :: args.map showTVal)
    | none => "bad-op"
  | ["quote", s] =>
    match strOf s with
    | some s => encodeStr (quote s)
    | none => "bad-op"
  | ["lex", s] =>
    match strOf s with
    | some s => " ".intercalate (toString (lex s).length :: (lex s).map encodeStr)
    | none => "bad-op"
  | _ => "bad-op"

end C45Driver

def main : IO Unit := runPure C45Driver.stepLine
