import MitmVerif.Model.C46
import MitmVerif.Gen.C46
import Driver.Proto
open MitmVerif Driver MitmVerif.C46

namespace C46Driver

def parseMethod (s : String) : Option Method :=
  match s with
  | "GET" => some .GET | "HEAD" => some .HEAD | "POST" => some .POST | "DELETE" => some .DELETE
  | "PATCH" => some .PATCH | "PUT" => some .PUT | "OPTIONS" => some .OPTIONS | "other" => some .other
  | _ => none

def parseCred (s : String) : Option Cred :=
  match s with
  | "absent" => some .absent | "invalid" => some .invalid | "undecodable" => some .undecodable | "valid" => some .valid
  | _ => none

def parseSfs (s : String) : Option Sfs :=
  match s with
  | "absent" => some .absent | "same-origin" => some .sameOrigin | "none" => some .none | "other" => some .other
  | _ => none

def parseBool (s : String) : Option Bool :=
  match s with | "0" => some false | "1" => some true | _ => none

def showOutcome : Outcome → String
  | .s405 => "405" | .s403xsrf => "403-xsrf" | .crossSite => "cross-site" | .s400token => "400-token"
  | .s403auth => "403-auth" | .run true => "run-setcookie" | .run false => "run"

def stepLine (line : String) : String :=
  match fields line with
  | ["req", idx, m, c, b, t, s, x] =>
    match idx.toNat?, parseMethod m, parseBool c, parseCred b, parseCred t, parseSfs s, parseBool x with
    | some i, some m, some c, some b, some t, some s, some x =>
      match Gen.C46.webRoutes[i]? with
      | some r => if b = .undecodable then "bad-op" else showOutcome (serve r ⟨m, c, b, t, s, x⟩)
      | none => "bad-op"
    | _, _, _, _, _, _, _ => "bad-op"
  | ["routes"] => toString Gen.C46.webRoutes.length
  | _ => "bad-op"

end C46Driver

def main : IO Unit := runPure C46Driver.stepLine
