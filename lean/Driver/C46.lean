import MitmVerif.Model.C46
import MitmVerif.Gen.C46
import Driver.Proto
open MitmVerif Driver MitmVerif.C46

namespace C46Driver

def parseMethod (s : String) : Option Method :=
  match s with
  | "GET" => some .GET | "HEAD" => some .HEAD | "POST" => some .POST | "DELETE" => some .DELETE
  | "PATCH" => some .PATCH | "PUT" => some .PUT | "OPTIONS" => some .OPTIONS | "other" => some .other
  | _ => none

def parseCred (s : String) : Option Cred :=
  match s with
  | "absent" => some .absent | "invalid" => some .invalid | "undecodable" => some .undecodable | "valid" => some .valid
  | _ => none

def parseSfs (s : String) : Option Sfs :=
  match s with
  | "absent" => some .absent | "same-origin" => some .sameOrigin | "none" => some .none | "other" => some .other
  | _ => none

def parseBool (s : String) : Option Bool :=
  match s with | "0" => some false | "1" => some true | _ => none

def showOutcome : Outcome → String
  | .s405 => "405" | .s403xsrf => "403-xsrf" | .crossSite => "cross-site" | .s400token => "400-token"
  | .s403auth => "403-auth" | .run true => "run-setcookie" | .run false => "run"

def parseTok (s : String) : Option TokenArg :=
  if s = "absent" then some .absent
  else if s = "undecodable" then some .undecodable
  else if s.startsWith "t" then (hexOr (s.drop 1).toString).map TokenArg.text
  else none

def parseHexList (s : String) : Option (List Bytes) :=
  if s = "-" then some [] else (s.splitOn ",").mapM hexOr

def parseIds (s : String) : Option (List Nat) :=
  if s = "-" then some [] else (s.splitOn ",").mapM (·.toNat?)

def stepLine (w : World) (line : String) : World × String :=
  match fields line with
  | ["req", idx, m, c, b, t, s, x] =>
    match idx.toNat?, parseMethod m, parseBool c, parseCred b, parseCred t, parseSfs s, parseBool x with
    | some i, some m, some c, some b, some t, some s, some x =>
      match Gen.C46.webRoutes[i]? with
      | some r => if b = .undecodable then (w, "bad-op") else (w, showOutcome (serve r ⟨m, c, b, t, s, x⟩))
      | none => (w, "bad-op")
    | _, _, _, _, _, _, _ => (w, "bad-op")
  | ["routes"] => (w, toString Gen.C46.webRoutes.length)
  -- the history model: WebAuth state + issued session cookies
  | ["hreset", pw, issued] =>
    match hexOr pw, parseIds issued with
    | some pw, some ids => (⟨pw, ids⟩, "ok")
    | _, _ => (w, "bad-op")
  | ["hset", v, fresh, hok] =>
    match hexOr v, hexOr fresh, parseBool hok with
    | some v, some fresh, some hok =>
      let w' := (stepW (fun _ _ => false) (fun _ => hok) w (.setPw v fresh)).1
      (w', if (configure (fun _ => hok) v fresh).isSome then "ok" else "rejected")
    | _, _, _ => (w, "bad-op")
  | ["hreq", idx, m, ck, auth, tok, s, x, newId, ver] =>
    let ck' : Option (Option Nat) := if ck = "-" then some none else ck.toNat?.map some
    let auth' : Option (Option Bytes) := if auth = "none" then some none else (hexOr auth).map some
    -- `s`: the abstract class, or `h<hex>`: the raw Sec-Fetch-Site header text (classified by `sfsOfHeader`)
    let sfs' : Option Sfs := if s.startsWith "h" then (hexOr (s.drop 1).toString).map (fun v => sfsOfHeader (some v)) else parseSfs s
    match idx.toNat?, parseMethod m, ck', auth', parseTok tok, sfs', parseBool x, newId.toNat?, parseHexList ver with
    | some i, some m, some ck, some auth, some tok, some s, some x, some nid, some ver =>
      match Gen.C46.webRoutes[i]? with
      | some r =>
        let (w', out) := stepW (fun _ pw => ver.contains pw) (fun _ => true) w (.req r ⟨m, ck, auth, tok, s, x⟩ nid)
        (w', match out with | some o => showOutcome o | none => "bad-op")
      | none => (w, "bad-op")
    | _, _, _, _, _, _, _, _, _ => (w, "bad-op")
  | _ => (w, "bad-op")

end C46Driver

def main : IO Unit := runState C46Driver.stepLine (⟨[], []⟩ : World)
