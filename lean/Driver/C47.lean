import MitmVerif.Model.C47
import MitmVerif.Model.C47_Conv
import Driver.Proto
open MitmVerif Driver MitmVerif.C47

namespace C47Driver

/-- `+3+4-` → [eff 3, eff 4, fail]; `_` → [] -/
def parseRun (s : String) : Option (List Step) :=
  if s = "_" then some [] else
  let rec go (cs : List Char) (acc : List Step) (num : Option Nat) (fuel : Nat) : Option (List Step) :=
    match fuel with
    | 0 => none
    | fuel + 1 =>
      let flush : List Step := match num with | some n => acc ++ [.eff n] | none => acc
      match cs with
      | [] => some flush
      | '+' :: r => go r flush (some 0) fuel
      | '-' :: r => go r (flush ++ [.fail]) none fuel
      | c :: r =>
        if c.isDigit then
          match num with
          | some n => go r acc (some (n * 10 + (c.toNat - 48))) fuel
          | none => none
        else none
  go s.toList [] none (s.length + 1)

def keyOf (h : String) : Key :=
  match hexOr h with
  | some b =>
    let s := String.fromUTF8! ⟨b.toArray⟩
    if s = "method" then .method else if s = "scheme" then .scheme else if s = "host" then .host
    else if s = "path" then .path else if s = "http_version" then .httpVersion else if s = "port" then .port
    else if s = "headers" then .headers else if s = "trailers" then .trailers else if s = "content" then .content
    else if s = "reason" then .reason else if s = "code" then .code else .unknown
  | none => .unknown

/-- tokens of one document → tops -/
partial def parseTops (toks : List String) (acc : List Top) : Option (List Top) :=
  match toks with
  | [] => some acc.reverse
  | "U" :: r => parseTops r (.unknown :: acc)
  | "Qn" :: r => parseTops r (.request none :: acc)
  | "Pn" :: r => parseTops r (.response none :: acc)
  | "Q{" :: r =>
    match parseLeaves r [] with
    | some (ls, r') => parseTops r' (.request (some ls) :: acc)
    | none => none
  | "P{" :: r =>
    match parseLeaves r [] with
    | some (ls, r') => parseTops r' (.response (some ls) :: acc)
    | none => none
  | t :: r =>
    match t.splitOn ":" with
    | ["M", run] => (parseRun run).bind fun st => parseTops r (.marked st :: acc)
    | ["C", run] => (parseRun run).bind fun st => parseTops r (.comment st :: acc)
    | _ => none
where
  parseLeaves (toks : List String) (acc : List Leaf) : Option (List Leaf × List String) :=
    match toks with
    | "}" :: r => some (acc.reverse, r)
    | t :: r =>
      match t.splitOn ":" with
      | ["k", h, run] => (parseRun run).bind fun st => parseLeaves r (⟨keyOf h, st⟩ :: acc)
      | _ => none
    | [] => none

def showIds (l : List Nat) : String := if l.isEmpty then "-" else showNatList l

def allFields : List Field :=
  [.reqMethod, .reqScheme, .reqHost, .reqPath, .reqVersion, .reqPort, .reqHeaders, .reqTrailers, .reqContent,
   .respReason, .respVersion, .respCode, .respHeaders, .respTrailers, .respContent, .marked, .comment]

def showFVal : FVal → String
  | .orig => "o"
  | .scalar i => "s" ++ toString i
  | .pairs l => "p" ++ ".".intercalate (l.map toString)

def showFields (fs : Fields) : String := ",".intercalate (allFields.map fun f => showFVal (fs f))

structure DState where
  flow : Flow
  fields : Fields

def parseCps (t : String) : Option (List Nat) :=
  if t = "" then some [] else (t.splitOn ".").mapM (·.toNat?)

def parseScalar (t : String) : Option Scalar :=
  if t = "n" then some .null else if t = "b" then some .bool else if t = "i" then some .int
  else if t = "f0" then some (.float false) else if t = "f1" then some (.float true)
  else if t = "c" then some .container
  else if t.startsWith "s" then (parseCps (t.drop 1).toString).map Scalar.str
  else none

def parseItem (t : String) : Option Item :=
  if t = "o" then some .other
  else if t.startsWith "s" then (parseCps (t.drop 1).toString).map Item.str
  else none

def parseElem (t : String) : Option Elem :=
  if t = "x" then some .notSeq
  else match t.splitOn "," with
    | "q" :: items => (items.mapM parseItem).map Elem.seq
    | _ => none

def parseContainer (t : String) : Option Container :=
  if t = "N" then some .notIterable
  else if t.startsWith "C" then ((t.drop 1).toString.toNat?).map Container.chars
  else if t.startsWith "K" then ((t.drop 1).toString.toNat?).map Container.keys
  else match t.splitOn ";" with
    | "L" :: elems => (elems.mapM parseElem).map Container.list
    | _ => none

def showOuts (l : List Bool) : String := String.ofList (l.map fun b => if b then '+' else '-')

def step (st : DState) (line : String) : DState × String :=
  let σ := st.flow
  match fields line with
  | ["reset", b] =>
    if b = "1" then (⟨⟨[], some []⟩, fun _ => .orig⟩, "ok") else if b = "0" then (⟨⟨[], none⟩, fun _ => .orig⟩, "ok")
    else (st, "bad-op")
  | "put" :: r :: p :: toks =>
    if (r ≠ "0" ∧ r ≠ "1") ∨ (p ≠ "0" ∧ p ≠ "1" ∧ p ≠ "2") then (st, "bad-op") else
    let k : Kind := ⟨r = "1", p ≠ "0"⟩
    let doc : Option Doc :=
      match toks with
      | ["nondict"] => some .notObject
      | ["badjson"] => some .badJson
      | ["."] => some (.obj [])
      | _ => (parseTops toks []).map Doc.obj
    match doc with
    | none => (st, "bad-op")
    | some d =>
      let (status, σ') := put k σ d
      let (_, fs') := putF k st.fields d
      let s := match status with | .ok => "ok" | .refused400 => "refused" | .error500 => "error"
      (⟨σ', fs'⟩, s ++ " " ++ showIds σ'.cur ++ " " ++ (match σ'.backup with | none => "none" | some b => showIds b)
        ++ " " ++ showFields fs')
  | ["conv", "int", t] =>
    match parseScalar t with
    | some v => (st, showOuts [intOk v])
    | none => (st, "bad-op")
  | ["conv", "utf8", t] =>
    match parseScalar t with
    | some v => (st, showOuts [utf8Ok v])
    | none => (st, "bad-op")
  | ["conv", "latin1", t] =>
    match parseScalar t with
    | some v => (st, showOuts [latin1Ok v])
    | none => (st, "bad-op")
  | ["conv", "hdr", t] =>
    match parseContainer t with
    | some c => (st, showOuts (headerOutcomes c))
    | none => (st, "bad-op")
  | _ => (st, "bad-op")

end C47Driver

def main : IO Unit := runState C47Driver.step (⟨⟨[], none⟩, fun _ => .orig⟩ : C47Driver.DState)
