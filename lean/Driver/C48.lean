import MitmVerif.Model.C48
import MitmVerif.Model.C48_Url
import Driver.Proto
open MitmVerif Driver MitmVerif.C48

namespace C48Driver

def showExec : Option Sh.Exec → String
  | none => "unmodelled"
  | some e =>
    "ok:" ++ (match e.stdin with | none => "none" | some b => showBytes b) ++ ":" ++
      ",".intercalate (e.argv.map showBytes)

def parseBody (t : String) : Option Body :=
  if t = "none" then some .none
  else if t = "bin" then some .binary
  else if t.startsWith "t" then (hexOr (t.drop 1).toString).map Body.text
  else none

def parseHdr (t : String) : Option (Bytes × Bytes) :=
  match t.splitOn ":" with
  | [n, v] => match hexOr n, hexOr v with
    | some n, some v => some (n, v)
    | _, _ => none
  | _ => none

def showCmd (c : Option Bytes) : String :=
  match c with
  | none => "error"
  | some b => "cmd=" ++ showBytes b ++ ";sh=" ++ showExec (Sh.run false b) ++ ";bash=" ++ showExec (Sh.run true b)

def stepLine (line : String) : String :=
  match fields line with
  | ["run", h, c] =>
    match hexOr c with
    | some b => if h = "1" then showExec (Sh.run true b) else if h = "0" then showExec (Sh.run false b) else "bad-op"
    | none => "bad-op"
  | ["quote", a] =>
    match hexOr a with
    | some b => showBytes (Sh.quote b)
    | none => "bad-op"
  | "curl" :: pres :: addr :: m :: host :: ph :: port :: url :: body :: hdrs =>
    match hexOr m, hexOr host, hexOr ph, port.toNat?, hexOr url, parseBody body, hdrs.mapM parseHdr with
    | some m, some host, some ph, some port, some url, some body, some hs =>
      let addr' : Option (Option Bytes) := if addr = "none" then some none else (hexOr addr).map some
      match addr' with
      | some a =>
        if pres ≠ "0" ∧ pres ≠ "1" then "bad-op" else
        let r : Req := ⟨m, host, ph, port, url, hs, body⟩
        let cmd := curlCommand (pres = "1") a r
        let dec := match cmd with
          | some c => match Sh.run true c with
            | some e => match decodeCurl e.argv with
              | some d => ";method=" ++ showBytes d.effMethod ++ ";urls=" ++ ",".intercalate (d.urls.map showBytes)
              | none => ";undecodable"
            | none => ""
          | none => ""
        showCmd cmd ++ dec
      | none => "bad-op"
    | _, _, _, _, _, _, _ => "bad-op"
  | "httpie" :: m :: host :: url :: body :: hdrs =>
    match hexOr m, hexOr host, hexOr url, parseBody body, hdrs.mapM parseHdr with
    | some m, some host, some url, some body, some hs =>
      showCmd (httpieCommand ⟨m, host, [], 0, url, hs, body⟩)
    | _, _, _, _, _ => "bad-op"
  | "raw" :: m :: sch :: auth :: path :: ver :: body :: hdrs =>
    match hexOr m, hexOr sch, hexOr auth, hexOr path, hexOr ver, hexOr body, hdrs.mapM parseHdr with
    | some m, some sch, some auth, some path, some ver, some body, some hs =>
      let r : RawReq := ⟨m, requestTarget m sch auth path, ver, hs, body⟩
      match assembleRequest r with
      | some raw => "raw=" ++ showBytes raw ++ ";back=" ++ (if (if isChunked r.fields then parseRawChunked raw else parseRaw raw) = some r then "same" else "differs")
      | none => "error"
    | _, _, _, _, _, _, _ => "bad-op"
  | "sent" :: args =>
    -- curl's reading of each -H argument: the line it puts on the wire, or `none`
    match args.mapM hexOr with
    | some as => if as.isEmpty then "-" else ",".intercalate (as.map fun a => match sentHeader a with | some l => showBytes l | none => "none")
    | none => "bad-op"
  | ["url", sch, host, port, path] =>
    -- ASCII only: bytes are code points
    match hexOr sch, hexOr host, port.toNat?, hexOr path with
    | some sch, some host, some port, some path =>
      let toU : Bytes → UStr := fun b => b.map (·.toNat)
      let toB : UStr → Bytes := fun u => u.map UInt8.ofNat
      let u := C33.unparse (toU sch) (toU host) port (toU path)
      "url=" ++ showBytes (toB u) ++ ";dial=" ++
        (match dial u with
         | some (h, p) => showBytes (toB h) ++ ":" ++ (match p with | some d => showBytes (toB d) | none => "none")
         | none => "unreadable")
    | _, _, _, _ => "bad-op"
  | _ => "bad-op"

end C48Driver

def main : IO Unit := runPure C48Driver.stepLine
