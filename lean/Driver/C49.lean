import MitmVerif.Model.C49
import Driver.Proto
open MitmVerif Driver

def parseCps (s : String) : Option (List Nat) :=
  if s = "-" then some [] else (s.splitOn ",").mapM String.toNat?

def showCps (l : List Nat) : String := if l.isEmpty then "-" else showNatList l

def c49Step (line : String) : String :=
  match fields line with
  | ["esc", k, s] =>
    if k ≠ "0" ∧ k ≠ "1" then "bad-op" else
    match parseCps s with
    | some l => showCps (C49.escapeControl (k == "1") l)
    | none => "bad-op"
  | ["rawcount"] =>
    s!"raw={((Gen.C49.echoLines.flatMap (·.2)).filter C49.isRaw).length}"
  | ["table"] =>
    let ls := Gen.C49.echoLines
    let pieces := ls.flatMap (·.2)
    s!"lines={ls.length} pieces={pieces.length} paths={Gen.C49.echoPaths.length} raw={(pieces.filter C49.isRaw).length} ctrl={Gen.C49.ctrlTable.length} cc={Gen.C49.ccList.length} writes={Gen.C49.writeSites.length}"
  | _ => "bad-op"

def main : IO Unit := runPure c49Step
