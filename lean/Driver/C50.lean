import MitmVerif.Model.C50
import MitmVerif.Model.C50_Https
import MitmVerif.Model.C50_Codecs
import MitmVerif.Model.C50_V6
import Driver.Proto
open MitmVerif Driver

def parseCps50 (s : String) : Option (List Nat) :=
  if s = "-" then some [] else (s.splitOn ",").mapM String.toNat?

def showCps50 (l : List Nat) : String := if l.isEmpty then "-" else showNatList l

def parseDataJ (s : String) : Option C50.DataJ :=
  if s = "obj" then some (.obj [])
  else if s.startsWith "s:" then (parseCps50 (s.drop 2).toString).map .str
  else none

def parseBool (s : String) : Option Bool := if s = "1" then some true else if s = "0" then some false else none

/-! whole-message op: `DNSMessage.to_json` and `from_json(to_json(m))` with every text codec computed by the model
    (`realCodec6 asciiIdna`, HTTPS part absent: the harness sends no message with a type-65 record or an ACE label) -/

def noHttps : C50.Codec := ⟨fun _ _ => none, fun _ _ => none⟩
def msgCodec : C50.Codec := C50.Codecs.realCodec6 C50.Codecs.asciiIdna noHttps

def takeQs : Nat → List String → Option (List C50.Question × List String)
  | 0, rest => some ([], rest)
  | n + 1, nm :: t :: c :: rest =>
    match parseCps50 nm, t.toNat?, c.toNat?, takeQs n rest with
    | some name, some ty, some cl, some (qs, r) => some (⟨name, ty, cl⟩ :: qs, r)
    | _, _, _, _ => none
  | _ + 1, _ => none

def takeRRs : Nat → List String → Option (List C50.RR × List String)
  | 0, rest => some ([], rest)
  | n + 1, nm :: t :: c :: ttl :: d :: rest =>
    match parseCps50 nm, t.toNat?, c.toNat?, ttl.toNat?, hexOr d, takeRRs n rest with
    | some name, some ty, some cl, some tt, some data, some (rs, r) => some (⟨name, ty, cl, tt, data⟩ :: rs, r)
    | _, _, _, _, _, _ => none
  | _ + 1, _ => none

def showChars (l : List Char) : String := String.ofList l
def showB (b : Bool) : String := if b then "1" else "0"

def showDataJ : C50.DataJ → String
  | .str s => "s:" ++ showCps50 s
  | .obj _ => "obj"

def showRJ (r : C50.RJ) : String :=
  s!"{showCps50 r.name}/{showChars r.type}/{showChars r.cls}/{r.ttl}/{showDataJ r.data}"

def showRR (r : C50.RR) : String := s!"{showCps50 r.name}/{r.type}/{r.cls}/{r.ttl}/{showBytes r.data}"

def showSec {α} (f : α → String) (l : List α) : String := if l.isEmpty then "-" else ";".intercalate (l.map f)

def showMJ (j : C50.MJ) : String :=
  s!"id={j.id} q={showB j.query} op={showChars j.op} aa={showB j.aa} tc={showB j.tc} rd={showB j.rd} ra={showB j.ra} rc={showChars j.rcode} " ++
  s!"qs={showSec (fun (q : C50.QJ) => s!"{showCps50 q.name}/{showChars q.type}/{showChars q.cls}") j.qs} " ++
  s!"an={showSec showRJ j.an} ns={showSec showRJ j.ns} ar={showSec showRJ j.ar}"

def showMsg (m : C50.Msg) : String :=
  s!"id={m.id} q={showB m.query} op={m.op} aa={showB m.aa} tc={showB m.tc} rd={showB m.rd} ra={showB m.ra} z={m.z} rc={m.rcode} " ++
  s!"qs={showSec (fun (q : C50.Question) => s!"{showCps50 q.name}/{q.type}/{q.cls}") m.qs} " ++
  s!"an={showSec showRR m.an} ns={showSec showRR m.ns} ar={showSec showRR m.ar}"

def msgOp (toks : List String) : String :=
  match toks with
  | id :: q :: op :: aa :: tc :: rd :: ra :: z :: rc :: nq :: rest =>
    match id.toNat?, parseBool q, op.toNat?, parseBool aa, parseBool tc, parseBool rd, parseBool ra, z.toNat?, rc.toNat?, nq.toNat? with
    | some id, some q, some op, some aa, some tc, some rd, some ra, some z, some rc, some nq =>
      match takeQs nq rest with
      | some (qs, nan :: nns :: nar :: rest2) =>
        match nan.toNat?, nns.toNat?, nar.toNat? with
        | some a, some n, some r =>
          match takeRRs a rest2 with
          | some (an, rest3) =>
            match takeRRs n rest3 with
            | some (ns, rest4) =>
              match takeRRs r rest4 with
              | some (ar, []) =>
                let m : C50.Msg := ⟨id, q, op, aa, tc, rd, ra, z, rc, qs, an, ns, ar⟩
                let j := C50.toJson msgCodec m
                let back := match C50.fromJson msgCodec j with | some m' => showMsg m' | none => "raise"
                showMJ j ++ " | " ++ back
              | _ => "bad-op"
            | none => "bad-op"
          | none => "bad-op"
        | _, _, _ => "bad-op"
      | _ => "bad-op"
    | _, _, _, _, _, _, _, _, _, _ => "bad-op"
  | _ => "bad-op"

def c50Step (line : String) : String :=
  match fields line with
  | "msg" :: toks => msgOp toks
  | ["table"] =>
    let raw := (Gen.C50.prettifyReturns.filter (·.2 == "raw")).length
    s!"returns={Gen.C50.prettifyReturns.length} raw={raw} types={Gen.C50.typeNames.length} classes={Gen.C50.classNames.length} ops={Gen.C50.opNames.length} rcodes={Gen.C50.rcodeNames.length}"
  | ["sym", kind, n] =>
    match C50.symTable kind, n.toNat? with
    | some (tab, pre), some k =>
      let s := C50.toStr tab pre k
      let back := match C50.fromStr tab pre s with | some v => toString v | none => "exc"
      showCps50 (s.map Char.toNat) ++ " " ++ back
    | _, _ => "bad-op"
  | ["pm", missing, auto, raised, vt, rawt, name] =>
    match parseBool missing, parseBool auto, parseBool raised, parseCps50 vt, parseCps50 rawt, parseCps50 name with
    | some m, some a, some r, some v, some rw, some nm =>
      let view := if r then C50.ViewOut.raised [] else C50.ViewOut.text v
      let t := C50.prettifyText ⟨m, a, view, rw, nm⟩
      (if r && !a && !m then "head " else "full ") ++ showCps50 t
    | _, _, _, _, _, _ => "bad-op"
  | ["dj", t, data, dec, tn] =>
    match t.toNat?, hexOr data, parseCps50 tn with
    | some ty, some d, some tyn =>
      let decv : Option (Option C50.DataJ) := if dec = "none" then some none else (parseDataJ dec).map some
      match decv with
      | some dv =>
        match C50.dataJson (C50.isDecoded ty) tyn d dv with
        | .str s => "s:" ++ showCps50 s
        | .obj _ => "obj"
      | none => "bad-op"
    | _, _, _ => "bad-op"
  | ["dd", t, j, enc] =>
    match t.toNat?, parseDataJ j with
    | some ty, some jv =>
      let encv : Option (Option Bytes) :=
        if enc = "none" then some none
        else if enc.startsWith "b:" then (hexOr (enc.drop 2).toString).map some else none
      match encv with
      | some ev =>
        match C50.dataFromJson (C50.isDecoded ty) ev jv with
        | some b => "ok " ++ showBytes b
        | none => "raise"
      | none => "bad-op"
    | _, _ => "bad-op"
  | ["utf8", h] =>
    match hexOr h with
    | some b =>
      match C50.Codecs.utf8Dec b with
      | none => "none"
      | some s => showCps50 s ++ " " ++ (match C50.Codecs.utf8Enc s with | some e => showBytes e | none => "raise")
    | none => "bad-op"
  | ["utf8e", c] =>
    match parseCps50 c with
    | some s => (match C50.Codecs.utf8Enc s with | some e => showBytes e | none => "raise")
    | none => "bad-op"
  | ["ip4", h] =>
    match hexOr h with
    | some b =>
      match C50.Codecs.ip4Dec b with
      | none => "none"
      | some s => showCps50 s ++ " " ++ (match C50.Codecs.ip4Enc s with | some e => showBytes e | none => "raise")
    | none => "bad-op"
  | ["ip4e", c] =>
    match parseCps50 c with
    | some s => (match C50.Codecs.ip4Enc s with | some e => showBytes e | none => "raise")
    | none => "bad-op"
  | ["ip6", h] =>
    match hexOr h with
    | some b =>
      match C50.Codecs.ip6Dec b with
      | none => "none"
      | some s => showCps50 s ++ " " ++ (match C50.Codecs.ip6Enc s with | some e => showBytes e | none => "raise")
    | none => "bad-op"
  | ["ip6e", c] =>
    match parseCps50 c with
    | some s => (match C50.Codecs.ip6Enc s with | some e => showBytes e | none => "raise")
    | none => "bad-op"
  | ["name", h] =>
    match hexOr h with
    | some b =>
      match C50.Codecs.unpackPlain C50.Codecs.asciiIdna b with
      | none => "none"
      | some n => showCps50 (C50.Codecs.textOf n) ++ " " ++
          (match C25.packName C50.Codecs.asciiIdna n with | some e => showBytes e | none => "raise")
    | none => "bad-op"
  | ["https", h] =>
    match hexOr h with
    | some data =>
      if !(C50.Https.inAsciiDomain (data.drop 2)) then "skip" else
      match C50.Https.unpack C50.Https.asciiCodec data with
      | none => "err"
      | some r =>
        let j := C50.Https.toJson r
        let ps := ";".intercalate (j.params.map (fun kv =>
          (match kv.1 with | .name s => s | .num n => toString n) ++ ":" ++ showBytes kv.2))
        let back := match (C50.Https.fromJson j).bind (C50.Https.pack C50.Https.asciiCodec) with
          | some b => showBytes b | none => "raise"
        s!"pri={j.priority} name={showCps50 j.target} params={if ps.isEmpty then "-" else ps} back={back}"
    | none => "bad-op"
  | _ => "bad-op"

def main : IO Unit := runPure c50Step
