import MitmVerif.Model.C51
import Driver.Proto
open MitmVerif Driver

def c51Step (line : String) : String :=
  match fields line with
  | ["enc", k, q, h] =>
    match hexOr h with
    | some b => showBytes (C51.enc (k == "1") (q == "1") b)
    | none => "bad-op"
  | ["dec", h] =>
    match hexOr h with
    | some b => match C51.dec b with
      | some r => "ok " ++ showBytes r
      | none => "err"
    | none => "bad-op"
  | _ => "bad-op"

def main : IO Unit := runPure c51Step
