import MitmVerif.Model.C52
import Driver.Proto
open MitmVerif Driver
open MitmVerif.C52

namespace C52Driver

abbrev St := State Nat Nat Nat

abbrev KSt := State Nat Nat MKey

structure DSt where
  table : Array (Array Nat)
  s : St
  kopts : Array HashOpts := #[]
  kreqs : Array ReqF := #[]
  ks : KSt := init 0

def hashOf (t : Array (Array Nat)) (o : Nat) (r : Nat) : Nat := (t.getD o #[]).getD r 0

def natList? (s : String) : Option (List Nat) :=
  if s = "-" then some [] else (s.splitOn ",").mapM String.toNat?

def table? (s : String) : Option (Array (Array Nat)) :=
  ((s.splitOn ";").mapM natList?).map (fun rows => (rows.map List.toArray).toArray)

def bit? (s : String) : Option Bool := if s = "1" then some true else if s = "0" then some false else none

def rec? (s : String) : Option (Rec Nat) :=
  match s.splitOn ":" with
  | [i, r, p, h] => do
    let i ← i.toNat?; let r ← r.toNat?; let p ← bit? p; let h ← bit? h
    pure { id := i, req := r, hasResp := p, isHttp := h, resp := i }
  | _ => none

def recs? (s : String) : Option (List (Rec Nat)) :=
  if s = "-" then some [] else (s.splitOn ",").mapM rec?

def extra? (s : String) : Option Extra :=
  if s = "forward" then some .forward else if s = "kill" then some .kill else s.toNat?.map .status

def ids (l : List (Rec Nat)) : String := if l.isEmpty then "-" else ",".intercalate (l.map (fun r => toString r.id))

def dump {K : Type} (s : State Nat Nat K) : String :=
  let fm := if s.flowmap.isEmpty then "-" else ";".intercalate (s.flowmap.map (fun e => ids e.2))
  s!"cnt={count s} fm={fm} rec={ids s.recorded}"

def showOutcome : Outcome Nat → String
  | .served r => s!"served:{r.id}"
  | .killed => "killed"
  | .status n => s!"status:{n}"
  | .forwarded => "forwarded"
  | .crash => "crash"

/-! key op -/
def decB (s : String) : Option Bytes := if s = "_" then some [] else Hex.decodeChars s.toList

def bytesList? (s : String) : Option (List Bytes) :=
  if s = "-" then some [] else (s.splitOn ",").mapM decB

def pair? (s : String) : Option (Bytes × Bytes) :=
  match s.splitOn ":" with
  | [a, b] => do let a ← decB a; let b ← decB b; pure (a, b)
  | _ => none

def pairs? (s : String) : Option (List (Bytes × Bytes)) :=
  if s = "-" then some [] else (s.splitOn ",").mapM pair?

def encB (b : Bytes) : String := if b.isEmpty then "_" else Hex.encode b
def encPairs (l : List (Bytes × Bytes)) : String :=
  if l.isEmpty then "-" else ",".intercalate (l.map (fun p => encB p.1 ++ ":" ++ encB p.2))
def encOptB : Option Bytes → String
  | none => "N"
  | some b => encB b

def renderContent : Option Content → String
  | none => "x"
  | some (.body b) => "b" ++ encOptB b
  | some (.form l) => "f" ++ (if l.isEmpty then "-" else ",".intercalate (l.map (fun p => (if p.1 then "m" else "u") ++ encB p.2.1 ++ ":" ++ encB p.2.2)))

def renderKey (k : MKey) : String :=
  "|".intercalate [encB k.scheme, encB k.method, encB k.path, renderContent k.content,
    (match k.host with | none => "x" | some h => "h" ++ encB h),
    (match k.port with | none => "x" | some p => toString p),
    encPairs k.query,
    (match k.headers with
     | none => "x"
     | some l => "H" ++ ",".intercalate (l.map (fun p => encB p.1 ++ ":" ++ encOptB p.2)))]

def opts? (bits ip ipp uh : String) : Option HashOpts := do
  let (ic, ih, ipo) ← match bits.toList with
    | [a, b, c] => do
      let a ← bit? (String.singleton a); let b ← bit? (String.singleton b); let c ← bit? (String.singleton c)
      pure (a, b, c)
    | _ => none
  pure { ignoreContent := ic, ignoreHost := ih, ignorePort := ipo,
         ignoreParams := ← bytesList? ip, ignorePayloadParams := ← bytesList? ipp, useHeaders := ← bytesList? uh }

def reqf? (fs : List String) : Option ReqF :=
  match fs with
  | [scheme, method, path, query, host, port, body, mp, ue, hdrs] => do
    let body ← if body = "N" then some none else (decB body).map some
    let bd ← if mp = "N" then some none else (decB mp).map some
    pure { scheme := ← decB scheme, method := ← decB method, path := ← decB path,
           query := ← pairs? query, host := ← decB host, port := ← port.toNat?,
           body := body, boundary := bd, urlencoded := ← pairs? ue, headers := ← pairs? hdrs }
  | _ => none

def keyOp (fs : List String) : Option String :=
  match fs with
  | bits :: ip :: ipp :: uh :: rest => do
    let o ← opts? bits ip ipp uh
    let r ← reqf? rest
    pure (renderKey (keyOf o r))
  | _ => none

def emptyOpts : HashOpts := ⟨false, false, false, [], [], []⟩
def emptyReq : ReqF := ⟨[], [], [], [], [], 0, none, none, [], []⟩

/-- the key function of the k-mode: `keyOf` on the option sets and request shapes defined so far — the model
    computes the keys itself from the request parts instead of being told the equality classes of `_hash` -/
def hashK (d : DSt) (o : Nat) (r : Nat) : MKey := keyOf (d.kopts.getD o emptyOpts) (d.kreqs.getD r emptyReq)

def stepLine (d : DSt) (line : String) : DSt × String :=
  let h := hashOf d.table
  match fields line with
  | ["reset", t, o] =>
    match table? t, o.toNat? with
    | some t, some o => ({ table := t, s := init o }, "ok")
    | _, _ => (d, "bad-op")
  | ["load", rs] =>
    match recs? rs with
    | some rs => let s := loadFlows h d.s rs; ({ d with s := s }, dump s)
    | none => (d, "bad-op")
  | ["add", rs] =>
    match recs? rs with
    | some rs => let s := addFlows h d.s rs; ({ d with s := s }, dump s)
    | none => (d, "bad-op")
  | ["clear"] => let s := clear d.s; ({ d with s := s }, dump s)
  | ["edit"] => (d, dump (step (hashOf d.table) d.s (.edit 0 0)).1)
  | ["kedit"] => (d, dump (step (hashK d) d.ks (.edit 0 0)).1)
  | ["conf", o] =>
    match o.toNat? with
    | some o => let s := configure h d.s o; ({ d with s := s }, dump s)
    | none => (d, "bad-op")
  | ["req", q, reuse, nopop, kill, extra] =>
    match q.toNat?, bit? reuse, bit? nopop, bit? kill, extra? extra with
    | some q, some reuse, some nopop, some kill, some extra =>
      let (s, o) := request h d.s q { reuse := reuse, nopop := nopop, killExtra := kill, extra := extra }
      ({ d with s := s }, showOutcome o ++ " " ++ dump s)
    | _, _, _, _, _ => (d, "bad-op")
  | ["kreset"] => ({ d with kopts := #[], kreqs := #[], ks := init 0 }, "ok")
  | ["kopt", bits, ip, ipp, uh] =>
    match opts? bits ip ipp uh with
    | some o => ({ d with kopts := d.kopts.push o }, "ok")
    | none => (d, "bad-op")
  | "kdef" :: rest =>
    match reqf? rest with
    | some r => ({ d with kreqs := d.kreqs.push r }, "ok")
    | none => (d, "bad-op")
  | ["kstart", o] =>
    match o.toNat? with
    | some o => ({ d with ks := init o }, "ok")
    | none => (d, "bad-op")
  | ["kload", rs] =>
    match recs? rs with
    | some rs => let s := loadFlows (hashK d) d.ks rs; ({ d with ks := s }, dump s)
    | none => (d, "bad-op")
  | ["kadd", rs] =>
    match recs? rs with
    | some rs => let s := addFlows (hashK d) d.ks rs; ({ d with ks := s }, dump s)
    | none => (d, "bad-op")
  | ["kclear"] => let s := clear d.ks; ({ d with ks := s }, dump s)
  | ["kconf", o] =>
    match o.toNat? with
    | some o => let s := configure (hashK d) d.ks o; ({ d with ks := s }, dump s)
    | none => (d, "bad-op")
  | ["kreq", q, reuse, nopop, kill, extra] =>
    match q.toNat?, bit? reuse, bit? nopop, bit? kill, extra? extra with
    | some q, some reuse, some nopop, some kill, some extra =>
      let (s, o) := request (hashK d) d.ks q { reuse := reuse, nopop := nopop, killExtra := kill, extra := extra }
      ({ d with ks := s }, showOutcome o ++ " " ++ dump s)
    | _, _, _, _, _ => (d, "bad-op")
  | "key" :: rest =>
    match keyOp rest with
    | some r => (d, r)
    | none => (d, "bad-op")
  | _ => (d, "bad-op")

end C52Driver

def main : IO Unit := runState C52Driver.stepLine { table := #[], s := init 0 }
