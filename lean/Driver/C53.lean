import MitmVerif.Model.C53
import Driver.Proto
open MitmVerif Driver MitmVerif.C53

def bit (c : Char) : Bool := c == '1'

/-- six characters: live intercepted isHttp hasReq hasContent ws -/
def parseAttr (s : String) : Option Attr :=
  match s.toList with
  | [a, b, c, d, e, f] => some { live := bit a, intercepted := bit b, isHttp := bit c, hasReq := bit d,
                                 hasContent := bit e, ws := bit f }
  | _ => none

/-- `r.e.m.v` -/
def parseCur (s : String) : Option Cur :=
  match s.splitOn "." with
  | [r, e, m, v] => v.toNat?.map fun v => { resp := r == "1", err := e == "1", marked := m == "1", ver := v }
  | _ => none

/-- `cur/backup` with backup `-` or a cur -/
def parseF (s : String) : Option FState :=
  match s.splitOn "/" with
  | [c, b] => match parseCur c with
    | some c => if b = "-" then some { cur := c, backup := none } else (parseCur b).map fun b => { cur := c, backup := some b }
    | none => none
  | _ => none

def parseNats (s : String) : Option (List Nat) :=
  if s = "-" then some [] else (s.splitOn ",").mapM (·.toNat?)

def b01 (b : Bool) : String := if b then "1" else "0"

def render (s : St) : String :=
  let q := if s.queue.isEmpty then "-" else ",".intercalate (s.queue.map fun e => toString e.idx)
  let i := match s.inflight with | some (e, _) => toString e.idx | none => "-1"
  let fl := if s.fs.isEmpty then "-" else
    ";".intercalate (s.fs.map fun f => s!"{b01 (f.cur.resp && !f.cur.err)}.{b01 f.cur.err}.{b01 f.cur.marked}.{b01 f.backup.isSome}.{f.cur.ver}")
  s!"{q} {i} {fl}|v{variant s}|o{b01 s.seq}|b{s.bg.length}"

def c53Step (s : St) (line : String) : St × String :=
  match fields line with
  | ["reset", attrs, fss] =>
    match (attrs.splitOn ",").mapM parseAttr, (fss.splitOn ",").mapM parseF with
    | some a, some f => (init a f, "ok")
    | _, _ => (s, "bad-op")
  | ["start", idxs] => match parseNats idxs with
    | some l => match step s (.start l) with
      | some s' => (s', "ok") | none => (s, "stuck")
    | none => (s, "bad-op")
  | ["stop"] => match step s .stop with | some s' => (s', "ok") | none => (s, "stuck")
  | ["take"] => match step s .take with | some s' => (s', "ok") | none => (s, "stuck")
  | ["send"] => match step s .send with | some s' => (s', "ok") | none => (s, "stuck")
  | ["finish", r] => match step s (.finish (r == "1")) with | some s' => (s', "ok") | none => (s, "stuck")
  | ["edit", i] => match i.toNat? with
    | some i => match step s (.edit i) with | some s' => (s', "ok") | none => (s, "stuck")
    | none => (s, "bad-op")
  | ["setopt", b] => match step s (.setopt (b == "1")) with | some s' => (s', "ok") | none => (s, "stuck")
  | ["bsend", t] => match t.toNat? with
    | some t => match step s (.bsend t) with | some s' => (s', "ok") | none => (s, "stuck")
    | none => (s, "bad-op")
  | ["bfinish", t, r] => match t.toNat? with
    | some t => match step s (.bfinish t (r == "1")) with | some s' => (s', "ok") | none => (s, "stuck")
    | none => (s, "bad-op")
  | ["q"] => (s, render s)
  | ["check", i] => match i.toNat? with
    | some i => (s, match check s i with | none => "none" | some n => toString n)
    | none => (s, "bad-op")
  | _ => (s, "bad-op")

def main : IO Unit := runState c53Step (init [] [])
