import MitmVerif.Model.C54
import MitmVerif.Model.C54_Header
import Driver.Proto
open MitmVerif Driver MitmVerif.C54

namespace C54D

def splitList (s : String) (sep : String) : List String := if s = "_" then [] else s.splitOn sep

def allSome {α : Type} : List (Option α) → Option (List α)
  | [] => some []
  | none :: _ => none
  | some a :: rest => (allSome rest).map (a :: ·)

def parseAttr (s : String) : Option (Bytes × Option Bytes) :=
  match s.splitOn "=" with
  | [k] => (hexOr k).map (fun a => (a, none))            -- attribute without a value
  | [k, v] => match hexOr k, hexOr v with
    | some a, some b => some (a, some b)
    | _, _ => none
  | _ => none

def parseTs (s : String) : Option (Option Int) := if s = "n" then some none else s.toInt?.map some

/-- `name:value:dateTs:attrs` — the expired flag is computed by the model from attrs, dateTs and the clock -/
def parseCookie (s : String) : Option RawCookie :=
  match s.splitOn ":" with
  | [n, v, d, as] =>
    match hexOr n, hexOr v, parseTs d, allSome ((splitList as ";").map parseAttr) with
    | some nn, some vv, some dd, some aa => some { name := nn, value := some vv, attrs := aa, dateTs := dd }
    | _, _, _, _ => none
  | _ => none

def showList (l : List String) (sep : String) : String := if l.isEmpty then "_" else sep.intercalate l
def showVal (v : Val) : String := match v with | none => "none" | some b => showBytes b
def showDict (d : Dict) : String := showList (d.map (fun p => showBytes p.1 ++ ":" ++ showVal p.2)) ";"
def showEntry (p : JKey × Dict) : String :=
  showBytes p.1.domain ++ ":" ++ toString p.1.port ++ ":" ++ showBytes p.1.path ++ "=" ++ showDict p.2
def b01 (b : Bool) : String := if b then "1" else "0"

def stepLine (jar : Jar) (line : String) : Jar × String :=
  match fields line with
  | ["reset"] => ([], "ok")
  | ["resp", t, h, p, cs] =>
    match t.toInt?, hexOr h, p.toNat?, allSome ((splitList cs ",").map parseCookie) with
    | some now, some host, some port, some cookies =>
      let parsed := cookies.map (RawCookie.toCookie now)
      let j := response jar host port parsed
      -- reply: jar size and the model's prediction of is_expired for every cookie of the response
      (j, "ok " ++ toString j.length ++ " " ++ showList (parsed.map (fun c => b01 c.expired)) ",")
    | _, _, _, _ => (jar, "bad-op")
  | ["hresp", t, h, p, hs, tbl] =>
    -- the response as header TEXT: the model tokenizes it itself; tbl = email.utils' verdict per Expires value
    let parseEntry (s : String) : Option (Bytes × Int) :=
      match s.splitOn "=" with
      | [k, v] => match hexOr k, v.toInt? with
        | some a, some b => some (a, b)
        | _, _ => none
      | _ => none
    match t.toInt?, hexOr h, p.toNat?, allSome ((splitList hs ",").map hexOr), allSome ((splitList tbl ",").map parseEntry) with
    | some now, some host, some port, some headers, some table =>
      let dateOf (e : Bytes) : Option Int := (table.find? (fun p => p.1 == e)).map (·.2)
      let parsed := (headers.flatMap (fun hd => cookiesOfHeader dateOf (bytesToStr hd))).map (RawCookie.toCookie now)
      let j := response jar host port parsed
      (j, "ok " ++ toString j.length ++ " " ++ showList (parsed.map (fun c => b01 c.expired)) ",")
    | _, _, _, _, _ => (jar, "bad-op")
  | ["int", h] =>
    match hexOr h with
    | some b => (jar, match pyInt b with | some i => toString i | none => "err")
    | none => (jar, "bad-op")
  | ["req", f, h, p, path] =>
    match hexOr h, p.toNat?, hexOr path with
    | some host, some port, some pth =>
      if f = "0" ∨ f = "1" then
        let l := attached jar (f == "1") host port pth
        -- the Cookie header text with `_format_pairs` quoting (C34's transcription)
        (jar, if l.isEmpty then "none" else showBytes (strToBytes (cookieHeaderText l)))
      else (jar, "bad-op")
    | _, _, _ => (jar, "bad-op")
  | ["dump"] => (jar, showList (jar.map showEntry) " ")
  | ["dm", a, b] =>
    match hexOr a, hexOr b with
    | some x, some y => (jar, b01 (implDomainMatch x y) ++ " " ++ b01 (domainMatch6265 stdIP x y))
    | _, _ => (jar, "bad-op")
  | ["pm", r, c] =>
    match hexOr r, hexOr c with
    | some x, some y => (jar, b01 (implPathMatch x y) ++ " " ++ b01 (pathMatch6265 (uriPath x) y))
    | _, _ => (jar, "bad-op")
  | _ => (jar, "bad-op")

end C54D

def main : IO Unit := runState C54D.stepLine ([] : Jar)
