/-
  Line protocol shared by all drivers: one request line in, exactly one reply line out.
  Fields are separated by single spaces; byte strings travel as lower-case hex, "-" = empty.
-/
import MitmVerif.Basic.Bytes
namespace Driver
open MitmVerif

def fields (line : String) : List String :=
  (line.trimAscii.toString.splitOn " ").filter (· ≠ "")

partial def loopPure (h : IO.FS.Stream) (out : IO.FS.Stream) (f : String → String) : IO Unit := do
  let line ← h.getLine
  if line.isEmpty then return ()
  out.putStrLn (f line)
  loopPure h out f

partial def loopState {σ : Type} (h : IO.FS.Stream) (out : IO.FS.Stream)
    (f : σ → String → σ × String) (s : σ) : IO Unit := do
  let line ← h.getLine
  if line.isEmpty then return ()
  let (s', o) := f s line
  out.putStrLn o
  loopState h out f s'

def runPure (f : String → String) : IO Unit := do
  let i ← IO.getStdin; let o ← IO.getStdout
  loopPure i o f
  o.flush

def runState {σ : Type} (f : σ → String → σ × String) (s : σ) : IO Unit := do
  let i ← IO.getStdin; let o ← IO.getStdout
  loopState i o f s
  o.flush

def hexOr (s : String) : Option Bytes := Hex.decode s
def showBytes (b : Bytes) : String := Hex.encodeField b
def showNatList (l : List Nat) : String := ",".intercalate (l.map toString)
def showOpt (o : Option String) : String := match o with | some s => s | none => "none"

end Driver
