import MitmVerif.Model.C36_Conv
import Driver.Proto
open MitmVerif Driver MitmVerif.C36

/-! wire form of a `Value`: pre-order tokens joined by `,` :
    `n` `T` `F` `i<int>` `f<hex>` `b<hex>` `s<hex>` `l<count>` items… `d<count>` key value … -/
namespace C36Wire

mutual
def showV : Value → List String
  | .null => ["n"]
  | .bool b => [if b then "T" else "F"]
  | .int i => ["i" ++ toString i]
  | .float t => ["f" ++ Hex.encode t]
  | .bytes b => ["b" ++ Hex.encode b]
  | .str b => ["s" ++ Hex.encode b]
  | .list l => ("l" ++ toString l.length) :: showL l
  | .dict kvs => ("d" ++ toString kvs.length) :: showP kvs
def showL : List Value → List String
  | [] => []
  | v :: t => showV v ++ showL t
def showP : List (Value × Value) → List String
  | [] => []
  | (k, v) :: t => showV k ++ (showV v ++ showP t)
end

def render (v : Value) : String := ",".intercalate (showV v)

def hexBody (cs : List Char) : Option Bytes := Hex.decodeChars cs

mutual
partial def readV : List String → Option (Value × List String)
  | [] => none
  | tok :: rest =>
    match tok.toList with
    | ['n'] => some (.null, rest)
    | ['T'] => some (.bool true, rest)
    | ['F'] => some (.bool false, rest)
    | 'i' :: cs => (String.ofList cs).toInt?.map (fun i => (.int i, rest))
    | 'f' :: cs => (hexBody cs).map (fun b => (.float b, rest))
    | 'b' :: cs => (hexBody cs).map (fun b => (.bytes b, rest))
    | 's' :: cs => (hexBody cs).map (fun b => (.str b, rest))
    | 'l' :: cs =>
      match (String.ofList cs).toNat? with
      | none => none
      | some n => (readN n rest).map (fun p => (.list p.1, p.2))
    | 'd' :: cs =>
      match (String.ofList cs).toNat? with
      | none => none
      | some n => (readP n rest).map (fun p => (.dict p.1, p.2))
    | _ => none
partial def readN : Nat → List String → Option (List Value × List String)
  | 0, ts => some ([], ts)
  | n + 1, ts =>
    match readV ts with
    | none => none
    | some (v, ts1) => (readN n ts1).map (fun p => (v :: p.1, p.2))
partial def readP : Nat → List String → Option (List (Value × Value) × List String)
  | 0, ts => some ([], ts)
  | n + 1, ts =>
    match readV ts with
    | none => none
    | some (k, ts1) =>
      match readV ts1 with
      | none => none
      | some (v, ts2) => (readP n ts2).map (fun p => ((k, v) :: p.1, p.2))
end

def parse (s : String) : Option Value :=
  match readV (s.splitOn ",") with
  | some (v, []) => some v
  | _ => none

def showErr : Err → String
  | .emptyFile => "empty" | .value => "ValueError" | .type => "TypeError" | .index => "IndexError"
  | .recursion => "RecursionError" | .memory => "MemoryError" | .fuel => "fuel"

def showRes : Except Err (Value × Bytes) → String
  | .ok (v, r) => "ok " ++ render v ++ " " ++ showBytes r
  | .error e => "err " ++ showErr e

def showEnd : End → String
  | .clean => "clean" | .flowRead => "flowRead" | .escapes => "escapes"

/-- observed outcome of `Flow.from_state(compat.migrate_flow(·))` per dict record, by stage:
    o = ok; V / X = ValueError / other Exception raised before any field is used (version check of the first
    migrate_flow iteration, `Flow.__types[state["type"]]`); w / y = the same classes after a converter ran;
    v / x = the same classes from the flow class' set_state; n = non-Exception -/
def outcome (cs : List Char) (i : Nat) (_ : Value) : Except StateExc Nat :=
  match cs[i]? with
  | some 'o' => .ok i
  | some 'v' => .error .valueError
  | some 'V' => .error .valueError
  | some 'w' => .error .valueError
  | some 'x' => .error .exception
  | some 'X' => .error .exception
  | some 'y' => .error .exception
  | _ => .error .nonException

/-- what the model says about record `i`: its own prediction where the gate decides, the observed class where the
    remaining parameter decides ('!' if the observation contradicts the gate's pass / defer) -/
def gateChar (cs : List Char) (i : Nat) (v : Value) : Char :=
  let c := (cs[i]?).getD '?'
  match gate v with
  | .rejectV => 'V'
  | .rejectX => 'X'
  | .pass ty =>
    if c = 'V' || c = 'X' || c = 'w' || c = 'y' then '!'
    else match v with
      | .dict kvs => if shape ty kvs = .bad && c = 'o' then '#' else c      -- '#': accepted although the shape forbids it
      | _ => c
  | .defer =>
    let dflt : Char := if c = 'V' || c = 'X' || c = 'v' || c = 'x' then '!' else c
    match v with
    | .dict kvs =>
      match convert kvs with
      | .refusedV => 'w'
      | .refusedX => 'y'
      | .current ty d => if shape ty d = .bad && c = 'o' then '#' else dflt
      | .notModelled => dflt
    | _ => dflt
  | .deferShape => c

/-- the classes of the dict records the reader gets to see, in order (stops like the reader stops) -/
partial def gateTrace (m d : Nat) (cs : List Char) (i : Nat) (s : Bytes) : List Char :=
  match load m d s with
  | .error _ => []
  | .ok (v, rest) =>
    if !isDict v then [] else
    let c := gateChar cs i v
    if c = 'o' then c :: gateTrace m d cs (i + 1) rest else [c]

end C36Wire
