/-
  Basic byte-string vocabulary shared by all models.  Core Lean only (no Mathlib) so that every
  model can be compiled into a native driver.
-/
namespace MitmVerif

abbrev Byte  := UInt8
abbrev Bytes := List UInt8

namespace Hex

def digit (n : Nat) : Char :=
  if n < 10 then Char.ofNat (48 + n) else Char.ofNat (87 + n)   -- '0'.. / 'a'..

def value? (c : Char) : Option Nat :=
  let n := c.toNat
  if 48 ≤ n ∧ n ≤ 57 then some (n - 48)
  else if 97 ≤ n ∧ n ≤ 102 then some (n - 87)
  else if 65 ≤ n ∧ n ≤ 70 then some (n - 55)
  else none

def encodeByte (b : Byte) : List Char := [digit (b.toNat / 16), digit (b.toNat % 16)]

def encode (bs : Bytes) : String := String.ofList (bs.flatMap encodeByte)

def decodeChars : List Char → Option Bytes
  | [] => some []
  | [_] => none
  | a :: b :: rest =>
    match value? a, value? b, decodeChars rest with
    | some x, some y, some r => some (UInt8.ofNat (x * 16 + y) :: r)
    | _, _, _ => none

/-- `"-"` denotes the empty byte string on the wire (so that fields are never empty). -/
def decode (s : String) : Option Bytes :=
  if s = "-" then some [] else decodeChars s.toList

def encodeField (bs : Bytes) : String := if bs.isEmpty then "-" else encode bs

end Hex

def Bytes.ofString (s : String) : Bytes := s.toUTF8.toList
def strBytes (s : String) : Bytes := s.toUTF8.toList

/-- ASCII lower-casing of a single byte (bytes.lower() in Python). -/
def asciiLowerB (b : Byte) : Byte := if 65 ≤ b.toNat ∧ b.toNat ≤ 90 then b + 32 else b
def asciiUpperB (b : Byte) : Byte := if 97 ≤ b.toNat ∧ b.toNat ≤ 122 then b - 32 else b
def asciiLower (bs : Bytes) : Bytes := bs.map asciiLowerB
def asciiUpper (bs : Bytes) : Bytes := bs.map asciiUpperB

end MitmVerif
