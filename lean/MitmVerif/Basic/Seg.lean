/-
  Segmentation algebra: an incremental (buffering) consumer whose outputs do not depend on how
  its input is split into segments.  Instances only have to prove `feed_append`.
-/
namespace MitmVerif

/-- A buffered consumer: state `σ`, output items `ο`. -/
structure Incremental (σ ο : Type) where
  feed : σ → List UInt8 → σ × List ο

namespace Incremental
variable {σ ο : Type} (I : Incremental σ ο)

/-- Feed a list of segments one after the other, concatenating outputs. -/
def feedAll (s : σ) : List (List UInt8) → σ × List ο
  | [] => (s, [])
  | seg :: rest =>
    let (s1, o1) := I.feed s seg
    let (s2, o2) := feedAll s1 rest
    (s2, o1 ++ o2)

/-- The law every instance proves: feeding `a ++ b` equals feeding `a` then `b`. -/
def Lawful : Prop :=
  (∀ s, I.feed s [] = (s, [])) ∧
  (∀ s a b, I.feed s (a ++ b) =
      ((I.feed (I.feed s a).1 b).1, (I.feed s a).2 ++ (I.feed (I.feed s a).1 b).2))

theorem seg_independent (h : I.Lawful) (s : σ) (segs : List (List UInt8)) :
    I.feedAll s segs = I.feed s segs.flatten := by
  induction segs generalizing s with
  | nil => simp [feedAll, h.1]
  | cons seg rest ih =>
    simp only [feedAll, List.flatten_cons]
    rw [ih, h.2]

/-- Any two segmentations of the same stream give the same state and outputs. -/
theorem seg_independent' (h : I.Lawful) (s : σ) (a b : List (List UInt8))
    (hab : a.flatten = b.flatten) : I.feedAll s a = I.feedAll s b := by
  rw [seg_independent I h, seg_independent I h, hab]

end Incremental
end MitmVerif
