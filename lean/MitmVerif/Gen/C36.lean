-- GENERATED on every run by harness/c36.py from the live Flow.__types registry of /repo — do not edit
-- dns dummy http tcp udp
import MitmVerif.Basic.Bytes
namespace MitmVerif.Gen.C36

def flowTypes : List MitmVerif.Bytes := [[0x64, 0x6e, 0x73], [0x64, 0x75, 0x6d, 0x6d, 0x79], [0x68, 0x74, 0x74, 0x70], [0x74, 0x63, 0x70], [0x75, 0x64, 0x70]]

end MitmVerif.Gen.C36
