-- GENERATED on every run by harness/c38.py from /repo/mitmproxy/io/compat.py and version.py — do not edit
import MitmVerif.Model.C38
namespace MitmVerif.Gen.C38
open MitmVerif.C38

def current : Ver := (.int 21)

def graph : Graph := [
  ((.tup 0 11), (.tup 0 12)),
  ((.tup 0 12), (.tup 0 13)),
  ((.tup 0 13), (.tup 0 14)),
  ((.tup 0 14), (.tup 0 15)),
  ((.tup 0 15), (.tup 0 16)),
  ((.tup 0 16), (.tup 0 17)),
  ((.tup 0 17), (.tup 0 18)),
  ((.tup 0 18), (.tup 0 19)),
  ((.tup 0 19), (.tup 1 0)),
  ((.tup 1 0), (.tup 2 0)),
  ((.tup 2 0), (.tup 3 0)),
  ((.tup 3 0), (.int 4)),
  ((.int 4), (.int 5)),
  ((.int 5), (.int 6)),
  ((.int 6), (.int 7)),
  ((.int 7), (.int 8)),
  ((.int 8), (.int 9)),
  ((.int 9), (.int 10)),
  ((.int 10), (.int 11)),
  ((.int 11), (.int 12)),
  ((.int 12), (.int 13)),
  ((.int 13), (.int 14)),
  ((.int 14), (.int 15)),
  ((.int 15), (.int 16)),
  ((.int 16), (.int 17)),
  ((.int 17), (.int 18)),
  ((.int 18), (.int 19)),
  ((.int 19), (.int 20)),
  ((.int 20), (.int 21))]

end MitmVerif.Gen.C38
