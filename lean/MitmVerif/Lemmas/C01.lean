/- helper lemmas for Props/C01 (core Lean only) -/
import MitmVerif.Model.C01
namespace MitmVerif.C01
open MitmVerif

/-! ### splitOn / joinWith -/

theorem splitOn_ne_nil (sep : UInt8) (b : Bytes) : splitOn sep b ≠ [] := by
  induction b with
  | nil => simp [splitOn]
  | cons c rest ih =>
    simp only [splitOn]
    split
    · simp
    · split <;> simp

theorem splitOn_no_sep {sep : UInt8} {b : Bytes} (h : sep ∉ b) : splitOn sep b = [b] := by
  induction b with
  | nil => simp [splitOn]
  | cons c rest ih =>
    have hc : c ≠ sep := fun e => h (by simp [e])
    have hr : sep ∉ rest := fun e => h (by simp [e])
    simp [splitOn, hc, ih hr]

theorem splitOn_append_sep {sep : UInt8} {q : Bytes} (h : sep ∉ q) (r : Bytes) :
    splitOn sep (q ++ sep :: r) = q :: splitOn sep r := by
  induction q with
  | nil => simp [splitOn]
  | cons c rest ih =>
    have hc : c ≠ sep := fun e => h (by simp [e])
    have hr : sep ∉ rest := fun e => h (by simp [e])
    simp [splitOn, hc, ih hr]

theorem splitOn_pieces_no_sep (sep : UInt8) (b : Bytes) : ∀ p ∈ splitOn sep b, sep ∉ p := by
  induction b with
  | nil => simp [splitOn]
  | cons c rest ih =>
    simp only [splitOn]
    split
    · intro p hp
      simp at hp
      rcases hp with rfl | hp
      · simp
      · exact ih p hp
    · rename_i hc
      split
      · intro p hp; simp at hp; subst hp; simp; exact fun e => hc e.symm
      · rename_i p0 ps heq
        intro p hp
        simp at hp
        rcases hp with rfl | hp
        · have := ih p0 (by simp [heq])
          simp; exact ⟨fun e => hc e.symm, this⟩
        · exact ih p (by simp [heq, hp])

theorem splitOn_joinWith {sep : UInt8} : ∀ (qs : List Bytes), qs ≠ [] → (∀ q ∈ qs, sep ∉ q) →
    splitOn sep (joinWith [sep] qs) = qs
  | [], h, _ => absurd rfl h
  | [x], _, h => by simp [joinWith, splitOn_no_sep (h x (by simp))]
  | x :: y :: rest, _, h => by
    have hx := h x (by simp)
    have ih := splitOn_joinWith (sep := sep) (y :: rest) (by simp) (fun q hq => h q (by simp [hq]))
    simp only [joinWith, List.append_assoc, List.singleton_append]
    rw [splitOn_append_sep hx, ih]

/-! ### stripping -/

theorem lstripBy_not_mem {f : UInt8 → Bool} {x : UInt8} {b : Bytes} (h : x ∉ b) : x ∉ lstripBy f b := by
  induction b with
  | nil => simp [lstripBy]
  | cons c rest ih =>
    simp only [lstripBy]
    split
    · exact ih (fun e => h (by simp [e]))
    · exact h

theorem rstripBy_not_mem {f : UInt8 → Bool} {x : UInt8} {b : Bytes} (h : x ∉ b) : x ∉ rstripBy f b := by
  induction b with
  | nil => simp [rstripBy]
  | cons c rest ih =>
    have hc : x ≠ c := fun e => h (by simp [e])
    have hr := ih (fun e => h (by simp [e]))
    simp only [rstripBy]
    split
    · split <;> simp [hc]
    · rename_i r rs heq
      rw [heq] at hr
      simp at hr ⊢
      exact ⟨hc, hr.1, hr.2⟩

theorem rstripBy_head {f : UInt8 → Bool} {b : Bytes} {a : UInt8} {x : Bytes} (h : rstripBy f b = a :: x) :
    ∃ b', b = a :: b' := by
  cases b with
  | nil => simp [rstripBy] at h
  | cons c rest =>
    simp only [rstripBy] at h
    split at h
    · split at h <;> simp at h
      exact ⟨rest, by rw [h.1]⟩
    · simp at h; exact ⟨rest, by rw [h.1]⟩

theorem lstripBy_id {f : UInt8 → Bool} {a : UInt8} {b : Bytes} (h : f a = false) : lstripBy f (a :: b) = a :: b := by
  simp [lstripBy, h]

theorem rstripBy_all_false {f : UInt8 → Bool} : ∀ {b : Bytes}, (b.all fun c => !f c) = true → rstripBy f b = b
  | [], _ => rfl
  | c :: rest, h => by
    simp at h
    have ih := rstripBy_all_false (f := f) (b := rest) (by simpa using h.2)
    simp only [rstripBy, ih]
    cases rest with
    | nil => simp [h.1]
    | cons d ds => rfl

theorem stripBy_all_false {f : UInt8 → Bool} {b : Bytes} (h : (b.all fun c => !f c) = true) : stripBy f b = b := by
  unfold stripBy
  cases b with
  | nil => rfl
  | cons c rest =>
    have hc : f c = false := by simp at h; exact h.1
    rw [lstripBy_id hc, rstripBy_all_false h]

/-- if right-stripping gives something that does not start with a strippable byte, full stripping gives the same -/
theorem stripBy_of_rstrip {f : UInt8 → Bool} {b : Bytes} {a : UInt8} {x : Bytes}
    (h : rstripBy f b = a :: x) (ha : f a = false) : stripBy f b = a :: x := by
  obtain ⟨b', rfl⟩ := rstripBy_head h
  unfold stripBy
  rw [lstripBy_id ha, h]

/-! ### ASCII lower-casing commutes with splitting and stripping -/

theorem lower_eq_comma (c : UInt8) : (asciiLowerB c = 44) = (c = 44) := by
  have h : ∀ n : Fin 256, (asciiLowerB (UInt8.ofNat n.val) = 44) = (UInt8.ofNat n.val = 44) := by decide +kernel
  have := h ⟨c.toNat, UInt8.toNat_lt c⟩
  simpa using this

theorem isOws_lower (c : UInt8) : isOws (asciiLowerB c) = isOws c := by
  have h : ∀ n : Fin 256, isOws (asciiLowerB (UInt8.ofNat n.val)) = isOws (UInt8.ofNat n.val) := by decide +kernel
  have := h ⟨c.toNat, UInt8.toNat_lt c⟩
  simpa using this

theorem splitOn_lower (b : Bytes) : splitOn 44 (asciiLower b) = (splitOn 44 b).map asciiLower := by
  induction b with
  | nil => simp [splitOn, asciiLower]
  | cons c rest ih =>
    simp only [asciiLower, List.map_cons] at ih ⊢
    simp only [splitOn, lower_eq_comma]
    split
    · simp [ih, asciiLower]
    · rw [ih]
      cases h : splitOn 44 rest with
      | nil => exact absurd h (splitOn_ne_nil _ _)
      | cons p ps => simp [asciiLower]

theorem lstripBy_lower (b : Bytes) : lstripBy isOws (asciiLower b) = asciiLower (lstripBy isOws b) := by
  induction b with
  | nil => rfl
  | cons c rest ih =>
    simp only [asciiLower, List.map_cons] at ih ⊢
    simp only [lstripBy, isOws_lower]
    split
    · exact ih
    · simp

theorem rstripBy_lower (b : Bytes) : rstripBy isOws (asciiLower b) = asciiLower (rstripBy isOws b) := by
  induction b with
  | nil => rfl
  | cons c rest ih =>
    simp only [asciiLower, List.map_cons] at ih ⊢
    simp only [rstripBy, ih, isOws_lower]
    cases h : rstripBy isOws rest with
    | nil => simp; split <;> simp
    | cons r rs => simp

theorem stripBy_lower (b : Bytes) : stripBy isOws (asciiLower b) = asciiLower (stripBy isOws b) := by
  unfold stripBy
  rw [lstripBy_lower, rstripBy_lower]

end MitmVerif.C01

namespace MitmVerif.C01
open MitmVerif

/-! ### parse_transfer_encoding accepts only what the reference reader reads as known codings -/

def trimmedPieces (ps : List Bytes) : List Bytes :=
  match ps with
  | [] => []
  | [p] => [p]
  | p :: rest =>
    rstripBy isOws p :: rest.dropLast.map (stripBy isOws) ++
      [match rest.getLast? with | some l => lstripBy isOws l | none => []]

theorem teNormalize_eq (v : Bytes) : teNormalize v = joinWith [44] (trimmedPieces (splitOn 44 v)) := by
  unfold teNormalize trimmedPieces
  cases h : splitOn 44 v with
  | nil => simp [joinWith]
  | cons p rest =>
    cases rest with
    | nil => simp [joinWith]
    | cons q r => rfl

theorem trimmedPieces_no_sep {ps : List Bytes} (h : ∀ p ∈ ps, (44 : UInt8) ∉ p) :
    ∀ q ∈ trimmedPieces ps, (44 : UInt8) ∉ q := by
  unfold trimmedPieces
  match ps, h with
  | [], _ => simp
  | [p], h => simpa using h
  | p :: q :: rest, h =>
    intro x hx
    simp only [List.mem_cons, List.mem_append, List.mem_map, List.mem_singleton, List.not_mem_nil, or_false] at hx
    rcases hx with (rfl | ⟨y, hy, rfl⟩) | rfl
    · exact rstripBy_not_mem (h p (by simp))
    · have : y ∈ q :: rest := List.dropLast_subset _ hy
      unfold stripBy
      exact rstripBy_not_mem (lstripBy_not_mem (h y (by simp [this])))
    · cases hl : (q :: rest).getLast? with
      | none => simp
      | some l =>
        have : l ∈ q :: rest := List.mem_of_getLast? hl
        exact lstripBy_not_mem (h l (by simp [this]))

theorem trimmedPieces_ne_nil {ps : List Bytes} (h : ps ≠ []) : trimmedPieces ps ≠ [] := by
  unfold trimmedPieces
  match ps, h with
  | [p], _ => simp
  | p :: q :: rest, _ => simp

theorem trimmed_single {ps : List Bytes} {x : Bytes} (h : trimmedPieces ps = [x]) : ps = [x] := by
  unfold trimmedPieces at h
  match ps, h with
  | [p], h => simpa using h
  | p :: q :: rest, h => simp at h

theorem trimmed_double {ps : List Bytes} {x y : Bytes} (h : trimmedPieces ps = [x, y]) :
    ∃ p l, ps = [p, l] ∧ rstripBy isOws p = x ∧ lstripBy isOws l = y := by
  unfold trimmedPieces at h
  match ps, h with
  | [p], h => simp at h
  | p :: q :: rest, h =>
    simp only [List.cons_append, List.cons.injEq] at h
    obtain ⟨h1, h2⟩ := h
    have hlen := congrArg List.length h2
    simp at hlen
    have hr : rest = [] := by
      cases rest with
      | nil => rfl
      | cons a b => simp at hlen
    subst hr
    simp at h2
    exact ⟨p, q, rfl, h1, h2⟩

/-- the reference reader's view of a Transfer-Encoding value -/
def refCodingsOf (t : Bytes) : List Bytes := (splitOn 44 t).map (fun c => asciiLower (stripBy isOws c))

theorem refCodingsOf_lower (t : Bytes) : refCodingsOf t = (splitOn 44 (asciiLower t)).map (stripBy isOws) := by
  unfold refCodingsOf
  rw [splitOn_lower, List.map_map]
  congr 1
  funext c
  simp [stripBy_lower]

private theorem single_case {v w : Bytes} (hw : joinWith [44] (trimmedPieces (splitOn 44 v)) = w)
    (hs : splitOn 44 w = [w]) (hstrip : stripBy isOws w = w) :
    (splitOn 44 v).map (stripBy isOws) = [w] := by
  have hno := trimmedPieces_no_sep (splitOn_pieces_no_sep 44 v)
  have hne := trimmedPieces_ne_nil (splitOn_ne_nil 44 v)
  have := splitOn_joinWith _ hne hno
  rw [hw, hs] at this
  have := trimmed_single this.symm
  rw [this]; simp [hstrip]

private theorem double_case {v w x y : Bytes} {a : UInt8} {x' : Bytes}
    (hw : joinWith [44] (trimmedPieces (splitOn 44 v)) = w)
    (hs : splitOn 44 w = [x, y]) (hx : x = a :: x') (ha : isOws a = false) (hy : rstripBy isOws y = y) :
    (splitOn 44 v).map (stripBy isOws) = [x, y] := by
  have hno := trimmedPieces_no_sep (splitOn_pieces_no_sep 44 v)
  have hne := trimmedPieces_ne_nil (splitOn_ne_nil 44 v)
  have := splitOn_joinWith _ hne hno
  rw [hw, hs] at this
  obtain ⟨p, l, hps, hp, hl⟩ := trimmed_double this.symm
  rw [hps]
  have h1 : stripBy isOws p = x := by rw [hx] at hp ⊢; exact stripBy_of_rstrip hp ha
  have h2 : stripBy isOws l = y := by unfold stripBy; rw [hl, hy]
  simp [h1, h2]

/-- **whitelist lemma**: whatever `parse_transfer_encoding` accepts, the reference reader splits into exactly the
    codings of the normalised whitelist entry. -/
theorem parseTE_codings {t w : Bytes} {cls : TE} (h : parseTE t = some (cls, w)) :
    refCodingsOf t = splitOn 44 w ∧
    ((cls = .chunkedFinal ∧ w ∈ Gen.C01.teChunked) ∨ (cls = .other ∧ w ∈ Gen.C01.teOther)) := by
  unfold parseTE at h
  split at h
  · simp at h
  · rw [refCodingsOf_lower]
    have hn := teNormalize_eq (asciiLower t)
    generalize asciiLower t = v at h hn
    generalize teNormalize v = te at h hn
    dsimp only at h
    split at h
    · rename_i hmem
      simp at h
      obtain ⟨rfl, rfl⟩ := h
      refine ⟨?_, Or.inl ⟨rfl, by simpa using hmem⟩⟩
      simp [Gen.C01.teChunked] at hmem
      rcases hmem with rfl | rfl | rfl | rfl
      · exact single_case hn.symm (by decide) (by decide)
      · exact double_case hn.symm (by decide) rfl (by decide) (by decide)
      · exact double_case hn.symm (by decide) rfl (by decide) (by decide)
      · exact double_case hn.symm (by decide) rfl (by decide) (by decide)
    · split at h
      · rename_i hmem
        simp at h
        obtain ⟨rfl, rfl⟩ := h
        refine ⟨?_, Or.inr ⟨rfl, by simpa using hmem⟩⟩
        simp [Gen.C01.teOther] at hmem
        rcases hmem with rfl | rfl | rfl | rfl
        · exact single_case hn.symm (by decide) (by decide)
        · exact single_case hn.symm (by decide) (by decide)
        · exact single_case hn.symm (by decide) (by decide)
        · exact single_case hn.symm (by decide) (by decide)
      · simp at h

end MitmVerif.C01
