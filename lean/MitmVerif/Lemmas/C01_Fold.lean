/- obs-fold: the reference reader reads a CRLF-folded field value back as `Ref.unfold` of it -/
import MitmVerif.Lemmas.C01_Roundtrip
namespace MitmVerif.C01
open MitmVerif

/-- a continuation line: starts with SP or HTAB -/
def startsWs (q : Bytes) : Prop := ∃ c t, q = c :: t ∧ (c = 32 ∨ c = 9)

/-- how the reference reader extends a value by a continuation line (obs-fold → one SP, OWS removed) -/
def foldStep (a q : Bytes) : Bytes := stripBy isOws (a ++ [32] ++ stripBy isOws q)
def foldVal (q0 : Bytes) (qs : List Bytes) : Bytes := qs.foldl foldStep (stripBy isOws q0)

theorem fieldsAux_cont : ∀ (qs rest : List Bytes) (n a : Bytes) (acc : List Field), (∀ q ∈ qs, startsWs q) →
    Ref.fieldsAux (qs ++ rest) ((n, a) :: acc) = Ref.fieldsAux rest ((n, qs.foldl foldStep a) :: acc)
  | [], rest, n, a, acc, _ => by simp
  | q :: qs, rest, n, a, acc, h => by
    obtain ⟨c, t, rfl, hc⟩ := h q (by simp)
    have ih := fieldsAux_cont qs rest n (foldStep a (c :: t)) acc (fun x hx => h x (by simp [hx]))
    simp only [List.cons_append, Ref.fieldsAux, hc, ↓reduceIte, List.foldl_cons]
    exact ih

theorem fieldsAux_first (name q0 : Bytes) (more : List Bytes) (acc : List Field) (hn : isToken name = true) :
    Ref.fieldsAux ((name ++ colonSp ++ q0) :: more) acc = Ref.fieldsAux more ((name, stripBy isOws q0) :: acc) := by
  obtain ⟨hcol, _, _, hne, hhead⟩ := token_no_colon hn
  cases name with
  | nil => exact absurd rfl hne
  | cons c cs =>
    have hc := hhead c rfl
    have hsplit : splitOn 58 ((c :: cs) ++ colonSp ++ q0) = (c :: cs) :: splitOn 58 (32 :: q0) := by
      simp only [colonSp, List.append_assoc, List.cons_append, List.nil_append]
      exact splitOn_append_sep (q := c :: cs) hcol (32 :: q0)
    have hline : (c :: cs) ++ colonSp ++ q0 = c :: (cs ++ colonSp ++ q0) := by simp
    simp only [Ref.fieldsAux]
    rw [hline]
    simp only [hc.1, hc.2, or_self, ↓reduceIte]
    rw [← hline, hsplit]
    cases hs : splitOn 58 (32 :: q0) with
    | nil => exact absurd hs (splitOn_ne_nil _ _)
    | cons p ps =>
      have hj : joinWith [58] (p :: ps) = 32 :: q0 := by rw [← hs]; exact joinWith_splitOn 58 _
      simp only [hn, Bool.not_true, Bool.false_eq_true, ↓reduceIte, hj]
      rw [stripBy_cons_ws (by decide) q0]

/-- all parts but the last get their CR back when the joined value is split at LF -/
def withCR : List Bytes → List Bytes
  | [] => []
  | [x] => [x]
  | x :: y :: rest => (x ++ [13]) :: withCR (y :: rest)

theorem splitOn_joinCrlf : ∀ (ps : List Bytes), ps ≠ [] → (∀ p ∈ ps, (10 : UInt8) ∉ p) →
    splitOn 10 (joinWith crlf ps) = withCR ps
  | [], h, _ => absurd rfl h
  | [x], _, h => by simp [joinWith, withCR, splitOn_no_sep (h x (by simp))]
  | x :: y :: rest, _, h => by
    have hx : (10 : UInt8) ∉ x ++ [13] := by
      have := h x (by simp); simp [this]
    have ih := splitOn_joinCrlf (y :: rest) (by simp) (fun p hp => h p (by simp [hp]))
    have : joinWith crlf (x :: y :: rest) = (x ++ [13]) ++ 10 :: joinWith crlf (y :: rest) := by
      simp [joinWith, crlf, List.append_assoc]
    rw [this, splitOn_append_sep hx, ih]; rfl

theorem stripOneCR_append (q : Bytes) : stripOneCR (q ++ [13]) = q := by
  simp [stripOneCR]

theorem withCR_undo : ∀ (ps : List Bytes), ps ≠ [] →
    ∃ l, (withCR ps).getLast? = some l ∧ (withCR ps).dropLast.map stripOneCR ++ [l] = ps
  | [], h => absurd rfl h
  | [x], _ => ⟨x, by simp [withCR]⟩
  | x :: y :: rest, _ => by
    obtain ⟨l, h1, h2⟩ := withCR_undo (y :: rest) (by simp)
    have hne : withCR (y :: rest) ≠ [] := by cases rest <;> simp [withCR]
    refine ⟨l, ?_, ?_⟩
    · simp only [withCR]; rw [List.getLast?_cons_of_ne_nil hne]; exact h1
    · simp only [withCR]
      rw [List.dropLast_cons_of_ne_nil hne]
      simp only [List.map_cons, stripOneCR_append, List.cons_append]
      rw [h2]

theorem unfold_join (q0 : Bytes) (qs : List Bytes) (h : ∀ p ∈ q0 :: qs, (10 : UInt8) ∉ p) :
    Ref.unfold (joinWith crlf (q0 :: qs)) = foldVal q0 qs := by
  obtain ⟨l, h1, h2⟩ := withCR_undo (q0 :: qs) (by simp)
  unfold Ref.unfold
  simp only [splitOn_joinCrlf (q0 :: qs) (by simp) h, h1, h2]
  simp only [List.map_cons, foldVal]
  rw [List.foldl_map]
  rfl

/-- **obs-fold normalisation**, for a value given by its CRLF-separated parts: the lines `name ": " q0`, `q1`, … `qk`
    (each continuation starting with SP/HTAB) are read as the single field `(name, Ref.unfold value)` -/
theorem obs_fold_field (name q0 : Bytes) (qs rest : List Bytes) (acc : List Field) (hn : isToken name = true)
    (hws : ∀ q ∈ qs, startsWs q) (hlf : ∀ p ∈ q0 :: qs, (10 : UInt8) ∉ p) :
    Ref.fieldsAux ((name ++ colonSp ++ q0) :: qs ++ rest) acc =
      Ref.fieldsAux rest ((name, Ref.unfold (joinWith crlf (q0 :: qs))) :: acc) := by
  rw [List.cons_append, fieldsAux_first name q0 (qs ++ rest) acc hn, fieldsAux_cont qs rest name _ acc hws, unfold_join q0 qs hlf]
  rfl

end MitmVerif.C01
