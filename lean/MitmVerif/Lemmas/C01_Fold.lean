/- obs-fold: the reference reader reads a CRLF-folded field value back as `Ref.unfold` of it -/
import MitmVerif.Lemmas.C01_Roundtrip
namespace MitmVerif.C01
open MitmVerif

/-- a continuation line: starts with SP or HTAB -/
def startsWs (q : Bytes) : Prop := ∃ c t, q = c :: t ∧ (c = 32 ∨ c = 9)

/-- how the reference reader extends a value by a continuation line (obs-fold → one SP, OWS removed) -/
def foldStep (a q : Bytes) : Bytes := stripBy isOws (a ++ [32] ++ stripBy isOws q)
def foldVal (q0 : Bytes) (qs : List Bytes) : Bytes := qs.foldl foldStep (stripBy isOws q0)

theorem fieldsAux_cont : ∀ (qs rest : List Bytes) (n a : Bytes) (acc : List Field), (∀ q ∈ qs, startsWs q) →
    Ref.fieldsAux (qs ++ rest) ((n, a) :: acc) = Ref.fieldsAux rest ((n, qs.foldl foldStep a) :: acc)
  | [], rest, n, a, acc, _ => by simp
  | q :: qs, rest, n, a, acc, h => by
    obtain ⟨c, t, rfl, hc⟩ := h q (by simp)
    have ih := fieldsAux_cont qs rest n (foldStep a (c :: t)) acc (fun x hx => h x (by simp [hx]))
    simp only [List.cons_append, Ref.fieldsAux, hc, ↓reduceIte, List.foldl_cons]
    exact ih

theorem fieldsAux_first (name q0 : Bytes) (more : List Bytes) (acc : List Field) (hn : isToken name = true) :
    Ref.fieldsAux ((name ++ colonSp ++ q0) :: more) acc = Ref.fieldsAux more ((name, stripBy isOws q0) :: acc) := by
  obtain ⟨hcol, _, _, hne, hhead⟩ := token_no_colon hn
  cases name with
  | nil => exact absurd rfl hne
  | cons c cs =>
    have hc := hhead c rfl
    have hsplit : splitOn 58 ((c :: cs) ++ colonSp ++ q0) = (c :: cs) :: splitOn 58 (32 :: q0) := by
      simp only [colonSp, List.append_assoc, List.cons_append, List.nil_append]
      exact splitOn_append_sep (q := c :: cs) hcol (32 :: q0)
    have hline : (c :: cs) ++ colonSp ++ q0 = c :: (cs ++ colonSp ++ q0) := by simp
    simp only [Ref.fieldsAux]
    rw [hline]
    simp only [hc.1, hc.2, or_self, ↓reduceIte]
    rw [← hline, hsplit]
    cases hs : splitOn 58 (32 :: q0) with
    | nil => exact absurd hs (splitOn_ne_nil _ _)
    | cons p ps =>
      have hj : joinWith [58] (p :: ps) = 32 :: q0 := by rw [← hs]; exact joinWith_splitOn 58 _
      simp only [hn, Bool.not_true, Bool.false_eq_true, ↓reduceIte, hj]
      rw [stripBy_cons_ws (by decide) q0]

/-- all parts but the last get their CR back when the joined value is split at LF -/
def withCR : List Bytes → List Bytes
  | [] => []
  | [x] => [x]
  | x :: y :: rest => (x ++ [13]) :: withCR (y :: rest)

theorem splitOn_joinCrlf : ∀ (ps : List Bytes), ps ≠ [] → (∀ p ∈ ps, (10 : UInt8) ∉ p) →
    splitOn 10 (joinWith crlf ps) = withCR ps
  | [], h, _ => absurd rfl h
  | [x], _, h => by simp [joinWith, withCR, splitOn_no_sep (h x (by simp))]
  | x :: y :: rest, _, h => by
    have hx : (10 : UInt8) ∉ x ++ [13] := by
      have := h x (by simp); simp [this]
    have ih := splitOn_joinCrlf (y :: rest) (by simp) (fun p hp => h p (by simp [hp]))
    have : joinWith crlf (x :: y :: rest) = (x ++ [13]) ++ 10 :: joinWith crlf (y :: rest) := by
      simp [joinWith, crlf, List.append_assoc]
    rw [this, splitOn_append_sep hx, ih]; rfl

theorem stripOneCR_append (q : Bytes) : stripOneCR (q ++ [13]) = q := by
  simp [stripOneCR]

theorem withCR_undo : ∀ (ps : List Bytes), ps ≠ [] →
    ∃ l, (withCR ps).getLast? = some l ∧ (withCR ps).dropLast.map stripOneCR ++ [l] = ps
  | [], h => absurd rfl h
  | [x], _ => ⟨x, by simp [withCR]⟩
  | x :: y :: rest, _ => by
    obtain ⟨l, h1, h2⟩ := withCR_undo (y :: rest) (by simp)
    have hne : withCR (y :: rest) ≠ [] := by cases rest <;> simp [withCR]
    refine ⟨l, ?_, ?_⟩
    · simp only [withCR]; rw [List.getLast?_cons_of_ne_nil hne]; exact h1
    · simp only [withCR]
      rw [List.dropLast_cons_of_ne_nil hne]
      simp only [List.map_cons, stripOneCR_append, List.cons_append]
      rw [h2]

theorem unfold_join (q0 : Bytes) (qs : List Bytes) (h : ∀ p ∈ q0 :: qs, (10 : UInt8) ∉ p) :
    Ref.unfold (joinWith crlf (q0 :: qs)) = foldVal q0 qs := by
  obtain ⟨l, h1, h2⟩ := withCR_undo (q0 :: qs) (by simp)
  unfold Ref.unfold
  simp only [splitOn_joinCrlf (q0 :: qs) (by simp) h, h1, h2]
  simp only [List.map_cons, foldVal]
  rw [List.foldl_map]
  rfl

/-- **obs-fold normalisation**, for a value given by its CRLF-separated parts: the lines `name ": " q0`, `q1`, … `qk`
    (each continuation starting with SP/HTAB) are read as the single field `(name, Ref.unfold value)` -/
theorem obs_fold_field (name q0 : Bytes) (qs rest : List Bytes) (acc : List Field) (hn : isToken name = true)
    (hws : ∀ q ∈ qs, startsWs q) (hlf : ∀ p ∈ q0 :: qs, (10 : UInt8) ∉ p) :
    Ref.fieldsAux ((name ++ colonSp ++ q0) :: qs ++ rest) acc =
      Ref.fieldsAux rest ((name, Ref.unfold (joinWith crlf (q0 :: qs))) :: acc) := by
  rw [List.cons_append, fieldsAux_first name q0 (qs ++ rest) acc hn, fieldsAux_cont qs rest name _ acc hws, unfold_join q0 qs hlf]
  rfl

end MitmVerif.C01

namespace MitmVerif.C01
open MitmVerif

/-- a field given by the CRLF-separated parts of its value (what `_read_headers` builds: `v0 ++ "\r\n " ++ …`) -/
structure PField where
  name : Bytes
  q0 : Bytes
  qs : List Bytes

namespace PField
def value (pf : PField) : Bytes := joinWith crlf (pf.q0 :: pf.qs)
/-- the field as recorded in the flow -/
def field (pf : PField) : Field := (pf.name, pf.value)
/-- the field as the reference reader reads it -/
def ufield (pf : PField) : Field := (pf.name, Ref.unfold pf.value)
def lines (pf : PField) : List Bytes := (pf.name ++ colonSp ++ pf.q0) :: pf.qs
def ok (pf : PField) : Prop :=
  cleanLine pf.q0 ∧ (0 : UInt8) ∉ pf.q0 ∧ ∀ q ∈ pf.qs, cleanLine q ∧ (0 : UInt8) ∉ q ∧ startsWs q
end PField

theorem renderLines_append (a b : List Bytes) : renderLines (a ++ b) = renderLines a ++ renderLines b := by
  induction a with
  | nil => rfl
  | cons x xs ih => simp [renderLines, ih, List.append_assoc]

theorem render_parts (pre q0 : Bytes) (qs : List Bytes) :
    pre ++ joinWith crlf (q0 :: qs) ++ crlf = renderLines ((pre ++ q0) :: qs) := by
  induction qs generalizing pre q0 with
  | nil => simp [joinWith, renderLines]
  | cons q rest ih =>
    have := ih [] q
    simp only [List.nil_append] at this
    simp only [joinWith, renderLines, List.append_assoc] at this ⊢
    rw [this]

theorem assembleFields_fold (pfs : List PField) :
    assembleFields (pfs.map PField.field) = renderLines (pfs.flatMap PField.lines) := by
  induction pfs with
  | nil => rfl
  | cons pf rest ih =>
    simp only [List.map_cons, List.flatMap_cons, renderLines_append, PField.field, assembleFields, ih]
    have := render_parts (pf.name ++ colonSp) pf.q0 pf.qs
    simp only [PField.lines, PField.value, List.append_assoc] at this ⊢
    rw [← this]; simp [List.append_assoc]

theorem fieldsAux_fold : ∀ (pfs : List PField) (acc : List Field),
    (∀ pf ∈ pfs, isToken pf.name = true ∧ pf.ok) →
    Ref.fieldsAux (pfs.flatMap PField.lines) acc = .ok (acc.reverse ++ pfs.map PField.ufield)
  | [], acc, _ => by simp [Ref.fieldsAux]
  | pf :: rest, acc, h => by
    obtain ⟨hn, hq0, _, hqs⟩ := h pf (by simp)
    have ih := fieldsAux_fold rest (pf.ufield :: acc) (fun x hx => h x (by simp [hx]))
    have hlf : ∀ p ∈ pf.q0 :: pf.qs, (10 : UInt8) ∉ p := by
      intro p hp
      simp at hp
      rcases hp with rfl | hp
      · exact hq0.2
      · exact (hqs p hp).1.2
    have := obs_fold_field pf.name pf.q0 pf.qs (rest.flatMap PField.lines) acc hn (fun q hq => (hqs q hq).2.2) hlf
    simp only [List.flatMap_cons, PField.lines, List.cons_append] at this ⊢
    rw [this]
    simp only [PField.ufield, PField.value] at ih ⊢
    rw [ih]; simp [PField.ufield, PField.value]

theorem lines_clean (pf : PField) (hn : isToken pf.name = true) (hok : pf.ok) :
    ∀ l ∈ pf.lines, cleanLine l ∧ l ≠ [] := by
  obtain ⟨hq0, _, hqs⟩ := hok
  obtain ⟨_, h13, h10, hne, _⟩ := token_no_colon hn
  intro l hl
  simp only [PField.lines, List.mem_cons] at hl
  rcases hl with rfl | hl
  · refine ⟨⟨?_, ?_⟩, ?_⟩
    · simp [colonSp, h13, hq0.1]
    · simp [colonSp, h10, hq0.2]
    · cases hnm : pf.name with
      | nil => exact absurd hnm hne
      | cons c cs => simp
  · obtain ⟨hc, _, c, t, rfl, _⟩ := hqs l hl
    exact ⟨hc, by simp⟩

theorem no_nul_strip {b : Bytes} (h : (0 : UInt8) ∉ b) : (0 : UInt8) ∉ stripBy isOws b := by
  unfold stripBy; exact rstripBy_not_mem (lstripBy_not_mem h)

theorem no_nul_foldVal : ∀ (qs : List Bytes) (a : Bytes), (0 : UInt8) ∉ a → (∀ q ∈ qs, (0 : UInt8) ∉ q) →
    (0 : UInt8) ∉ qs.foldl foldStep a
  | [], a, ha, _ => by simpa using ha
  | q :: qs, a, ha, h => by
    simp only [List.foldl_cons]
    apply no_nul_foldVal qs
    · unfold foldStep
      apply no_nul_strip
      have := no_nul_strip (h q (by simp))
      simp [ha, this]
    · exact fun x hx => h x (by simp [hx])

theorem ufield_no_nul (pf : PField) (hok : pf.ok) : (0 : UInt8) ∉ pf.ufield.2 := by
  obtain ⟨hq0, hz, hqs⟩ := hok
  have hlf : ∀ p ∈ pf.q0 :: pf.qs, (10 : UInt8) ∉ p := by
    intro p hp
    simp at hp
    rcases hp with rfl | hp
    · exact hq0.2
    · exact (hqs p hp).1.2
  simp only [PField.ufield, PField.value, unfold_join pf.q0 pf.qs hlf, foldVal]
  exact no_nul_foldVal pf.qs _ (no_nul_strip hz) (fun q hq => (hqs q hq).2.1)

/-- the framing fields themselves are not folded and carry no surrounding OWS (implied by `validate_headers`, which rejects
    a Content-Length / Transfer-Encoding value containing CR LF; taken as a hypothesis here) -/
def FramingFieldsPlain (pfs : List PField) : Prop :=
  ∀ pf ∈ pfs, (asciiLower pf.name = sTE ∨ asciiLower pf.name = sCL) → pf.qs = [] ∧ stripBy isOws pf.q0 = pf.q0

theorem getAll_fold (pfs : List PField) (n : Bytes) (hn : n = sTE ∨ n = sCL) (hok : ∀ pf ∈ pfs, pf.ok)
    (hfp : FramingFieldsPlain pfs) :
    getAll (pfs.map PField.ufield) n = getAll (pfs.map PField.field) n := by
  induction pfs with
  | nil => rfl
  | cons pf rest ih =>
    have ih' := ih (fun x hx => hok x (by simp [hx])) (fun x hx => hfp x (by simp [hx]))
    simp only [getAll, List.map_cons, List.filter_cons, PField.ufield, PField.field] at ih' ⊢
    by_cases hm : asciiLower pf.name = n
    · have hpl := hfp pf (by simp) (by rcases hn with rfl | rfl <;> simp [hm])
      have hq0 := (hok pf (by simp)).1
      have hv : Ref.unfold pf.value = pf.value := by
        have hs : splitOn 10 pf.q0 = [pf.q0] := splitOn_no_sep hq0.2
        simp [PField.value, hpl.1, joinWith, Ref.unfold, hs, hpl.2]
      simp only [hm, decide_true, ↓reduceIte, List.map_cons, hv]
      rw [ih']
    · simp only [hm, decide_false, Bool.false_eq_true, ↓reduceIte]
      exact ih'

theorem framing_fold (pfs : List PField) (hok : ∀ pf ∈ pfs, pf.ok) (hfp : FramingFieldsPlain pfs)
    (v : Bytes) (k : Kind) (m : Bytes) :
    Ref.framing (pfs.map PField.ufield) v k m = Ref.framing (pfs.map PField.field) v k m := by
  unfold Ref.framing
  rw [getAll_fold pfs sTE (Or.inl rfl) hok hfp, getAll_fold pfs sCL (Or.inr rfl) hok hfp]

end MitmVerif.C01

namespace MitmVerif.C01
open MitmVerif

/-! ### `validate_headers` implies `FramingFieldsPlain`: an accepted Content-Length / Transfer-Encoding value contains no CR
    and carries no surrounding OWS, hence is not folded -/

theorem rstripBy_decomp {f : UInt8 → Bool} : ∀ (p : Bytes), ∃ s, p = rstripBy f p ++ s ∧ s.all f = true
  | [] => ⟨[], by simp [rstripBy]⟩
  | c :: rest => by
    obtain ⟨s, hs, hall⟩ := rstripBy_decomp (f := f) rest
    simp only [rstripBy]
    cases h : rstripBy f rest with
    | nil =>
      rw [h] at hs
      by_cases hc : f c = true
      · refine ⟨c :: s, ?_, by simp [hc, hall]⟩
        simp [hc]; simpa using hs
      · refine ⟨s, ?_, hall⟩
        simp [hc]; simpa using hs
    | cons r rs =>
      rw [h] at hs
      exact ⟨s, by simp; simpa using hs, hall⟩

theorem lstripBy_decomp {f : UInt8 → Bool} : ∀ (l : Bytes), ∃ s, l = s ++ lstripBy f l ∧ s.all f = true
  | [] => ⟨[], by simp [lstripBy]⟩
  | c :: rest => by
    simp only [lstripBy]
    by_cases hc : f c = true
    · obtain ⟨s, hs, hall⟩ := lstripBy_decomp (f := f) rest
      refine ⟨c :: s, ?_, by simp [hc, hall]⟩
      simp [hc]; exact hs
    · exact ⟨[], by simp [hc], by simp⟩

theorem rstripBy_append_keep {f : UInt8 → Bool} (a : Bytes) {b : Bytes} {r : UInt8} {rs : Bytes}
    (h : rstripBy f b = r :: rs) : rstripBy f (a ++ b) = a ++ r :: rs := by
  induction a with
  | nil => simpa using h
  | cons c cs ih =>
    simp only [List.cons_append, rstripBy, ih]
    cases hcs : cs ++ r :: rs with
    | nil => simp at hcs
    | cons x xs => rfl

theorem lower_eq_cr (c : UInt8) : (asciiLowerB c = 13) = (c = 13) := by
  have h : ∀ n : Fin 256, (asciiLowerB (UInt8.ofNat n.val) = 13) = (UInt8.ofNat n.val = 13) := by decide +kernel
  have := h ⟨c.toNat, UInt8.toNat_lt c⟩
  simpa using this

theorem cr_mem_lower {t : Bytes} : (13 : UInt8) ∈ asciiLower t ↔ (13 : UInt8) ∈ t := by
  induction t with
  | nil => simp [asciiLower]
  | cons c cs ih =>
    simp only [asciiLower, List.map_cons, List.mem_cons] at ih ⊢
    rw [ih]
    constructor
    · rintro (h | h)
      · left; have := (lower_eq_cr c).mp h.symm; exact this.symm
      · right; exact h
    · rintro (h | h)
      · left; subst h; decide
      · right; exact h

theorem ows_no_cr {s : Bytes} (h : s.all isOws = true) : (13 : UInt8) ∉ s := by
  intro hm
  have := List.all_eq_true.mp h 13 hm
  revert this; decide

/-- what `parse_transfer_encoding` accepts contains no CR and has no surrounding OWS -/
theorem parseTE_plain {t w : Bytes} {cls : TE} (h : parseTE t = some (cls, w)) :
    (13 : UInt8) ∉ t ∧ stripBy isOws t = t := by
  -- everything is shown for v = lower t first
  have hv : (13 : UInt8) ∉ asciiLower t ∧ stripBy isOws (asciiLower t) = asciiLower t := by
    have hn : teNormalize (asciiLower t) = w ∧ (w ∈ Gen.C01.teChunked ∨ w ∈ Gen.C01.teOther) := by
      unfold parseTE at h
      split at h
      · simp at h
      · dsimp only at h
        split at h
        · rename_i hm; simp at h; exact ⟨h.2, Or.inl (by rw [← h.2]; simpa using hm)⟩
        · split at h
          · rename_i hm; simp at h; exact ⟨h.2, Or.inr (by rw [← h.2]; simpa using hm)⟩
          · simp at h
    obtain ⟨hn, hw⟩ := hn
    rw [teNormalize_eq] at hn
    generalize asciiLower t = v at hn ⊢
    have hno := trimmedPieces_no_sep (splitOn_pieces_no_sep 44 v)
    have hne := trimmedPieces_ne_nil (splitOn_ne_nil 44 v)
    have hsp := splitOn_joinWith _ hne hno
    rw [hn] at hsp
    have hjoin := joinWith_splitOn 44 v
    have single : ∀ x : Bytes, splitOn 44 w = [x] → (13 : UInt8) ∉ x → stripBy isOws x = x →
        (13 : UInt8) ∉ v ∧ stripBy isOws v = v := by
      intro x hx h13 hs
      rw [hx] at hsp
      have := trimmed_single hsp.symm
      rw [this] at hjoin
      have : v = x := by simpa [joinWith] using hjoin.symm
      subst this; exact ⟨h13, hs⟩
    have double : ∀ (x y : Bytes) (a : UInt8) (x' : Bytes) (r : UInt8) (rs : Bytes), splitOn 44 w = [x, y] → x = a :: x' → isOws a = false →
        rstripBy isOws y = r :: rs → y = r :: rs → (13 : UInt8) ∉ x → (13 : UInt8) ∉ y →
        (13 : UInt8) ∉ v ∧ stripBy isOws v = v := by
      intro x y a x' r rs hxy hxa ha hry hyr hx13 hy13
      rw [hxy] at hsp
      obtain ⟨p, l, hps, hp, hl⟩ := trimmed_double hsp.symm
      rw [hps] at hjoin
      obtain ⟨s1, hp1, hs1⟩ := rstripBy_decomp (f := isOws) p
      obtain ⟨s2, hl2, hs2⟩ := lstripBy_decomp (f := isOws) l
      rw [hp] at hp1; rw [hl] at hl2
      have hv : v = x ++ (s1 ++ 44 :: s2) ++ y := by
        have : v = p ++ [44] ++ l := by simpa [joinWith] using hjoin.symm
        rw [this, hp1, hl2]; simp [List.append_assoc]
      refine ⟨?_, ?_⟩
      · rw [hv]
        simp only [List.mem_append, List.mem_cons, not_or]
        exact ⟨⟨hx13, ows_no_cr hs1, by decide, ows_no_cr hs2⟩, hy13⟩
      · rw [hv]
        unfold stripBy
        have hl' : lstripBy isOws (x ++ (s1 ++ 44 :: s2) ++ y) = x ++ (s1 ++ 44 :: s2) ++ y := by
          rw [hxa]; simp only [List.cons_append]; exact lstripBy_id ha
        rw [hl', rstripBy_append_keep (x ++ (s1 ++ 44 :: s2)) hry, ← hyr]
    rcases hw with hw | hw
    · simp [Gen.C01.teChunked] at hw
      rcases hw with rfl | rfl | rfl | rfl
      · exact single _ rfl (by decide) (by decide)
      · exact double _ _ _ _ _ _ rfl rfl (by decide) rfl rfl (by decide) (by decide)
      · exact double _ _ _ _ _ _ rfl rfl (by decide) rfl rfl (by decide) (by decide)
      · exact double _ _ _ _ _ _ rfl rfl (by decide) rfl rfl (by decide) (by decide)
    · simp [Gen.C01.teOther] at hw
      rcases hw with rfl | rfl | rfl | rfl <;> exact single _ rfl (by decide) (by decide)
  refine ⟨fun hm => hv.1 (cr_mem_lower.mpr hm), ?_⟩
  have h1 : asciiLower (stripBy isOws t) = asciiLower t := by rw [← stripBy_lower]; exact hv.2
  have hlen : (stripBy isOws t).length = t.length := by
    have := congrArg List.length h1
    simpa [asciiLower] using this
  exact (stripBy_infix isOws t).sublist.eq_of_length hlen

end MitmVerif.C01
