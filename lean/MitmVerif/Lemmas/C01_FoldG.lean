/- obs-fold, byte level: every value `validate_headers` accepts (`valueOk`: no NUL, CR only before LF, LF only before
   SP/HTAB) decomposes into parts separated by CR LF or by a bare LF, and the reference reader reads the rendered field
   back as `Ref.unfold` of the value -/
import MitmVerif.Lemmas.C01_Fold
namespace MitmVerif.C01
open MitmVerif

def sepOf (b : Bool) : Bytes := if b then [13, 10] else [10]

/-- first part and the continuations, each with the flag "preceded by CR LF (true) / by a bare LF (false)" -/
def joinG (q0 : Bytes) (qs : List (Bool × Bytes)) : Bytes := q0 ++ qs.flatMap fun bq => sepOf bq.1 ++ bq.2

/-- split a value at its line breaks -/
def dec : Bytes → Bytes × List (Bool × Bytes)
  | [] => ([], [])
  | [c] => if c = 10 then ([], [(false, [])]) else ([c], [])
  | c :: d :: rest =>
    if c = 13 ∧ d = 10 then ([], (true, (dec rest).1) :: (dec rest).2)
    else if c = 10 then ([], (false, (dec (d :: rest)).1) :: (dec (d :: rest)).2)
    else (c :: (dec (d :: rest)).1, (dec (d :: rest)).2)

theorem joinG_dec : ∀ (v : Bytes), joinG (dec v).1 (dec v).2 = v
  | [] => rfl
  | [c] => by
    simp only [dec]; split <;> simp [joinG, sepOf, *]
  | c :: d :: rest => by
    have ih1 := joinG_dec rest
    have ih2 := joinG_dec (d :: rest)
    simp only [dec]
    split
    · rename_i h; simp only [joinG, List.flatMap_cons, sepOf, ↓reduceIte, List.nil_append] at ih1 ⊢
      rw [List.append_assoc, ih1, h.1, h.2]; rfl
    · split
      · rename_i h; simp only [joinG, List.flatMap_cons, sepOf, List.nil_append] at ih2 ⊢
        simp only [Bool.false_eq_true, ↓reduceIte, List.append_assoc, List.cons_append, List.nil_append]
        rw [ih2, h]
      · simp only [joinG, List.cons_append] at ih2 ⊢
        rw [ih2]

/-- the parts of an accepted value: no CR, no LF, no NUL; continuations start with SP/HTAB -/
def PartsOk (q0 : Bytes) (qs : List (Bool × Bytes)) : Prop :=
  cleanLine q0 ∧ (0 : UInt8) ∉ q0 ∧ ∀ bq ∈ qs, cleanLine bq.2 ∧ (0 : UInt8) ∉ bq.2 ∧ startsWs bq.2

private theorem valueOk_tail {c : UInt8} {t : Bytes} (h : valueOk (c :: t) = true) :
    c ≠ 0 ∧ (c = 13 → t.head? = some 10) ∧ (c = 10 → ∃ w t', t = w :: t' ∧ (w = 32 ∨ w = 9)) ∧ valueOk t = true := by
  cases t with
  | nil =>
    simp only [valueOk] at h
    by_cases h0 : c = 0
    · simp [h0] at h
    · by_cases h13 : c = 13
      · simp [h13] at h
      · by_cases h10 : c = 10
        · simp [h10] at h
        · exact ⟨h0, fun e => absurd e h13, fun e => absurd e h10, rfl⟩
  | cons d ds =>
    rw [valueOk] at h
    by_cases h0 : c = 0
    · simp [h0] at h
    · by_cases h13 : c = 13
      · subst h13
        simp at h; exact ⟨h0, fun _ => by simp [h.1], fun e => absurd e (by decide), h.2⟩
      · by_cases h10 : c = 10
        · subst h10
          simp at h
          exact ⟨h0, fun e => absurd e h13, fun _ => ⟨d, ds, rfl, h.1⟩, h.2⟩
        · simp [h0, h13, h10] at h
          exact ⟨h0, fun e => absurd e h13, fun e => absurd e h10, h⟩

theorem dec_ok : ∀ (v : Bytes), valueOk v = true →
    PartsOk (dec v).1 (dec v).2 ∧ ((dec v).1 = [] ∨ ∃ c t, (dec v).1 = c :: t ∧ v.head? = some c)
  | [], _ => ⟨⟨⟨by simp [dec], by simp [dec]⟩, by simp [dec], by simp [dec]⟩, Or.inl rfl⟩
  | [c], h => by
    obtain ⟨h0, h13, h10, _⟩ := valueOk_tail h
    have hc13 : c ≠ 13 := fun e => by have := h13 e; simp at this
    have hc10 : c ≠ 10 := fun e => by obtain ⟨w, t', ht, _⟩ := h10 e; simp at ht
    simp only [dec, hc10, ↓reduceIte]
    refine ⟨⟨⟨by simp [Ne.symm hc13], by simp [Ne.symm hc10]⟩, by simp [Ne.symm h0], by simp⟩, Or.inr ⟨c, [], rfl, rfl⟩⟩
  | c :: d :: rest, h => by
    obtain ⟨h0, h13, h10, ht⟩ := valueOk_tail h
    simp only [dec]
    by_cases hcr : c = 13 ∧ d = 10
    · -- CR LF: the value continues with a folded part
      simp only [hcr, and_self, ↓reduceIte]
      obtain ⟨_, _, h10', ht'⟩ := valueOk_tail ht
      obtain ⟨w, t', hrest, hw⟩ := h10' hcr.2
      obtain ⟨⟨hq0, hz0, hqs⟩, hfirst⟩ := dec_ok rest ht'
      refine ⟨⟨⟨by simp, by simp⟩, by simp, ?_⟩, Or.inl trivial⟩
      intro bq hbq
      simp only [List.mem_cons] at hbq
      rcases hbq with rfl | hbq
      · refine ⟨hq0, hz0, ?_⟩
        rcases hfirst with he | ⟨c', t'', he, hh⟩
        · -- the part after the line break cannot be empty: it starts with w
          exfalso
          subst hrest
          have hw13 : w ≠ 13 := by rcases hw with rfl | rfl <;> decide
          have hw10 : w ≠ 10 := by rcases hw with rfl | rfl <;> decide
          cases t' with
          | nil => simp [dec, hw10] at he
          | cons x xs => simp [dec, hw13, hw10] at he
        · subst hrest
          simp at hh; subst hh
          exact ⟨w, t'', he, hw⟩
      · exact hqs bq hbq
    · simp only [hcr, ↓reduceIte]
      have hc13 : c ≠ 13 := by
        intro e
        have := h13 e
        simp at this
        exact hcr ⟨e, this⟩
      by_cases hlf : c = 10
      · simp only [hlf, ↓reduceIte]
        obtain ⟨w, t', hrest, hw⟩ := h10 hlf
        obtain ⟨⟨hq0, hz0, hqs⟩, hfirst⟩ := dec_ok (d :: rest) ht
        refine ⟨⟨⟨by simp, by simp⟩, by simp, ?_⟩, Or.inl trivial⟩
        intro bq hbq
        simp only [List.mem_cons] at hbq
        rcases hbq with rfl | hbq
        · refine ⟨hq0, hz0, ?_⟩
          simp at hrest
          obtain ⟨rfl, rfl⟩ := hrest
          rcases hfirst with he | ⟨c', t'', he, hh⟩
          · exfalso
            have hw13 : d ≠ 13 := by rcases hw with rfl | rfl <;> decide
            have hw10 : d ≠ 10 := by rcases hw with rfl | rfl <;> decide
            cases rest with
            | nil => simp [dec, hw10] at he
            | cons x xs => simp [dec, hw13, hw10] at he
          · simp at hh; subst hh
            exact ⟨d, t'', he, hw⟩
        · exact hqs bq hbq
      · simp only [hlf, ↓reduceIte]
        obtain ⟨⟨hq0, hz0, hqs⟩, _⟩ := dec_ok (d :: rest) ht
        refine ⟨⟨⟨?_, ?_⟩, ?_, hqs⟩, Or.inr ⟨c, _, rfl, rfl⟩⟩
        · simp only [List.mem_cons, not_or]; exact ⟨Ne.symm hc13, hq0.1⟩
        · simp only [List.mem_cons, not_or]; exact ⟨Ne.symm hlf, hq0.2⟩
        · simp only [List.mem_cons, not_or]; exact ⟨Ne.symm h0, hz0⟩

end MitmVerif.C01
