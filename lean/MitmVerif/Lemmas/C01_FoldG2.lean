/- obs-fold, byte level (continued): accepted framing values contain no LF either; general (CR LF or bare LF) folded fields -/
import MitmVerif.Lemmas.C01_FoldG
namespace MitmVerif.C01
open MitmVerif

theorem lower_eq_lf (c : UInt8) : (asciiLowerB c = 10) = (c = 10) := by
  have h : ∀ n : Fin 256, (asciiLowerB (UInt8.ofNat n.val) = 10) = (UInt8.ofNat n.val = 10) := by decide +kernel
  have := h ⟨c.toNat, UInt8.toNat_lt c⟩
  simpa using this

theorem lf_mem_lower {t : Bytes} : (10 : UInt8) ∈ asciiLower t ↔ (10 : UInt8) ∈ t := by
  induction t with
  | nil => simp [asciiLower]
  | cons c cs ih =>
    simp only [asciiLower, List.map_cons, List.mem_cons] at ih ⊢
    rw [ih]
    constructor
    · rintro (h | h)
      · left; have := (lower_eq_lf c).mp h.symm; exact this.symm
      · right; exact h
    · rintro (h | h)
      · left; subst h; decide
      · right; exact h

theorem ows_no_lf {s : Bytes} (h : s.all isOws = true) : (10 : UInt8) ∉ s := by
  intro hm
  have := List.all_eq_true.mp h 10 hm
  revert this; decide

theorem parseTE_plain_lf {t w : Bytes} {cls : TE} (h : parseTE t = some (cls, w)) :
    (10 : UInt8) ∉ t ∧ stripBy isOws t = t := by
  -- everything is shown for v = lower t first
  have hv : (10 : UInt8) ∉ asciiLower t ∧ stripBy isOws (asciiLower t) = asciiLower t := by
    have hn : teNormalize (asciiLower t) = w ∧ (w ∈ Gen.C01.teChunked ∨ w ∈ Gen.C01.teOther) := by
      unfold parseTE at h
      split at h
      · simp at h
      · dsimp only at h
        split at h
        · rename_i hm; simp at h; exact ⟨h.2, Or.inl (by rw [← h.2]; simpa using hm)⟩
        · split at h
          · rename_i hm; simp at h; exact ⟨h.2, Or.inr (by rw [← h.2]; simpa using hm)⟩
          · simp at h
    obtain ⟨hn, hw⟩ := hn
    rw [teNormalize_eq] at hn
    generalize asciiLower t = v at hn ⊢
    have hno := trimmedPieces_no_sep (splitOn_pieces_no_sep 44 v)
    have hne := trimmedPieces_ne_nil (splitOn_ne_nil 44 v)
    have hsp := splitOn_joinWith _ hne hno
    rw [hn] at hsp
    have hjoin := joinWith_splitOn 44 v
    have single : ∀ x : Bytes, splitOn 44 w = [x] → (10 : UInt8) ∉ x → stripBy isOws x = x →
        (10 : UInt8) ∉ v ∧ stripBy isOws v = v := by
      intro x hx h13 hs
      rw [hx] at hsp
      have := trimmed_single hsp.symm
      rw [this] at hjoin
      have : v = x := by simpa [joinWith] using hjoin.symm
      subst this; exact ⟨h13, hs⟩
    have double : ∀ (x y : Bytes) (a : UInt8) (x' : Bytes) (r : UInt8) (rs : Bytes), splitOn 44 w = [x, y] → x = a :: x' → isOws a = false →
        rstripBy isOws y = r :: rs → y = r :: rs → (10 : UInt8) ∉ x → (10 : UInt8) ∉ y →
        (10 : UInt8) ∉ v ∧ stripBy isOws v = v := by
      intro x y a x' r rs hxy hxa ha hry hyr hx13 hy13
      rw [hxy] at hsp
      obtain ⟨p, l, hps, hp, hl⟩ := trimmed_double hsp.symm
      rw [hps] at hjoin
      obtain ⟨s1, hp1, hs1⟩ := rstripBy_decomp (f := isOws) p
      obtain ⟨s2, hl2, hs2⟩ := lstripBy_decomp (f := isOws) l
      rw [hp] at hp1; rw [hl] at hl2
      have hv : v = x ++ (s1 ++ 44 :: s2) ++ y := by
        have : v = p ++ [44] ++ l := by simpa [joinWith] using hjoin.symm
        rw [this, hp1, hl2]; simp [List.append_assoc]
      refine ⟨?_, ?_⟩
      · rw [hv]
        simp only [List.mem_append, List.mem_cons, not_or]
        exact ⟨⟨hx13, ows_no_lf hs1, by decide, ows_no_lf hs2⟩, hy13⟩
      · rw [hv]
        unfold stripBy
        have hl' : lstripBy isOws (x ++ (s1 ++ 44 :: s2) ++ y) = x ++ (s1 ++ 44 :: s2) ++ y := by
          rw [hxa]; simp only [List.cons_append]; exact lstripBy_id ha
        rw [hl', rstripBy_append_keep (x ++ (s1 ++ 44 :: s2)) hry, ← hyr]
    rcases hw with hw | hw
    · simp [Gen.C01.teChunked] at hw
      rcases hw with rfl | rfl | rfl | rfl
      · exact single _ rfl (by decide) (by decide)
      · exact double _ _ _ _ _ _ rfl rfl (by decide) rfl rfl (by decide) (by decide)
      · exact double _ _ _ _ _ _ rfl rfl (by decide) rfl rfl (by decide) (by decide)
      · exact double _ _ _ _ _ _ rfl rfl (by decide) rfl rfl (by decide) (by decide)
    · simp [Gen.C01.teOther] at hw
      rcases hw with rfl | rfl | rfl | rfl <;> exact single _ rfl (by decide) (by decide)
  refine ⟨fun hm => hv.1 (lf_mem_lower.mpr hm), ?_⟩
  have h1 : asciiLower (stripBy isOws t) = asciiLower t := by rw [← stripBy_lower]; exact hv.2
  have hlen : (stripBy isOws t).length = t.length := by
    have := congrArg List.length h1
    simpa [asciiLower] using this
  exact (stripBy_infix isOws t).sublist.eq_of_length hlen

end MitmVerif.C01

namespace MitmVerif.C01
open MitmVerif

/-! ### lines terminated by CR LF or by a bare LF -/

def renderG : List (Bytes × Bool) → Bytes
  | [] => []
  | (l, b) :: rest => l ++ sepOf b ++ renderG rest

theorem takeLine_lf {l : Bytes} (h : cleanLine l) (rest : Bytes) :
    Ref.takeLine (l ++ 10 :: rest) = some (.ok l, rest) := by
  induction l with
  | nil => simp [Ref.takeLine]
  | cons c cs ih =>
    have hc13 : c ≠ 13 := fun e => h.1 (by simp [e])
    have hc10 : c ≠ 10 := fun e => h.2 (by simp [e])
    have ih' := ih ⟨fun e => h.1 (by simp [e]), fun e => h.2 (by simp [e])⟩
    simp [Ref.takeLine, hc13, hc10, ih']

theorem headLines_renderG : ∀ (ls : List (Bytes × Bool)) (f : Nat) (tail : Bytes),
    (∀ lt ∈ ls, cleanLine lt.1 ∧ lt.1 ≠ []) → ls.length < f →
    Ref.headLines f (renderG ls ++ crlf ++ tail) = .ok (ls.map (·.1), tail)
  | [], f, tail, _, hf => by
    cases f with
    | zero => omega
    | succ f => simp [renderG, Ref.headLines, crlf, Ref.takeLine]
  | (l, b) :: ls, f, tail, h, hf => by
    cases f with
    | zero => omega
    | succ f =>
      have hl := h (l, b) (by simp)
      have ih := headLines_renderG ls f tail (fun x hx => h x (by simp [hx])) (by simp at hf; omega)
      have hne : l.isEmpty = false := by cases l <;> simp at hl ⊢
      have ht : Ref.takeLine (renderG ((l, b) :: ls) ++ crlf ++ tail) = some (.ok l, renderG ls ++ crlf ++ tail) := by
        cases b with
        | true =>
          have := takeLine_clean hl.1 (renderG ls ++ crlf ++ tail)
          simpa [renderG, sepOf, List.append_assoc] using this
        | false =>
          have := takeLine_lf hl.1 (renderG ls ++ crlf ++ tail)
          simpa [renderG, sepOf, List.append_assoc] using this
      simp only [Ref.headLines, ht, hne, Bool.false_eq_true, ↓reduceIte, ih, List.map_cons]

theorem renderG_length (ls : List (Bytes × Bool)) : ls.length ≤ (renderG ls).length := by
  induction ls with
  | nil => simp [renderG]
  | cons x xs ih =>
    obtain ⟨l, b⟩ := x
    cases b <;> simp [renderG, sepOf] <;> omega

theorem renderG_append (a b : List (Bytes × Bool)) : renderG (a ++ b) = renderG a ++ renderG b := by
  induction a with
  | nil => rfl
  | cons x xs ih => obtain ⟨l, t⟩ := x; simp [renderG, ih, List.append_assoc]

/-- the lines of `cur ++ continuations`, each with its terminator; the last one ends with CR LF -/
def tl : Bytes → List (Bool × Bytes) → List (Bytes × Bool)
  | cur, [] => [(cur, true)]
  | cur, (b, q) :: rest => (cur, b) :: tl q rest

theorem renderG_tl : ∀ (qs : List (Bool × Bytes)) (cur : Bytes), renderG (tl cur qs) = joinG cur qs ++ crlf
  | [], cur => by simp [tl, renderG, joinG, sepOf, crlf]
  | (b, q) :: rest, cur => by
    have ih := renderG_tl rest q
    simp only [tl, renderG, ih, joinG, List.flatMap_cons, List.append_assoc]

theorem tl_fst : ∀ (qs : List (Bool × Bytes)) (cur : Bytes), (tl cur qs).map (·.1) = cur :: qs.map (·.2)
  | [], cur => rfl
  | (b, q) :: rest, cur => by simp [tl, tl_fst rest q]

/-! ### `Ref.unfold` of a value given by its parts -/

def sp : Bytes → List (Bool × Bytes) → List Bytes
  | cur, [] => [cur]
  | cur, (b, q) :: rest => (if b then cur ++ [13] else cur) :: sp q rest

theorem splitOn_joinG : ∀ (qs : List (Bool × Bytes)) (cur : Bytes), (10 : UInt8) ∉ cur → (∀ bq ∈ qs, (10 : UInt8) ∉ bq.2) →
    splitOn 10 (joinG cur qs) = sp cur qs
  | [], cur, hc, _ => by simp [joinG, sp, splitOn_no_sep hc]
  | (b, q) :: rest, cur, hc, h => by
    have ih := splitOn_joinG rest q (h (b, q) (by simp)) (fun x hx => h x (by simp [hx]))
    have hj : joinG cur ((b, q) :: rest) = (if b then cur ++ [13] else cur) ++ 10 :: joinG q rest := by
      cases b <;> simp [joinG, sepOf, List.append_assoc]
    have hno : (10 : UInt8) ∉ (if b then cur ++ [13] else cur) := by cases b <;> simp [hc]
    rw [hj, splitOn_append_sep hno, ih]; rfl

theorem stripOneCR_clean {q : Bytes} (h : (13 : UInt8) ∉ q) : stripOneCR q = q := by
  unfold stripOneCR
  cases hl : q.getLast? with
  | none => rfl
  | some c =>
    have : c ≠ 13 := fun e => h (e ▸ List.mem_of_getLast? hl)
    simp [this]

theorem sp_undo : ∀ (qs : List (Bool × Bytes)) (cur : Bytes), (13 : UInt8) ∉ cur → (∀ bq ∈ qs, (13 : UInt8) ∉ bq.2) →
    ∃ l, (sp cur qs).getLast? = some l ∧ (sp cur qs).dropLast.map stripOneCR ++ [l] = cur :: qs.map (·.2)
  | [], cur, _, _ => ⟨cur, by simp [sp]⟩
  | (b, q) :: rest, cur, hc, h => by
    obtain ⟨l, h1, h2⟩ := sp_undo rest q (h (b, q) (by simp)) (fun x hx => h x (by simp [hx]))
    have hne : sp q rest ≠ [] := by cases rest with | nil => simp [sp] | cons x xs => obtain ⟨b', q'⟩ := x; simp [sp]
    refine ⟨l, ?_, ?_⟩
    · simp only [sp]; rw [List.getLast?_cons_of_ne_nil hne]; exact h1
    · simp only [sp]
      rw [List.dropLast_cons_of_ne_nil hne]
      have : stripOneCR (if b then cur ++ [13] else cur) = cur := by
        cases b
        · simpa using stripOneCR_clean hc
        · simpa using stripOneCR_append cur
      simp only [List.map_cons, this, List.cons_append]
      rw [h2]

theorem unfold_joinG (q0 : Bytes) (qs : List (Bool × Bytes)) (h0 : cleanLine q0) (h : ∀ bq ∈ qs, cleanLine bq.2) :
    Ref.unfold (joinG q0 qs) = foldVal q0 (qs.map (·.2)) := by
  obtain ⟨l, h1, h2⟩ := sp_undo qs q0 h0.1 (fun bq hbq => (h bq hbq).1)
  unfold Ref.unfold
  simp only [splitOn_joinG qs q0 h0.2 (fun bq hbq => (h bq hbq).2), h1, h2]
  simp only [List.map_cons, foldVal]
  rw [List.foldl_map]
  rfl

/-! ### general folded fields -/

structure GField where
  name : Bytes
  q0 : Bytes
  qs : List (Bool × Bytes)

namespace GField
def value (g : GField) : Bytes := joinG g.q0 g.qs
def field (g : GField) : Field := (g.name, g.value)
def ufield (g : GField) : Field := (g.name, Ref.unfold g.value)
def tlines (g : GField) : List (Bytes × Bool) := tl (g.name ++ colonSp ++ g.q0) g.qs
def ok (g : GField) : Prop := PartsOk g.q0 g.qs
/-- the decomposition of a recorded field -/
def ofField (f : Field) : GField := ⟨f.1, (dec f.2).1, (dec f.2).2⟩
end GField

theorem ofField_field (f : Field) : (GField.ofField f).field = f := by
  simp [GField.ofField, GField.field, GField.value, joinG_dec]

theorem ofField_ok (f : Field) (h : valueOk f.2 = true) : (GField.ofField f).ok := (dec_ok f.2 h).1

theorem assembleFields_G (gs : List GField) :
    assembleFields (gs.map GField.field) = renderG (gs.flatMap GField.tlines) := by
  induction gs with
  | nil => rfl
  | cons g rest ih =>
    simp only [List.map_cons, List.flatMap_cons, renderG_append, GField.field, assembleFields, ih, GField.tlines, renderG_tl]
    simp [GField.value, joinG, List.append_assoc]

theorem fieldsAux_G : ∀ (gs : List GField) (acc : List Field),
    (∀ g ∈ gs, isToken g.name = true ∧ g.ok) →
    Ref.fieldsAux ((gs.flatMap GField.tlines).map (·.1)) acc = .ok (acc.reverse ++ gs.map GField.ufield)
  | [], acc, _ => by simp [Ref.fieldsAux]
  | g :: rest, acc, h => by
    obtain ⟨hn, hq0, _, hqs⟩ := h g (by simp)
    have ih := fieldsAux_G rest (g.ufield :: acc) (fun x hx => h x (by simp [hx]))
    have hws : ∀ q ∈ g.qs.map (·.2), startsWs q := by
      intro q hq
      obtain ⟨bq, hbq, rfl⟩ := List.mem_map.mp hq
      exact (hqs bq hbq).2.2
    simp only [List.flatMap_cons, List.map_append, GField.tlines, tl_fst]
    rw [List.cons_append, fieldsAux_first g.name g.q0 _ acc hn, fieldsAux_cont _ _ g.name _ acc hws]
    have hu : Ref.unfold g.value = (g.qs.map (·.2)).foldl foldStep (stripBy isOws g.q0) := by
      have := unfold_joinG g.q0 g.qs hq0 (fun bq hbq => (hqs bq hbq).1)
      simpa [GField.value, foldVal] using this
    rw [← hu]
    simp only [GField.tlines, GField.ufield] at ih ⊢
    rw [ih]; simp [GField.ufield]

theorem tlines_clean (g : GField) (hn : isToken g.name = true) (hok : g.ok) :
    ∀ lt ∈ g.tlines, cleanLine lt.1 ∧ lt.1 ≠ [] := by
  obtain ⟨hq0, _, hqs⟩ := hok
  obtain ⟨_, h13, h10, hne, _⟩ := token_no_colon hn
  have key : ∀ l ∈ (g.tlines).map (·.1), cleanLine l ∧ l ≠ [] := by
    intro l hl
    simp only [GField.tlines, tl_fst, List.mem_cons, List.mem_map] at hl
    rcases hl with rfl | ⟨bq, hbq, rfl⟩
    · refine ⟨⟨?_, ?_⟩, ?_⟩
      · simp [colonSp, h13, hq0.1]
      · simp [colonSp, h10, hq0.2]
      · cases hnm : g.name with
        | nil => exact absurd hnm hne
        | cons c cs => simp
    · obtain ⟨hc, _, c, t, he, _⟩ := hqs bq hbq
      exact ⟨hc, by rw [he]; simp⟩
  intro lt hlt
  exact key lt.1 (List.mem_map_of_mem hlt)

theorem gufield_no_nul (g : GField) (hok : g.ok) : (0 : UInt8) ∉ g.ufield.2 := by
  obtain ⟨hq0, hz, hqs⟩ := hok
  simp only [GField.ufield, GField.value, unfold_joinG g.q0 g.qs hq0 (fun bq hbq => (hqs bq hbq).1), foldVal]
  apply no_nul_foldVal _ _ (no_nul_strip hz)
  intro q hq
  obtain ⟨bq, hbq, rfl⟩ := List.mem_map.mp hq
  exact (hqs bq hbq).2.1

/-- the framing fields are plain: no continuation, no surrounding OWS -/
def FramingFieldsPlainG (gs : List GField) : Prop :=
  ∀ g ∈ gs, (asciiLower g.name = sTE ∨ asciiLower g.name = sCL) → g.qs = [] ∧ stripBy isOws g.q0 = g.q0

theorem getAll_G (gs : List GField) (n : Bytes) (hn : n = sTE ∨ n = sCL) (hok : ∀ g ∈ gs, g.ok)
    (hfp : FramingFieldsPlainG gs) :
    getAll (gs.map GField.ufield) n = getAll (gs.map GField.field) n := by
  induction gs with
  | nil => rfl
  | cons g rest ih =>
    have ih' := ih (fun x hx => hok x (by simp [hx])) (fun x hx => hfp x (by simp [hx]))
    simp only [getAll, List.map_cons, List.filter_cons, GField.ufield, GField.field] at ih' ⊢
    by_cases hm : asciiLower g.name = n
    · have hpl := hfp g (by simp) (by rcases hn with rfl | rfl <;> simp [hm])
      have hq0 := (hok g (by simp)).1
      have hv : Ref.unfold g.value = g.value := by
        have hs : splitOn 10 g.q0 = [g.q0] := splitOn_no_sep hq0.2
        simp [GField.value, joinG, hpl.1, Ref.unfold, hs, hpl.2]
      simp only [hm, decide_true, ↓reduceIte, List.map_cons, hv]
      rw [ih']
    · simp only [hm, decide_false, Bool.false_eq_true, ↓reduceIte]
      exact ih'

theorem framing_G (gs : List GField) (hok : ∀ g ∈ gs, g.ok) (hfp : FramingFieldsPlainG gs)
    (v : Bytes) (k : Kind) (m : Bytes) :
    Ref.framing (gs.map GField.ufield) v k m = Ref.framing (gs.map GField.field) v k m := by
  unfold Ref.framing
  rw [getAll_G gs sTE (Or.inl rfl) hok hfp, getAll_G gs sCL (Or.inr rfl) hok hfp]

theorem gvalue_plain (g : GField) (h13 : (13 : UInt8) ∉ g.value) (h10 : (10 : UInt8) ∉ g.value)
    (hs : stripBy isOws g.value = g.value) : g.qs = [] ∧ stripBy isOws g.q0 = g.q0 := by
  cases hq : g.qs with
  | nil => simp [GField.value, joinG, hq] at hs; exact ⟨rfl, hs⟩
  | cons bq r =>
    exfalso
    obtain ⟨b, q⟩ := bq
    cases b
    · apply h10; simp [GField.value, joinG, hq, sepOf]
    · apply h13; simp [GField.value, joinG, hq, sepOf]

end MitmVerif.C01
