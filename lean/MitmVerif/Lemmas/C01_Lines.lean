/- both readers on the same head lines: what `_read_headers` records for a list of clean lines is, field by field, a folded
   field (`PField`), and the reference reader reads the same lines as the unfolded fields -/
import MitmVerif.Lemmas.C01_Fold
namespace MitmVerif.C01
open MitmVerif

/-- `_read_headers` on lines, producing the fields with the parts of their values (newest first in `acc`) -/
def groupAux : List Bytes → List PField → Option (List PField)
  | [], acc => some acc.reverse
  | line :: rest, acc =>
    match line with
    | [] => none
    | c :: _ =>
      if c = 32 ∨ c = 9 then
        match acc with
        | [] => none
        | pf :: acc' => groupAux rest (⟨pf.name, pf.q0, pf.qs ++ [32 :: stripBy isOwsNl line]⟩ :: acc')
      else
        match splitOn 58 line with
        | name :: p :: ps =>
          if name.isEmpty then none
          else groupAux rest (⟨name, stripBy isOwsNl (joinWith [58] (p :: ps)), []⟩ :: acc)
        | _ => none

theorem joinWith_snoc (sep : Bytes) : ∀ (xs : List Bytes) (x y : Bytes),
    joinWith sep (x :: (xs ++ [y])) = joinWith sep (x :: xs) ++ sep ++ y
  | [], x, y => by simp [joinWith]
  | z :: zs, x, y => by
    have ih := joinWith_snoc sep zs z y
    simp only [List.cons_append] at ih ⊢
    simp only [joinWith, ih, List.append_assoc]

theorem lstripBy_head_not {f : UInt8 → Bool} : ∀ (l : Bytes) (y : UInt8) (ys : Bytes), lstripBy f l = y :: ys → f y = false
  | [], y, ys, h => by simp [lstripBy] at h
  | z :: zs, y, ys, h => by
    simp only [lstripBy] at h
    split at h
    · exact lstripBy_head_not zs y ys h
    · rename_i hz; simp at h; rw [← h.1]; simpa using hz

theorem rstripBy_idem {f : UInt8 → Bool} : ∀ (l : Bytes), rstripBy f (rstripBy f l) = rstripBy f l
  | [] => rfl
  | z :: zs => by
    have ih := rstripBy_idem (f := f) zs
    simp only [rstripBy]
    cases hr : rstripBy f zs with
    | nil =>
      by_cases hz : f z = true
      · simp [hz, rstripBy]
      · simp [hz, rstripBy]
    | cons r rs =>
      rw [hr] at ih
      show rstripBy f (z :: r :: rs) = z :: r :: rs
      rw [rstripBy, ih]

theorem stripBy_idem (f : UInt8 → Bool) (l : Bytes) : stripBy f (stripBy f l) = stripBy f l := by
  unfold stripBy
  cases hx : rstripBy f (lstripBy f l) with
  | nil => rfl
  | cons a x' =>
    have hhead : f a = false := by
      obtain ⟨b', hb'⟩ := rstripBy_head hx
      exact lstripBy_head_not l a b' hb'
    rw [lstripBy_id hhead, ← hx, rstripBy_idem]

/-- the recorded fields are the `field`s of the grouped ones -/
theorem readHeadersAux_group : ∀ (ls : List Bytes) (acc : List PField),
    readHeadersAux ls (acc.map PField.field) = (groupAux ls acc).map (·.map PField.field)
  | [], acc => by simp [readHeadersAux, groupAux, List.map_reverse]
  | line :: rest, acc => by
    cases line with
    | nil => simp [readHeadersAux, groupAux]
    | cons c t =>
      simp only [readHeadersAux, groupAux]
      split
      · cases acc with
        | nil => simp
        | cons pf acc' =>
          have ih := readHeadersAux_group rest (⟨pf.name, pf.q0, pf.qs ++ [32 :: stripBy isOwsNl (c :: t)]⟩ :: acc')
          simp only [List.map_cons, PField.field, PField.value] at ih ⊢
          rw [← ih]
          congr 2
          rw [joinWith_snoc]
          simp [crlf, foldSep, List.append_assoc]
      · cases hs : splitOn 58 (c :: t) with
        | nil => simp
        | cons name more =>
          cases more with
          | nil => simp
          | cons p ps =>
            simp only
            split
            · rfl
            · have ih := readHeadersAux_group rest (⟨name, stripBy isOwsNl (joinWith [58] (p :: ps)), []⟩ :: acc)
              simp only [List.map_cons, PField.field, PField.value, joinWith] at ih ⊢
              exact ih

theorem strip_nl_eq_ows_l : ∀ {l : Bytes}, cleanLine l → lstripBy isOwsNl l = lstripBy isOws l
  | [], _ => rfl
  | c :: t, h => by
    have hc13 : c ≠ 13 := fun e => h.1 (by simp [e])
    have hc10 : c ≠ 10 := fun e => h.2 (by simp [e])
    have ih := strip_nl_eq_ows_l (l := t) ⟨fun e => h.1 (by simp [e]), fun e => h.2 (by simp [e])⟩
    have : isOwsNl c = isOws c := by simp [isOwsNl, isOws, hc13, hc10]
    simp only [lstripBy, this, ih]

theorem strip_nl_eq_ows_r : ∀ {l : Bytes}, cleanLine l → rstripBy isOwsNl l = rstripBy isOws l
  | [], _ => rfl
  | c :: t, h => by
    have hc13 : c ≠ 13 := fun e => h.1 (by simp [e])
    have hc10 : c ≠ 10 := fun e => h.2 (by simp [e])
    have ih := strip_nl_eq_ows_r (l := t) ⟨fun e => h.1 (by simp [e]), fun e => h.2 (by simp [e])⟩
    have : isOwsNl c = isOws c := by simp [isOwsNl, isOws, hc13, hc10]
    simp only [rstripBy, this, ih]

theorem clean_lstrip {f : UInt8 → Bool} {l : Bytes} (h : cleanLine l) : cleanLine (lstripBy f l) :=
  ⟨lstripBy_not_mem h.1, lstripBy_not_mem h.2⟩

theorem clean_strip {f : UInt8 → Bool} {l : Bytes} (h : cleanLine l) : cleanLine (stripBy f l) := by
  unfold stripBy
  exact ⟨rstripBy_not_mem (lstripBy_not_mem h.1), rstripBy_not_mem (lstripBy_not_mem h.2)⟩

theorem strip_nl_eq_ows {l : Bytes} (h : cleanLine l) : stripBy isOwsNl l = stripBy isOws l := by
  unfold stripBy
  rw [strip_nl_eq_ows_l h, strip_nl_eq_ows_r (clean_lstrip h)]

/-- cleanliness of the parts (what `unfold_join` needs) -/
def PField.clean (pf : PField) : Prop := cleanLine pf.q0 ∧ ∀ q ∈ pf.qs, cleanLine q

theorem ufield_eq (pf : PField) (h : pf.clean) : pf.ufield = (pf.name, foldVal pf.q0 pf.qs) := by
  have hlf : ∀ p ∈ pf.q0 :: pf.qs, (10 : UInt8) ∉ p := by
    intro p hp; simp at hp
    rcases hp with rfl | hp
    · exact h.1.2
    · exact (h.2 p hp).2
  simp [PField.ufield, PField.value, unfold_join pf.q0 pf.qs hlf]

theorem clean_of_mem_splitOn {sep : UInt8} {b p : Bytes} (h : cleanLine b) (hp : p ∈ splitOn sep b) : cleanLine p := by
  have := splitOn_piece_infix sep b p hp
  exact ⟨fun hm => h.1 (this.subset hm), fun hm => h.2 (this.subset hm)⟩

theorem clean_joinWith (sep : UInt8) (hs : sep ≠ 13 ∧ sep ≠ 10) : ∀ (ps : List Bytes), (∀ p ∈ ps, cleanLine p) →
    cleanLine (joinWith [sep] ps)
  | [], _ => ⟨by simp [joinWith], by simp [joinWith]⟩
  | [x], h => by simpa [joinWith] using h x (by simp)
  | x :: y :: r, h => by
    have hx := h x (by simp)
    have ih := clean_joinWith sep hs (y :: r) (fun p hp => h p (by simp [hp]))
    simp only [joinWith, cleanLine, List.mem_append, List.mem_singleton, not_or] at ih ⊢
    exact ⟨⟨⟨hx.1, fun e => hs.1 e.symm⟩, ih.1⟩, ⟨⟨hx.2, fun e => hs.2 e.symm⟩, ih.2⟩⟩

/-- **both readers on the same clean lines**: if `_read_headers` succeeds, either the reference reader stops at a field name
    that is not a token (and that name is among the recorded fields), or it reads exactly the unfolded recorded fields -/
theorem fieldsAux_group : ∀ (ls : List Bytes) (acc : List PField) (pfs : List PField),
    (∀ l ∈ ls, cleanLine l) → (∀ pf ∈ acc, pf.clean) → groupAux ls acc = some pfs →
    (∀ pf ∈ pfs, pf.clean) ∧
    ((∃ pf ∈ pfs, isToken pf.name = false ∧ Ref.fieldsAux ls (acc.map PField.ufield) = .error (.ambiguous Ref.cBadName)) ∨
     Ref.fieldsAux ls (acc.map PField.ufield) = .ok (pfs.map PField.ufield))
  | [], acc, pfs, _, hacc, hg => by
    simp only [groupAux, Option.some.injEq] at hg
    subst hg
    refine ⟨fun pf hpf => hacc pf (by simpa using hpf), Or.inr ?_⟩
    simp [Ref.fieldsAux, List.map_reverse]
  | line :: rest, acc, pfs, hl, hacc, hg => by
    have hline := hl line (by simp)
    have hrest : ∀ l ∈ rest, cleanLine l := fun l h => hl l (by simp [h])
    cases line with
    | nil => simp [groupAux] at hg
    | cons c t =>
      simp only [groupAux] at hg
      simp only [Ref.fieldsAux]
      split at hg
      · rename_i hws
        cases acc with
        | nil => simp at hg
        | cons pf acc' =>
          simp only at hg
          have hpfc := hacc pf (by simp)
          have hq : cleanLine (32 :: stripBy isOwsNl (c :: t)) := by
            have := clean_strip (f := isOwsNl) hline
            exact ⟨by simp [this.1], by simp [this.2]⟩
          have hnewc : (⟨pf.name, pf.q0, pf.qs ++ [32 :: stripBy isOwsNl (c :: t)]⟩ : PField).clean := by
            refine ⟨hpfc.1, ?_⟩
            intro q hq'
            simp at hq'
            rcases hq' with hq' | rfl
            · exact hpfc.2 q hq'
            · exact hq
          have ih := fieldsAux_group rest (⟨pf.name, pf.q0, pf.qs ++ [32 :: stripBy isOwsNl (c :: t)]⟩ :: acc') pfs hrest
            (by intro x hx; simp at hx; rcases hx with rfl | hx; exact hnewc; exact hacc x (by simp [hx])) hg
          -- the reference reader's step equals the unfolded extended field
          have hstep : (pf.name, stripBy isOws ((pf.ufield).2 ++ [32] ++ stripBy isOws (c :: t))) =
              (⟨pf.name, pf.q0, pf.qs ++ [32 :: stripBy isOwsNl (c :: t)]⟩ : PField).ufield := by
            rw [ufield_eq _ hnewc, ufield_eq pf hpfc]
            have hq' : stripBy isOws (32 :: stripBy isOwsNl (c :: t)) = stripBy isOws (c :: t) := by
              rw [stripBy_cons_ws (c := 32) (by decide), strip_nl_eq_ows hline, stripBy_idem]
            simp only [foldVal, List.foldl_append, List.foldl_cons, List.foldl_nil, foldStep, hq']
          simp only [List.map_cons, hws, ↓reduceIte]
          have hacc_eq : Ref.fieldsAux rest ((pf.name, stripBy isOws (pf.ufield.2 ++ [32] ++ stripBy isOws (c :: t))) :: acc'.map PField.ufield) =
              Ref.fieldsAux rest ((⟨pf.name, pf.q0, pf.qs ++ [32 :: stripBy isOwsNl (c :: t)]⟩ : PField).ufield :: acc'.map PField.ufield) := by
            rw [hstep]
          have : (pf.ufield).1 = pf.name := rfl
          simp only [PField.ufield] at hacc_eq ⊢
          simp only [List.map_cons, PField.ufield] at ih
          rw [hacc_eq]
          exact ih
      · rename_i hws
        cases hs : splitOn 58 (c :: t) with
        | nil => simp [hs] at hg
        | cons name more =>
          cases more with
          | nil => simp [hs] at hg
          | cons p ps =>
            simp only [hs] at hg
            split at hg
            · simp at hg
            · rename_i hne
              have hpieces : ∀ x ∈ name :: p :: ps, cleanLine x := by
                intro x hx; exact clean_of_mem_splitOn hline (by rw [hs]; exact hx)
              have hval : cleanLine (stripBy isOwsNl (joinWith [58] (p :: ps))) :=
                clean_strip (clean_joinWith 58 ⟨by decide, by decide⟩ (p :: ps) (fun x hx => hpieces x (by simp [hx])))
              have hnewc : (⟨name, stripBy isOwsNl (joinWith [58] (p :: ps)), []⟩ : PField).clean := ⟨hval, by simp⟩
              have ih := fieldsAux_group rest (⟨name, stripBy isOwsNl (joinWith [58] (p :: ps)), []⟩ :: acc) pfs hrest
                (by intro x hx; simp at hx; rcases hx with rfl | hx; exact hnewc; exact hacc x hx) hg
              simp only [hws, ↓reduceIte]
              by_cases htok : isToken name = true
              · simp only [htok, Bool.not_true, Bool.false_eq_true, ↓reduceIte]
                have hu : (name, stripBy isOws (joinWith [58] (p :: ps))) =
                    (⟨name, stripBy isOwsNl (joinWith [58] (p :: ps)), []⟩ : PField).ufield := by
                  rw [ufield_eq _ hnewc]
                  simp only [foldVal, List.foldl_nil]
                  have hj := clean_joinWith 58 ⟨by decide, by decide⟩ (p :: ps) (fun x hx => hpieces x (by simp [hx]))
                  rw [strip_nl_eq_ows hj]
                  rw [stripBy_idem]
                rw [hu]
                simp only [List.map_cons] at ih
                exact ih
              · have htok' : isToken name = false := by simpa using htok
                refine ⟨ih.1, Or.inl ?_⟩
                simp only [htok', Bool.not_false, ↓reduceIte]
                -- the name is among the recorded fields
                have hmem : ∀ (ls : List Bytes) (acc : List PField) (pfs : List PField), groupAux ls acc = some pfs → ∀ pf ∈ acc, ∃ pf' ∈ pfs, pf'.name = pf.name := by
                  intro ls
                  induction ls with
                  | nil =>
                    intro acc pfs h pf hpf
                    simp [groupAux] at h; subst h
                    exact ⟨pf, by simpa using hpf, rfl⟩
                  | cons l' rest' ihl =>
                    intro acc pfs h pf hpf
                    cases l' with
                    | nil => simp [groupAux] at h
                    | cons c' t' =>
                      simp only [groupAux] at h
                      split at h
                      · cases acc with
                        | nil => simp at hpf
                        | cons a acc' =>
                          simp only at h
                          simp at hpf
                          rcases hpf with rfl | hpf
                          · obtain ⟨x, hx, hn⟩ := ihl _ _ h ⟨pf.name, pf.q0, pf.qs ++ [32 :: stripBy isOwsNl (c' :: t')]⟩ (by simp)
                            exact ⟨x, hx, hn⟩
                          · exact ihl _ _ h pf (by simp [hpf])
                      · cases hs' : splitOn 58 (c' :: t') with
                        | nil => simp [hs'] at h
                        | cons n' m' =>
                          cases m' with
                          | nil => simp [hs'] at h
                          | cons p' ps' =>
                            simp only [hs'] at h
                            split at h
                            · simp at h
                            · exact ihl _ _ h pf (by simp [hpf])
                obtain ⟨x, hx, hn⟩ := hmem rest _ pfs hg ⟨name, stripBy isOwsNl (joinWith [58] (p :: ps)), []⟩ (by simp)
                exact ⟨x, hx, by rw [hn]; exact htok', trivial⟩

end MitmVerif.C01

namespace MitmVerif.C01
open MitmVerif

theorem group_names_clean : ∀ (ls : List Bytes) (acc pfs : List PField), (∀ l ∈ ls, cleanLine l) →
    (∀ pf ∈ acc, (10 : UInt8) ∉ pf.name) → groupAux ls acc = some pfs → ∀ pf ∈ pfs, (10 : UInt8) ∉ pf.name
  | [], acc, pfs, _, ha, hg => by
    simp [groupAux] at hg; subst hg
    intro pf hpf; exact ha pf (by simpa using hpf)
  | line :: rest, acc, pfs, hl, ha, hg => by
    have hline := hl line (by simp)
    have hrest : ∀ l ∈ rest, cleanLine l := fun l h => hl l (by simp [h])
    cases line with
    | nil => simp [groupAux] at hg
    | cons c t =>
      simp only [groupAux] at hg
      split at hg
      · cases acc with
        | nil => simp at hg
        | cons a acc' =>
          simp only at hg
          exact group_names_clean rest _ pfs hrest (by
            intro x hx; simp at hx
            rcases hx with rfl | hx
            · exact ha a (by simp)
            · exact ha x (by simp [hx])) hg
      · cases hs : splitOn 58 (c :: t) with
        | nil => simp [hs] at hg
        | cons name more =>
          cases more with
          | nil => simp [hs] at hg
          | cons p ps =>
            simp only [hs] at hg
            split at hg
            · simp at hg
            · exact group_names_clean rest _ pfs hrest (by
                intro x hx; simp at hx
                rcases hx with rfl | hx
                · exact (clean_of_mem_splitOn hline (by rw [hs]; simp)).2
                · exact ha x hx) hg

theorem getAll_fold' (pfs : List PField) (n : Bytes) (hn : n = sTE ∨ n = sCL) (hok : ∀ pf ∈ pfs, cleanLine pf.q0)
    (hfp : FramingFieldsPlain pfs) :
    getAll (pfs.map PField.ufield) n = getAll (pfs.map PField.field) n := by
  induction pfs with
  | nil => rfl
  | cons pf rest ih =>
    have ih' := ih (fun x hx => hok x (by simp [hx])) (fun x hx => hfp x (by simp [hx]))
    simp only [getAll, List.map_cons, List.filter_cons, PField.ufield, PField.field] at ih' ⊢
    by_cases hm : asciiLower pf.name = n
    · have hpl := hfp pf (by simp) (by rcases hn with rfl | rfl <;> simp [hm])
      have hq0 := hok pf (by simp)
      have hv : Ref.unfold pf.value = pf.value := by
        have hs : splitOn 10 pf.q0 = [pf.q0] := splitOn_no_sep hq0.2
        simp [PField.value, hpl.1, joinWith, Ref.unfold, hs, hpl.2]
      simp only [hm, decide_true, ↓reduceIte, List.map_cons, hv]
      rw [ih']
    · simp only [hm, decide_false, Bool.false_eq_true, ↓reduceIte]
      exact ih'

theorem framing_fold' (pfs : List PField) (hok : ∀ pf ∈ pfs, cleanLine pf.q0) (hfp : FramingFieldsPlain pfs)
    (v : Bytes) (k : Kind) (m : Bytes) :
    Ref.framing (pfs.map PField.ufield) v k m = Ref.framing (pfs.map PField.field) v k m := by
  unfold Ref.framing
  rw [getAll_fold' pfs sTE (Or.inl rfl) hok hfp, getAll_fold' pfs sCL (Or.inr rfl) hok hfp]

end MitmVerif.C01
