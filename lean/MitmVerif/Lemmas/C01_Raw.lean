/- raw bytes: whenever the strict reference reader can split a head into lines, h11's `maybe_extract_lines` (as used by
   mitmproxy) splits it into the very same lines -/
import MitmVerif.Lemmas.C01_Lines
import MitmVerif.Lemmas.C01_FoldG2
namespace MitmVerif.C01
open MitmVerif

theorem takeLine_decomp : ∀ (b l r : Bytes), Ref.takeLine b = some (.ok l, r) →
    cleanLine l ∧ ∃ t : Bool, b = l ++ sepOf t ++ r
  | [], l, r, h => by simp [Ref.takeLine] at h
  | c :: rest, l, r, h => by
    simp only [Ref.takeLine] at h
    split at h
    · rename_i hc
      simp at h; obtain ⟨rfl, rfl⟩ := h
      exact ⟨⟨by simp, by simp⟩, false, by simp [sepOf, hc]⟩
    · rename_i hc10
      split at h
      · rename_i hc13
        cases rest with
        | nil => simp at h
        | cons d rest' =>
          simp only at h
          split at h
          · rename_i hd
            simp at h; obtain ⟨rfl, rfl⟩ := h
            exact ⟨⟨by simp, by simp⟩, true, by simp [sepOf, hc13, hd]⟩
          · cases ht : Ref.takeLine (d :: rest') with
            | none => simp [ht] at h
            | some x => simp [ht] at h
      · rename_i hc13
        cases ht : Ref.takeLine rest with
        | none => simp [ht] at h
        | some x =>
          obtain ⟨res, r'⟩ := x
          cases res with
          | error e => simp [ht] at h
          | ok l' =>
            simp [ht] at h
            obtain ⟨rfl, rfl⟩ := h
            obtain ⟨hcl, t, hb⟩ := takeLine_decomp rest l' r' ht
            refine ⟨⟨?_, ?_⟩, t, by simp [hb, List.append_assoc]⟩
            · simp only [List.mem_cons, not_or]; exact ⟨Ne.symm hc13, hcl.1⟩
            · simp only [List.mem_cons, not_or]; exact ⟨Ne.symm hc10, hcl.2⟩

/-- the wire form of a head that the reference reader can split -/
theorem headLines_wire : ∀ (f : Nat) (b : Bytes) (ls : List Bytes) (rest : Bytes), Ref.headLines f b = .ok (ls, rest) →
    ∃ (tls : List (Bytes × Bool)) (e : Bool), tls.map (·.1) = ls ∧ (∀ lt ∈ tls, cleanLine lt.1 ∧ lt.1 ≠ []) ∧
      b = renderG tls ++ sepOf e ++ rest
  | 0, b, ls, rest, h => by simp [Ref.headLines] at h
  | f + 1, b, ls, rest, h => by
    simp only [Ref.headLines] at h
    cases ht : Ref.takeLine b with
    | none => simp [ht] at h
    | some x =>
      obtain ⟨res, r⟩ := x
      cases res with
      | error e => simp [ht] at h
      | ok l =>
        simp only [ht] at h
        obtain ⟨hcl, t, hb⟩ := takeLine_decomp b l r ht
        split at h
        · rename_i hemp
          simp at h; obtain ⟨rfl, rfl⟩ := h
          have : l = [] := by cases l <;> simp at hemp ⊢
          subst this
          exact ⟨[], t, rfl, by simp, by simpa [renderG] using hb⟩
        · rename_i hne
          cases hr : Ref.headLines f r with
          | error e => simp [hr] at h
          | ok p =>
            obtain ⟨ls', rest'⟩ := p
            simp [hr] at h
            obtain ⟨rfl, rfl⟩ := h
            obtain ⟨tls, e, h1, h2, h3⟩ := headLines_wire f r ls' rest' hr
            refine ⟨(l, t) :: tls, e, by simp [h1], ?_, by simp [renderG, hb, h3, List.append_assoc]⟩
            intro lt hlt
            simp at hlt
            rcases hlt with rfl | hlt
            · exact ⟨hcl, by intro e'; simp at e'; simp [e'] at hne⟩
            · exact h2 lt hlt

/-! ### `maybe_extract_lines` on the wire form -/

private theorem blankAt_not_lf {c : UInt8} (s : Bytes) (h : c ≠ 10) : blankAt (c :: s) = none := by
  cases s with
  | nil => rfl
  | cons d ds => simp [blankAt, h]

theorem findBlank_clean : ∀ (l s : Bytes), (10 : UInt8) ∉ l → findBlank (l ++ s) = (findBlank s).map (· + l.length)
  | [], s, _ => by cases h : findBlank s <;> simp [h]
  | c :: t, s, h => by
    have hc : c ≠ 10 := fun e => h (by simp [e])
    have ih := findBlank_clean t s (fun e => h (by simp [e]))
    simp only [List.cons_append, findBlank, blankAt_not_lf _ hc, ih]
    cases findBlank s <;> simp; omega

/-- after a line terminator that is followed by a non-empty clean line nothing matches -/
theorem findBlank_sep (t : Bool) (x : UInt8) (s : Bytes) (hx10 : x ≠ 10) (hx13 : x ≠ 13) :
    findBlank (sepOf t ++ x :: s) = (findBlank (x :: s)).map (· + (sepOf t).length) := by
  cases t
  · simp only [sepOf, Bool.false_eq_true, ↓reduceIte, List.cons_append, List.nil_append, findBlank]
    have : blankAt (10 :: x :: s) = none := by simp [blankAt, hx10, hx13]
    rw [this]
    cases findBlank (x :: s) <;> simp
  · simp only [sepOf, ↓reduceIte, List.cons_append, List.nil_append]
    rw [findBlank, blankAt_not_lf _ (by decide), findBlank]
    have : blankAt (10 :: x :: s) = none := by simp [blankAt, hx10, hx13]
    rw [this]
    cases findBlank (x :: s) <;> simp

/-- the terminator of the last line followed by the empty line -/
theorem findBlank_end (t e : Bool) (rest : Bytes) :
    findBlank (sepOf t ++ sepOf e ++ rest) = some ((sepOf t).length + (sepOf e).length) := by
  cases t <;> cases e <;> simp [sepOf, findBlank, blankAt]

theorem findBlank_wire : ∀ (tls : List (Bytes × Bool)) (e : Bool) (rest : Bytes), tls ≠ [] →
    (∀ lt ∈ tls, cleanLine lt.1 ∧ lt.1 ≠ []) →
    findBlank (renderG tls ++ sepOf e ++ rest) = some ((renderG tls).length + (sepOf e).length)
  | [], _, _, h, _ => absurd rfl h
  | [(l, t)], e, rest, _, h => by
    have hl := h (l, t) (by simp)
    have := findBlank_clean l (sepOf t ++ sepOf e ++ rest) hl.1.2
    simp only [renderG, List.append_nil, List.append_assoc] at this ⊢
    rw [this]
    have := findBlank_end t e rest
    simp only [List.append_assoc] at this
    rw [this]; simp; omega
  | (l, t) :: (l2, t2) :: more, e, rest, _, h => by
    have hl := h (l, t) (by simp)
    have hl2 := h (l2, t2) (by simp)
    have ih := findBlank_wire ((l2, t2) :: more) e rest (by simp) (fun x hx => h x (by simp [hx]))
    cases l2 with
    | nil => exact absurd rfl hl2.2
    | cons x xs =>
      have hx10 : x ≠ 10 := fun e' => hl2.1.2 (by simp [e'])
      have hx13 : x ≠ 13 := fun e' => hl2.1.1 (by simp [e'])
      have h1 := findBlank_clean l (sepOf t ++ (renderG ((x :: xs, t2) :: more) ++ sepOf e ++ rest)) hl.1.2
      have h2 := findBlank_sep t x (xs ++ sepOf t2 ++ renderG more ++ sepOf e ++ rest) hx10 hx13
      simp only [renderG, List.append_assoc, List.cons_append] at h1 h2 ih ⊢
      rw [h1, h2, ih]
      simp; omega

theorem stripOneCR_cr : stripOneCR [13] = [] := by decide
theorem stripOneCR_nil : stripOneCR [] = [] := by decide

/-- splitting the extracted head at LF and stripping one CR gives the lines back, plus the two empty strings h11 deletes -/
theorem split_wire : ∀ (tls : List (Bytes × Bool)) (e : Bool), (∀ lt ∈ tls, cleanLine lt.1) →
    (splitOn 10 (renderG tls ++ sepOf e)).map stripOneCR = tls.map (·.1) ++ [[], []]
  | [], e, _ => by cases e <;> simp [renderG, sepOf, splitOn, stripOneCR_cr, stripOneCR_nil]
  | (l, t) :: rest, e, h => by
    have hl := h (l, t) (by simp)
    have ih := split_wire rest e (fun x hx => h x (by simp [hx]))
    have hw : renderG ((l, t) :: rest) ++ sepOf e = (if t then l ++ [13] else l) ++ 10 :: (renderG rest ++ sepOf e) := by
      cases t <;> simp [renderG, sepOf, List.append_assoc]
    have hno : (10 : UInt8) ∉ (if t then l ++ [13] else l) := by cases t <;> simp [hl.2]
    rw [hw, splitOn_append_sep hno]
    simp only [List.map_cons, ih, List.cons_append]
    congr 1
    cases t
    · simpa using stripOneCR_clean hl.1
    · simpa using stripOneCR_append l

/-- **the two readers split a head into the same lines** -/
theorem extractLines_of_headLines (f : Nat) (b : Bytes) (l : Bytes) (ls : List Bytes) (rest : Bytes)
    (h : Ref.headLines f b = .ok (l :: ls, rest)) :
    extractLines b = .lines (l :: ls) rest ∧ ∀ x ∈ l :: ls, cleanLine x := by
  obtain ⟨tls, e, h1, h2, h3⟩ := headLines_wire f b (l :: ls) rest h
  have hne : tls ≠ [] := by intro e'; subst e'; simp at h1
  refine ⟨?_, ?_⟩
  · cases tls with
    | nil => exact absurd rfl hne
    | cons lt more =>
      obtain ⟨l0, t0⟩ := lt
      have hl0 := h2 (l0, t0) (by simp)
      cases l0 with
      | nil => exact absurd rfl hl0.2
      | cons a as =>
        have ha10 : a ≠ 10 := fun e' => hl0.1.2 (by simp [e'])
        have ha13 : a ≠ 13 := fun e' => hl0.1.1 (by simp [e'])
        have hfb := findBlank_wire ((a :: as, t0) :: more) e rest (by simp) h2
        have hsp := split_wire ((a :: as, t0) :: more) e (fun x hx => (h2 x hx).1)
        have hb : b = a :: (as ++ sepOf t0 ++ renderG more ++ sepOf e ++ rest) := by
          rw [h3]; simp [renderG, List.append_assoc]
        have hlen : (renderG ((a :: as, t0) :: more) ++ sepOf e).length = (renderG ((a :: as, t0) :: more)).length + (sepOf e).length := by simp
        rw [hb]
        simp only [extractLines, ha10, ha13, false_and, ↓reduceIte]
        rw [← hb, h3, hfb]
        simp only
        have ht : List.take ((renderG ((a :: as, t0) :: more)).length + (sepOf e).length) (renderG ((a :: as, t0) :: more) ++ sepOf e ++ rest) =
            renderG ((a :: as, t0) :: more) ++ sepOf e := by
          rw [← hlen, List.take_left']; rfl
        have hd : List.drop ((renderG ((a :: as, t0) :: more)).length + (sepOf e).length) (renderG ((a :: as, t0) :: more) ++ sepOf e ++ rest) = rest := by
          rw [← hlen, List.drop_left']; rfl
        rw [ht, hd, hsp, h1]
        have : ∀ (xs : List Bytes), (xs ++ [[], []]).dropLast.dropLast = xs := by
          intro xs
          have : xs ++ [[], []] = (xs ++ [[]]) ++ [[]] := by simp
          rw [this, List.dropLast_concat, List.dropLast_concat]
        have h' := this (l :: ls)
        simpa using h'
  · intro x hx
    rw [← h1] at hx
    obtain ⟨lt, hlt, rfl⟩ := List.mem_map.mp hx
    exact (h2 lt hlt).1

end MitmVerif.C01

namespace MitmVerif.C01
open MitmVerif

/-! ### the request line: `line.split()` and the reference reader's split at single SP give the same three parts -/

theorem splitWs_single : ∀ (p : Bytes), p ≠ [] → (∀ x ∈ p, isPyWs x = false) → splitWs p = [p]
  | [], h, _ => absurd rfl h
  | [c], _, h => by
    have hc := h c (by simp)
    simp [splitWs, hc]
  | c :: d :: rest, _, h => by
    have hc := h c (by simp)
    have hd := h d (by simp)
    have ih := splitWs_single (d :: rest) (by simp) (fun x hx => h x (by simp [hx]))
    rw [splitWs]
    simp only [hc, hd, Bool.false_eq_true, ↓reduceIte]
    rw [ih]

theorem splitWs_piece : ∀ (p s : Bytes), p ≠ [] → (∀ x ∈ p, isPyWs x = false) → splitWs (p ++ 32 :: s) = p :: splitWs s
  | [], _, h, _ => absurd rfl h
  | [c], s, _, h => by
    have hc := h c (by simp)
    have h32 : isPyWs 32 = true := by decide
    simp [splitWs, hc, h32]
  | c :: d :: rest, s, _, h => by
    have hc := h c (by simp)
    have hd := h d (by simp)
    have ih := splitWs_piece (d :: rest) s (by simp) (fun x hx => h x (by simp [hx]))
    simp only [List.cons_append] at ih ⊢
    simp only [splitWs, hc, hd, Bool.false_eq_true, ↓reduceIte]
    simp only [splitWs, hd, Bool.false_eq_true, ↓reduceIte] at ih
    rw [ih]

theorem version_no_ws {v : Bytes} (h : versionOk v = true) : v ≠ [] ∧ ∀ x ∈ v, isPyWs x = false := by
  unfold versionOk at h
  split at h
  · rename_i a b
    simp only [Bool.and_eq_true] at h
    have dig : ∀ d : UInt8, isDigit d = true → isPyWs d = false := by
      intro d hd
      have key : ∀ n : Fin 256, isDigit (UInt8.ofNat n.val) = true → isPyWs (UInt8.ofNat n.val) = false := by decide +kernel
      have := key ⟨d.toNat, UInt8.toNat_lt d⟩
      simpa using this (by simpa using hd)
    refine ⟨by simp, ?_⟩
    intro x hx
    simp only [List.mem_cons, List.not_mem_nil, or_false] at hx
    rcases hx with rfl | rfl | rfl | rfl | rfl | rfl | rfl | rfl
    · decide
    · decide
    · decide
    · decide
    · decide
    · exact dig _ h.1
    · decide
    · exact dig _ h.2
  · simp at h

/-- on a clean line that the reference reader accepts as a request line, `line.split()` yields the same three parts -/
theorem splitWs_of_requestLine {l m t v : Bytes} (hl : cleanLine l) (h : Ref.requestLine l = some (m, t, v)) :
    splitWs l = [m, t, v] := by
  unfold Ref.requestLine at h
  cases hs : splitOn 32 l with
  | nil => simp [hs] at h
  | cons a r1 =>
    cases r1 with
    | nil => simp [hs] at h
    | cons b r2 =>
      cases r2 with
      | nil => simp [hs] at h
      | cons c r3 =>
        cases r3 with
        | cons d r4 => simp [hs] at h
        | nil =>
          simp only [hs] at h
          split at h
          · rename_i hok
            simp at h
            obtain ⟨rfl, rfl, rfl⟩ := h
            simp only [Bool.and_eq_true] at hok
            obtain ⟨⟨hm, ht⟩, hv⟩ := hok
            have hj := joinWith_splitOn 32 l
            rw [hs] at hj
            have hno := splitOn_pieces_no_sep 32 l
            rw [hs] at hno
            have hws : ∀ (p : Bytes), p ∈ [a, b] → Ref.noWs p = true → p ≠ [] ∧ ∀ x ∈ p, isPyWs x = false := by
              intro p hp hn
              simp only [Ref.noWs, Bool.and_eq_true, Bool.not_eq_true', List.all_eq_true] at hn
              refine ⟨by intro e; subst e; simp at hn, ?_⟩
              intro x hx
              have h32 : x ≠ 32 := fun e => hno p (by simp at hp ⊢; rcases hp with rfl | rfl <;> simp) (e ▸ hx)
              have hinf : p <:+: l := splitOn_piece_infix 32 l p (by rw [hs]; simp at hp ⊢; rcases hp with rfl | rfl <;> simp)
              have h13 : x ≠ 13 := fun e => hl.1 (hinf.subset (e ▸ hx))
              have h10 : x ≠ 10 := fun e => hl.2 (hinf.subset (e ▸ hx))
              have hn' := hn.2 x hx
              have key : ∀ n : Fin 256, UInt8.ofNat n.val ≠ 32 → UInt8.ofNat n.val ≠ 13 → UInt8.ofNat n.val ≠ 10 →
                  (!(decide (UInt8.ofNat n.val = 9) || decide (UInt8.ofNat n.val = 11) || decide (UInt8.ofNat n.val = 12))) = true →
                  isPyWs (UInt8.ofNat n.val) = false := by decide +kernel
              have := key ⟨x.toNat, UInt8.toNat_lt x⟩
              simpa using this (by simpa using h32) (by simpa using h13) (by simpa using h10) (by simpa using hn')
            obtain ⟨ha, haw⟩ := hws a (by simp) hm
            obtain ⟨hb, hbw⟩ := hws b (by simp) ht
            obtain ⟨hc, hcw⟩ := version_no_ws hv
            have : l = a ++ 32 :: (b ++ 32 :: c) := by simpa [joinWith] using hj.symm
            rw [this, splitWs_piece a _ ha haw, splitWs_piece b _ hb hbw, splitWs_single c hc hcw]
          · simp at h

theorem readRequestLine_version {authOk : Bytes → Bytes → Bool} {l m t v : Bytes} {h : ReqHead}
    (hs : splitWs l = [m, t, v]) (hr : readRequestLine authOk l = some h) : h.version = v := by
  unfold readRequestLine at hr
  simp only [hs] at hr
  repeat' split at hr
  all_goals first
    | (exfalso; simp at hr; done)
    | (have := Option.some.inj hr; rw [← this])

end MitmVerif.C01
