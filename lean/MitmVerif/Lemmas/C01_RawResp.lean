/- status line: `line.split(None, 2)` and the reference reader agree on version and status code -/
import MitmVerif.Lemmas.C01_Raw
namespace MitmVerif.C01
open MitmVerif

theorem takeWhile_append_stop {p : UInt8 → Bool} : ∀ (a : Bytes) (c : UInt8) (s : Bytes), (∀ x ∈ a, p x = true) → p c = false →
    (a ++ c :: s).takeWhile p = a ∧ (a ++ c :: s).dropWhile p = c :: s
  | [], c, s, _, hc => by simp [List.takeWhile, List.dropWhile, hc]
  | x :: xs, c, s, h, hc => by
    have hx := h x (by simp)
    obtain ⟨i1, i2⟩ := takeWhile_append_stop xs c s (fun y hy => h y (by simp [hy])) hc
    simp [List.takeWhile, List.dropWhile, hx, i1, i2]

theorem takeWhile_all' {p : UInt8 → Bool} : ∀ (a : Bytes), (∀ x ∈ a, p x = true) → a.takeWhile p = a ∧ a.dropWhile p = []
  | [], _ => by simp
  | x :: xs, h => by
    have hx := h x (by simp)
    obtain ⟨i1, i2⟩ := takeWhile_all' xs (fun y hy => h y (by simp [hy]))
    simp [List.takeWhile, List.dropWhile, hx, i1, i2]

/-- what `_read_response_line` returns for a line the reference reader accepts as a status line -/
theorem readResponseLine_of_statusLine {l v reason : Bytes} {st : Nat} {h : RespHead}
    (hs : Ref.statusLine l = some (v, st, reason)) (hr : readResponseLine l = some h) :
    h.version = v ∧ h.status = st := by
  unfold Ref.statusLine at hs
  simp only at hs
  split at hs
  · simp at hs
  · rename_i hvok
    have hvok' : versionOk (l.take 8) = true := by simpa using hvok
    obtain ⟨hvne, hvws⟩ := version_no_ws hvok'
    have hlen : (l.take 8).length = 8 := by
      unfold versionOk at hvok'
      split at hvok'
      · rename_i a b heq; rw [heq]; rfl
      · simp at hvok'
    have hl : l = l.take 8 ++ l.drop 8 := (List.take_append_drop 8 l).symm
    have dig : ∀ d : UInt8, isDigit d = true → isPyWs d = false := by
      intro d hd
      have key : ∀ n : Fin 256, isDigit (UInt8.ofNat n.val) = true → isPyWs (UInt8.ofNat n.val) = false := by decide +kernel
      have := key ⟨d.toNat, UInt8.toNat_lt d⟩
      simpa using this (by simpa using hd)
    have nonws : ∀ x ∈ l.take 8, (!isPyWs x) = true := fun x hx => by simp [hvws x hx]
    have h32 : (fun c => !isPyWs c) 32 = false := by decide
    -- the two shapes of the rest of the line
    generalize hv : l.take 8 = ver at *
    generalize hd : l.drop 8 = rst at *
    have common : ∀ (a b c : UInt8) (tail : Bytes), rst = 32 :: a :: b :: c :: tail →
        (tail = [] ∨ ∃ t', tail = 32 :: t') → isDigit a = true → isDigit b = true → isDigit c = true →
        h.version = ver ∧ h.status = natOfDigits [a, b, c] := by
      intro a b c tail hrst htail ha hb hc
      have hl1 : lstripBy isPyWs l = l := by
        rw [hl]
        cases ver with
        | nil => exact absurd rfl hvne
        | cons x xs => exact lstripBy_id (hvws x (by simp))
      have htw := takeWhile_append_stop ver 32 (a :: b :: c :: tail) nonws h32
      have hdig3 : ∀ x ∈ [a, b, c], (fun c => !isPyWs c) x = true := by
        intro x hx; simp at hx
        rcases hx with rfl | rfl | rfl <;> simp [dig _ ‹_›]
      unfold readResponseLine at hr
      simp only [splitWs2, hl1] at hr
      have hlne : l.isEmpty = false := by rw [hl]; cases ver <;> simp at hvne ⊢
      rw [hl, hrst] at hr
      simp only [htw.1, htw.2] at hr
      have hver_ne : (ver ++ 32 :: a :: b :: c :: tail).isEmpty = false := by cases ver <;> simp
      simp only [hver_ne, Bool.false_eq_true, ↓reduceIte] at hr
      have hl2 : lstripBy isPyWs (32 :: a :: b :: c :: tail) = a :: b :: c :: tail := by
        simp [lstripBy, show isPyWs 32 = true by decide, dig a ha]
      rw [hl2] at hr
      simp only [List.isEmpty_cons, Bool.false_eq_true, ↓reduceIte] at hr
      rcases htail with rfl | ⟨t', rfl⟩
      · have := takeWhile_all' (p := fun c => !isPyWs c) [a, b, c] hdig3
        simp only [this.1, this.2, lstripBy, List.isEmpty_nil, ↓reduceIte] at hr
        simp at hr
        obtain ⟨_, hh⟩ := hr
        rw [← hh]; exact ⟨rfl, rfl⟩
      · have := takeWhile_append_stop (p := fun c => !isPyWs c) [a, b, c] 32 t' hdig3 h32
        simp only [List.cons_append, List.nil_append] at this
        simp only [this.1, this.2] at hr
        by_cases hr2 : (lstripBy isPyWs (32 :: t')).isEmpty = true
        · simp only [hr2, ↓reduceIte] at hr
          simp at hr
          obtain ⟨_, hh⟩ := hr
          rw [← hh]; exact ⟨rfl, rfl⟩
        · simp only [hr2, Bool.false_eq_true, ↓reduceIte] at hr
          simp at hr
          obtain ⟨_, hh⟩ := hr
          rw [← hh]; exact ⟨rfl, rfl⟩
    split at hs
    · rename_i sp a b c
      split at hs
      · rename_i hc
        simp at hs; obtain ⟨rfl, rfl, rfl⟩ := hs
        simp only [Bool.and_eq_true, decide_eq_true_eq] at hc
        obtain ⟨⟨⟨rfl, ha⟩, hb⟩, hcc⟩ := hc
        exact common a b c [] rfl (Or.inl rfl) ha hb hcc
      · simp at hs
    · rename_i sp a b c sp2 rsn
      split at hs
      · rename_i hc
        simp at hs; obtain ⟨rfl, rfl, rfl⟩ := hs
        simp only [Bool.and_eq_true, decide_eq_true_eq] at hc
        obtain ⟨⟨⟨⟨rfl, ha⟩, hb⟩, hcc⟩, rfl⟩ := hc
        exact common a b c (32 :: rsn) rfl (Or.inr ⟨rsn, rfl⟩) ha hb hcc
      · simp at hs
    · simp at hs

end MitmVerif.C01
