import MitmVerif.Props.C01
import MitmVerif.Lemmas.C01_RawResp
namespace MitmVerif.Props.C01
open MitmVerif MitmVerif.C01

private theorem headLines_not_ambiguous : ∀ (f : Nat) (b : Bytes) (k : Nat), Ref.headLines f b ≠ .error (.ambiguous k) := by
  intro f
  induction f with
  | zero => intro b k; simp [Ref.headLines]
  | succ f ih =>
    intro b k
    simp only [Ref.headLines]
    cases ht : Ref.takeLine b with
    | none => simp
    | some x =>
      obtain ⟨res, r'⟩ := x
      cases res with
      | error e => simp
      | ok l =>
        simp only
        split
        · simp
        · cases hr : Ref.headLines f r' with
          | error e' => simp; intro he; exact ih r' k (by rw [hr, he])
          | ok p => simp

private theorem chunkedBody_not_ambiguous : ∀ (f : Nat) (b acc : Bytes) (tr : Bool) (k : Nat),
    Ref.chunkedBody f b acc tr ≠ .error (.ambiguous k) := by
  intro f
  induction f with
  | zero => intro b acc tr k; simp [Ref.chunkedBody]
  | succ f ih =>
    intro b acc tr k
    simp only [Ref.chunkedBody]
    repeat' split
    all_goals first | (simp; done) | exact ih _ _ _ _

/-- **raw_ambiguous_rejected_response**: the response side of `raw_ambiguous_rejected`, in the context of the request method:
    if the strict reference reader finds the response at the front of the origin's byte stream ambiguous, what mitmproxy reads
    from the same bytes (h11 `maybe_extract_lines`, `read_response_head`) is refused by `validate_headers` — 502, not relayed -/
theorem raw_ambiguous_rejected_response (reqMethod : Bytes) (eof : Bool) (buf : Bytes) (c : Nat)
    (hamb : Ref.parseResponse reqMethod eof buf = .error (.ambiguous c))
    (ls : List Bytes) (rest : Bytes) (r : RespHead)
    (hex : extractLines buf = .lines ls rest) (hread : readResponseHead ls = some r) :
    validateHeaders (.response r.status) r.version r.reason r.fields = false := by
  unfold Ref.parseResponse at hamb
  cases hh : Ref.headLines (buf.length + 1) buf with
  | error e => simp [hh] at hamb; subst hamb; exact absurd hh (headLines_not_ambiguous _ _ _)
  | ok p =>
    obtain ⟨lsR, restR⟩ := p
    cases lsR with
    | nil => simp [hh] at hamb
    | cons l lsR' =>
      obtain ⟨hext, hclean⟩ := extractLines_of_headLines _ buf l lsR' restR hh
      rw [hext] at hex
      simp at hex
      obtain ⟨rfl, rfl⟩ := hex
      simp only [hh] at hamb
      cases hsl : Ref.statusLine l with
      | none => simp [hsl] at hamb
      | some vsr =>
        obtain ⟨v, st, rsn⟩ := vsr
        simp only [hsl] at hamb
        unfold readResponseHead at hread
        simp only at hread
        cases hq : readResponseLine l with
        | none => simp [hq] at hread
        | some h =>
          cases hf : readHeaders lsR' with
          | none => simp [hq, hf] at hread
          | some fs =>
            simp [hq, hf] at hread
            subst hread
            obtain ⟨hver, hst⟩ := readResponseLine_of_statusLine hsl hq
            simp only
            rw [hver, hst]
            apply lines_ambiguous_rejected (.response st) v h.reason reqMethod lsR' fs c (fun x hx => hclean x (by simp [hx])) hf
            cases hfl : Ref.fields lsR' with
            | error e =>
              simp only [hfl] at hamb
              left; simp at hamb; rw [hamb]
            | ok fsR =>
              simp only [hfl] at hamb
              right
              refine ⟨fsR, rfl, ?_⟩
              cases hfr : Ref.framing fsR v (.response st) reqMethod with
              | error e => simp only [hfr] at hamb; simp at hamb; rw [hamb]
              | ok fr =>
                simp only [hfr] at hamb
                cases fr with
                | none => simp at hamb
                | cl n => simp at hamb; split at hamb <;> simp at hamb
                | chunked =>
                  simp at hamb
                  exfalso
                  cases hcb : Ref.chunkedBody (restR.length + 1) restR [] false with
                  | error e => simp [hcb] at hamb; exact chunkedBody_not_ambiguous _ _ _ _ _ (by rw [hcb, hamb])
                  | ok q => simp [hcb] at hamb
                | eof => simp at hamb; split at hamb <;> simp at hamb

end MitmVerif.Props.C01
