import MitmVerif.Props.C01
import MitmVerif.Lemmas.C01_Raw
namespace MitmVerif.Props.C01
open MitmVerif MitmVerif.C01

/-- **raw_ambiguous_rejected** (DESIGN §5 C01 (3), on raw bytes): if the strict reference reader finds the request at the front of
    a byte stream ambiguous (non-token field name, Content-Length with Transfer-Encoding, differing / malformed Content-Length,
    unknown / misplaced / repeated transfer coding, non-chunked request coding, Transfer-Encoding on HTTP/1.0), then whatever
    mitmproxy reads from the same bytes — h11 `maybe_extract_lines`, `read_request_head` — is refused by `validate_headers`:
    the message is rejected, not forwarded.  (The two readers split the head into the same lines — `extractLines_of_headLines` —
    and the same request-line parts — `splitWs_of_requestLine`.) -/
theorem raw_ambiguous_rejected (authOk : Bytes → Bytes → Bool) (buf : Bytes) (c : Nat)
    (hamb : Ref.parseRequest buf = .error (.ambiguous c))
    (ls : List Bytes) (rest : Bytes) (r : ReqHead)
    (hex : extractLines buf = .lines ls rest) (hread : readRequestHead authOk ls = some r) :
    validateHeaders .request r.version [] r.fields = false := by
  unfold Ref.parseRequest at hamb
  cases hh : Ref.headLines (buf.length + 1) buf with
  | error e => simp [hh] at hamb; subst hamb; 
               -- headLines never reports an ambiguity
               exfalso
               have : ∀ (f : Nat) (b : Bytes) (k : Nat), Ref.headLines f b ≠ .error (.ambiguous k) := by
                 intro f
                 induction f with
                 | zero => intro b k; simp [Ref.headLines]
                 | succ f ih =>
                   intro b k
                   simp only [Ref.headLines]
                   cases ht : Ref.takeLine b with
                   | none => simp
                   | some x =>
                     obtain ⟨res, r'⟩ := x
                     cases res with
                     | error e => simp
                     | ok l =>
                       simp only
                       split
                       · simp
                       · cases hr : Ref.headLines f r' with
                         | error e' => simp; intro he; exact ih r' k (by rw [hr, he])
                         | ok p => simp
               exact this _ _ _ hh
  | ok p =>
    obtain ⟨lsR, restR⟩ := p
    cases lsR with
    | nil => simp [hh] at hamb
    | cons l lsR' =>
      obtain ⟨hext, hclean⟩ := extractLines_of_headLines _ buf l lsR' restR hh
      rw [hext] at hex
      simp at hex
      obtain ⟨rfl, rfl⟩ := hex
      simp only [hh] at hamb
      cases hrl : Ref.requestLine l with
      | none => simp [hrl] at hamb
      | some mtv =>
        obtain ⟨m, t, v⟩ := mtv
        simp only [hrl] at hamb
        -- mitmproxy's reading of the same lines
        unfold readRequestHead at hread
        simp only at hread
        cases hq : readRequestLine authOk l with
        | none => simp [hq] at hread
        | some h =>
          cases hf : readHeaders lsR' with
          | none => simp [hq, hf] at hread
          | some fs =>
            simp [hq, hf] at hread
            subst hread
            have hver : h.version = v :=
              readRequestLine_version (splitWs_of_requestLine (hclean l (by simp)) hrl) hq
            simp only
            rw [hver]
            apply lines_ambiguous_rejected .request v [] [] lsR' fs c (fun x hx => hclean x (by simp [hx])) hf
            cases hfl : Ref.fields lsR' with
            | error e =>
              simp only [hfl] at hamb
              left; simp at hamb; rw [hamb]
            | ok fsR =>
              simp only [hfl] at hamb
              right
              refine ⟨fsR, rfl, ?_⟩
              cases hfr : Ref.framing fsR v .request [] with
              | error e => simp only [hfr] at hamb; simp at hamb; rw [hamb]
              | ok fr =>
                simp only [hfr] at hamb
                cases fr with
                | none => simp at hamb
                | cl n => simp at hamb; split at hamb <;> simp at hamb
                | chunked =>
                  simp at hamb
                  -- a chunked body is malformed or incomplete, never "ambiguous"
                  exfalso
                  have : ∀ (f : Nat) (b acc : Bytes) (tr : Bool) (k : Nat), Ref.chunkedBody f b acc tr ≠ .error (.ambiguous k) := by
                    intro f
                    induction f with
                    | zero => intro b acc tr k; simp [Ref.chunkedBody]
                    | succ f ih =>
                      intro b acc tr k
                      simp only [Ref.chunkedBody]
                      repeat' split
                      all_goals first | (simp; done) | exact ih _ _ _ _
                  cases hcb : Ref.chunkedBody (restR.length + 1) restR [] false with
                  | error e => simp [hcb] at hamb; exact this _ _ _ _ _ (by rw [hcb, hamb])
                  | ok q => simp [hcb] at hamb
                | eof => simp at hamb

end MitmVerif.Props.C01
