/- helper lemmas for the forward round trip (Props/C01): the reference reader inverts head assembly -/
import MitmVerif.Lemmas.C01
namespace MitmVerif.C01
open MitmVerif

/-- a byte string that can be one head line: no CR, no LF -/
def cleanLine (l : Bytes) : Prop := (13 : UInt8) ∉ l ∧ (10 : UInt8) ∉ l

theorem takeLine_clean {l : Bytes} (h : cleanLine l) (rest : Bytes) :
    Ref.takeLine (l ++ 13 :: 10 :: rest) = some (.ok l, rest) := by
  induction l with
  | nil => simp [Ref.takeLine]
  | cons c cs ih =>
    have hc13 : c ≠ 13 := fun e => h.1 (by simp [e])
    have hc10 : c ≠ 10 := fun e => h.2 (by simp [e])
    have ih' := ih ⟨fun e => h.1 (by simp [e]), fun e => h.2 (by simp [e])⟩
    simp [Ref.takeLine, hc13, hc10, ih']

/-- lines rendered with CRLF -/
def renderLines : List Bytes → Bytes
  | [] => []
  | l :: ls => l ++ crlf ++ renderLines ls

theorem headLines_render : ∀ (ls : List Bytes) (f : Nat) (tail : Bytes),
    (∀ l ∈ ls, cleanLine l ∧ l ≠ []) → ls.length < f →
    Ref.headLines f (renderLines ls ++ crlf ++ tail) = .ok (ls, tail)
  | [], f, tail, _, hf => by
    cases f with
    | zero => omega
    | succ f => simp [renderLines, Ref.headLines, crlf, Ref.takeLine]
  | l :: ls, f, tail, h, hf => by
    cases f with
    | zero => omega
    | succ f =>
      have hl := h l (by simp)
      have ih := headLines_render ls f tail (fun x hx => h x (by simp [hx])) (by simp at hf; omega)
      have ht := takeLine_clean hl.1 (renderLines ls ++ crlf ++ tail)
      have hne : l.isEmpty = false := by cases l <;> simp at hl ⊢
      simp only [renderLines, crlf, List.append_assoc, List.cons_append, List.nil_append] at ht ih ⊢
      simp only [Ref.headLines, ht, hne, Bool.false_eq_true, ↓reduceIte, ih]

theorem renderLines_length (ls : List Bytes) : 2 * ls.length ≤ (renderLines ls).length := by
  induction ls with
  | nil => simp [renderLines]
  | cons l ls ih => simp [renderLines, crlf]; omega

/-- `join ∘ split = id` -/
theorem joinWith_splitOn (sep : UInt8) (b : Bytes) : joinWith [sep] (splitOn sep b) = b := by
  induction b with
  | nil => simp [splitOn, joinWith]
  | cons c rest ih =>
    simp only [splitOn]
    split
    · rename_i hc
      cases hs : splitOn sep rest with
      | nil => exact absurd hs (splitOn_ne_nil _ _)
      | cons p ps => rw [hs] at ih; simp [joinWith, hc, ih]
    · cases hs : splitOn sep rest with
      | nil => exact absurd hs (splitOn_ne_nil _ _)
      | cons p ps =>
        rw [hs] at ih
        cases ps with
        | nil => simp [joinWith] at ih ⊢; exact ih
        | cons q qs => simp [joinWith] at ih ⊢; exact ih

theorem stripBy_cons_ws {f : UInt8 → Bool} {c : UInt8} (hc : f c = true) (v : Bytes) :
    stripBy f (c :: v) = stripBy f v := by
  simp [stripBy, lstripBy, hc]

def fieldLine (f : Field) : Bytes := f.1 ++ colonSp ++ f.2

theorem assembleFields_eq (fs : List Field) : assembleFields fs = renderLines (fs.map fieldLine) := by
  induction fs with
  | nil => rfl
  | cons f fs ih =>
    obtain ⟨n, v⟩ := f
    simp [assembleFields, renderLines, fieldLine, ih, List.append_assoc]

theorem token_no_colon {n : Bytes} (h : isToken n = true) : (58 : UInt8) ∉ n ∧ (13 : UInt8) ∉ n ∧ (10 : UInt8) ∉ n ∧ n ≠ [] ∧
    (∀ c, n.head? = some c → c ≠ 32 ∧ c ≠ 9) := by
  simp only [isToken, Bool.and_eq_true, Bool.not_eq_true', List.all_eq_true] at h
  have key : ∀ c ∈ n, c ≠ 58 ∧ c ≠ 13 ∧ c ≠ 10 ∧ c ≠ 32 ∧ c ≠ 9 := by
    intro c hc
    have := h.2 c hc
    refine ⟨?_, ?_, ?_, ?_, ?_⟩ <;> (intro e; subst e; revert this; decide)
  refine ⟨fun hm => (key _ hm).1 rfl, fun hm => (key _ hm).2.1 rfl, fun hm => (key _ hm).2.2.1 rfl, ?_, ?_⟩
  · intro e; subst e; simp at h
  · intro c hc
    cases n with
    | nil => simp at hc
    | cons d ds => simp at hc; subst hc; exact ⟨(key d (by simp)).2.2.2.1, (key d (by simp)).2.2.2.2⟩

/-- the reference reader reads assembled field lines back (values without line breaks and without surrounding OWS) -/
theorem fieldsAux_render : ∀ (fs : List Field) (acc : List Field),
    (∀ f ∈ fs, isToken f.1 = true ∧ stripBy isOws f.2 = f.2) →
    Ref.fieldsAux (fs.map fieldLine) acc = .ok (acc.reverse ++ fs)
  | [], acc, _ => by simp [Ref.fieldsAux]
  | (n, v) :: fs, acc, h => by
    obtain ⟨hn, hv⟩ := h (n, v) (by simp)
    obtain ⟨hcol, _, _, hne, hhead⟩ := token_no_colon hn
    have ih := fieldsAux_render fs ((n, v) :: acc) (fun f hf => h f (by simp [hf]))
    cases n with
    | nil => exact absurd rfl hne
    | cons c cs =>
      have hc := hhead c rfl
      have hsplit : splitOn 58 (fieldLine (c :: cs, v)) = (c :: cs) :: splitOn 58 (32 :: v) := by
        simp only [fieldLine, colonSp, List.append_assoc, List.cons_append, List.nil_append]
        exact splitOn_append_sep (q := c :: cs) hcol (32 :: v)
      have hline : fieldLine (c :: cs, v) = c :: (cs ++ colonSp ++ v) := by simp [fieldLine]
      simp only [List.map_cons, Ref.fieldsAux]
      rw [hline]
      simp only [hc.1, hc.2, or_self, ↓reduceIte]
      rw [← hline, hsplit]
      cases hs : splitOn 58 (32 :: v) with
      | nil => exact absurd hs (splitOn_ne_nil _ _)
      | cons p ps =>
        have hj : joinWith [58] (p :: ps) = 32 :: v := by rw [← hs]; exact joinWith_splitOn 58 _
        simp only [hn, Bool.not_true, Bool.false_eq_true, ↓reduceIte, hj]
        rw [stripBy_cons_ws (by decide) v, hv, ih]
        simp

end MitmVerif.C01

namespace MitmVerif.C01
open MitmVerif

/-! ### the reference reader inverts the chunk re-framing (`b"%x\r\n%s\r\n"`, `0\r\n\r\n`) -/

def hexStep (a : Nat) (c : UInt8) : Nat := a * 16 + Ref.hexVal c
def hexValue (l : Bytes) : Nat := l.foldl hexStep 0

theorem foldl_hexStep (a : Nat) (l : Bytes) : l.foldl hexStep a = a * 16 ^ l.length + l.foldl hexStep 0 := by
  induction l generalizing a with
  | nil => simp
  | cons c cs ih =>
    simp only [List.foldl_cons, List.length_cons]
    rw [ih (hexStep a c), ih (hexStep 0 c)]
    simp only [hexStep, Nat.pow_succ]
    rw [Nat.add_mul, Nat.add_mul]
    have : a * 16 * 16 ^ cs.length = a * (16 ^ cs.length * 16) := by rw [Nat.mul_assoc, Nat.mul_comm 16]
    omega

theorem hexDigit_spec (k : Nat) (h : k < 16) : Ref.hexVal (hexDigit k) = k ∧ Ref.isHex (hexDigit k) = true := by
  have : ∀ k : Fin 16, Ref.hexVal (hexDigit k.val) = k.val ∧ Ref.isHex (hexDigit k.val) = true := by decide
  exact this ⟨k, h⟩

theorem hexDigitsAux_spec : ∀ (f n : Nat) (acc : Bytes), n < 16 ^ f → acc.all Ref.isHex = true →
    hexValue (hexDigitsAux f n acc) = n * 16 ^ acc.length + hexValue acc ∧ (hexDigitsAux f n acc).all Ref.isHex = true
  | 0, n, acc, h, ha => by
    have : n = 0 := by simpa using h
    subst this; simp [hexDigitsAux, ha]
  | f + 1, n, acc, h, ha => by
    simp only [hexDigitsAux]
    split
    · rename_i hlt
      obtain ⟨h1, h2⟩ := hexDigit_spec n hlt
      constructor
      · simp only [hexValue, List.foldl_cons]
        rw [foldl_hexStep]; simp [hexStep, h1]
      · simp [h2, ha]
    · rename_i hge
      have hm : n % 16 < 16 := Nat.mod_lt _ (by decide)
      obtain ⟨h1, h2⟩ := hexDigit_spec (n % 16) hm
      have hd : n / 16 < 16 ^ f := by
        rw [Nat.pow_succ] at h
        exact Nat.div_lt_of_lt_mul (by rw [Nat.mul_comm]; exact h)
      obtain ⟨ih1, ih2⟩ := hexDigitsAux_spec f (n / 16) (hexDigit (n % 16) :: acc) hd (by simp [h2, ha])
      refine ⟨?_, ih2⟩
      rw [ih1]
      simp only [hexValue, List.foldl_cons, List.length_cons]
      rw [foldl_hexStep (hexStep 0 (hexDigit (n % 16)))]
      simp only [hexStep, h1, Nat.pow_succ, Nat.zero_mul, Nat.zero_add]
      have := Nat.div_add_mod n 16
      have e : n / 16 * (16 ^ acc.length * 16) = 16 * (n / 16) * 16 ^ acc.length := by
        rw [Nat.mul_comm (16 ^ acc.length) 16, ← Nat.mul_assoc, Nat.mul_comm (n / 16) 16]
      rw [e, ← Nat.add_assoc, ← Nat.add_mul, this]

theorem lt_pow16 (n : Nat) : n < 16 ^ (n + 1) := by
  induction n with
  | zero => simp
  | succ k ih => rw [Nat.pow_succ]; omega

theorem hexDigits_spec (n : Nat) :
    hexValue (hexDigits n) = n ∧ (hexDigits n).all Ref.isHex = true ∧ hexDigits n ≠ [] := by
  obtain ⟨h1, h2⟩ := hexDigitsAux_spec (n + 1) n [] (lt_pow16 n) (by simp)
  refine ⟨by simpa [hexDigits, hexValue] using h1, h2, ?_⟩
  simp only [hexDigits, hexDigitsAux]
  split
  · simp
  · intro e
    have := hexDigitsAux_spec n (n / 16) [hexDigit (n % 16)] (by
      have := lt_pow16 n
      rw [Nat.pow_succ] at this
      exact Nat.div_lt_of_lt_mul (by rw [Nat.mul_comm]; exact this)) (by simp [(hexDigit_spec (n % 16) (Nat.mod_lt _ (by decide))).2])
    -- a non-empty accumulator is never lost
    have hlen : ∀ (f m : Nat) (acc : Bytes), acc ≠ [] → hexDigitsAux f m acc ≠ [] := by
      intro f
      induction f with
      | zero => intro m acc h; simpa [hexDigitsAux] using h
      | succ f ih =>
        intro m acc h
        simp only [hexDigitsAux]
        split
        · simp
        · exact ih _ _ (by simp)
    exact hlen n (n / 16) [hexDigit (n % 16)] (by simp) e

theorem isHex_clean {l : Bytes} (h : l.all Ref.isHex = true) : cleanLine l ∧ (0 : UInt8) ∉ l := by
  have key : ∀ c ∈ l, c ≠ 13 ∧ c ≠ 10 ∧ c ≠ 0 := by
    intro c hc
    have := List.all_eq_true.mp h c hc
    refine ⟨?_, ?_, ?_⟩ <;> (intro e; subst e; revert this; decide)
  exact ⟨⟨fun hm => (key _ hm).1 rfl, fun hm => (key _ hm).2.1 rfl⟩, fun hm => (key _ hm).2.2 rfl⟩

theorem takeCrlfLine_clean {l : Bytes} (h : cleanLine l) (rest : Bytes) :
    Ref.takeCrlfLine (l ++ 13 :: 10 :: rest) = some (.ok l, rest) := by
  induction l with
  | nil => simp [Ref.takeCrlfLine]
  | cons c cs ih =>
    have hc13 : c ≠ 13 := fun e => h.1 (by simp [e])
    have hc10 : c ≠ 10 := fun e => h.2 (by simp [e])
    have ih' := ih ⟨fun e => h.1 (by simp [e]), fun e => h.2 (by simp [e])⟩
    simp [Ref.takeCrlfLine, hc13, hc10, ih']

theorem takeWhile_all {p : UInt8 → Bool} {l : Bytes} (h : l.all p = true) : l.takeWhile p = l ∧ l.dropWhile p = [] := by
  induction l with
  | nil => simp
  | cons c cs ih =>
    simp at h
    simp [List.takeWhile, List.dropWhile, h.1, ih (by simpa using h.2)]

/-- the last-chunk and the empty trailer section -/
theorem chunkedBody_last (f : Nat) (acc rest : Bytes) :
    Ref.chunkedBody (f + 2) (lastChunk ++ rest) acc false = .ok (acc, rest) := by
  have h1 : Ref.takeCrlfLine (lastChunk ++ rest) = some (.ok [48], 13 :: 10 :: rest) := by
    simp [lastChunk, Ref.takeCrlfLine]
  have h2 : Ref.takeCrlfLine (13 :: 10 :: rest) = some (.ok [], rest) := by simp [Ref.takeCrlfLine]
  rw [Ref.chunkedBody, h1]
  simp only [Bool.false_eq_true, ↓reduceIte]
  have : ([48] : Bytes).takeWhile Ref.isHex = [48] ∧ ([48] : Bytes).dropWhile Ref.isHex = [] := by decide
  simp only [this.1, this.2]
  simp [Ref.chunkedBody, h2, Ref.hexVal, isDigit]

/-- one data chunk followed by the last-chunk: what `Http1Client.send` writes for a buffered chunked body -/
theorem chunkedBody_chunk (f : Nat) (body rest : Bytes) (hb : body ≠ []) :
    Ref.chunkedBody (f + 3) (chunk body ++ lastChunk ++ rest) [] false = .ok (body, rest) := by
  obtain ⟨hval, hhex, hne⟩ := hexDigits_spec body.length
  obtain ⟨hclean, hnul⟩ := isHex_clean hhex
  have hwire : chunk body ++ lastChunk ++ rest = hexDigits body.length ++ 13 :: 10 :: (body ++ 13 :: 10 :: (lastChunk ++ rest)) := by
    simp [chunk, crlf, List.append_assoc]
  rw [hwire, Ref.chunkedBody, takeCrlfLine_clean hclean]
  simp only [Bool.false_eq_true, ↓reduceIte]
  obtain ⟨htw, hdw⟩ := takeWhile_all hhex
  simp only [htw, hdw]
  have hne' : (hexDigits body.length).isEmpty = false := by cases h : hexDigits body.length <;> simp_all
  have hv : (hexDigits body.length).foldl (fun a c => a * 16 + Ref.hexVal c) 0 = body.length := hval
  have hpos : body.length ≠ 0 := by cases body <;> simp at hb ⊢
  simp only [hne', Bool.false_eq_true, ↓reduceIte, List.isEmpty_nil, Bool.true_or, Bool.not_true, List.contains_nil,
    Bool.or_self, hv, hpos]
  have hlen : ¬ (body ++ 13 :: 10 :: (lastChunk ++ rest)).length < body.length + 2 := by simp
  simp only [hlen, ↓reduceIte]
  have hd : List.drop body.length (body ++ 13 :: 10 :: (lastChunk ++ rest)) = 13 :: 10 :: (lastChunk ++ rest) := by
    rw [List.drop_append_of_le_length (Nat.le_refl _)]; simp
  have ht : List.take body.length (body ++ 13 :: 10 :: (lastChunk ++ rest)) = body := by
    rw [List.take_append_of_le_length (Nat.le_refl _)]; simp
  have hd2 : List.drop (body.length + 2) (body ++ 13 :: 10 :: (lastChunk ++ rest)) = lastChunk ++ rest := by
    rw [← List.drop_drop, hd]; rfl
  simp only [hd, ht, hd2, crlf, List.take, ne_eq, not_true_eq_false, ↓reduceIte, List.nil_append]
  exact chunkedBody_last f body rest

end MitmVerif.C01

namespace MitmVerif.C01
open MitmVerif

/-! ### `"chunked" in value.lower()` holds for every value `parse_transfer_encoding` classifies as chunked -/

theorem containsSub_of_infix {x : Bytes} : ∀ {l : Bytes}, x <:+: l → containsSub x l = true
  | [], h => by
    have : x = [] := List.eq_nil_of_infix_nil h
    subst this; rfl
  | c :: rest, h => by
    simp only [containsSub, Bool.or_eq_true]
    rcases List.infix_cons_iff.mp h with hp | hi
    · left; exact List.isPrefixOf_iff_prefix.mpr hp
    · right; exact containsSub_of_infix hi

theorem lstripBy_suffix (f : UInt8 → Bool) : ∀ (b : Bytes), lstripBy f b <:+ b
  | [] => by simp [lstripBy]
  | c :: rest => by
    simp only [lstripBy]
    split
    · exact (lstripBy_suffix f rest).trans (List.suffix_cons c rest)
    · exact List.suffix_refl _

theorem rstripBy_prefix (f : UInt8 → Bool) : ∀ (b : Bytes), rstripBy f b <+: b
  | [] => by simp [rstripBy]
  | c :: rest => by
    have ih := rstripBy_prefix f rest
    simp only [rstripBy]
    split
    · split
      · exact List.nil_prefix
      · exact (List.prefix_cons_inj c).mpr List.nil_prefix
    · rename_i r rs heq
      rw [heq] at ih
      exact (List.prefix_cons_inj c).mpr ih

theorem stripBy_infix (f : UInt8 → Bool) (b : Bytes) : stripBy f b <:+: b :=
  (rstripBy_prefix f _).isInfix.trans (lstripBy_suffix f b).isInfix

theorem splitOn_head_prefix (sep : UInt8) : ∀ (b : Bytes) (p : Bytes) (ps : List Bytes), splitOn sep b = p :: ps → p <+: b
  | [], p, ps, h => by simp [splitOn] at h; rw [h.1]; exact List.nil_prefix
  | c :: rest, p, ps, h => by
    simp only [splitOn] at h
    split at h
    · simp at h; rw [h.1]; exact List.nil_prefix
    · cases hs : splitOn sep rest with
      | nil => exact absurd hs (splitOn_ne_nil _ _)
      | cons q qs =>
        rw [hs] at h; simp at h
        rw [← h.1]
        exact (List.prefix_cons_inj c).mpr (splitOn_head_prefix sep rest q qs hs)

theorem splitOn_piece_infix (sep : UInt8) : ∀ (b : Bytes) (p : Bytes), p ∈ splitOn sep b → p <:+: b
  | [], p, h => by simp [splitOn] at h; subst h; exact List.infix_refl _
  | c :: rest, p, h => by
    simp only [splitOn] at h
    split at h
    · simp at h
      rcases h with rfl | h
      · exact List.nil_infix
      · exact (splitOn_piece_infix sep rest p h).trans (List.suffix_cons c rest).isInfix
    · cases hs : splitOn sep rest with
      | nil => exact absurd hs (splitOn_ne_nil _ _)
      | cons q qs =>
        rw [hs] at h; simp at h
        rcases h with rfl | h
        · exact ((List.prefix_cons_inj c).mpr (splitOn_head_prefix sep rest q qs hs)).isInfix
        · exact (splitOn_piece_infix sep rest p (by rw [hs]; simp [h])).trans (List.suffix_cons c rest).isInfix

/-- the send side's test agrees with the parser's classification -/
theorem sendsChunked_of_parseTE {t w : Bytes} (h : parseTE t = some (.chunkedFinal, w)) :
    containsSub sChunked (asciiLower t) = true := by
  obtain ⟨hcod, hmem⟩ := parseTE_codings h
  rw [refCodingsOf_lower] at hcod
  have hw : w ∈ Gen.C01.teChunked := by
    rcases hmem with ⟨_, hm⟩ | ⟨hc, _⟩
    · exact hm
    · cases hc
  have hin : sChunked ∈ splitOn 44 w := by
    simp [Gen.C01.teChunked] at hw
    rcases hw with rfl | rfl | rfl | rfl <;> decide
  rw [← hcod] at hin
  obtain ⟨p, hp, hps⟩ := List.mem_map.mp hin
  apply containsSub_of_infix
  rw [← hps]
  exact (stripBy_infix isOws p).trans (splitOn_piece_infix 44 _ p hp)

end MitmVerif.C01

namespace MitmVerif.C01
open MitmVerif

/-! ### response side -/

/-- a value `parse_transfer_encoding` classifies as "other" (gzip, deflate, compress, identity) is, lower-cased, exactly that
    whitelist entry: the send side's `"chunked" in value.lower()` is false for it -/
theorem not_sendsChunked_of_parseTE_other {t w : Bytes} (h : parseTE t = some (.other, w)) :
    containsSub sChunked (asciiLower t) = false := by
  obtain ⟨_, hmem⟩ := parseTE_codings h
  have hw : w ∈ Gen.C01.teOther := by
    rcases hmem with ⟨hc, _⟩ | ⟨_, hm⟩
    · cases hc
    · exact hm
  -- teNormalize (lower t) = w
  have hn : teNormalize (asciiLower t) = w := by
    unfold parseTE at h
    split at h
    · simp at h
    · dsimp only at h
      split at h
      · simp at h
      · split at h
        · simp at h; exact h
        · simp at h
  rw [teNormalize_eq] at hn
  have hno := trimmedPieces_no_sep (splitOn_pieces_no_sep 44 (asciiLower t))
  have hne := trimmedPieces_ne_nil (splitOn_ne_nil 44 (asciiLower t))
  have hsp := splitOn_joinWith _ hne hno
  rw [hn] at hsp
  have key : splitOn 44 w = [w] ∧ containsSub sChunked w = false := by
    simp [Gen.C01.teOther] at hw
    rcases hw with rfl | rfl | rfl | rfl <;> decide
  rw [key.1] at hsp
  have hps := trimmed_single hsp.symm
  have : asciiLower t = w := by
    have := joinWith_splitOn 44 (asciiLower t)
    rw [hps] at this
    simpa [joinWith] using this.symm
  rw [this]; exact key.2

theorem decDigits_spec (n : Nat) (h : 100 ≤ n ∧ n ≤ 999) :
    ∃ a b c, decDigits n = [a, b, c] ∧ isDigit a = true ∧ isDigit b = true ∧ isDigit c = true ∧ natOfDigits [a, b, c] = n := by
  have key : ∀ k : Fin 1000, 100 ≤ k.val →
      isDigit (UInt8.ofNat (48 + k.val / 100 % 10)) = true ∧ isDigit (UInt8.ofNat (48 + k.val / 10 % 10)) = true ∧
      isDigit (UInt8.ofNat (48 + k.val % 10)) = true ∧
      natOfDigits [UInt8.ofNat (48 + k.val / 100 % 10), UInt8.ofNat (48 + k.val / 10 % 10), UInt8.ofNat (48 + k.val % 10)] = k.val := by
    decide +kernel
  obtain ⟨h1, h2, h3, h4⟩ := key ⟨n, by omega⟩ h.1
  exact ⟨_, _, _, rfl, h1, h2, h3, h4⟩

end MitmVerif.C01
