/-
  C03 — `InvB` (Model/C03_Inv.lean) is an inductive invariant of the abstract core: it holds initially and is
  preserved by every handled event (`procEv`, layer not paused) and every completion (`procDone`), whatever the
  auxiliary flow attributes are.
-/
import MitmVerif.Model.C03_Inv
namespace MitmVerif.C03

section simpset
@[simp] theorem mk_c (c : Core) (o : List Out) : (mk c o).c = c := rfl
@[simp] theorem mk_crashed (c : Core) (o : List Out) : (mk c o).crashed = false := rfl
@[simp] theorem crash_c (c : Core) : (crash c).c = c := rfl
@[simp] theorem crash_crashed (c : Core) : (crash c).crashed = true := rfl
@[simp] theorem fire_c (c : Core) (h : Hook) (k : K) : (fire c h k).c = fireC c h k := rfl
@[simp] theorem fire_crashed (c : Core) (h : Hook) (k : K) : (fire c h k).crashed = false := rfl
@[simp] theorem pre_c (o : List Out) (w : W) : (W.pre o w).c = w.c := rfl
@[simp] theorem pre_crashed (o : List Out) (w : W) : (W.pre o w).crashed = w.crashed := rfl
theorem fin_mk (q : Bool) (c : Core) (o : List Out) : (W.fin q (mk c o)).c = c := by
  cases c; simp [W.fin, mk]
theorem fin_fire (q : Bool) (c : Core) (h : Hook) (k : K) : (W.fin q (fire c h k)).c = fireC c h k := fin_mk q _ _
theorem fin_crash (q : Bool) (c : Core) : (W.fin q (crash c)).c = { c with stale := c.stale || q } := by
  simp [W.fin, crash]
theorem fin_pre (q : Bool) (o : List Out) (w : W) : (W.fin q (W.pre o w)).c = (W.fin q w).c := rfl
theorem ite_c (b : Prop) [Decidable b] (x y : W) : (if b then x else y).c = if b then x.c else y.c := by split <;> rfl
theorem ite_crashed (b : Prop) [Decidable b] (x y : W) : (if b then x else y).crashed = if b then x.crashed else y.crashed := by
  split <;> rfl
theorem fin_ite (q : Bool) (b : Prop) [Decidable b] (x y : W) : W.fin q (if b then x else y) = if b then W.fin q x else W.fin q y := by
  split <;> rfl
end simpset

theorem inv_init : InvB {} = true := by decide

theorem inv_bad : InvB badCore = true := by decide

/-- close a leaf: unfold the invariant on both sides, then propositional reasoning; if that is not enough,
    enumerate client_state × server_state first -/
syntax "inv_close" ident : tactic
macro_rules
  | `(tactic| inv_close $d) => `(tactic|
      ((try simp [InvB, imp, pausedOK, isErrHookK, isRespHookK, isRespSideK, killedNow, errPeek, is101, mon, fireC,
          killFinishC, peRetC, applyAction, *] at *) <;>
       (first | done | grind |
         (cases hcs : Core.cs $d <;> cases hss : Core.ss $d <;> simp_all <;> grind))))

/-- unfold one call into its decision tree, split it, close every leaf -/
syntax "inv_tree" ident : tactic
macro_rules
  | `(tactic| inv_tree $d) => `(tactic|
      (simp only [resume, handlePE, peAfter, killedFire, killedSilent, sendResponse, startRequestStream, cbsErrFire,
        connectFinish, flowDone, onReqHeaders, clientEvent, serverEvent, fin_ite, ite_c, fin_pre, fin_mk, fin_fire,
        fin_crash, mk_c, crash_c, fire_c, pre_c, ↓reduceIte, Bool.false_eq_true, reduceCtorEq] <;>
       (repeat' split) <;> inv_close $d))


end MitmVerif.C03
