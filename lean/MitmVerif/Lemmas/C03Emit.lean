/-
  C03 — frame lemmas for the emitter proof: which ghost fields a call can change.  Every call leaves `bad`,
  `stale`, `procReqErr`, `seenReqHdr`, `draining` alone and can only switch `attached` on (the bookkeeping around
  the call — `procEv`/`procDone` — is what updates them).
-/
import MitmVerif.Lemmas.C03Base
namespace MitmVerif.C03

def Frame (d : Core) (w : W) : Prop :=
  w.c.bad = d.bad ∧ w.c.stale = d.stale ∧ (d.attached = true → w.c.attached = true) ∧
  w.c.procReqErr = d.procReqErr ∧ w.c.seenReqHdr = d.seenReqHdr ∧ w.c.draining = d.draining

syntax "frame_tree" : tactic
macro_rules
  | `(tactic| frame_tree) => `(tactic|
      (simp only [Frame, resume, handlePE, peAfter, killedFire, killedSilent, sendResponse, startRequestStream, cbsErrFire,
        connectFinish, flowDone, onReqHeaders, clientEvent, serverEvent, ↓reduceIte, Bool.false_eq_true, reduceCtorEq] <;>
       (repeat' split) <;>
       simp [fire, fireC, mk, crash, W.pre, killFinishC, peRetC] <;>
       (try (repeat' split) <;> simp_all)))

set_option maxHeartbeats 4000000 in
theorem frame_resume (d : Core) (k : K) (ok peek : Bool) : Frame d (resume d k ok peek) := by
  cases k
  case peErr r ret => cases r <;> cases ret <;> frame_tree
  case streamConn b => cases b <;> frame_tree
  case cbsHdr b => cases b <;> frame_tree
  case cbsErr b => cases b <;> frame_tree
  all_goals frame_tree

set_option maxHeartbeats 4000000 in
theorem frame_handlePE (d : Core) (isResp peek : Bool) : Frame d (handlePE d isResp .top peek) := by
  cases isResp <;> frame_tree

set_option maxHeartbeats 4000000 in
theorem frame_clientEvent (d : Core) (ev : AEv) : Frame d (clientEvent d ev) := by
  cases ev
  case reqHeaders e k ws v => cases hcs : d.cs <;> cases k <;> cases v <;> cases e <;> simp only [clientEvent, hcs] <;> frame_tree
  case reqData v => cases hcs : d.cs <;> cases v <;> simp only [clientEvent, hcs] <;> frame_tree
  all_goals (cases hcs : d.cs <;> simp only [clientEvent, hcs] <;> frame_tree)

set_option maxHeartbeats 4000000 in
theorem frame_serverEvent (d : Core) (ev : AEv) : Frame d (serverEvent d ev) := by
  cases ev
  case respHeaders e k v => cases hss : d.ss <;> cases k <;> cases v <;> cases e <;> simp only [serverEvent, hss] <;> frame_tree
  case respData v => cases hss : d.ss <;> cases v <;> simp only [serverEvent, hss] <;> frame_tree
  all_goals (cases hss : d.ss <;> simp only [serverEvent, hss] <;> frame_tree)

end MitmVerif.C03
