/-
  C03 — `grammar_holds`: a history delivered by the emitter (Model/C03_Emit.lean) never leaves the event grammar
  (`bad` stays false), so the theorems of Props/C03.lean apply to every HTTP/1 history without further hypothesis.
-/
import MitmVerif.Lemmas.C03Emit
import MitmVerif.Model.C03_Emit
namespace MitmVerif.C03

def AEv.isReqErr : AEv → Bool
  | .reqErr => true
  | _ => false

def AEv.isReqHeaders : AEv → Bool
  | .reqHeaders .. => true
  | _ => false

theorem applyAction_frame (c : Core) (h : Hook) (a : Action) :
    (applyAction c h a).bad = c.bad ∧ (applyAction c h a).stale = c.stale ∧ (applyAction c h a).attached = c.attached ∧
    (applyAction c h a).procReqErr = c.procReqErr ∧ (applyAction c h a).seenReqHdr = c.seenReqHdr ∧
    (applyAction c h a).draining = c.draining := by
  cases a <;> simp [applyAction]

/-- what a handled event does to the ghost fields -/
theorem procEv_spec (c : Core) (a : AEv) (p qd : Bool) (hb : c.bad = false) (hpt : c.pt = false)
    (hg : grammarOk c a = true) :
    (procEv c a p qd).c.bad = false ∧
    ((procEv c a p qd).c.stale = (c.stale || (qd && c.draining && (procEv c a p qd).crashed))) ∧
    (c.attached = true → (procEv c a p qd).c.attached = true) ∧
    (procEv c a p qd).c.procReqErr = (c.procReqErr || a.isReqErr) ∧
    (procEv c a p qd).c.seenReqHdr = (c.seenReqHdr || a.isReqHeaders) ∧
    (procEv c a p qd).c.draining = (qd && c.draining) := by
  unfold procEv
  rw [if_neg (by simp [hb]), if_neg (by simp [hpt]), if_neg (by simp [hg])]
  cases a with
  | reqErr =>
    obtain ⟨f1, f2, f3, f4, f5, f6⟩ := frame_handlePE { c with draining := qd && c.draining, procReqErr := true } false p
    simp only [W.fin, AEv.isReqErr, AEv.isReqHeaders] at *
    simp_all
  | respErr =>
    obtain ⟨f1, f2, f3, f4, f5, f6⟩ := frame_handlePE { c with draining := qd && c.draining } true p
    simp only [W.fin, AEv.isReqErr, AEv.isReqHeaders] at *
    simp_all
  | reqHeaders e k ws v =>
    obtain ⟨f1, f2, f3, f4, f5, f6⟩ := frame_clientEvent { c with draining := qd && c.draining, seenReqHdr := true } (.reqHeaders e k ws v)
    simp only [W.fin, AEv.isReqErr, AEv.isReqHeaders] at *
    simp_all
  | reqData v =>
    obtain ⟨f1, f2, f3, f4, f5, f6⟩ := frame_clientEvent { c with draining := qd && c.draining } (.reqData v)
    simp only [W.fin, AEv.isReqErr, AEv.isReqHeaders] at *
    simp_all
  | reqEOM ne =>
    obtain ⟨f1, f2, f3, f4, f5, f6⟩ := frame_clientEvent { c with draining := qd && c.draining } (.reqEOM ne)
    simp only [W.fin, AEv.isReqErr, AEv.isReqHeaders] at *
    simp_all
  | reqTrailers =>
    obtain ⟨f1, f2, f3, f4, f5, f6⟩ := frame_clientEvent { c with draining := qd && c.draining } .reqTrailers
    simp only [W.fin, AEv.isReqErr, AEv.isReqHeaders] at *
    simp_all
  | respTrailers =>
    obtain ⟨f1, f2, f3, f4, f5, f6⟩ := frame_serverEvent { c with draining := qd && c.draining } .respTrailers
    simp only [W.fin, AEv.isReqErr, AEv.isReqHeaders] at *
    simp_all
  | respHeaders e k v =>
    obtain ⟨f1, f2, f3, f4, f5, f6⟩ := frame_serverEvent { c with draining := qd && c.draining } (.respHeaders e k v)
    simp only [W.fin, AEv.isReqErr, AEv.isReqHeaders] at *
    simp_all
  | respData v =>
    obtain ⟨f1, f2, f3, f4, f5, f6⟩ := frame_serverEvent { c with draining := qd && c.draining } (.respData v)
    simp only [W.fin, AEv.isReqErr, AEv.isReqHeaders] at *
    simp_all
  | respEOM ne =>
    obtain ⟨f1, f2, f3, f4, f5, f6⟩ := frame_serverEvent { c with draining := qd && c.draining } (.respEOM ne)
    simp only [W.fin, AEv.isReqErr, AEv.isReqHeaders] at *
    simp_all
  | hookDone _ _ => simp [grammarOk] at hg
  | connDone _ => simp [grammarOk] at hg
  | openDone _ => simp [grammarOk] at hg

theorem procEv_pt (c : Core) (a : AEv) (p qd : Bool) (hb : c.bad = false) (hpt : c.pt = true) :
    procEv c a p qd = mk c [] := by
  unfold procEv
  rw [if_neg (by simp [hb]), if_pos hpt]

/-- the completion `a` answers the command the stream is blocked on -/
def answers (k : K) : AEv → Bool
  | .hookDone h _ => k.hook == some h
  | .connDone _ => k.hook.isNone && k != .connectOpen
  | .openDone _ => k == .connectOpen
  | _ => false

theorem connectOpen_hook : K.hook .connectOpen = none := rfl

/-- what a completion does to the ghost fields -/
theorem procDone_spec (c : Core) (a : AEv) (p : Bool) (hb : c.bad = false) (k : K) (hk : c.paused = some k)
    (ha : answers k a = true) :
    (procDone c a p).c.bad = false ∧
    ((procDone c a p).c.stale = (c.stale || (procDone c a p).crashed)) ∧
    (c.attached = true → (procDone c a p).c.attached = true) ∧
    (procDone c a p).c.procReqErr = c.procReqErr ∧
    (procDone c a p).c.seenReqHdr = c.seenReqHdr ∧
    (procDone c a p).c.draining = true := by
  unfold procDone
  rw [if_neg (by simp [hb])]
  simp only [hk]
  cases a
  case hookDone h act =>
    simp only [answers, beq_iff_eq] at ha
    simp only [ha, beq_self_eq_true, ↓reduceIte]
    obtain ⟨f1, f2, f3, f4, f5, f6⟩ := frame_resume (applyAction { c with paused := none, draining := true } h act) k true p
    obtain ⟨g1, g2, g3, g4, g5, g6⟩ := applyAction_frame { c with paused := none, draining := true } h act
    simp only [W.fin] at *
    simp_all
  case connDone ok =>
    simp only [answers, Bool.and_eq_true, Option.isNone_iff_eq_none, bne_iff_ne, ne_eq] at ha
    simp only [ha.1]
    rw [if_neg (by simpa using ha.2)]
    obtain ⟨f1, f2, f3, f4, f5, f6⟩ := frame_resume { c with paused := none, draining := true } k ok p
    simp only [W.fin] at *
    simp_all
  case openDone ok =>
    simp only [answers, beq_iff_eq] at ha
    subst ha
    simp only [connectOpen_hook, beq_self_eq_true, ↓reduceIte]
    obtain ⟨f1, f2, f3, f4, f5, f6⟩ := frame_resume { c with paused := none, draining := true } .connectOpen ok p
    simp only [W.fin] at *
    simp_all
  all_goals simp [answers] at ha


-- ------------------------------------------------------------------------------------------------
-- the concrete layer: queue discipline

theorem hn_queue (s : St) (ev : Ev) (qd : Bool) : (handleNow s ev qd).queue = s.queue := by
  simp [handleNow]

theorem hn_core_ev (s : St) (ev : Ev) (qd : Bool) (h : ev.isDone = false) :
    (handleNow s ev qd).core = (procEv s.core (abstractEv s ev) (s.queue.any Ev.isReqErr) qd).c ∧
    (handleNow s ev qd).crashed = (procEv s.core (abstractEv s ev) (s.queue.any Ev.isReqErr) qd).crashed := by
  simp [handleNow, h]

theorem hn_core_done (s : St) (ev : Ev) (qd : Bool) (h : ev.isDone = true) :
    (handleNow s ev qd).core = (procDone s.core (abstractEv s ev) (s.queue.any Ev.isReqErr)).c ∧
    (handleNow s ev qd).crashed = (procDone s.core (abstractEv s ev) (s.queue.any Ev.isReqErr)).crashed := by
  simp [handleNow, h]

theorem abs_isReqErr (s : St) (ev : Ev) : (abstractEv s ev).isReqErr = ev.isReqErr := by cases ev <;> rfl
theorem abs_isReqHeaders (s : St) (ev : Ev) : (abstractEv s ev).isReqHeaders = ev.isReqHeaders := by cases ev <;> rfl

/-- the queue respects the request-side order: once a RequestProtocolError is in (or has been handled, `e`), no
    request headers / data / end-of-message follow -/
def okQ : Bool → List Ev → Bool
  | _, [] => true
  | e, x :: xs => if x.isReqPart then !e && okQ e xs else if x.isReqErr then okQ true xs else okQ e xs

theorem okQ_mono : ∀ (q : List Ev) (e : Bool), okQ true q = true → okQ e q = true
  | [], _, _ => rfl
  | x :: xs, e, h => by
    simp only [okQ] at h ⊢
    split at h
    · simp at h
    · split at h
      · rename_i h1 h2; simp [h1, h2, h]
      · rename_i h1 h2; simp [h1, h2]; exact okQ_mono xs e h

theorem okQ_append : ∀ (q : List Ev) (e : Bool) (x : Ev), okQ e q = true →
    (x.isReqPart = true → e = false ∧ q.any Ev.isReqErr = false) → okQ e (q ++ [x]) = true
  | [], e, x, _, hx => by
    simp only [List.nil_append, okQ]
    split
    · rename_i h; simp [(hx h).1]
    · split <;> rfl
  | y :: ys, e, x, h, hx => by
    simp only [List.cons_append, okQ] at h ⊢
    split
    · rename_i hy
      simp only [hy, ↓reduceIte, Bool.and_eq_true, Bool.not_eq_eq_eq_not, Bool.not_true] at h
      obtain ⟨he, h2⟩ := h
      subst he
      simp only [Bool.not_false, Bool.true_and]
      refine okQ_append ys false x h2 (fun hp => ?_)
      have := hx hp
      simp only [List.any_cons, Bool.or_eq_false_iff] at this
      exact ⟨rfl, this.2.2⟩
    · rename_i hy
      simp only [hy, Bool.false_eq_true, ↓reduceIte] at h
      split
      · rename_i hy2
        simp only [hy2, ↓reduceIte] at h
        refine okQ_append ys true x h (fun hp => ?_)
        have := hx hp
        simp [List.any_cons, hy2] at this
      · rename_i hy2
        simp only [hy2, Bool.false_eq_true, ↓reduceIte] at h
        refine okQ_append ys e x h (fun hp => ?_)
        have := hx hp
        simp only [List.any_cons, Bool.or_eq_false_iff] at this
        exact ⟨this.1, this.2.2⟩

def hdrs (q : List Ev) : Nat := q.countP Ev.isReqHeaders

/-- the invariant linking the stream's state, its paused-event queue and the emitter's phase -/
structure GI (c : Core) (q : List Ev) (rq : RqPhase) : Prop where
  nb : c.bad = false
  ord : c.stale = false → okQ c.procReqErr q = true
  err : (c.procReqErr = true ∨ q.any Ev.isReqErr = true) → rq = .errored
  hdr : hdrs q + (if c.seenReqHdr = true then 1 else 0) ≤ (if rq = .none then 0 else 1)
  nodone : ∀ x ∈ q, x.isDone = false
  att : ∀ x ∈ q, x.isResp = true → c.attached = true

theorem isReqPart_not_err (x : Ev) (h : x.isReqPart = true) : x.isReqErr = false := by cases x <;> simp_all [Ev.isReqPart, Ev.isReqErr]
theorem isReqHeaders_part (x : Ev) (h : x.isReqHeaders = true) : x.isReqPart = true := by cases x <;> simp_all [Ev.isReqPart, Ev.isReqHeaders]

/-- handling the event at the head of the (virtual) queue preserves the invariant -/
theorem gi_handle (s : St) (ev : Ev) (qd : Bool) (rq : RqPhase) (h : GI s.core (ev :: s.queue) rq) :
    GI (handleNow s ev qd).core (handleNow s ev qd).queue rq ∧
    (s.core.stale = true → (handleNow s ev qd).core.stale = true) ∧
    ((qd = true ∧ s.core.draining = true) → (handleNow s ev qd).core.draining = true ∧
        ((handleNow s ev qd).crashed = true → (handleNow s ev qd).core.stale = true)) := by
  have hnd : ev.isDone = false := h.nodone ev (List.mem_cons_self ..)
  obtain ⟨hc, hcr⟩ := hn_core_ev s ev qd hnd
  rw [hn_queue, hc, hcr]
  have hq : ∀ x ∈ s.queue, x ∈ ev :: s.queue := fun x hx => List.mem_cons_of_mem _ hx
  by_cases hpt : s.core.pt = true
  · -- a pipe ignores everything
    rw [procEv_pt _ _ _ _ h.nb hpt]
    simp only [mk_c, mk_crashed]
    refine ⟨⟨h.nb, ?_, ?_, ?_, fun x hx => h.nodone x (hq x hx), fun x hx => h.att x (hq x hx)⟩, fun a => a, fun a => ⟨a.2, by simp⟩⟩
    · intro hs
      have := h.ord hs
      simp only [okQ] at this
      split at this
      · simp only [Bool.and_eq_true] at this; exact this.2
      · split at this
        · exact okQ_mono _ _ this
        · exact this
    · intro hh
      apply h.err
      rcases hh with hh | hh
      · exact Or.inl hh
      · right; simp [List.any_cons, hh]
    · have := h.hdr
      simp only [hdrs, List.countP_cons] at this ⊢
      omega
  · have hpt' : s.core.pt = false := by simpa using hpt
    -- the event is inside the grammar
    have hg : grammarOk s.core (abstractEv s ev) = true := by
      have hord := h.ord
      have hhdr := h.hdr
      have hatt := h.att ev (List.mem_cons_self ..)
      have hseen : ev.isReqHeaders = true → s.core.seenReqHdr = false := by
        intro hh
        simp only [hdrs, List.countP_cons, hh, ↓reduceIte] at hhdr
        cases hs : s.core.seenReqHdr
        · rfl
        · simp only [hs, ↓reduceIte] at hhdr; split at hhdr <;> omega
      have hperr : ev.isReqPart = true → s.core.stale = true ∨ s.core.procReqErr = false := by
        intro hp
        cases hst : s.core.stale
        · right
          have := hord hst
          simp only [okQ, hp, ↓reduceIte, Bool.and_eq_true, Bool.not_eq_eq_eq_not, Bool.not_true] at this
          exact this.1
        · exact Or.inl rfl
      cases ev with
      | reqHeaders e n k ws =>
        have h1 := hseen rfl
        have h2 := hperr rfl
        simp only [abstractEv, grammarOk, h1, Bool.not_false, Bool.true_and, Bool.or_eq_true, Bool.not_eq_eq_eq_not, Bool.not_true]
        exact h2
      | reqData n =>
        have h2 := hperr rfl
        simp only [abstractEv, grammarOk, Bool.or_eq_true, Bool.not_eq_eq_eq_not, Bool.not_true]
        exact h2
      | reqEOM =>
        have h2 := hperr rfl
        simp only [abstractEv, grammarOk, Bool.or_eq_true, Bool.not_eq_eq_eq_not, Bool.not_true]
        exact h2
      | reqTrailers =>
        have h2 := hperr rfl
        simp only [abstractEv, grammarOk, Bool.or_eq_true, Bool.not_eq_eq_eq_not, Bool.not_true]
        exact h2
      | respTrailers => exact hatt rfl
      | reqErr => rfl
      | respHeaders e n k => exact hatt rfl
      | respData n => exact hatt rfl
      | respEOM => exact hatt rfl
      | respErr => exact hatt rfl
      | hookDone _ _ => simp [Ev.isDone] at hnd
      | connDone _ => simp [Ev.isDone] at hnd
      | openDone _ => simp [Ev.isDone] at hnd
    obtain ⟨s1, s2, s3, s4, s5, s6⟩ := procEv_spec s.core (abstractEv s ev) (s.queue.any Ev.isReqErr) qd h.nb hpt' hg
    rw [abs_isReqErr] at s4
    rw [abs_isReqHeaders] at s5
    refine ⟨⟨s1, ?_, ?_, ?_, fun x hx => h.nodone x (hq x hx), fun x hx hr => s3 (h.att x (hq x hx) hr)⟩, ?_, ?_⟩
    · intro hs
      rw [s2] at hs
      simp only [Bool.or_eq_false_iff] at hs
      have := h.ord hs.1
      rw [s4]
      simp only [okQ] at this
      split at this
      · rename_i hp
        simp only [Bool.and_eq_true, Bool.not_eq_eq_eq_not, Bool.not_true] at this
        have h2 := this.2
        rw [this.1] at h2
        simp [this.1, isReqPart_not_err ev hp, h2]
      · split at this
        · rename_i hp he; simp [he, this]
        · rename_i hp he
          have he' : ev.isReqErr = false := by simpa using he
          simp [he', this]
    · intro hh
      apply h.err
      rw [s4] at hh
      simp only [Bool.or_eq_true] at hh
      rcases hh with (hh | hh) | hh
      · exact Or.inl hh
      · right; simp [List.any_cons, hh]
      · right; simp [List.any_cons, hh]
    · have := h.hdr
      rw [s5]
      simp only [hdrs, List.countP_cons] at this ⊢
      by_cases hh : ev.isReqHeaders = true
      · simp only [hh, ↓reduceIte, Bool.or_true] at this ⊢
        omega
      · have hh' : ev.isReqHeaders = false := by simpa using hh
        simp only [hh', Bool.false_eq_true, ↓reduceIte, Nat.add_zero, Bool.or_false] at this ⊢
        exact this
    · intro hs; rw [s2, hs]; rfl
    · intro ⟨hqd, hdr⟩
      refine ⟨by rw [s6, hqd, hdr]; rfl, fun hcr => ?_⟩
      rw [s2, hcr, hqd, hdr]; simp


theorem abs_answers (s : St) (k : K) (ev : Ev) (hk : s.core.paused = some k) (hd : ev.isDone = true)
    (he : ∀ rq, enabled s rq ev = true) : answers k (abstractEv s ev) = true := by
  have := he .none
  cases ev <;> simp_all [enabled, answers, abstractEv, Ev.isDone]

/-- a completion for the pending command preserves the invariant; afterwards the layer is replaying -/
theorem gi_done (s : St) (ev : Ev) (rq : RqPhase) (k : K) (hk : s.core.paused = some k) (hd : ev.isDone = true)
    (ha : answers k (abstractEv s ev) = true) (h : GI s.core s.queue rq) :
    GI (handleNow s ev false).core (handleNow s ev false).queue rq ∧
    (handleNow s ev false).core.draining = true ∧
    ((handleNow s ev false).crashed = true → (handleNow s ev false).core.stale = true) := by
  obtain ⟨hc, hcr⟩ := hn_core_done s ev false hd
  rw [hn_queue, hc, hcr]
  obtain ⟨s1, s2, s3, s4, s5, s6⟩ := procDone_spec s.core (abstractEv s ev) (s.queue.any Ev.isReqErr) h.nb k hk ha
  refine ⟨⟨s1, ?_, ?_, ?_, h.nodone, fun x hx hr => s3 (h.att x hx hr)⟩, s6, fun hcr => by rw [s2, hcr]; simp⟩
  · intro hs
    rw [s2] at hs
    simp only [Bool.or_eq_false_iff] at hs
    rw [s4]; exact h.ord hs.1
  · intro hh; rw [s4] at hh; exact h.err hh
  · rw [s5]; exact h.hdr

/-- replaying the queue preserves the invariant, and ends paused, with an empty queue, or stale -/
theorem gi_drain (rq : RqPhase) : ∀ (fuel : Nat) (s : St), GI s.core s.queue rq → s.core.draining = true →
    (s.crashed = true → s.core.stale = true) →
    GI (drain fuel s).core (drain fuel s).queue rq ∧
    (s.queue.length ≤ fuel → (drain fuel s).core.paused.isSome = true ∨ (drain fuel s).queue = [] ∨ (drain fuel s).core.stale = true)
  | 0, s, h, _, _ => by
    refine ⟨h, fun hl => ?_⟩
    have : s.queue = [] := by
      cases hq : s.queue with
      | nil => rfl
      | cons a t => rw [hq] at hl; simp at hl
    exact Or.inr (Or.inl this)
  | fuel + 1, s, h, hdr, hcs => by
    unfold drain
    split
    · rename_i hc
      refine ⟨h, fun _ => ?_⟩
      simp only [Bool.or_eq_true] at hc
      rcases hc with hc | hc
      · exact Or.inl hc
      · exact Or.inr (Or.inr (hcs hc))
    · split
      · rename_i hq
        exact ⟨h, fun _ => Or.inr (Or.inl hq)⟩
      · rename_i e q hq
        have h' : GI ({ s with queue := q } : St).core (e :: ({ s with queue := q } : St).queue) rq := by
          show GI s.core (e :: q) rq
          rw [← hq]; exact h
        obtain ⟨g1, _, g3⟩ := gi_handle { s with queue := q } e true rq h'
        obtain ⟨g3a, g3b⟩ := g3 ⟨rfl, hdr⟩
        obtain ⟨r1, r2⟩ := gi_drain rq fuel _ g1 g3a g3b
        refine ⟨r1, fun hl => r2 ?_⟩
        rw [hn_queue]
        show q.length ≤ fuel
        rw [hq] at hl; simp at hl; exact hl

theorem hdr_next (s : St) (n k : Nat) (rq : RqPhase) (ev : Ev) (he : enabled s rq ev = true)
    (h : n + k ≤ (if rq = .none then 0 else 1)) :
    n + (if ev.isReqHeaders = true then 1 else 0) + k ≤ (if rqNext rq ev = .none then 0 else 1) := by
  cases rq <;> cases ev <;> simp_all [enabled, rqNext, Ev.isReqHeaders] <;> omega

/-- an event arriving while the layer is paused joins the queue -/
theorem gi_enqueue (s : St) (ev : Ev) (rq : RqPhase) (hnd : ev.isDone = false) (he : enabled s rq ev = true)
    (h : GI s.core s.queue rq) : GI s.core (s.queue ++ [ev]) (rqNext rq ev) := by
  have hnoerr : rq ≠ .errored → s.core.procReqErr = false ∧ s.queue.any Ev.isReqErr = false := by
    intro hr
    constructor
    · cases hp : s.core.procReqErr
      · rfl
      · exact absurd (h.err (Or.inl hp)) hr
    · cases hp : s.queue.any Ev.isReqErr
      · rfl
      · exact absurd (h.err (Or.inr hp)) hr
  refine ⟨h.nb, ?_, ?_, ?_, ?_, ?_⟩
  · intro hs
    apply okQ_append _ _ _ (h.ord hs)
    intro hp
    apply hnoerr
    cases ev <;> simp_all [enabled, Ev.isReqPart]
  · intro hh
    simp only [List.any_append, List.any_cons, List.any_nil, Bool.or_false, Bool.or_eq_true] at hh
    have hold : (s.core.procReqErr = true ∨ s.queue.any Ev.isReqErr = true) → rqNext rq ev = .errored := by
      intro h1
      have := h.err h1
      subst this
      cases ev <;> simp_all [enabled, rqNext]
    rcases hh with hh | hh | hh
    · exact hold (Or.inl hh)
    · exact hold (Or.inr hh)
    · cases ev <;> simp_all [Ev.isReqErr, rqNext]
  · have := hdr_next s _ _ rq ev he h.hdr
    simp only [hdrs, List.countP_append, List.countP_cons, List.countP_nil, Nat.zero_add] at this ⊢
    exact this
  · intro x hx
    simp only [List.mem_append, List.mem_cons, List.mem_nil_iff, or_false] at hx
    rcases hx with hx | hx
    · exact h.nodone x hx
    · rw [hx]; exact hnd
  · intro x hx hr
    simp only [List.mem_append, List.mem_cons, List.mem_nil_iff, or_false] at hx
    rcases hx with hx | hx
    · exact h.att x hx hr
    · subst hx
      cases x <;> simp_all [enabled, Ev.isResp]

/-- an event arriving while the layer is not paused is handled at once: as if it were the head of the queue -/
theorem gi_direct (s : St) (ev : Ev) (rq : RqPhase) (hnd : ev.isDone = false) (he : enabled s rq ev = true)
    (h : GI s.core s.queue rq) (hb : s.queue = [] ∨ s.core.stale = true) :
    GI s.core (ev :: s.queue) (rqNext rq ev) := by
  have hnoerr : rq ≠ .errored → s.core.procReqErr = false ∧ s.queue.any Ev.isReqErr = false := by
    intro hr
    constructor
    · cases hp : s.core.procReqErr
      · rfl
      · exact absurd (h.err (Or.inl hp)) hr
    · cases hp : s.queue.any Ev.isReqErr
      · rfl
      · exact absurd (h.err (Or.inr hp)) hr
  refine ⟨h.nb, ?_, ?_, ?_, ?_, ?_⟩
  · intro hs
    have hq : s.queue = [] := by
      rcases hb with hb | hb
      · exact hb
      · rw [hs] at hb; cases hb
    rw [hq]
    simp only [okQ]
    split
    · rename_i hp
      have : rq ≠ .errored := by cases ev <;> simp_all [enabled, Ev.isReqPart]
      simp [(hnoerr this).1]
    · split <;> rfl
  · intro hh
    simp only [List.any_cons, Bool.or_eq_true] at hh
    have hold : (s.core.procReqErr = true ∨ s.queue.any Ev.isReqErr = true) → rqNext rq ev = .errored := by
      intro h1
      have := h.err h1
      subst this
      cases ev <;> simp_all [enabled, rqNext]
    rcases hh with hh | hh | hh
    · exact hold (Or.inl hh)
    · cases ev <;> simp_all [Ev.isReqErr, rqNext]
    · exact hold (Or.inr hh)
  · have := hdr_next s _ _ rq ev he h.hdr
    simp only [hdrs, List.countP_cons] at this ⊢
    exact this
  · intro x hx
    simp only [List.mem_cons] at hx
    rcases hx with hx | hx
    · rw [hx]; exact hnd
    · exact h.nodone x hx
  · intro x hx hr
    simp only [List.mem_cons] at hx
    rcases hx with hx | hx
    · subst hx
      cases x <;> simp_all [enabled, Ev.isResp]
    · exact h.att x hx hr

/-- the invariant at a step boundary -/
def GB (s : St) (rq : RqPhase) : Prop :=
  GI s.core s.queue rq ∧ (s.core.paused = none → s.queue = [] ∨ s.core.stale = true)

theorem gb_step (s : St) (ev : Ev) (rq : RqPhase) (h : GB s rq) (he : enabled s rq ev = true) :
    GB (step s ev) (rqNext rq ev) := by
  obtain ⟨hg, hbnd⟩ := h
  unfold step
  cases hp : s.core.paused with
  | some k =>
    simp only [Option.isSome_some, ↓reduceIte]
    by_cases hd : ev.isDone = true
    · simp only [hd, ↓reduceIte]
      have hrq : rqNext rq ev = rq := by cases ev <;> simp_all [Ev.isDone, rqNext]
      rw [hrq]
      have ha : answers k (abstractEv s ev) = true := by
        cases ev <;> simp_all [enabled, answers, abstractEv, Ev.isDone]
      obtain ⟨d1, d2, d3⟩ := gi_done s ev rq k hp hd ha hg
      obtain ⟨r1, r2⟩ := gi_drain rq _ _ d1 d2 d3
      refine ⟨r1, fun hpn => ?_⟩
      rcases r2 (Nat.le_refl _) with r | r | r
      · rw [hpn] at r; simp at r
      · exact Or.inl r
      · exact Or.inr r
    · have hd' : ev.isDone = false := by simpa using hd
      simp only [hd', Bool.false_eq_true, ↓reduceIte]
      refine ⟨gi_enqueue s ev rq hd' he hg, fun hpn => ?_⟩
      simp only [hp] at hpn
      cases hpn
  | none =>
    simp only [Option.isSome_none, Bool.false_eq_true, ↓reduceIte]
    have hd' : ev.isDone = false := by
      cases ev <;> simp_all [enabled, Ev.isDone]
    have h1 := gi_direct s ev rq hd' he hg (hbnd hp)
    obtain ⟨g1, g2, _⟩ := gi_handle s ev false (rqNext rq ev) h1
    refine ⟨g1, fun _ => ?_⟩
    rw [hn_queue]
    rcases hbnd hp with hq | hs
    · exact Or.inl hq
    · exact Or.inr (g2 hs)

theorem gb_init (l t : Nat) : GB (init l t) .none := by
  refine ⟨⟨rfl, fun _ => rfl, ?_, ?_, ?_, ?_⟩, fun _ => Or.inl rfl⟩
  · intro h; simp [init] at h
  · simp [init, hdrs]
  · intro x hx; simp [init] at hx
  · intro x hx; simp [init] at hx

theorem gb_run : ∀ (evs : List Ev) (s : St) (rq : RqPhase), GB s rq → admissible s rq evs = true →
    (evs.foldl step s).core.bad = false
  | [], s, _, h, _ => h.1.nb
  | ev :: evs, s, rq, h, ha => by
    simp only [admissible, Bool.and_eq_true] at ha
    exact gb_run evs (step s ev) (rqNext rq ev) (gb_step s ev rq h ha.1) ha.2

/-- **grammar holds**: whatever the emitter delivers stays inside the event grammar -/
theorem grammar_holds_run (l t : Nat) (evs : List Ev) (h : Admissible l t evs) : (run l t evs).core.bad = false :=
  gb_run evs (init l t) .none (gb_init l t) h

end MitmVerif.C03
