/-
  C03 — `InvB` (Model/C03_Inv.lean) is an inductive invariant of the abstract core: it holds initially and is
  preserved by every handled event (`procEv`, layer not paused) and every completion (`procDone`), whatever the
  auxiliary flow attributes are.
-/
import MitmVerif.Model.C03_Inv
namespace MitmVerif.C03

section simpset
@[simp] theorem mk_c (c : Core) (o : List Out) : (mk c o).c = c := rfl
@[simp] theorem mk_crashed (c : Core) (o : List Out) : (mk c o).crashed = false := rfl
@[simp] theorem crash_c (c : Core) : (crash c).c = c := rfl
@[simp] theorem crash_crashed (c : Core) : (crash c).crashed = true := rfl
@[simp] theorem fire_c (c : Core) (h : Hook) (k : K) : (fire c h k).c = fireC c h k := rfl
@[simp] theorem fire_crashed (c : Core) (h : Hook) (k : K) : (fire c h k).crashed = false := rfl
@[simp] theorem pre_c (o : List Out) (w : W) : (W.pre o w).c = w.c := rfl
@[simp] theorem pre_crashed (o : List Out) (w : W) : (W.pre o w).crashed = w.crashed := rfl
theorem fin_mk (q : Bool) (c : Core) (o : List Out) : (W.fin q (mk c o)).c = c := by
  cases c; simp [W.fin, mk]
theorem fin_fire (q : Bool) (c : Core) (h : Hook) (k : K) : (W.fin q (fire c h k)).c = fireC c h k := fin_mk q _ _
theorem fin_crash (q : Bool) (c : Core) : (W.fin q (crash c)).c = { c with stale := c.stale || q } := by
  simp [W.fin, crash]
theorem fin_pre (q : Bool) (o : List Out) (w : W) : (W.fin q (W.pre o w)).c = (W.fin q w).c := rfl
theorem ite_c (b : Prop) [Decidable b] (x y : W) : (if b then x else y).c = if b then x.c else y.c := by split <;> rfl
theorem ite_crashed (b : Prop) [Decidable b] (x y : W) : (if b then x else y).crashed = if b then x.crashed else y.crashed := by
  split <;> rfl
theorem fin_ite (q : Bool) (b : Prop) [Decidable b] (x y : W) : W.fin q (if b then x else y) = if b then W.fin q x else W.fin q y := by
  split <;> rfl
end simpset

theorem inv_init : InvB {} = true := by decide

theorem inv_bad : InvB badCore = true := by decide

/-- close a leaf: unfold the invariant on both sides, then propositional reasoning; if that is not enough,
    enumerate client_state × server_state first -/
syntax "inv_close" ident : tactic
macro_rules
  | `(tactic| inv_close $d) => `(tactic|
      ((try simp [InvB, imp, pausedOK, isErrHookK, isRespHookK, isRespSideK, killedNow, errPeek, is101, mon, fireC,
          killFinishC, peRetC, applyAction, *] at *) <;>
       (first | done | grind |
         (cases hcs : Core.cs $d <;> cases hss : Core.ss $d <;> simp_all <;> grind))))

/-- unfold one call into its decision tree, split it, close every leaf -/
syntax "inv_tree" ident : tactic
macro_rules
  | `(tactic| inv_tree $d) => `(tactic|
      (simp only [resume, handlePE, peAfter, killedFire, killedSilent, sendResponse, startRequestStream, cbsErrFire,
        connectFinish, flowDone, onReqHeaders, clientEvent, serverEvent, fin_ite, ite_c, fin_pre, fin_mk, fin_fire,
        fin_crash, mk_c, crash_c, fire_c, pre_c, ↓reduceIte, Bool.false_eq_true, reduceCtorEq] <;>
       (repeat' split) <;> inv_close $d))

set_option maxHeartbeats 8000000 in
theorem inv_resume (d : Core) (k : K) (ok peek dr0 : Bool)
    (h : InvB { d with paused := some k, draining := dr0 } = true) (hp : d.paused = none) (hb : d.bad = false) :
    InvB (W.fin true (resume d k ok peek)).c = true := by
  cases k
  case peErr r ret => cases r <;> cases ret <;> inv_tree d
  case streamConn b => cases b <;> inv_tree d
  case cbsHdr b => cases b <;> inv_tree d
  case cbsErr b => cases b <;> inv_tree d
  all_goals inv_tree d
set_option maxHeartbeats 8000000 in
theorem inv_reqErr (d : Core) (peek q x0 dr0 : Bool)
    (h : InvB { d with procReqErr := x0, draining := dr0 } = true) (hp : d.paused = none) (hb : d.bad = false)
    (hpt : d.pt = false) (hX : d.procReqErr = true) (hdr : d.draining = q) (hq : q = true → dr0 = true) :
    InvB (W.fin q (handlePE d false .top peek)).c = true := by
  inv_tree d

set_option maxHeartbeats 8000000 in
theorem inv_respErr (d : Core) (peek q dr0 : Bool)
    (h : InvB { d with draining := dr0 } = true) (hp : d.paused = none) (hb : d.bad = false)
    (hpt : d.pt = false) (hA : d.attached = true) (hdr : d.draining = q) (hq : q = true → dr0 = true) :
    InvB (W.fin q (handlePE d true .top peek)).c = true := by
  inv_tree d
set_option maxHeartbeats 16000000 in
theorem inv_reqHeaders (d : Core) (e : Bool) (kind : ReqKind) (ws : Bool) (v : Verdict) (q dr0 : Bool)
    (h : InvB { d with seenReqHdr := false, draining := dr0 } = true) (hp : d.paused = none) (hb : d.bad = false)
    (hpt : d.pt = false) (hS : d.seenReqHdr = true) (hG : d.stale = true ∨ d.procReqErr = false)
    (hdr : d.draining = q) (hq : q = true → dr0 = true) :
    InvB (W.fin q (clientEvent d (.reqHeaders e kind ws v))).c = true := by
  cases hcs : d.cs <;> cases kind <;> cases v <;> cases e <;> simp only [clientEvent, hcs] <;> inv_tree d

set_option maxHeartbeats 16000000 in
theorem inv_reqBody (d : Core) (ev : AEv) (hev : (∃ v, ev = .reqData v) ∨ (∃ ne, ev = .reqEOM ne) ∨ ev = .reqTrailers) (q dr0 : Bool)
    (h : InvB { d with draining := dr0 } = true) (hp : d.paused = none) (hb : d.bad = false)
    (hpt : d.pt = false) (hG : d.stale = true ∨ d.procReqErr = false)
    (hdr : d.draining = q) (hq : q = true → dr0 = true) :
    InvB (W.fin q (clientEvent d ev)).c = true := by
  rcases hev with ⟨v, rfl⟩ | ⟨ne, rfl⟩ | rfl
  · cases hcs : d.cs <;> cases v <;> simp only [clientEvent, hcs] <;> inv_tree d
  · cases hcs : d.cs <;> simp only [clientEvent, hcs] <;> inv_tree d
  · cases hcs : d.cs <;> simp only [clientEvent, hcs] <;> inv_tree d
set_option maxHeartbeats 16000000 in
theorem inv_respEvent (d : Core) (ev : AEv)
    (hev : (∃ e k v, ev = .respHeaders e k v) ∨ (∃ v, ev = .respData v) ∨ (∃ ne, ev = .respEOM ne) ∨ ev = .respTrailers) (q dr0 : Bool)
    (h : InvB { d with draining := dr0 } = true) (hp : d.paused = none) (hb : d.bad = false)
    (hpt : d.pt = false) (hA : d.attached = true)
    (hdr : d.draining = q) (hq : q = true → dr0 = true) :
    InvB (W.fin q (serverEvent d ev)).c = true := by
  rcases hev with ⟨e, k, v, rfl⟩ | ⟨v, rfl⟩ | ⟨ne, rfl⟩ | rfl
  · cases hss : d.ss <;> cases k <;> cases v <;> cases e <;> simp only [serverEvent, hss] <;> inv_tree d
  · cases hss : d.ss <;> cases v <;> simp only [serverEvent, hss] <;> inv_tree d
  · cases hss : d.ss <;> simp only [serverEvent, hss] <;> inv_tree d
  · cases hss : d.ss <;> simp only [serverEvent, hss] <;> inv_tree d

end MitmVerif.C03
