/-
  C03 — the invariant is preserved by every continuation (`resume`), whatever the auxiliary attributes are.
-/
import MitmVerif.Lemmas.C03Base
namespace MitmVerif.C03

set_option maxHeartbeats 8000000 in
theorem inv_resume (d : Core) (k : K) (ok peek dr0 : Bool)
    (h : InvB { d with paused := some k, draining := dr0 } = true) (hp : d.paused = none) (hb : d.bad = false) :
    InvB (W.fin true (resume d k ok peek)).c = true := by
  cases k
  case peErr r ret => cases r <;> cases ret <;> inv_tree d
  case streamConn b => cases b <;> inv_tree d
  case cbsHdr b => cases b <;> inv_tree d
  case cbsErr b => cases b <;> inv_tree d
  all_goals inv_tree d

end MitmVerif.C03
