/-
  C03 — the invariant is preserved by protocol errors from either side.
-/
import MitmVerif.Lemmas.C03Base
namespace MitmVerif.C03

set_option maxHeartbeats 8000000 in
theorem inv_reqErr (d : Core) (peek q x0 dr0 : Bool)
    (h : InvB { d with procReqErr := x0, draining := dr0 } = true) (hp : d.paused = none) (hb : d.bad = false)
    (hpt : d.pt = false) (hX : d.procReqErr = true) (hdr : d.draining = q) (hq : q = true → dr0 = true) :
    InvB (W.fin q (handlePE d false .top peek)).c = true := by
  inv_tree d

set_option maxHeartbeats 8000000 in
theorem inv_respErr (d : Core) (peek q dr0 : Bool)
    (h : InvB { d with draining := dr0 } = true) (hp : d.paused = none) (hb : d.bad = false)
    (hpt : d.pt = false) (hA : d.attached = true) (hdr : d.draining = q) (hq : q = true → dr0 = true) :
    InvB (W.fin q (handlePE d true .top peek)).c = true := by
  inv_tree d

end MitmVerif.C03
