/-
  C03 — the invariant is preserved by request-side events (headers, data, trailers, end of message).
-/
import MitmVerif.Lemmas.C03Base
namespace MitmVerif.C03

set_option maxHeartbeats 16000000 in
theorem inv_reqHeaders (d : Core) (e : Bool) (kind : ReqKind) (ws : Bool) (v : Verdict) (q dr0 : Bool)
    (h : InvB { d with seenReqHdr := false, draining := dr0 } = true) (hp : d.paused = none) (hb : d.bad = false)
    (hpt : d.pt = false) (hS : d.seenReqHdr = true) (hG : d.stale = true ∨ d.procReqErr = false)
    (hdr : d.draining = q) (hq : q = true → dr0 = true) :
    InvB (W.fin q (clientEvent d (.reqHeaders e kind ws v))).c = true := by
  cases hcs : d.cs <;> cases kind <;> cases v <;> cases e <;> simp only [clientEvent, hcs] <;> inv_tree d

set_option maxHeartbeats 16000000 in
theorem inv_reqBody (d : Core) (ev : AEv) (hev : (∃ v, ev = .reqData v) ∨ (∃ ne, ev = .reqEOM ne) ∨ ev = .reqTrailers) (q dr0 : Bool)
    (h : InvB { d with draining := dr0 } = true) (hp : d.paused = none) (hb : d.bad = false)
    (hpt : d.pt = false) (hG : d.stale = true ∨ d.procReqErr = false)
    (hdr : d.draining = q) (hq : q = true → dr0 = true) :
    InvB (W.fin q (clientEvent d ev)).c = true := by
  rcases hev with ⟨v, rfl⟩ | ⟨ne, rfl⟩ | rfl
  · cases hcs : d.cs <;> cases v <;> simp only [clientEvent, hcs] <;> inv_tree d
  · cases hcs : d.cs <;> simp only [clientEvent, hcs] <;> inv_tree d
  · cases hcs : d.cs <;> simp only [clientEvent, hcs] <;> inv_tree d

end MitmVerif.C03
