/-
  C03 — the invariant is preserved by response-side events.
-/
import MitmVerif.Lemmas.C03InvRespA
import MitmVerif.Lemmas.C03InvRespB
namespace MitmVerif.C03

set_option maxHeartbeats 16000000 in
theorem inv_respEvent (d : Core) (ev : AEv)
    (hev : (∃ e k v, ev = .respHeaders e k v) ∨ (∃ v, ev = .respData v) ∨ (∃ ne, ev = .respEOM ne) ∨ ev = .respTrailers) (q dr0 : Bool)
    (h : InvB { d with draining := dr0 } = true) (hp : d.paused = none) (hb : d.bad = false)
    (hpt : d.pt = false) (hA : d.attached = true)
    (hdr : d.draining = q) (hq : q = true → dr0 = true) :
    InvB (W.fin q (serverEvent d ev)).c = true := by
  rcases hev with ⟨e, k, v, rfl⟩ | ⟨v, rfl⟩ | ⟨ne, rfl⟩ | rfl
  · cases k
    · exact inv_respHeaders_norm d e v q dr0 h hp hb hpt hA hdr hq
    · exact inv_respHeaders_ws101 d e v q dr0 h hp hb hpt hA hdr hq
    · exact inv_respHeaders_up101 d e v q dr0 h hp hb hpt hA hdr hq
    · exact inv_respHeaders_invalid d e v q dr0 h hp hb hpt hA hdr hq
  · cases hss : d.ss <;> cases v <;> simp only [serverEvent, hss] <;> inv_tree d
  · cases hss : d.ss <;> simp only [serverEvent, hss] <;> inv_tree d
  · cases hss : d.ss <;> simp only [serverEvent, hss] <;> inv_tree d

end MitmVerif.C03
