/-
  C03 — the invariant is preserved by ResponseHeaders (plain and invalid responses).
-/
import MitmVerif.Lemmas.C03Base
namespace MitmVerif.C03

set_option maxHeartbeats 16000000 in
theorem inv_respHeaders_norm (d : Core) (e : Bool) (v : Verdict) (q dr0 : Bool)
    (h : InvB { d with draining := dr0 } = true) (hp : d.paused = none) (hb : d.bad = false)
    (hpt : d.pt = false) (hA : d.attached = true)
    (hdr : d.draining = q) (hq : q = true → dr0 = true) :
    InvB (W.fin q (serverEvent d (.respHeaders e .norm v))).c = true := by
  cases hss : d.ss <;> cases v <;> cases e <;> simp only [serverEvent, hss] <;> inv_tree d

set_option maxHeartbeats 16000000 in
theorem inv_respHeaders_invalid (d : Core) (e : Bool) (v : Verdict) (q dr0 : Bool)
    (h : InvB { d with draining := dr0 } = true) (hp : d.paused = none) (hb : d.bad = false)
    (hpt : d.pt = false) (hA : d.attached = true)
    (hdr : d.draining = q) (hq : q = true → dr0 = true) :
    InvB (W.fin q (serverEvent d (.respHeaders e .invalid v))).c = true := by
  cases hss : d.ss <;> cases v <;> cases e <;> simp only [serverEvent, hss] <;> inv_tree d

end MitmVerif.C03
