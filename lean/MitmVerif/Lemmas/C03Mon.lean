/-
  C03 — what the monitor's flags say about a command list (pure list reasoning, no model involved).
-/
import MitmVerif.Lemmas.C03Run
namespace MitmVerif.C03

/-- flags only ever go from false to true -/
def Mon.le (a b : Mon) : Prop :=
  (a.fRH = true → b.fRH = true) ∧ (a.fReq = true → b.fReq = true) ∧ (a.fRespH = true → b.fRespH = true) ∧
  (a.fResp = true → b.fResp = true) ∧ (a.fErr = true → b.fErr = true) ∧ (a.streamed = true → b.streamed = true) ∧
  (a.v1 = true → b.v1 = true) ∧ (a.v2 = true → b.v2 = true) ∧ (a.v3 = true → b.v3 = true) ∧
  (a.v4 = true → b.v4 = true) ∧ (a.v5 = true → b.v5 = true)

theorem Mon.le_refl (a : Mon) : a.le a := by simp [Mon.le]

theorem Mon.le_trans {a b c : Mon} (h1 : a.le b) (h2 : b.le c) : a.le c := by
  simp only [Mon.le] at *
  refine ⟨?_, ?_, ?_, ?_, ?_, ?_, ?_, ?_, ?_, ?_, ?_⟩ <;> intro h <;> simp_all

theorem mon_le (m : Mon) (o : Out) : m.le (mon m o) := by
  cases o <;> (try rename_i h; cases h) <;> simp [mon, Mon.le] <;> (intros; simp_all)

theorem foldl_le (t : List Out) (m : Mon) : m.le (t.foldl mon m) := by
  induction t generalizing m with
  | nil => exact Mon.le_refl m
  | cons o t ih => exact Mon.le_trans (mon_le m o) (ih _)

/-- the state of the monitor when it reaches `x` in `pre ++ x :: post`, and afterwards -/
theorem scan_split (pre post : List Out) (x : Out) :
    scan (pre ++ x :: post) = post.foldl mon (mon (scan pre) x) := by
  simp [scan, List.foldl_append]

theorem scan_mid_le (pre post : List Out) (x : Out) : (mon (scan pre) x).le (scan (pre ++ x :: post)) := by
  rw [scan_split]; exact foldl_le _ _

-- membership ↔ flag -----------------------------------------------------------------------------

theorem foldl_fRH (t : List Out) (m : Mon) : (t.foldl mon m).fRH = (m.fRH || t.contains (.hook .requestheaders)) := by
  induction t generalizing m with
  | nil => simp
  | cons o t ih => rw [List.foldl_cons, ih]; cases o <;> (try rename_i h; cases h) <;> simp [mon] <;> (cases m.fRH <;> simp)

theorem foldl_fReq (t : List Out) (m : Mon) : (t.foldl mon m).fReq = (m.fReq || t.contains (.hook .request)) := by
  induction t generalizing m with
  | nil => simp
  | cons o t ih => rw [List.foldl_cons, ih]; cases o <;> (try rename_i h; cases h) <;> simp [mon] <;> (cases m.fReq <;> simp)

theorem foldl_fRespH (t : List Out) (m : Mon) : (t.foldl mon m).fRespH = (m.fRespH || t.contains (.hook .responseheaders)) := by
  induction t generalizing m with
  | nil => simp
  | cons o t ih => rw [List.foldl_cons, ih]; cases o <;> (try rename_i h; cases h) <;> simp [mon] <;> (cases m.fRespH <;> simp)

theorem foldl_fResp (t : List Out) (m : Mon) : (t.foldl mon m).fResp = (m.fResp || t.contains (.hook .response)) := by
  induction t generalizing m with
  | nil => simp
  | cons o t ih => rw [List.foldl_cons, ih]; cases o <;> (try rename_i h; cases h) <;> simp [mon] <;> (cases m.fResp <;> simp)

theorem foldl_fErr (t : List Out) (m : Mon) : (t.foldl mon m).fErr = (m.fErr || t.contains (.hook .error)) := by
  induction t generalizing m with
  | nil => simp
  | cons o t ih => rw [List.foldl_cons, ih]; cases o <;> (try rename_i h; cases h) <;> simp [mon] <;> (cases m.fErr <;> simp)

theorem foldl_streamed (t : List Out) (m : Mon) : (t.foldl mon m).streamed = (m.streamed || t.contains .streamStart) := by
  induction t generalizing m with
  | nil => simp
  | cons o t ih => rw [List.foldl_cons, ih]; cases o <;> (try rename_i h; cases h) <;> simp [mon] <;> (cases m.streamed <;> simp)

theorem scan_fRH (t : List Out) : (scan t).fRH = true ↔ .hook .requestheaders ∈ t := by simp [scan, foldl_fRH]
theorem scan_fReq (t : List Out) : (scan t).fReq = true ↔ .hook .request ∈ t := by simp [scan, foldl_fReq]
theorem scan_fRespH (t : List Out) : (scan t).fRespH = true ↔ .hook .responseheaders ∈ t := by simp [scan, foldl_fRespH]
theorem scan_fResp (t : List Out) : (scan t).fResp = true ↔ .hook .response ∈ t := by simp [scan, foldl_fResp]
theorem scan_fErr (t : List Out) : (scan t).fErr = true ↔ .hook .error ∈ t := by simp [scan, foldl_fErr]
theorem scan_streamed (t : List Out) : (scan t).streamed = true ↔ .streamStart ∈ t := by simp [scan, foldl_streamed]

end MitmVerif.C03
