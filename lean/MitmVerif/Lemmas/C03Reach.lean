/-
  C03 — machinery for the reachable-state certificate: a search tree over state numbers, the finite input
  alphabet of the abstract core, and the per-state closure check that the kernel evaluates.
-/
import MitmVerif.Model.C03_Enc
namespace MitmVerif.C03

inductive Tree where
  | leaf
  | node (l : Tree) (k : Nat) (r : Tree)

def Tree.mem : Tree → Nat → Bool
  | .leaf, _ => false
  | .node l k r, x => if x < k then l.mem x else if k < x then r.mem x else true

def Tree.elems : Tree → List Nat
  | .leaf => []
  | .node l k r => l.elems ++ k :: r.elems

theorem Tree.mem_elems : ∀ (t : Tree) (x : Nat), t.mem x = true → x ∈ t.elems
  | .leaf, _, h => by simp [Tree.mem] at h
  | .node l k r, x, h => by
    simp only [Tree.mem] at h
    simp only [Tree.elems, List.mem_append, List.mem_cons]
    by_cases h1 : x < k
    · simp [h1] at h; exact Or.inl (Tree.mem_elems l x h)
    · by_cases h2 : k < x
      · simp [h1, h2] at h; exact Or.inr (Or.inr (Tree.mem_elems r x h))
      · exact Or.inr (Or.inl (by omega))

/-- a balanced tree over the elements of a list (any list: sortedness only matters for completeness) -/
def build : Nat → List Nat → Tree
  | 0, _ => .leaf
  | fuel + 1, l =>
    match l.drop (l.length / 2) with
    | [] => .leaf
    | k :: r => .node (build fuel (l.take (l.length / 2))) k (build fuel r)

theorem build_elems : ∀ (fuel : Nat) (l : List Nat) (x : Nat), x ∈ (build fuel l).elems → x ∈ l
  | 0, _, _, h => by simp [build, Tree.elems] at h
  | fuel + 1, l, x, h => by
    unfold build at h
    split at h
    · simp [Tree.elems] at h
    · rename_i k r hd
      simp only [Tree.elems, List.mem_append, List.mem_cons] at h
      have hsplit : l = l.take (l.length / 2) ++ (k :: r) := by
        rw [← hd]; exact (List.take_append_drop _ _).symm
      rw [hsplit]
      simp only [List.mem_append, List.mem_cons]
      rcases h with h | h | h
      · exact Or.inl (build_elems fuel _ x h)
      · exact Or.inr (Or.inl h)
      · exact Or.inr (Or.inr (build_elems fuel _ x h))

def bools : List Bool := [false, true]
def verdicts : List Verdict := [.ok, .stream, .tooLarge]
def hooksAll : List Hook := [.requestheaders, .request, .responseheaders, .response, .error, .connect, .connected, .connectError]
def actionsAll : List Action := [.pass, .kill, .resp, .stream]
def reqKinds : List ReqKind := [.norm, .connect, .nohost, .invalid]
def respKinds : List RespKind := [.norm, .ws101, .up101, .invalid]

/-- every HttpEvent of the abstract core -/
def allEv : List AEv :=
  (bools.flatMap fun e => reqKinds.flatMap fun k => bools.flatMap fun ws => verdicts.map fun v => AEv.reqHeaders e k ws v)
  ++ (verdicts.map .reqData) ++ (bools.map .reqEOM) ++ [.reqErr]
  ++ (bools.flatMap fun e => respKinds.flatMap fun k => verdicts.map fun v => AEv.respHeaders e k v)
  ++ (verdicts.map .respData) ++ (bools.map .respEOM) ++ [.respErr]

/-- every completion of the abstract core -/
def allDone : List AEv :=
  (hooksAll.flatMap fun h => actionsAll.map fun a => AEv.hookDone h a) ++ (bools.map .connDone) ++ (bools.map .openDone)

theorem allEv_complete (ev : AEv) (h : ev.isDone = false) : ev ∈ allEv := by
  cases ev <;> simp [AEv.isDone] at h
  all_goals (first | (rename_i a b c d; cases a <;> cases b <;> cases c <;> cases d <;> decide)
                   | (rename_i a b c; cases a <;> cases b <;> cases c <;> decide)
                   | (rename_i a; cases a <;> decide) | decide)

theorem allDone_complete (ev : AEv) (h : ev.isDone = true) : ev ∈ allDone := by
  cases ev <;> simp [AEv.isDone] at h
  all_goals (first | (rename_i a b; cases a <;> cases b <;> decide) | (rename_i a; cases a <;> decide))

/-- membership of a state in the certificate: look its number up and compare with the decoded entry -/
def inCert (t : Tree) (c : Core) : Bool := t.mem c.enc && (Core.dec c.enc == c)

/-- every successor of state number `n` is in the certificate -/
def succOk (t : Tree) (n : Nat) : Bool :=
  let c := Core.dec n
  if c.paused.isNone then
    allEv.all fun ev => bools.all fun p => bools.all fun q => inCert t (procEv c ev p q).c
  else
    allDone.all fun ev => bools.all fun p => inCert t (procDone c ev p).c

end MitmVerif.C03
