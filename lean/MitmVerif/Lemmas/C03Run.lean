/-
  C03 — lifting to the concrete layer (sizes + `_paused_event_queue`): after any sequence of inputs the core
  satisfies the invariant and its monitor state is the monitor run over everything emitted so far.
-/
import MitmVerif.Lemmas.C03Step
import MitmVerif.Lemmas.C03Trace
namespace MitmVerif.C03

/-- the monitor run over a command list -/
def scan (t : List Out) : Mon := t.foldl mon {}

def Good (s : St) : Prop :=
  InvB s.core = true ∧ (s.core.bad = true ∨ s.core.m = scan s.outs)

theorem good_init (l t : Nat) : Good (init l t) := by
  refine ⟨?_, Or.inr rfl⟩
  show InvB {} = true
  exact inv_init

theorem procEv_bad (c : Core) (ev : AEv) (p q : Bool) (hb : c.bad = true) : (procEv c ev p q).c.bad = true := by
  unfold procEv; simp [hb, mk]

theorem procDone_bad (c : Core) (ev : AEv) (p : Bool) (hb : c.bad = true) : (procDone c ev p).c.bad = true := by
  unfold procDone; simp [hb, mk]

theorem good_handleNow (s : St) (ev : Ev) (queued : Bool) (hg : Good s)
    (hpre : ev.isDone = true ∨ s.core.paused = none) : Good (handleNow s ev queued) := by
  obtain ⟨hI, hL⟩ := hg
  unfold handleNow
  by_cases hd : ev.isDone = true
  · simp only [hd, ↓reduceIte]
    refine ⟨inv_procDone _ _ _ hI, ?_⟩
    rcases hL with hb | hm
    · exact Or.inl (procDone_bad _ _ _ hb)
    · rcases tracks_procDone s.core (abstractEv s ev) (s.queue.any Ev.isReqErr) with hb | ht
      · exact Or.inl hb
      · right
        show (procDone _ _ _).c.m = scan (s.outs ++ (procDone _ _ _).out)
        rw [ht, hm]; simp [scan, List.foldl_append]
  · have hp : s.core.paused = none := by
      rcases hpre with h | h
      · exact absurd h hd
      · exact h
    simp only [hd, Bool.false_eq_true, ↓reduceIte]
    refine ⟨inv_procEv _ _ _ _ hI hp, ?_⟩
    rcases hL with hb | hm
    · exact Or.inl (procEv_bad _ _ _ _ hb)
    · rcases tracks_procEv s.core (abstractEv s ev) (s.queue.any Ev.isReqErr) queued with hb | ht
      · exact Or.inl hb
      · right
        show (procEv _ _ _ _).c.m = scan (s.outs ++ (procEv _ _ _ _).out)
        rw [ht, hm]; simp [scan, List.foldl_append]

theorem good_drain (fuel : Nat) (s : St) (hg : Good s) : Good (drain fuel s) := by
  induction fuel generalizing s with
  | zero => exact hg
  | succ n ih =>
    unfold drain
    split
    · exact hg
    · rename_i hc
      split
      · exact hg
      · rename_i e q hq
        apply ih
        apply good_handleNow
        · exact hg
        · right
          have : s.core.paused.isSome = false := by
            simp only [Bool.or_eq_true, not_or] at hc
            simpa using hc.1
          show s.core.paused = none
          cases hpp : s.core.paused with
          | none => rfl
          | some k => simp [hpp] at this

theorem good_step (s : St) (ev : Ev) (hg : Good s) : Good (step s ev) := by
  unfold step
  split
  · split
    · exact good_drain _ _ (good_handleNow _ _ _ hg (Or.inl ‹_›))
    · exact hg
  · rename_i hp
    apply good_handleNow _ _ _ hg
    right
    cases hpp : s.core.paused with
    | none => rfl
    | some k => simp [hpp] at hp

theorem good_run (l t : Nat) (evs : List Ev) : Good (run l t evs) := by
  unfold run
  suffices h : ∀ s, Good s → Good (evs.foldl step s) from h _ (good_init l t)
  induction evs with
  | nil => intro s hs; exact hs
  | cons e es ih => intro s hs; exact ih _ (good_step s e hs)

end MitmVerif.C03
