/-
  C03 — the invariant is preserved by every completion and every handled event (assembling the per-function
  lemmas of Lemmas/C03Inv.lean), hence by every run of the concrete layer.
-/
import MitmVerif.Lemmas.C03Inv
import MitmVerif.Lemmas.C03InvReq
import MitmVerif.Lemmas.C03InvErr
import MitmVerif.Lemmas.C03InvResp
namespace MitmVerif.C03

-- ------------------------------------------------------------------------------------------------
-- assembling

/-- the invariant does not mention `err`, and mentions `live` only as a premise -/
theorem inv_err_live (c : Core) (e : ErrK) (l : Bool) (hl : l = true → c.live = true) (hI : InvB c = true) :
    InvB { c with err := e, live := l } = true := by
  by_cases hb : c.bad = true
  · simp [InvB, hb]
  · have hb' : c.bad = false := by simpa using hb
    unfold InvB at hI ⊢
    simp only [hb', Bool.false_or] at hI ⊢
    cases l
    · cases hk : c.paused <;> simp_all [imp]
    · have hl' := hl rfl
      simp only [hl'] at hI
      exact hI

theorem inv_applyAction (c : Core) (h : Hook) (a : Action) (hI : InvB c = true) : InvB (applyAction c h a) = true := by
  cases a
  · exact hI
  · exact inv_err_live c _ _ (by simp; intro h _; exact h) hI
  · simpa [InvB, imp, applyAction] using hI
  · simpa [InvB, imp, applyAction] using hI

theorem applyAction_comm (c : Core) (h : Hook) (a : Action) (p : Option K) (dr : Bool) :
    { applyAction c h a with paused := p, draining := dr } = applyAction { c with paused := p, draining := dr } h a := by
  cases a <;> rfl

theorem applyAction_paused (c : Core) (h : Hook) (a : Action) : (applyAction c h a).paused = c.paused := by cases a <;> rfl
theorem applyAction_bad (c : Core) (h : Hook) (a : Action) : (applyAction c h a).bad = c.bad := by cases a <;> rfl

theorem restore_paused (c : Core) (k : K) (hk : c.paused = some k) : { c with paused := some k, draining := c.draining } = c := by
  cases c; simp at hk; subst hk; rfl

theorem restore_seen (c : Core) (hs : c.seenReqHdr = false) : { c with seenReqHdr := false, draining := c.draining } = c := by
  cases c; simp at hs; subst hs; rfl

/-- every completion preserves the invariant -/
theorem inv_procDone (c : Core) (ev : AEv) (p : Bool) (h : InvB c = true) : InvB (procDone c ev p).c = true := by
  unfold procDone
  by_cases hb : c.bad = true
  · simp [hb, h]
  · have hb' : c.bad = false := by simpa using hb
    rw [if_neg hb]
    cases hk : c.paused with
    | none => simp [inv_bad]
    | some k =>
      simp only
      have key : ∀ (d : Core) (ok : Bool), { d with paused := some k, draining := c.draining } = c →
          d.paused = none → d.bad = false → InvB (W.fin true (resume d k ok p)).c = true := by
        intro d ok hd hp hbd
        exact inv_resume d k ok p c.draining (by rw [hd]; exact h) hp hbd
      have keyA : ∀ (hh : Hook) (a : Action) (ok : Bool),
          InvB (W.fin true (resume (applyAction { c with paused := none, draining := true } hh a) k ok p)).c = true := by
        intro hh a ok
        refine inv_resume _ k ok p c.draining ?_ (by rw [applyAction_paused]) (by rw [applyAction_bad]; exact hb')
        rw [applyAction_comm]
        have := restore_paused c k hk
        simp only at this ⊢
        rw [this]
        exact inv_applyAction c hh a h
      split
      · split
        · exact keyA _ _ true
        · simp [inv_bad]
      · split
        · simp [inv_bad]
        · exact key _ _ (restore_paused c k hk) rfl hb'
      · split
        · exact key _ _ (restore_paused c k hk) rfl hb'
        · simp [inv_bad]
      · simp [inv_bad]

/-- every handled event preserves the invariant -/
theorem inv_procEv (c : Core) (ev : AEv) (p q : Bool) (h : InvB c = true) (hp : c.paused = none) :
    InvB (procEv c ev p q).c = true := by
  unfold procEv
  by_cases hb : c.bad = true
  · simp [hb, h]
  · have hb' : c.bad = false := by simpa using hb
    rw [if_neg hb]
    by_cases hpt : c.pt = true
    · simp [hpt, h]
    · have hpt' : c.pt = false := by simpa using hpt
      rw [if_neg hpt]
      by_cases hg : grammarOk c ev = true
      · rw [if_neg (by simp [hg])]
        have hq : (q && c.draining) = true → c.draining = true := by simp
        cases ev with
        | reqErr =>
          exact inv_reqErr _ p _ c.procReqErr c.draining (by simpa using h) hp hb' hpt' rfl rfl hq
        | respErr =>
          exact inv_respErr _ p _ c.draining (by simpa using h) hp hb' hpt' (by simpa [grammarOk] using hg) rfl hq
        | reqHeaders e k ws v =>
          have hg' : c.seenReqHdr = false ∧ (c.stale = true ∨ c.procReqErr = false) := by simpa [grammarOk] using hg
          refine inv_reqHeaders _ e k ws v _ c.draining ?_ hp hb' hpt' rfl hg'.2 rfl hq
          show InvB { c with seenReqHdr := false, draining := c.draining } = true
          rw [restore_seen c hg'.1]; exact h
        | reqData v =>
          exact inv_reqBody _ _ (Or.inl ⟨v, rfl⟩) _ c.draining (by simpa using h) hp hb' hpt' (by simpa [grammarOk] using hg) rfl hq
        | reqEOM ne =>
          exact inv_reqBody _ _ (Or.inr (Or.inl ⟨ne, rfl⟩)) _ c.draining (by simpa using h) hp hb' hpt' (by simpa [grammarOk] using hg) rfl hq
        | reqTrailers =>
          exact inv_reqBody _ _ (Or.inr (Or.inr rfl)) _ c.draining (by simpa using h) hp hb' hpt' (by simpa [grammarOk] using hg) rfl hq
        | respHeaders e k v =>
          exact inv_respEvent _ _ (Or.inl ⟨e, k, v, rfl⟩) _ c.draining (by simpa using h) hp hb' hpt' (by simpa [grammarOk] using hg) rfl hq
        | respData v =>
          exact inv_respEvent _ _ (Or.inr (Or.inl ⟨v, rfl⟩)) _ c.draining (by simpa using h) hp hb' hpt' (by simpa [grammarOk] using hg) rfl hq
        | respEOM ne =>
          exact inv_respEvent _ _ (Or.inr (Or.inr (Or.inl ⟨ne, rfl⟩))) _ c.draining (by simpa using h) hp hb' hpt' (by simpa [grammarOk] using hg) rfl hq
        | respTrailers =>
          exact inv_respEvent _ _ (Or.inr (Or.inr (Or.inr rfl))) _ c.draining (by simpa using h) hp hb' hpt' (by simpa [grammarOk] using hg) rfl hq
        | hookDone _ _ => simp [grammarOk] at hg
        | connDone _ => simp [grammarOk] at hg
        | openDone _ => simp [grammarOk] at hg
      · simp [hg, inv_bad]

end MitmVerif.C03
