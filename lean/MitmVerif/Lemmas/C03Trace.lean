/-
  C03 — the monitor state carried by the core is exactly the monitor run over the commands emitted:
  every call changes `m` by folding `mon` over its own output list (unless the call ends in the absorbing
  `bad` state, which forgets everything).
-/
import MitmVerif.Lemmas.C03Base
namespace MitmVerif.C03

/-- the monitor of the result is the monitor of `c0` advanced over the emitted commands -/
def Tracks (m0 : Mon) (w : W) : Prop := w.c.m = w.out.foldl mon m0

@[simp] theorem mon_send (m : Mon) (a : Bool) (t : Tag) : mon m (.send a t) = m := rfl
@[simp] theorem mon_drop (m : Mon) : mon m .drop = m := rfl
@[simp] theorem mon_getConn (m : Mon) : mon m .getConn = m := rfl
@[simp] theorem mon_openConn (m : Mon) : mon m .openConn = m := rfl
@[simp] theorem mon_closeServer (m : Mon) : mon m .closeServer = m := rfl
@[simp] theorem mon_crash (m : Mon) : mon m .crash = m := rfl

theorem tracks_fin (m0 : Mon) (q : Bool) (w : W) (h : Tracks m0 w) : Tracks m0 (W.fin q w) := h

theorem tracks_ite (m0 : Mon) (b : Prop) [Decidable b] (x y : W) (hx : b → Tracks m0 x) (hy : ¬b → Tracks m0 y) :
    Tracks m0 (if b then x else y) := by
  split
  · exact hx ‹_›
  · exact hy ‹_›

syntax "trk_tree" : tactic
macro_rules
  | `(tactic| trk_tree) => `(tactic|
      (simp only [Tracks, resume, handlePE, peAfter, killedFire, killedSilent, sendResponse, startRequestStream, cbsErrFire,
        connectFinish, flowDone, onReqHeaders, clientEvent, serverEvent, ↓reduceIte, Bool.false_eq_true, reduceCtorEq] <;>
       (repeat' split) <;>
       simp [fire, fireC, mk, crash, W.pre, outIf, connectSends, killFinishC, peRetC, mon, List.foldl_append] <;>
       (try (repeat' split) <;> simp [mon])))

set_option maxHeartbeats 4000000 in
theorem tracks_resume (d : Core) (k : K) (ok peek : Bool) : Tracks d.m (resume d k ok peek) := by
  cases k
  case peErr r ret => cases r <;> cases ret <;> trk_tree
  case streamConn b => cases b <;> trk_tree
  case cbsHdr b => cases b <;> trk_tree
  case cbsErr b => cases b <;> trk_tree
  all_goals trk_tree


set_option maxHeartbeats 4000000 in
theorem tracks_handlePE (d : Core) (isResp peek : Bool) : Tracks d.m (handlePE d isResp .top peek) := by
  cases isResp <;> trk_tree

set_option maxHeartbeats 4000000 in
theorem tracks_clientEvent (d : Core) (ev : AEv) : Tracks d.m (clientEvent d ev) := by
  cases ev
  case reqHeaders e k ws v => cases hcs : d.cs <;> cases k <;> cases v <;> cases e <;> simp only [clientEvent, hcs] <;> trk_tree
  case reqData v => cases hcs : d.cs <;> cases v <;> simp only [clientEvent, hcs] <;> trk_tree
  all_goals (cases hcs : d.cs <;> simp only [clientEvent, hcs] <;> trk_tree)

set_option maxHeartbeats 4000000 in
theorem tracks_serverEvent (d : Core) (ev : AEv) : Tracks d.m (serverEvent d ev) := by
  cases ev
  case respHeaders e k v => cases hss : d.ss <;> cases k <;> cases v <;> cases e <;> simp only [serverEvent, hss] <;> trk_tree
  case respData v => cases hss : d.ss <;> cases v <;> simp only [serverEvent, hss] <;> trk_tree
  all_goals (cases hss : d.ss <;> simp only [serverEvent, hss] <;> trk_tree)

theorem applyAction_m (c : Core) (h : Hook) (a : Action) : (applyAction c h a).m = c.m := by cases a <;> rfl

theorem tracks_resume_action (c : Core) (hh : Hook) (a : Action) (k : K) (ok p : Bool) :
    Tracks c.m (resume (applyAction { c with paused := none, draining := true } hh a) k ok p) := by
  have := tracks_resume (applyAction { c with paused := none, draining := true } hh a) k ok p
  rwa [applyAction_m] at this

/-- a handled event advances the monitor over exactly the commands it emits (or ends in `bad`) -/
theorem tracks_procEv (c : Core) (ev : AEv) (p q : Bool) :
    (procEv c ev p q).c.bad = true ∨ Tracks c.m (procEv c ev p q) := by
  unfold procEv
  split
  · right; simp [Tracks, mk]
  · split
    · right; simp [Tracks, mk]
    · split
      · left; rfl
      · right
        apply tracks_fin
        cases ev <;> first
          | exact tracks_handlePE _ _ _
          | exact tracks_clientEvent _ _
          | exact tracks_serverEvent _ _

/-- a completion advances the monitor over exactly the commands it emits (or ends in `bad`) -/
theorem tracks_procDone (c : Core) (ev : AEv) (p : Bool) :
    (procDone c ev p).c.bad = true ∨ Tracks c.m (procDone c ev p) := by
  unfold procDone
  split
  · right; simp [Tracks, mk]
  · split
    · left; rfl
    · split
      · split
        · right; apply tracks_fin
          exact tracks_resume_action _ _ _ _ _ _
        · left; rfl
      · split
        · left; rfl
        · right; apply tracks_fin; exact tracks_resume _ _ _ _
      · split
        · right; apply tracks_fin; exact tracks_resume _ _ _ _
        · left; rfl
      · left; rfl

end MitmVerif.C03
