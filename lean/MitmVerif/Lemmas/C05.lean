/-
  Lemmas for C05: association lists, and the send buffers of `BufferedH2Connection`.
-/
import MitmVerif.Model.C05
namespace MitmVerif.C05
open MitmVerif

/-! ### association lists -/

theorem alookup_aset_same {α : Type} (k : Nat) (v : α) (l : List (Nat × α)) : alookup k (aset k v l) = some v := by
  induction l with
  | nil => simp [aset, alookup]
  | cons p rest ih =>
    obtain ⟨k', v'⟩ := p
    by_cases h : k' = k
    · simp [aset, alookup, h]
    · simp [aset, alookup, h, ih]

theorem alookup_aset_ne {α : Type} (k k' : Nat) (v : α) (l : List (Nat × α)) (h : k' ≠ k) :
    alookup k' (aset k v l) = alookup k' l := by
  induction l with
  | nil => simp [aset, alookup]; intro e; exact absurd e.symm h
  | cons p rest ih =>
    obtain ⟨k2, v2⟩ := p
    by_cases h2 : k2 = k
    · subst h2
      have : ¬ k2 = k' := fun e => h e.symm
      simp [aset, alookup, this]
    · by_cases h3 : k2 = k'
      · subst h3; simp [aset, alookup, h2]
      · simp [aset, alookup, h2, h3, ih]

theorem alookup_aerase_same {α : Type} (k : Nat) (l : List (Nat × α)) : alookup k (aerase k l) = none := by
  induction l with
  | nil => rfl
  | cons p rest ih =>
    obtain ⟨k', v'⟩ := p
    by_cases h : k' = k
    · simp [aerase, List.filter_cons, h] at ih ⊢; exact ih
    · simp [aerase, List.filter_cons, h, alookup] at ih ⊢; exact ih

theorem alookup_aerase_ne {α : Type} (k k' : Nat) (l : List (Nat × α)) (h : k' ≠ k) :
    alookup k' (aerase k l) = alookup k' l := by
  induction l with
  | nil => rfl
  | cons p rest ih =>
    obtain ⟨k2, v2⟩ := p
    by_cases h2 : k2 = k
    · subst h2
      have : ¬ k2 = k' := fun e => h e.symm
      simp [aerase, List.filter_cons, alookup, this] at ih ⊢; exact ih
    · by_cases h3 : k2 = k'
      · subst h3; simp [aerase, List.filter_cons, h2, alookup]
      · simp [aerase, List.filter_cons, h2, alookup, h3] at ih ⊢; exact ih

theorem alookup_append {α : Type} (k : Nat) (l1 l2 : List (Nat × α)) :
    alookup k (l1 ++ l2) = (match alookup k l1 with | some v => some v | none => alookup k l2) := by
  induction l1 with
  | nil => rfl
  | cons p rest ih =>
    obtain ⟨k', v'⟩ := p
    by_cases h : k' = k
    · simp [alookup, h]
    · simp [alookup, h, ih]

/-! ### bytes of a stream: sent and buffered -/

/-- payload of the DATA frames of stream `sid`, in the order they were written -/
def dataOf (sid : Nat) : List Frame → Bytes
  | [] => []
  | .data s d _ :: rest => if s = sid then d ++ dataOf sid rest else dataOf sid rest
  | _ :: rest => dataOf sid rest

theorem dataOf_append (sid : Nat) (a b : List Frame) : dataOf sid (a ++ b) = dataOf sid a ++ dataOf sid b := by
  induction a with
  | nil => rfl
  | cons f rest ih =>
    cases f with
    | data s d fin => by_cases h : s = sid <;> simp [dataOf, h, ih]
    | hdr s fin => simp [dataOf, ih]
    | trailers s => simp [dataOf, ih]
    | rst s => simp [dataOf, ih]

def chunkBytes (l : List Chunk) : Bytes := l.flatMap (·.data)
def Conn.bufBytes (c : Conn) (sid : Nat) : Bytes := chunkBytes (c.buf sid)
/-- everything of stream `sid` the connection has taken over: written out ++ still buffered -/
def Conn.held (c : Conn) (sid : Nat) : Bytes := dataOf sid c.out ++ c.bufBytes sid

theorem buf_updS (c : Conn) (s sid : Nat) (f : Stream → Stream) : (c.updS s f).buf sid = c.buf sid := by
  unfold Conn.updS; split <;> rfl

theorem out_updS (c : Conn) (s : Nat) (f : Stream → Stream) : (c.updS s f).out = c.out := by
  unfold Conn.updS; split <;> rfl

theorem mfs_updS (c : Conn) (s : Nat) (f : Stream → Stream) : (c.updS s f).mfs = c.mfs := by
  unfold Conn.updS; split <;> rfl

theorem held_rawSend (c : Conn) (s sid : Nat) (d : Bytes) (fin : Bool) :
    dataOf sid (c.rawSend s d fin).out = dataOf sid c.out ++ (if s = sid then d else []) ∧
    (c.rawSend s d fin).buf sid = c.buf sid := by
  unfold Conn.rawSend
  constructor
  · simp only [out_updS, dataOf_append]
    by_cases h : s = sid <;> simp [dataOf, h]
  · show (c.updS s _).buf sid = c.buf sid
    exact buf_updS c s sid _

theorem buf_appendBuf (c : Conn) (s sid : Nat) (ch : Chunk) :
    (c.appendBuf s ch).buf sid = if s = sid then c.buf sid ++ [ch] else c.buf sid := by
  unfold Conn.appendBuf Conn.buf
  by_cases h : s = sid
  · subst h; simp [alookup_aset_same]
  · have : sid ≠ s := fun e => h e.symm
    simp [alookup_aset_ne _ _ _ _ this, h]

theorem chunkBytes_append (a b : List Chunk) : chunkBytes (a ++ b) = chunkBytes a ++ chunkBytes b := by
  simp [chunkBytes]

/-- `send_data` of one frame-sized chunk: what the connection holds of the stream grows by exactly these bytes, at
    the end; other streams are untouched -/
theorem held_sendData1 (c : Conn) (s sid : Nat) (d : Bytes) (fin : Bool) :
    (c.sendData1 s d fin).held sid = c.held sid ++ (if s = sid then d else []) := by
  unfold Conn.sendData1
  by_cases hb : (c.buf s).isEmpty = true
  · simp only [hb, Bool.not_true, Bool.false_eq_true, if_false]
    have hbe : c.buf s = [] := by simpa using hb
    by_cases h1 : ((d.length : Int) ≤ c.localWin s)
    · simp only [h1, if_true]
      have := held_rawSend c s sid d fin
      unfold Conn.held Conn.bufBytes
      rw [this.1, this.2]
      by_cases h : s = sid
      · subst h; simp [hbe, chunkBytes]
      · simp [h]
    · simp only [h1, if_false]
      by_cases h2 : c.localWin s > 0
      · simp only [h2, if_true]
        have r := held_rawSend c s sid (d.take (c.localWin s).toNat) false
        have a := buf_appendBuf (c.rawSend s (d.take (c.localWin s).toNat) false) s sid
          ⟨d.drop (c.localWin s).toNat, fin⟩
        unfold Conn.held Conn.bufBytes
        rw [a, r.2]
        have hout : (Conn.appendBuf (c.rawSend s (d.take (c.localWin s).toNat) false) s
            ⟨d.drop (c.localWin s).toNat, fin⟩).out = (c.rawSend s (d.take (c.localWin s).toNat) false).out := rfl
        rw [hout, r.1]
        by_cases h : s = sid
        · subst h
          simp only [if_true, hbe, List.nil_append, chunkBytes, List.flatMap_cons, List.flatMap_nil, List.append_nil]
          rw [List.append_assoc, List.take_append_drop]
        · simp [h]
      · simp only [h2, if_false]
        have a := buf_appendBuf c s sid ⟨d, fin⟩
        unfold Conn.held Conn.bufBytes
        rw [a]
        have hout : (c.appendBuf s ⟨d, fin⟩).out = c.out := rfl
        rw [hout]
        by_cases h : s = sid
        · subst h; simp [hbe, chunkBytes]
        · simp [h]
  · simp only [hb, Bool.not_false, if_true]
    have a := buf_appendBuf c s sid ⟨d, fin⟩
    unfold Conn.held Conn.bufBytes
    rw [a]
    have hout : (c.appendBuf s ⟨d, fin⟩).out = c.out := rfl
    rw [hout]
    by_cases h : s = sid
    · subst h; simp [chunkBytes_append, chunkBytes]
    · simp [h]

theorem mfs_rawSend (c : Conn) (s : Nat) (d : Bytes) (fin : Bool) : (c.rawSend s d fin).mfs = c.mfs := by
  unfold Conn.rawSend; simp [mfs_updS]

theorem mfs_sendData1 (c : Conn) (s : Nat) (d : Bytes) (fin : Bool) : (c.sendData1 s d fin).mfs = c.mfs := by
  unfold Conn.sendData1
  by_cases hb : (c.buf s).isEmpty = true
  · simp only [hb, Bool.not_true, Bool.false_eq_true, if_false]
    by_cases h1 : ((d.length : Int) ≤ c.localWin s)
    · simp only [h1, if_true]; exact mfs_rawSend c s d fin
    · simp only [h1, if_false]
      by_cases h2 : c.localWin s > 0
      · simp only [h2, if_true]
        show (c.rawSend s _ false).mfs = c.mfs
        exact mfs_rawSend c s _ false
      · simp only [h2, if_false]; rfl
  · simp only [hb, Bool.not_false, if_true]; rfl

theorem held_sendPieces (f : Nat) (c : Conn) (s sid : Nat) (d : Bytes) (fin : Bool)
    (hm : 0 < c.mfs) (hf : d.length < f) :
    (Conn.sendPieces f c s d fin).held sid = c.held sid ++ (if s = sid then d else []) := by
  induction f generalizing c d with
  | zero => omega
  | succ f ih =>
    unfold Conn.sendPieces
    by_cases h : d.length ≤ c.mfs
    · simp only [h, if_true]; exact held_sendData1 c s sid d fin
    · simp only [h, if_false]
      have hm' : 0 < (c.sendData1 s (d.take c.mfs) false).mfs := by rw [mfs_sendData1]; exact hm
      have hlen : (d.drop c.mfs).length < f := by simp; omega
      rw [ih (c.sendData1 s (d.take c.mfs) false) (d.drop c.mfs) hm' hlen, held_sendData1]
      by_cases hs : s = sid
      · simp only [hs, if_true, List.append_assoc, List.take_append_drop]
      · simp [hs]

/-- `BufferedH2Connection.send_data`: bytes sent + bytes buffered = what was there + what was submitted, in order -/
theorem held_sendData (c : Conn) (s sid : Nat) (d : Bytes) (fin : Bool) :
    (c.sendData s d fin).held sid = c.held sid ++ (if s = sid then d else []) := by
  unfold Conn.sendData
  split
  · rename_i h; exact held_sendPieces _ c s sid d fin h.2 (by omega)
  · exact held_sendData1 c s sid d fin

/-! ### flushing -/

theorem buf_aset (c : Conn) (s sid : Nat) (l : List Chunk) :
    ({ c with bufs := aset s l c.bufs } : Conn).buf sid = if s = sid then l else c.buf sid := by
  unfold Conn.buf
  by_cases h : s = sid
  · subst h; simp [alookup_aset_same]
  · have : sid ≠ s := fun e => h e.symm
    simp [alookup_aset_ne _ _ _ _ this, h]

theorem buf_aerase (c : Conn) (s sid : Nat) :
    ({ c with bufs := aerase s c.bufs } : Conn).buf sid = if s = sid then [] else c.buf sid := by
  unfold Conn.buf
  by_cases h : s = sid
  · subst h; simp [alookup_aerase_same]
  · have : sid ≠ s := fun e => h e.symm
    simp [alookup_aerase_ne _ _ _ this, h]

theorem held_rawTrailers (c : Conn) (s sid : Nat) :
    dataOf sid (c.rawTrailers s).out = dataOf sid c.out ∧ (c.rawTrailers s).buf sid = c.buf sid := by
  unfold Conn.rawTrailers
  constructor
  · simp [out_updS, dataOf_append, dataOf]
  · show (c.updS s _).buf sid = c.buf sid
    exact buf_updS c s sid _

/-- the flush loop moves bytes from the front of the stream's buffer to the wire and touches nothing else -/
theorem held_flushLoop (f : Nat) (c : Conn) (s sid : Nat) (w : Int) (sent : Bool) :
    (Conn.flushLoop f c s w sent).1.held sid = c.held sid := by
  induction f generalizing c w sent with
  | zero => rfl
  | succ f ih =>
    unfold Conn.flushLoop
    by_cases hw : w > 0
    · simp only [hw, if_true]
      cases hb : c.buf s with
      | nil => rfl
      | cons ch rest =>
        simp only []
        -- the chunk (or its head) that goes out now, and what stays
        by_cases hbig : (ch.data.length : Int) > min w (c.mfs : Int)
        · simp only [hbig, if_true]
          rw [ih]
          generalize (min w (c.mfs : Int)).toNat = n
          have r := held_rawSend c s sid (ch.data.take n) false
          unfold Conn.held Conn.bufBytes
          simp only [List.isEmpty_cons, Bool.false_eq_true, if_false]
          rw [buf_aset, r.2]
          have hout : ({ (c.rawSend s (ch.data.take n) false) with
              bufs := aset s (⟨ch.data.drop n, ch.fin⟩ :: rest) (c.rawSend s (ch.data.take n) false).bufs } : Conn).out
              = (c.rawSend s (ch.data.take n) false).out := rfl
          rw [hout, r.1]
          by_cases h : s = sid
          · subst h
            simp only [if_true, hb, chunkBytes, List.flatMap_cons]
            rw [List.append_assoc, ← List.append_assoc (ch.data.take n), List.take_append_drop]
          · simp [h]
        · simp only [hbig, if_false]
          rw [ih]
          have r := held_rawSend c s sid ch.data ch.fin
          by_cases hre : rest.isEmpty = true
          · simp only [hre, if_true]
            have hrest : rest = [] := by simpa using hre
            split
            · -- trailers were waiting for the buffer to drain
              unfold Conn.held Conn.bufBytes
              have t := held_rawTrailers ({ (c.rawSend s ch.data ch.fin) with bufs := aerase s (c.rawSend s ch.data ch.fin).bufs } : Conn) s sid
              show dataOf sid (Conn.rawTrailers _ s).out ++ chunkBytes ((Conn.rawTrailers _ s).buf sid) = _
              rw [t.1, t.2, buf_aerase, r.2]
              have hout : ({ (c.rawSend s ch.data ch.fin) with bufs := aerase s (c.rawSend s ch.data ch.fin).bufs } : Conn).out
                  = (c.rawSend s ch.data ch.fin).out := rfl
              rw [hout, r.1]
              by_cases h : s = sid
              · subst h; simp [hb, hrest, chunkBytes]
              · simp [h]
            · unfold Conn.held Conn.bufBytes
              rw [buf_aerase, r.2]
              have hout : ({ (c.rawSend s ch.data ch.fin) with bufs := aerase s (c.rawSend s ch.data ch.fin).bufs } : Conn).out
                  = (c.rawSend s ch.data ch.fin).out := rfl
              rw [hout, r.1]
              by_cases h : s = sid
              · subst h; simp [hb, hrest, chunkBytes]
              · simp [h]
          · simp only [hre, Bool.false_eq_true, if_false]
            unfold Conn.held Conn.bufBytes
            rw [buf_aset, r.2]
            have hout : ({ (c.rawSend s ch.data ch.fin) with bufs := aset s rest (c.rawSend s ch.data ch.fin).bufs } : Conn).out
                = (c.rawSend s ch.data ch.fin).out := rfl
            rw [hout, r.1]
            by_cases h : s = sid
            · subst h; simp [hb, chunkBytes]
            · simp [h]
    · simp only [hw, if_false]

/-- `stream_window_updated` on a stream that may still send: nothing is lost, nothing reordered -/
theorem held_streamWindowUpdated (c : Conn) (s sid : Nat) (hl : c.liveS s = true ∨ s ≠ sid) :
    (c.streamWindowUpdated s).1.held sid = c.held sid := by
  unfold Conn.streamWindowUpdated
  by_cases h : c.liveS s = true
  · simp only [h, Bool.not_true, Bool.false_eq_true, if_false]
    exact held_flushLoop _ c s sid _ _
  · simp only [h, Bool.not_false, if_true]
    have hne : s ≠ sid := by
      rcases hl with h1 | h1
      · exact absurd h1 h
      · exact h1
    unfold Conn.held Conn.bufBytes
    rw [buf_aerase]
    simp [hne]

/-! ### `connection_window_updated`: the round robin over all buffers -/

/-- only the last chunk of a buffer may carry END_STREAM -/
def finLast : List Chunk → Prop
  | [] => True
  | [_] => True
  | c :: d :: r => c.fin = false ∧ finLast (d :: r)

/-- what the callers of BufferedH2Connection keep up for a stream: nothing is buffered for a stream that cannot send
    any more, and an end of stream waits behind all its data -/
def StreamOk (c : Conn) (sid : Nat) : Prop := (c.liveS sid = false → c.buf sid = []) ∧ finLast (c.buf sid)

theorem getS_updS (c : Conn) (s sid : Nat) (f : Stream → Stream) :
    (c.updS s f).getS sid = if s = sid then (c.getS sid).map f else c.getS sid := by
  unfold Conn.updS
  cases hg : c.getS s with
  | none =>
    by_cases h : s = sid
    · subst h; simp [hg]
    · simp [h]
  | some st =>
    by_cases h : s = sid
    · subst h
      show alookup s (aset s (f st) c.streams) = _
      rw [alookup_aset_same]; simp [hg]
    · have : sid ≠ s := fun e => h e.symm
      show alookup sid (aset s (f st) c.streams) = _
      rw [alookup_aset_ne _ _ _ _ this]; simp [h, Conn.getS]

theorem dead_updS (c : Conn) (s : Nat) (f : Stream → Stream) : (c.updS s f).dead = c.dead := by
  unfold Conn.updS; split <;> rfl

theorem liveS_updS (c : Conn) (s sid : Nat) (f : Stream → Stream) (hf : ∀ x, s = sid → (f x).live = x.live) :
    (c.updS s f).liveS sid = c.liveS sid := by
  unfold Conn.liveS
  rw [dead_updS, getS_updS]
  by_cases h : s = sid
  · simp only [h, if_true]
    cases hg : c.getS sid with
    | none => rfl
    | some st => simp [hf st h]
  · simp [h]

/-- a connection that differs only in buffers, output and windows -/
theorem liveS_congr (c c' : Conn) (h1 : c'.streams = c.streams) (h2 : c'.dead = c.dead) (sid : Nat) :
    c'.liveS sid = c.liveS sid := by
  unfold Conn.liveS Conn.getS; rw [h1, h2]

theorem liveS_rawSend_nofin (c : Conn) (s sid : Nat) (d : Bytes) : (c.rawSend s d false).liveS sid = c.liveS sid := by
  unfold Conn.rawSend
  have := liveS_updS c s sid (fun st => { st with win := st.win - d.length, localOpen := st.localOpen && !false })
    (by intro x _; simp [Stream.live])
  rw [← this]
  exact liveS_congr _ _ rfl rfl sid

theorem liveS_rawSend_ne (c : Conn) (s sid : Nat) (d : Bytes) (fin : Bool) (h : s ≠ sid) :
    (c.rawSend s d fin).liveS sid = c.liveS sid := by
  unfold Conn.rawSend
  have := liveS_updS c s sid (fun st => { st with win := st.win - d.length, localOpen := st.localOpen && !fin })
    (by intro x e; exact absurd e h)
  rw [← this]
  exact liveS_congr _ _ rfl rfl sid

theorem liveS_rawTrailers_ne (c : Conn) (s sid : Nat) (h : s ≠ sid) : (c.rawTrailers s).liveS sid = c.liveS sid := by
  unfold Conn.rawTrailers
  have := liveS_updS c s sid (fun st => { st with localOpen := false }) (by intro x e; exact absurd e h)
  rw [← this]
  exact liveS_congr _ _ rfl rfl sid

theorem finLast_tail (ch : Chunk) (rest : List Chunk) (h : finLast (ch :: rest)) : finLast rest := by
  cases rest with
  | nil => trivial
  | cons d r => exact h.2

theorem finLast_split (ch : Chunk) (rest : List Chunk) (n : Nat) (h : finLast (ch :: rest)) :
    finLast (⟨ch.data.drop n, ch.fin⟩ :: rest) := by
  cases rest with
  | nil => trivial
  | cons d r => exact ⟨h.1, h.2⟩

/-- flushing stream `s` leaves every OTHER stream exactly as it was -/
theorem flushLoop_other (f : Nat) (c : Conn) (s sid : Nat) (w : Int) (sent : Bool) (h : s ≠ sid) :
    (Conn.flushLoop f c s w sent).1.buf sid = c.buf sid ∧ (Conn.flushLoop f c s w sent).1.liveS sid = c.liveS sid := by
  induction f generalizing c w sent with
  | zero => exact ⟨rfl, rfl⟩
  | succ f ih =>
    unfold Conn.flushLoop
    by_cases hw : w > 0
    · simp only [hw, if_true]
      cases hb : c.buf s with
      | nil => exact ⟨rfl, rfl⟩
      | cons ch rest =>
        simp only []
        by_cases hbig : (ch.data.length : Int) > min w (c.mfs : Int)
        · simp only [hbig, if_true, List.isEmpty_cons, Bool.false_eq_true, if_false]
          refine ⟨(ih _ _ _).1.trans ?_, (ih _ _ _).2.trans ?_⟩
          · rw [buf_aset]; simp only [h, if_false]; exact (held_rawSend c s sid _ false).2
          · exact liveS_rawSend_ne c s sid _ false h
        · simp only [hbig, if_false]
          by_cases hre : rest.isEmpty = true
          · simp only [hre, if_true]
            split
            · refine ⟨(ih _ _ _).1.trans ?_, (ih _ _ _).2.trans ?_⟩
              · show (Conn.rawTrailers _ s).buf sid = _
                rw [(held_rawTrailers _ s sid).2, buf_aerase]; simp only [h, if_false]
                exact (held_rawSend c s sid _ _).2
              · show (Conn.rawTrailers _ s).liveS sid = _
                rw [liveS_rawTrailers_ne _ s sid h]
                exact liveS_rawSend_ne c s sid _ _ h
            · refine ⟨(ih _ _ _).1.trans ?_, (ih _ _ _).2.trans ?_⟩
              · rw [buf_aerase]; simp only [h, if_false]; exact (held_rawSend c s sid _ _).2
              · exact liveS_rawSend_ne c s sid _ _ h
          · simp only [hre, Bool.false_eq_true, if_false]
            refine ⟨(ih _ _ _).1.trans ?_, (ih _ _ _).2.trans ?_⟩
            · rw [buf_aset]; simp only [h, if_false]; exact (held_rawSend c s sid _ _).2
            · exact liveS_rawSend_ne c s sid _ _ h
    · simp only [hw, if_false]
      first | exact ⟨rfl, rfl⟩ | trivial | simp

/-- flushing a well-kept stream keeps it well kept -/
theorem flushLoop_ok (f : Nat) (c : Conn) (s : Nat) (w : Int) (sent : Bool) (h : StreamOk c s) :
    StreamOk (Conn.flushLoop f c s w sent).1 s := by
  induction f generalizing c w sent with
  | zero => exact h
  | succ f ih =>
    unfold Conn.flushLoop
    by_cases hw : w > 0
    · simp only [hw, if_true]
      cases hb : c.buf s with
      | nil => exact h
      | cons ch rest =>
        simp only []
        have hlive : c.liveS s = true := by
          cases hl : c.liveS s with
          | true => rfl
          | false => have := h.1 hl; rw [hb] at this; simp at this
        have hfl : finLast (ch :: rest) := by have := h.2; rwa [hb] at this
        by_cases hbig : (ch.data.length : Int) > min w (c.mfs : Int)
        · simp only [hbig, if_true, List.isEmpty_cons, Bool.false_eq_true, if_false]
          apply ih
          refine ⟨?_, ?_⟩
          · intro hl
            have e : (c.rawSend s (ch.data.take (min w (c.mfs : Int)).toNat) false).liveS s = c.liveS s :=
              liveS_rawSend_nofin c s s _
            have hl' : (c.rawSend s (ch.data.take (min w (c.mfs : Int)).toNat) false).liveS s = false := hl
            rw [e, hlive] at hl'
            simp at hl'
          · rw [buf_aset]; simp only [if_true]; exact finLast_split ch rest _ hfl
        · simp only [hbig, if_false]
          by_cases hre : rest.isEmpty = true
          · simp only [hre, if_true]
            split
            · apply ih
              refine ⟨fun _ => ?_, ?_⟩
              · show (Conn.rawTrailers _ s).buf s = []
                rw [(held_rawTrailers _ s s).2, buf_aerase]; simp
              · show finLast ((Conn.rawTrailers _ s).buf s)
                rw [(held_rawTrailers _ s s).2, buf_aerase]; simp [finLast]
            · apply ih
              refine ⟨fun _ => ?_, ?_⟩
              · rw [buf_aerase]; simp
              · rw [buf_aerase]; simp [finLast]
          · simp only [hre, Bool.false_eq_true, if_false]
            apply ih
            have hne : rest ≠ [] := by intro e; rw [e] at hre; simp at hre
            have hfin : ch.fin = false := by
              cases rest with
              | nil => exact absurd rfl hne
              | cons d r => exact hfl.1
            refine ⟨?_, ?_⟩
            · intro hl
              have hl' : (c.rawSend s ch.data ch.fin).liveS s = false := hl
              rw [hfin, liveS_rawSend_nofin, hlive] at hl'
              simp at hl'
            · rw [buf_aset]; simp only [if_true]; exact finLast_tail ch rest hfl
    · simp only [hw, if_false]; exact h

/-- one `stream_window_updated` call inside the round robin, seen from a well-kept stream `sid` -/
theorem streamWindowUpdated_ok (c : Conn) (s sid : Nat) (h : StreamOk c sid) :
    (c.streamWindowUpdated s).1.held sid = c.held sid ∧ StreamOk (c.streamWindowUpdated s).1 sid := by
  unfold Conn.streamWindowUpdated
  by_cases hl : c.liveS s = true
  · simp only [hl, Bool.not_true, Bool.false_eq_true, if_false]
    refine ⟨held_flushLoop _ c s sid _ _, ?_⟩
    by_cases hs : s = sid
    · subst hs; exact flushLoop_ok _ c s _ _ h
    · have o := flushLoop_other ((c.buf s).length + ((c.buf s).map (·.data.length)).sum + 1) c s sid (c.localWin s) false hs
      unfold StreamOk
      rw [o.1, o.2]; exact h
  · simp only [hl, Bool.not_false, if_true]
    have hlf : c.liveS s = false := by simpa using hl
    by_cases hs : s = sid
    · subst hs
      have hb := h.1 hlf
      refine ⟨?_, ?_⟩
      · unfold Conn.held Conn.bufBytes; rw [buf_aerase]; simp [hb]
      · refine ⟨fun _ => ?_, ?_⟩
        · rw [buf_aerase]; simp
        · rw [buf_aerase]; simp [finLast]
    · refine ⟨?_, ?_⟩
      · unfold Conn.held Conn.bufBytes; rw [buf_aerase]; simp [hs]
      · refine ⟨fun hl' => ?_, ?_⟩
        · rw [buf_aerase]; simp only [hs, if_false]; exact h.1 hl'
        · rw [buf_aerase]; simp only [hs, if_false]; exact h.2

/-- moving a buffer to the end of the dict changes no buffer -/
theorem buf_moveToEnd (c : Conn) (s sid : Nat) :
    ({ c with bufs := aerase s c.bufs ++ [(s, c.buf s)] } : Conn).buf sid = c.buf sid := by
  unfold Conn.buf
  rw [alookup_append]
  by_cases h : s = sid
  · subst h; rw [alookup_aerase_same]; simp [alookup]
  · have : sid ≠ s := fun e => h e.symm
    rw [alookup_aerase_ne _ _ _ this]
    cases alookup sid c.bufs with
    | some v => rfl
    | none => simp [alookup, h]

theorem rrPass_ok (l : List Nat) (c : Conn) (sent : Bool) (sid : Nat) (h : StreamOk c sid) :
    (Conn.rrPass l c sent).1.held sid = c.held sid ∧ StreamOk (Conn.rrPass l c sent).1 sid := by
  induction l generalizing c sent with
  | nil => exact ⟨rfl, h⟩
  | cons s rest ih =>
    unfold Conn.rrPass
    let c1 : Conn := { c with bufs := aerase s c.bufs ++ [(s, c.buf s)] }
    have h1 : StreamOk c1 sid := by
      refine ⟨fun hl' => ?_, ?_⟩
      · rw [buf_moveToEnd]; exact h.1 hl'
      · rw [buf_moveToEnd]; exact h.2
    have hh1 : c1.held sid = c.held sid := by
      unfold Conn.held Conn.bufBytes; rw [buf_moveToEnd]
    have sw := streamWindowUpdated_ok c1 s sid h1
    simp only []
    cases hsw : c1.streamWindowUpdated s with
    | mk c2 b =>
      rw [hsw] at sw
      simp only [] at sw
      cases b with
      | true =>
        simp only [if_true]
        split
        · exact ⟨sw.1.trans hh1, sw.2⟩
        · have := ih c2 true sw.2
          exact ⟨this.1.trans (sw.1.trans hh1), this.2⟩
      | false =>
        simp only [Bool.false_eq_true, if_false]
        have := ih c2 sent sw.2
        exact ⟨this.1.trans (sw.1.trans hh1), this.2⟩

/-- `connection_window_updated`: whatever the windows, however many rounds — for every well-kept stream the bytes on
    the wire followed by the bytes still buffered stay what they were -/
theorem connWindowUpdated_ok (f : Nat) (c : Conn) (sid : Nat) (h : StreamOk c sid) :
    (Conn.connWindowUpdated f c).held sid = c.held sid ∧ StreamOk (Conn.connWindowUpdated f c) sid := by
  induction f generalizing c with
  | zero => exact ⟨rfl, h⟩
  | succ f ih =>
    unfold Conn.connWindowUpdated
    have p := rrPass_ok (c.bufs.map (·.1)) c false sid h
    cases hp : Conn.rrPass (c.bufs.map (·.1)) c false with
    | mk c2 rest =>
      obtain ⟨sent, early⟩ := rest
      rw [hp] at p
      simp only [] at p ⊢
      split
      · exact p
      · have := ih c2 p.2
        exact ⟨this.1.trans p.1, this.2⟩

/-! ### the callers' discipline keeps `StreamOk` -/

theorem finLast_snoc (l : List Chunk) (ch : Chunk) (h : ∀ x ∈ l, x.fin = false) : finLast (l ++ [ch]) := by
  induction l with
  | nil => trivial
  | cons a rest ih =>
    have h1 := h a (by simp)
    have := ih (fun x hx => h x (by simp [hx]))
    cases rest with
    | nil => exact ⟨h1, trivial⟩
    | cons b r => exact ⟨h1, this⟩

/-- what `send_data` is called with: the stream may still send (`is_open_for_us`) and no end of stream is pending -/
def CanSubmit (c : Conn) (s : Nat) : Prop := c.liveS s = true ∧ ∀ x ∈ c.buf s, x.fin = false

theorem sendData1_ok (c : Conn) (s sid : Nat) (d : Bytes) (fin : Bool) (hc : CanSubmit c s) (h : StreamOk c sid) :
    StreamOk (c.sendData1 s d fin) sid ∧ (fin = false → CanSubmit (c.sendData1 s d fin) s) := by
  have other : ∀ c' : Conn, c'.liveS sid = c.liveS sid → c'.buf sid = c.buf sid → StreamOk c' sid := by
    intro c' h1 h2; unfold StreamOk; rw [h1, h2]; exact h
  unfold Conn.sendData1
  by_cases hb : (c.buf s).isEmpty = true
  · simp only [hb, Bool.not_true, Bool.false_eq_true, if_false]
    have hbe : c.buf s = [] := by simpa using hb
    by_cases h1 : ((d.length : Int) ≤ c.localWin s)
    · simp only [h1, if_true]
      refine ⟨?_, ?_⟩
      · by_cases hs : s = sid
        · subst hs
          refine ⟨fun _ => ?_, ?_⟩
          · rw [(held_rawSend c s s d fin).2]; exact hbe
          · rw [(held_rawSend c s s d fin).2, hbe]; trivial
        · exact other _ (liveS_rawSend_ne c s sid d fin hs) (held_rawSend c s sid d fin).2
      · intro hf; subst hf
        refine ⟨by rw [liveS_rawSend_nofin]; exact hc.1, ?_⟩
        rw [(held_rawSend c s s d false).2, hbe]; intro x hx; simp at hx
    · simp only [h1, if_false]
      by_cases h2 : c.localWin s > 0
      · simp only [h2, if_true]
        have hl : (Conn.appendBuf (c.rawSend s (d.take (c.localWin s).toNat) false) s ⟨d.drop (c.localWin s).toNat, fin⟩).liveS sid
            = c.liveS sid := liveS_rawSend_nofin c s sid _
        refine ⟨?_, ?_⟩
        · by_cases hs : s = sid
          · subst hs
            refine ⟨fun hl' => ?_, ?_⟩
            · rw [hl, hc.1] at hl'; simp at hl'
            · rw [buf_appendBuf, (held_rawSend c s s _ false).2, hbe]; simp [finLast]
          · refine other _ hl ?_
            rw [buf_appendBuf]; simp only [hs, if_false]; exact (held_rawSend c s sid _ false).2
        · intro hf; subst hf
          refine ⟨by
            show (Conn.appendBuf (c.rawSend s _ false) s _).liveS s = true
            have : (Conn.appendBuf (c.rawSend s (d.take (c.localWin s).toNat) false) s ⟨d.drop (c.localWin s).toNat, false⟩).liveS s
                = c.liveS s := liveS_rawSend_nofin c s s _
            rw [this]; exact hc.1, ?_⟩
          rw [buf_appendBuf, (held_rawSend c s s _ false).2, hbe]
          intro x hx; simp at hx; subst hx; rfl
      · simp only [h2, if_false]
        refine ⟨?_, ?_⟩
        · by_cases hs : s = sid
          · subst hs
            refine ⟨fun hl' => ?_, ?_⟩
            · have : (c.appendBuf s ⟨d, fin⟩).liveS s = c.liveS s := rfl
              rw [this, hc.1] at hl'; simp at hl'
            · rw [buf_appendBuf, hbe]; simp [finLast]
          · refine other _ rfl ?_
            rw [buf_appendBuf]; simp [hs]
        · intro hf; subst hf
          refine ⟨hc.1, ?_⟩
          rw [buf_appendBuf, hbe]; intro x hx; simp at hx; subst hx; rfl
  · simp only [hb, Bool.not_false, if_true]
    refine ⟨?_, ?_⟩
    · by_cases hs : s = sid
      · subst hs
        refine ⟨fun hl' => ?_, ?_⟩
        · have : (c.appendBuf s ⟨d, fin⟩).liveS s = c.liveS s := rfl
          rw [this, hc.1] at hl'; simp at hl'
        · rw [buf_appendBuf]; simp only [if_true]; exact finLast_snoc _ _ hc.2
      · refine other _ rfl ?_
        rw [buf_appendBuf]; simp [hs]
    · intro hf; subst hf
      refine ⟨hc.1, ?_⟩
      rw [buf_appendBuf]; simp only [if_true]
      intro x hx
      rcases List.mem_append.mp hx with h1 | h1
      · exact hc.2 x h1
      · simp at h1; subst h1; rfl

theorem sendPieces_ok (f : Nat) (c : Conn) (s sid : Nat) (d : Bytes) (fin : Bool) (hc : CanSubmit c s)
    (h : StreamOk c sid) : StreamOk (Conn.sendPieces f c s d fin) sid := by
  induction f generalizing c d with
  | zero => exact h
  | succ f ih =>
    unfold Conn.sendPieces
    split
    · exact (sendData1_ok c s sid d fin hc h).1
    · have r := sendData1_ok c s sid (d.take c.mfs) false hc h
      exact ih _ _ (r.2 rfl) r.1

/-- `send_data` (any size) on a stream that may still send keeps every stream well kept -/
theorem sendData_ok (c : Conn) (s sid : Nat) (d : Bytes) (fin : Bool) (hc : CanSubmit c s) (h : StreamOk c sid) :
    StreamOk (c.sendData s d fin) sid := by
  unfold Conn.sendData
  split
  · exact sendPieces_ok _ c s sid d fin hc h
  · exact (sendData1_ok c s sid d fin hc h).1

end MitmVerif.C05
