/-
  Lemmas for C05: association lists, and the send buffers of `BufferedH2Connection`.
-/
import MitmVerif.Model.C05
namespace MitmVerif.C05
open MitmVerif

/-! ### association lists -/

theorem alookup_aset_same {α : Type} (k : Nat) (v : α) (l : List (Nat × α)) : alookup k (aset k v l) = some v := by
  induction l with
  | nil => simp [aset, alookup]
  | cons p rest ih =>
    obtain ⟨k', v'⟩ := p
    by_cases h : k' = k
    · simp [aset, alookup, h]
    · simp [aset, alookup, h, ih]

theorem alookup_aset_ne {α : Type} (k k' : Nat) (v : α) (l : List (Nat × α)) (h : k' ≠ k) :
    alookup k' (aset k v l) = alookup k' l := by
  induction l with
  | nil => simp [aset, alookup]; intro e; exact absurd e.symm h
  | cons p rest ih =>
    obtain ⟨k2, v2⟩ := p
    by_cases h2 : k2 = k
    · subst h2
      have : ¬ k2 = k' := fun e => h e.symm
      simp [aset, alookup, this]
    · by_cases h3 : k2 = k'
      · subst h3; simp [aset, alookup, h2]
      · simp [aset, alookup, h2, h3, ih]

theorem alookup_aerase_same {α : Type} (k : Nat) (l : List (Nat × α)) : alookup k (aerase k l) = none := by
  induction l with
  | nil => rfl
  | cons p rest ih =>
    obtain ⟨k', v'⟩ := p
    by_cases h : k' = k
    · simp [aerase, List.filter_cons, h] at ih ⊢; exact ih
    · simp [aerase, List.filter_cons, h, alookup] at ih ⊢; exact ih

theorem alookup_aerase_ne {α : Type} (k k' : Nat) (l : List (Nat × α)) (h : k' ≠ k) :
    alookup k' (aerase k l) = alookup k' l := by
  induction l with
  | nil => rfl
  | cons p rest ih =>
    obtain ⟨k2, v2⟩ := p
    by_cases h2 : k2 = k
    · subst h2
      have : ¬ k2 = k' := fun e => h e.symm
      simp [aerase, List.filter_cons, alookup, this] at ih ⊢; exact ih
    · by_cases h3 : k2 = k'
      · subst h3; simp [aerase, List.filter_cons, h2, alookup]
      · simp [aerase, List.filter_cons, h2, alookup, h3] at ih ⊢; exact ih

theorem alookup_append {α : Type} (k : Nat) (l1 l2 : List (Nat × α)) :
    alookup k (l1 ++ l2) = (match alookup k l1 with | some v => some v | none => alookup k l2) := by
  induction l1 with
  | nil => rfl
  | cons p rest ih =>
    obtain ⟨k', v'⟩ := p
    by_cases h : k' = k
    · simp [alookup, h]
    · simp [alookup, h, ih]

/-! ### bytes of a stream: sent and buffered -/

/-- payload of the DATA frames of stream `sid`, in the order they were written -/
def dataOf (sid : Nat) : List Frame → Bytes
  | [] => []
  | .data s d _ :: rest => if s = sid then d ++ dataOf sid rest else dataOf sid rest
  | _ :: rest => dataOf sid rest

theorem dataOf_append (sid : Nat) (a b : List Frame) : dataOf sid (a ++ b) = dataOf sid a ++ dataOf sid b := by
  induction a with
  | nil => rfl
  | cons f rest ih =>
    cases f with
    | data s d fin => by_cases h : s = sid <;> simp [dataOf, h, ih]
    | hdr s fin => simp [dataOf, ih]
    | trailers s => simp [dataOf, ih]
    | rst s => simp [dataOf, ih]

def chunkBytes (l : List Chunk) : Bytes := l.flatMap (·.data)
def Conn.bufBytes (c : Conn) (sid : Nat) : Bytes := chunkBytes (c.buf sid)
/-- everything of stream `sid` the connection has taken over: written out ++ still buffered -/
def Conn.held (c : Conn) (sid : Nat) : Bytes := dataOf sid c.out ++ c.bufBytes sid

theorem buf_updS (c : Conn) (s sid : Nat) (f : Stream → Stream) : (c.updS s f).buf sid = c.buf sid := by
  unfold Conn.updS; split <;> rfl

theorem out_updS (c : Conn) (s : Nat) (f : Stream → Stream) : (c.updS s f).out = c.out := by
  unfold Conn.updS; split <;> rfl

theorem mfs_updS (c : Conn) (s : Nat) (f : Stream → Stream) : (c.updS s f).mfs = c.mfs := by
  unfold Conn.updS; split <;> rfl

theorem held_rawSend (c : Conn) (s sid : Nat) (d : Bytes) (fin : Bool) :
    dataOf sid (c.rawSend s d fin).out = dataOf sid c.out ++ (if s = sid then d else []) ∧
    (c.rawSend s d fin).buf sid = c.buf sid := by
  unfold Conn.rawSend
  constructor
  · simp only [out_updS, dataOf_append]
    by_cases h : s = sid <;> simp [dataOf, h]
  · show (c.updS s _).buf sid = c.buf sid
    exact buf_updS c s sid _

theorem buf_appendBuf (c : Conn) (s sid : Nat) (ch : Chunk) :
    (c.appendBuf s ch).buf sid = if s = sid then c.buf sid ++ [ch] else c.buf sid := by
  unfold Conn.appendBuf Conn.buf
  by_cases h : s = sid
  · subst h; simp [alookup_aset_same]
  · have : sid ≠ s := fun e => h e.symm
    simp [alookup_aset_ne _ _ _ _ this, h]

theorem chunkBytes_append (a b : List Chunk) : chunkBytes (a ++ b) = chunkBytes a ++ chunkBytes b := by
  simp [chunkBytes]

/-- `send_data` of one frame-sized chunk: what the connection holds of the stream grows by exactly these bytes, at
    the end; other streams are untouched -/
theorem held_sendData1 (c : Conn) (s sid : Nat) (d : Bytes) (fin : Bool) :
    (c.sendData1 s d fin).held sid = c.held sid ++ (if s = sid then d else []) := by
  unfold Conn.sendData1
  by_cases hb : (c.buf s).isEmpty = true
  · simp only [hb, Bool.not_true, Bool.false_eq_true, if_false]
    have hbe : c.buf s = [] := by simpa using hb
    by_cases h1 : ((d.length : Int) ≤ c.localWin s)
    · simp only [h1, if_true]
      have := held_rawSend c s sid d fin
      unfold Conn.held Conn.bufBytes
      rw [this.1, this.2]
      by_cases h : s = sid
      · subst h; simp [hbe, chunkBytes]
      · simp [h]
    · simp only [h1, if_false]
      by_cases h2 : c.localWin s > 0
      · simp only [h2, if_true]
        have r := held_rawSend c s sid (d.take (c.localWin s).toNat) false
        have a := buf_appendBuf (c.rawSend s (d.take (c.localWin s).toNat) false) s sid
          ⟨d.drop (c.localWin s).toNat, fin⟩
        unfold Conn.held Conn.bufBytes
        rw [a, r.2]
        have hout : (Conn.appendBuf (c.rawSend s (d.take (c.localWin s).toNat) false) s
            ⟨d.drop (c.localWin s).toNat, fin⟩).out = (c.rawSend s (d.take (c.localWin s).toNat) false).out := rfl
        rw [hout, r.1]
        by_cases h : s = sid
        · subst h
          simp only [if_true, hbe, List.nil_append, chunkBytes, List.flatMap_cons, List.flatMap_nil, List.append_nil]
          rw [List.append_assoc, List.take_append_drop]
        · simp [h]
      · simp only [h2, if_false]
        have a := buf_appendBuf c s sid ⟨d, fin⟩
        unfold Conn.held Conn.bufBytes
        rw [a]
        have hout : (c.appendBuf s ⟨d, fin⟩).out = c.out := rfl
        rw [hout]
        by_cases h : s = sid
        · subst h; simp [hbe, chunkBytes]
        · simp [h]
  · simp only [hb, Bool.not_false, if_true]
    have a := buf_appendBuf c s sid ⟨d, fin⟩
    unfold Conn.held Conn.bufBytes
    rw [a]
    have hout : (c.appendBuf s ⟨d, fin⟩).out = c.out := rfl
    rw [hout]
    by_cases h : s = sid
    · subst h; simp [chunkBytes_append, chunkBytes]
    · simp [h]

theorem mfs_rawSend (c : Conn) (s : Nat) (d : Bytes) (fin : Bool) : (c.rawSend s d fin).mfs = c.mfs := by
  unfold Conn.rawSend; simp [mfs_updS]

theorem mfs_sendData1 (c : Conn) (s : Nat) (d : Bytes) (fin : Bool) : (c.sendData1 s d fin).mfs = c.mfs := by
  unfold Conn.sendData1
  by_cases hb : (c.buf s).isEmpty = true
  · simp only [hb, Bool.not_true, Bool.false_eq_true, if_false]
    by_cases h1 : ((d.length : Int) ≤ c.localWin s)
    · simp only [h1, if_true]; exact mfs_rawSend c s d fin
    · simp only [h1, if_false]
      by_cases h2 : c.localWin s > 0
      · simp only [h2, if_true]
        show (c.rawSend s _ false).mfs = c.mfs
        exact mfs_rawSend c s _ false
      · simp only [h2, if_false]; rfl
  · simp only [hb, Bool.not_false, if_true]; rfl

theorem held_sendPieces (f : Nat) (c : Conn) (s sid : Nat) (d : Bytes) (fin : Bool)
    (hm : 0 < c.mfs) (hf : d.length < f) :
    (Conn.sendPieces f c s d fin).held sid = c.held sid ++ (if s = sid then d else []) := by
  induction f generalizing c d with
  | zero => omega
  | succ f ih =>
    unfold Conn.sendPieces
    by_cases h : d.length ≤ c.mfs
    · simp only [h, if_true]; exact held_sendData1 c s sid d fin
    · simp only [h, if_false]
      have hm' : 0 < (c.sendData1 s (d.take c.mfs) false).mfs := by rw [mfs_sendData1]; exact hm
      have hlen : (d.drop c.mfs).length < f := by simp; omega
      rw [ih (c.sendData1 s (d.take c.mfs) false) (d.drop c.mfs) hm' hlen, held_sendData1]
      by_cases hs : s = sid
      · simp only [hs, if_true, List.append_assoc, List.take_append_drop]
      · simp [hs]

/-- `BufferedH2Connection.send_data`: bytes sent + bytes buffered = what was there + what was submitted, in order -/
theorem held_sendData (c : Conn) (s sid : Nat) (d : Bytes) (fin : Bool) :
    (c.sendData s d fin).held sid = c.held sid ++ (if s = sid then d else []) := by
  unfold Conn.sendData
  split
  · rename_i h; exact held_sendPieces _ c s sid d fin h.2 (by omega)
  · exact held_sendData1 c s sid d fin

/-! ### flushing -/

theorem buf_aset (c : Conn) (s sid : Nat) (l : List Chunk) :
    ({ c with bufs := aset s l c.bufs } : Conn).buf sid = if s = sid then l else c.buf sid := by
  unfold Conn.buf
  by_cases h : s = sid
  · subst h; simp [alookup_aset_same]
  · have : sid ≠ s := fun e => h e.symm
    simp [alookup_aset_ne _ _ _ _ this, h]

theorem buf_aerase (c : Conn) (s sid : Nat) :
    ({ c with bufs := aerase s c.bufs } : Conn).buf sid = if s = sid then [] else c.buf sid := by
  unfold Conn.buf
  by_cases h : s = sid
  · subst h; simp [alookup_aerase_same]
  · have : sid ≠ s := fun e => h e.symm
    simp [alookup_aerase_ne _ _ _ this, h]

theorem held_rawTrailers (c : Conn) (s sid : Nat) :
    dataOf sid (c.rawTrailers s).out = dataOf sid c.out ∧ (c.rawTrailers s).buf sid = c.buf sid := by
  unfold Conn.rawTrailers
  constructor
  · simp [out_updS, dataOf_append, dataOf]
  · show (c.updS s _).buf sid = c.buf sid
    exact buf_updS c s sid _

/-- the flush loop moves bytes from the front of the stream's buffer to the wire and touches nothing else -/
theorem held_flushLoop (f : Nat) (c : Conn) (s sid : Nat) (w : Int) (sent : Bool) :
    (Conn.flushLoop f c s w sent).1.held sid = c.held sid := by
  induction f generalizing c w sent with
  | zero => rfl
  | succ f ih =>
    unfold Conn.flushLoop
    by_cases hw : w > 0
    · simp only [hw, if_true]
      cases hb : c.buf s with
      | nil => rfl
      | cons ch rest =>
        simp only []
        -- the chunk (or its head) that goes out now, and what stays
        by_cases hbig : (ch.data.length : Int) > min w (c.mfs : Int)
        · simp only [hbig, if_true]
          rw [ih]
          generalize (min w (c.mfs : Int)).toNat = n
          have r := held_rawSend c s sid (ch.data.take n) false
          unfold Conn.held Conn.bufBytes
          simp only [List.isEmpty_cons, Bool.false_eq_true, if_false]
          rw [buf_aset, r.2]
          have hout : ({ (c.rawSend s (ch.data.take n) false) with
              bufs := aset s (⟨ch.data.drop n, ch.fin⟩ :: rest) (c.rawSend s (ch.data.take n) false).bufs } : Conn).out
              = (c.rawSend s (ch.data.take n) false).out := rfl
          rw [hout, r.1]
          by_cases h : s = sid
          · subst h
            simp only [if_true, hb, chunkBytes, List.flatMap_cons]
            rw [List.append_assoc, ← List.append_assoc (ch.data.take n), List.take_append_drop]
          · simp [h]
        · simp only [hbig, if_false]
          rw [ih]
          have r := held_rawSend c s sid ch.data ch.fin
          by_cases hre : rest.isEmpty = true
          · simp only [hre, if_true]
            have hrest : rest = [] := by simpa using hre
            split
            · -- trailers were waiting for the buffer to drain
              unfold Conn.held Conn.bufBytes
              have t := held_rawTrailers ({ (c.rawSend s ch.data ch.fin) with bufs := aerase s (c.rawSend s ch.data ch.fin).bufs } : Conn) s sid
              show dataOf sid (Conn.rawTrailers _ s).out ++ chunkBytes ((Conn.rawTrailers _ s).buf sid) = _
              rw [t.1, t.2, buf_aerase, r.2]
              have hout : ({ (c.rawSend s ch.data ch.fin) with bufs := aerase s (c.rawSend s ch.data ch.fin).bufs } : Conn).out
                  = (c.rawSend s ch.data ch.fin).out := rfl
              rw [hout, r.1]
              by_cases h : s = sid
              · subst h; simp [hb, hrest, chunkBytes]
              · simp [h]
            · unfold Conn.held Conn.bufBytes
              rw [buf_aerase, r.2]
              have hout : ({ (c.rawSend s ch.data ch.fin) with bufs := aerase s (c.rawSend s ch.data ch.fin).bufs } : Conn).out
                  = (c.rawSend s ch.data ch.fin).out := rfl
              rw [hout, r.1]
              by_cases h : s = sid
              · subst h; simp [hb, hrest, chunkBytes]
              · simp [h]
          · simp only [hre, Bool.false_eq_true, if_false]
            unfold Conn.held Conn.bufBytes
            rw [buf_aset, r.2]
            have hout : ({ (c.rawSend s ch.data ch.fin) with bufs := aset s rest (c.rawSend s ch.data ch.fin).bufs } : Conn).out
                = (c.rawSend s ch.data ch.fin).out := rfl
            rw [hout, r.1]
            by_cases h : s = sid
            · subst h; simp [hb, chunkBytes]
            · simp [h]
    · simp only [hw, if_false]

/-- `stream_window_updated` on a stream that may still send: nothing is lost, nothing reordered -/
theorem held_streamWindowUpdated (c : Conn) (s sid : Nat) (hl : c.liveS s = true ∨ s ≠ sid) :
    (c.streamWindowUpdated s).1.held sid = c.held sid := by
  unfold Conn.streamWindowUpdated
  by_cases h : c.liveS s = true
  · simp only [h, Bool.not_true, Bool.false_eq_true, if_false]
    exact held_flushLoop _ c s sid _ _
  · simp only [h, Bool.not_false, if_true]
    have hne : s ≠ sid := by
      rcases hl with h1 | h1
      · exact absurd h1 h
      · exact h1
    unfold Conn.held Conn.bufBytes
    rw [buf_aerase]
    simp [hne]

end MitmVerif.C05
