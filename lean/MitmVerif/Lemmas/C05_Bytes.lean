/-
  Lemmas for C05: whole-history form of the byte conservation — in every reachable state, what was written to the wire
  for an upstream stream followed by what is still buffered for it is a prefix of the body data the HTTP layer handed
  over for ITS client stream (all of it, as long as the stream may still send): nothing foreign, nothing twice,
  nothing reordered, across all windows, frame sizes, resets, GOAWAY, queueing and the resume loop.
-/
import MitmVerif.Lemmas.C05_Sub
namespace MitmVerif.C05
open MitmVerif

/-- `c'` holds for stream `x` a prefix of what `c` held, all of it if the stream may still send; nothing came to life -/
def Shr (c c' : Conn) (x : Nat) : Prop :=
  c'.held x <+: c.held x ∧ (c'.liveS x = true → c.liveS x = true ∧ c'.held x = c.held x)

theorem Shr.rfl' (c : Conn) (x : Nat) : Shr c c x := ⟨List.prefix_refl _, fun h => ⟨h, rfl⟩⟩

theorem Shr.trans {a b c : Conn} {x : Nat} (h1 : Shr a b x) (h2 : Shr b c x) : Shr a c x :=
  ⟨h2.1.trans h1.1, fun hl => by
    have k2 := h2.2 hl
    have k1 := h1.2 k2.1
    exact ⟨k1.1, k2.2.trans k1.2⟩⟩

theorem shr_of_eq (c c' : Conn) (x : Nat) (hh : c'.held x = c.held x) (hl : c'.liveS x = true → c.liveS x = true) :
    Shr c c' x := ⟨by rw [hh]; exact List.prefix_refl _, fun h => ⟨hl h, hh⟩⟩

theorem norev_rawSend (c : Conn) (s x : Nat) (d : Bytes) (fin : Bool) (h : (c.rawSend s d fin).liveS x = true) :
    c.liveS x = true := by
  cases fin with
  | false => rwa [liveS_rawSend_nofin] at h
  | true =>
    by_cases hs : s = x
    · subst hs; rw [liveS_rawSend_fin] at h; cases h
    · rwa [liveS_rawSend_ne c s x d true hs] at h

theorem norev_rawTrailers (c : Conn) (s x : Nat) (h : (c.rawTrailers s).liveS x = true) : c.liveS x = true := by
  by_cases hs : s = x
  · subst hs; rw [liveS_rawTrailers_same] at h; cases h
  · rwa [liveS_rawTrailers_ne c s x hs] at h

theorem flushLoop_norev (f : Nat) (c : Conn) (s x : Nat) (w : Int) (sent : Bool)
    (h : (Conn.flushLoop f c s w sent).1.liveS x = true) : c.liveS x = true := by
  induction f generalizing c w sent with
  | zero => exact h
  | succ f ih =>
    unfold Conn.flushLoop at h
    by_cases hw : w > 0
    · simp only [hw, if_true] at h
      cases hb : c.buf s with
      | nil => rw [hb] at h; exact h
      | cons ch rest =>
        rw [hb] at h
        simp only [] at h
        by_cases hbig : (ch.data.length : Int) > min w (c.mfs : Int)
        · simp only [hbig, if_true, List.isEmpty_cons, Bool.false_eq_true, if_false] at h
          have h0 := ih _ _ _ h
          have h1 : (c.rawSend s (ch.data.take (min w (c.mfs : Int)).toNat) false).liveS x = true := h0
          exact norev_rawSend c s x _ false h1
        · simp only [hbig, if_false] at h
          by_cases hre : rest.isEmpty = true
          · simp only [hre, if_true] at h
            split at h
            · have h1 := ih _ _ _ h
              have h2 : (Conn.rawTrailers ({ (c.rawSend s ch.data ch.fin) with bufs := aerase s (c.rawSend s ch.data ch.fin).bufs } : Conn) s).liveS x = true := h1
              have h3 := norev_rawTrailers _ s x h2
              exact norev_rawSend c s x _ _ h3
            · have h0 := ih _ _ _ h
              have h1 : (c.rawSend s ch.data ch.fin).liveS x = true := h0
              exact norev_rawSend c s x _ _ h1
          · simp only [hre, Bool.false_eq_true, if_false] at h
            have h0 := ih _ _ _ h
            have h1 : (c.rawSend s ch.data ch.fin).liveS x = true := h0
            exact norev_rawSend c s x _ _ h1
    · simp only [hw, if_false] at h; exact h

theorem held_erase_prefix (c : Conn) (s x : Nat) : ({ c with bufs := aerase s c.bufs } : Conn).held x <+: c.held x := by
  unfold Conn.held Conn.bufBytes
  rw [buf_aerase]
  split
  · show dataOf x c.out ++ chunkBytes [] <+: _
    simp [chunkBytes]
  · exact List.prefix_refl _

theorem streamWindowUpdated_shr (c : Conn) (s x : Nat) : Shr c (c.streamWindowUpdated s).1 x := by
  unfold Conn.streamWindowUpdated
  by_cases hl : c.liveS s = true
  · simp only [hl, Bool.not_true, Bool.false_eq_true, if_false]
    exact shr_of_eq _ _ x (held_flushLoop _ c s x _ _) (flushLoop_norev _ c s x _ _)
  · simp only [hl, Bool.not_false, if_true]
    refine ⟨held_erase_prefix c s x, fun h => ?_⟩
    have h0 : c.liveS x = true := h
    refine ⟨h0, ?_⟩
    have hne : s ≠ x := by intro e; subst e; exact hl h0
    unfold Conn.held Conn.bufBytes
    rw [buf_aerase]; simp [hne]

theorem connWindowUpdated_shr (f : Nat) (c : Conn) (x : Nat) : Shr c (Conn.connWindowUpdated f c) x :=
  connWindowUpdated_pres (fun c' => Shr c c' x)
    (fun c1 s h => h.trans (shr_of_eq c1 _ x (by unfold Conn.held Conn.bufBytes; rw [buf_moveToEnd]) (fun e => e)))
    (fun c1 s h => h.trans (streamWindowUpdated_shr c1 s x)) f c (Shr.rfl' c x)

theorem out_absorbH2 (c : Conn) (e : SEv) : (c.absorbH2 e).out = c.out := by
  cases e with
  | settings m iws mfs => cases mfs <;> cases iws <;> rfl
  | winUpd sid n => simp only [Conn.absorbH2]; split; rfl; exact out_updS c sid _
  | respHdr sid fin ok => simp only [Conn.absorbH2]; split; exact out_updS c sid _; rfl
  | respData sid len fin => simp only [Conn.absorbH2]; split; exact out_updS c sid _; rfl
  | respTrailers sid => exact out_updS c sid _
  | reset sid => exact out_updS c sid _
  | goaway => rfl
  | info _ => rfl
  | ended _ => rfl
  | protoErr => rfl
  | other => rfl

theorem absorbH2_shr (c : Conn) (e : SEv) (x : Nat) : Shr c (c.absorbH2 e) x := by
  have w := absorbH2_weak c e
  refine shr_of_eq _ _ x ?_ (w.2.2.1 x)
  unfold Conn.held Conn.bufBytes Conn.buf
  rw [out_absorbH2, w.1]

theorem absorbBuf_shr (c : Conn) (e : SEv) (x : Nat)
    (hk : (e = SEv.reset x ∨ e = SEv.goaway) → c.liveS x = false) : Shr c (c.absorbBuf e) x := by
  unfold Conn.absorbBuf
  split
  · exact connWindowUpdated_shr _ c x
  · split
    · exact connWindowUpdated_shr _ c x
    · exact streamWindowUpdated_shr c _ x
  · rename_i sid
    refine ⟨held_erase_prefix c sid x, fun h => ?_⟩
    have h0 : c.liveS x = true := h
    refine ⟨h0, ?_⟩
    have hne : sid ≠ x := by
      intro e; subst e
      have := hk (Or.inl rfl); rw [h0] at this; cases this
    unfold Conn.held Conn.bufBytes
    rw [buf_aerase]; simp [hne]
  · refine ⟨?_, fun h => ?_⟩
    · unfold Conn.held Conn.bufBytes
      show dataOf x c.out ++ chunkBytes [] <+: _
      simp [chunkBytes]
    · have h0 : c.liveS x = true := h
      have := hk (Or.inr rfl); rw [h0] at this; cases this
  · exact Shr.rfl' c x

theorem foldl_absorbH2_norev (evs : List SEv) (c : Conn) (x : Nat) (h : (evs.foldl Conn.absorbH2 c).liveS x = true) :
    c.liveS x = true := (foldl_absorbH2_weak evs c).2.2.1 x h

theorem absorbH2_kills (c : Conn) (e : SEv) (x : Nat) (he : e = SEv.reset x ∨ e = SEv.goaway) :
    (c.absorbH2 e).liveS x = false := by
  rcases he with rfl | rfl
  · simp only [Conn.absorbH2]
    unfold Conn.liveS
    rw [dead_updS, getS_updS]
    simp only [if_true]
    cases c.getS x with
    | none => simp
    | some st => simp [Stream.live]
  · simp [Conn.absorbH2, Conn.liveS]

theorem foldl_absorbH2_kills (evs : List SEv) (c : Conn) (x : Nat) (hp : Pending evs x) :
    (evs.foldl Conn.absorbH2 c).liveS x = false := by
  induction evs generalizing c with
  | nil => rcases hp with h | h <;> simp at h
  | cons e rest ih =>
    by_cases he : e = SEv.reset x ∨ e = SEv.goaway
    · have k := absorbH2_kills c e x he
      cases hl : (rest.foldl Conn.absorbH2 (c.absorbH2 e)).liveS x with
      | false => exact hl
      | true => rw [foldl_absorbH2_norev rest _ x hl] at k; cases k
    · apply ih
      rcases hp with h | h
      · rcases List.mem_cons.mp h with h2 | h2
        · exact absurd (Or.inl h2.symm) he
        · exact Or.inl h2
      · rcases List.mem_cons.mp h with h2 | h2
        · exact absurd (Or.inr h2.symm) he
        · exact Or.inr h2

theorem foldl_absorbH2_shr (evs : List SEv) (c : Conn) (x : Nat) : Shr c (evs.foldl Conn.absorbH2 c) x := by
  induction evs generalizing c with
  | nil => exact Shr.rfl' c x
  | cons e rest ih => exact (absorbH2_shr c e x).trans (ih _)

/-- a received segment: every stream keeps (a prefix of) what it held, all of it if it may still send afterwards -/
theorem absorb_shr (c : Conn) (evs : List SEv) (x : Nat) : Shr c (c.absorb evs) x := by
  have s1 := foldl_absorbH2_shr evs c x
  have kill := foldl_absorbH2_kills evs c x
  unfold Conn.absorb
  generalize evs.foldl Conn.absorbH2 c = c1 at s1 kill
  refine s1.trans ?_
  clear s1
  induction evs generalizing c1 with
  | nil => exact Shr.rfl' c1 x
  | cons e rest ih =>
    have st : Shr c1 (c1.absorbBuf e) x := absorbBuf_shr c1 e x (fun he =>
      kill (he.elim (fun a => Or.inl (by rw [a]; simp)) (fun a => Or.inr (by rw [a]; simp))))
    refine st.trans (ih _ ?_)
    intro hp
    have k := kill (hp.elim (fun a => Or.inl (List.mem_cons_of_mem _ a)) (fun a => Or.inr (List.mem_cons_of_mem _ a)))
    cases hl : (c1.absorbBuf e).liveS x with
    | false => rfl
    | true => rw [(st.2 hl).1] at k; cases k

/-! ### one client event -/

def dataBytes : List Ev → Bytes
  | [] => []
  | .data b :: rest => b ++ dataBytes rest
  | _ :: rest => dataBytes rest

theorem dataBytes_append (a b : List Ev) : dataBytes (a ++ b) = dataBytes a ++ dataBytes b := by
  induction a with
  | nil => rfl
  | cons e rest ih => cases e <;> simp [dataBytes, ih]

theorem held_sendTrailers (c : Conn) (s x : Nat) : (c.sendTrailers s).held x = c.held x := by
  unfold Conn.sendTrailers
  split
  · rfl
  · unfold Conn.held Conn.bufBytes
    rw [(held_rawTrailers c s x).1, (held_rawTrailers c s x).2]

theorem held_endStream (c : Conn) (s x : Nat) : (c.endStream s).held x = c.held x := by
  unfold Conn.endStream
  split
  · rfl
  · rw [held_sendData]; split <;> simp

theorem held_resetStream (c : Conn) (s x : Nat) :
    (c.resetStream s).held x = dataOf x c.out ++ (if s = x then [] else c.bufBytes x) := by
  unfold Conn.resetStream
  simp only []
  unfold Conn.held Conn.bufBytes
  have hb : (Conn.updS ({ c with bufs := aerase s c.bufs } : Conn) s (fun st => { st with rst := true })).buf x
      = if s = x then [] else c.buf x := by rw [buf_updS, buf_aerase]
  have ho : (Conn.updS ({ c with bufs := aerase s c.bufs } : Conn) s (fun st => { st with rst := true })).out = c.out := by
    rw [out_updS]
  show dataOf x ((Conn.updS ({ c with bufs := aerase s c.bufs } : Conn) s (fun st => { st with rst := true })).out ++ [Frame.rst s])
    ++ chunkBytes ((Conn.updS ({ c with bufs := aerase s c.bufs } : Conn) s (fun st => { st with rst := true })).buf x) = _
  rw [hb, ho, dataOf_append]
  split <;> simp [dataOf, chunkBytes]

theorem held_procConn_hdr (c : Conn) (o x : Nat) (fin : Bool) : (procConn c o (.hdr fin)).held x = c.held x := by
  unfold Conn.held Conn.bufBytes
  show dataOf x (c.out ++ [Frame.hdr o fin]) ++ chunkBytes (c.buf x) = _
  rw [dataOf_append]; simp [dataOf]

theorem procConn_shr_other (c : Conn) (o x : Nat) (ev : Ev) (h : o ≠ x) : Shr c (procConn c o ev) x := by
  refine shr_of_eq _ _ x ?_ (fun e => by rw [← (procConn_untouched c o x ev h).2.1]; exact e)
  cases ev with
  | hdr fin => exact held_procConn_hdr c o x fin
  | data b => simp only [procConn]; split; rw [held_sendData]; simp [h]; rfl
  | trailers => simp only [procConn]; split; exact held_sendTrailers c o x; rfl
  | eom => simp only [procConn]; split; exact held_endStream c o x; rfl
  | err => simp only [procConn]; split; rw [held_resetStream]; simp only [h, if_false]; rfl; rfl

/-- for its upstream stream: a prefix of the body data handed over so far, all of it while the stream may send -/
def PB (c : Conn) (o : Nat) (B : Bytes) : Prop := c.held o <+: B ∧ (c.liveS o = true → c.held o = B)

theorem pb_shr {c c' : Conn} {o : Nat} {B : Bytes} (h : PB c o B) (s : Shr c c' o) : PB c' o B :=
  ⟨s.1.trans h.1, fun hl => (s.2 hl).2.trans (h.2 (s.2 hl).1)⟩

theorem procConn_pb_self (c : Conn) (o : Nat) (F : List Ev) (ev : Ev) (hnh : ev.isHdr = false)
    (h : PB c o (dataBytes F)) : PB (procConn c o ev) o (dataBytes (F ++ [ev])) := by
  rw [dataBytes_append]
  cases ev with
  | hdr fin => simp [Ev.isHdr] at hnh
  | data b =>
    simp only [procConn, dataBytes, List.append_nil]
    split
    · rename_i hl
      have e : (c.sendData o b false).held o = dataBytes F ++ b := by
        rw [held_sendData, h.2 hl]; simp
      exact ⟨by rw [e]; exact List.prefix_refl _, fun _ => e⟩
    · rename_i hl
      exact ⟨h.1.trans (List.prefix_append _ _), fun e => absurd e hl⟩
  | trailers =>
    simp only [dataBytes, List.append_nil]
    refine pb_shr h ?_
    simp only [procConn]
    split
    · rename_i hl
      exact shr_of_eq _ _ o (held_sendTrailers c o o) (fun _ => hl)
    · exact Shr.rfl' c o
  | eom =>
    simp only [dataBytes, List.append_nil]
    refine pb_shr h ?_
    simp only [procConn]
    split
    · rename_i hl
      exact shr_of_eq _ _ o (held_endStream c o o) (fun _ => hl)
    · exact Shr.rfl' c o
  | err =>
    simp only [dataBytes, List.append_nil]
    refine pb_shr h ?_
    simp only [procConn]
    split
    · refine ⟨?_, fun hl => ?_⟩
      · rw [held_resetStream]; simp only [if_true, List.append_nil]
        unfold Conn.held; exact List.prefix_append _ _
      · rw [liveS_resetStream_same] at hl; cases hl
    · exact Shr.rfl' c o

/-! ### the whole client -/

structure BInv (σ : St) : Prop where
  fresh : ∀ x, σ.nextId ≤ x → σ.conn.held x = []
  pb : ∀ t o, alookup t σ.ours = some o → PB σ.conn o (dataBytes (fwOf t σ))

theorem held_nil_shr {c c' : Conn} {x : Nat} (h : c.held x = []) (s : Shr c c' x) : c'.held x = [] := by
  have := s.1; rw [h] at this; exact List.prefix_nil.mp this

theorem bInv_congr (σ σ' : St) (h1 : σ'.conn = σ.conn) (h2 : σ'.nextId = σ.nextId) (h3 : σ'.ours = σ.ours)
    (h4 : σ'.fw = σ.fw) (h : BInv σ) : BInv σ' := by
  refine ⟨?_, ?_⟩
  · intro x hx; rw [h1]; rw [h2] at hx; exact h.fresh x hx
  · intro t o ho
    rw [h3] at ho
    have : fwOf t σ' = fwOf t σ := by unfold fwOf; rw [h4]
    rw [h1, this]; exact h.pb t o ho

theorem midMapped_b (σ : St) (t o : Nat) (ev : Ev) (rest : List (Nat × Ev)) (h : DrainInv σ) (hs : BInv σ)
    (hst : σ.stack = (t, ev) :: rest) (ho : alookup t σ.ours = some o) : BInv (midMapped σ t o ev rest) := by
  obtain ⟨f1, f2, f3, f4, f5, f6, f7, f8, f9, _, f11⟩ := midMapped_fields σ t o ev rest
  have hconn : (midMapped σ t o ev rest).conn = procConn σ.conn o ev := process_conn ({ σ with stack := rest } : St) o ev
  have hsk := h.st
  unfold StackOk at hsk
  rw [hst] at hsk
  obtain ⟨_, hmap, _⟩ := hsk
  have hnh : ev.isHdr = false := hmap (by rw [ho]; rfl)
  have hlt : o < σ.nextId := h.map.lt o t (h.map.fwd t o ho)
  refine ⟨?_, ?_⟩
  · intro x hx
    rw [f11, hnh] at hx
    have hx' : σ.nextId ≤ x := by simpa using hx
    have hne : o ≠ x := by omega
    rw [hconn]
    exact held_nil_shr (hs.fresh x hx') (procConn_shr_other σ.conn o x ev hne)
  · intro t2 o2 ho2
    rw [f1] at ho2
    have hfw : fwOf t2 (midMapped σ t o ev rest) = fwOf t2 σ ++ (if t = t2 then [ev] else []) := by
      unfold fwOf; rw [f6]; exact fwOf_snoc t t2 o ev σ.fw
    rw [hconn, hfw]
    by_cases htt : t = t2
    · subst htt
      rw [ho] at ho2; cases ho2
      simp only [if_true]
      exact procConn_pb_self σ.conn o (fwOf t σ) ev hnh (hs.pb t o ho)
    · simp only [htt, if_false, List.append_nil]
      have hne : o ≠ o2 := by
        intro e; subst e
        have a := h.map.fwd t o ho
        have b := h.map.fwd t2 o ho2
        rw [a] at b; cases b; exact htt rfl
      exact pb_shr (hs.pb t2 o2 ho2) (procConn_shr_other σ.conn o o2 ev hne)

theorem midAlloc_b (σ : St) (t : Nat) (ev : Ev) (rest : List (Nat × Ev)) (h : DrainInv σ) (hs : BInv σ)
    (hst : σ.stack = (t, ev) :: rest) (ho : alookup t σ.ours = none) : BInv (midAlloc σ t ev rest) := by
  obtain ⟨f1, f2, f3, f4, f5, f6, f7, f8, f9, _, f11⟩ := midAlloc_fields σ t ev rest
  let σ1 : St := { σ with stack := rest, ours := σ.ours ++ [(t, σ.nextId)], theirs := aset σ.nextId t σ.theirs,
                          allocs := σ.allocs ++ [(t, σ.conn.openCount, σ.limit)] }
  have hconn : (midAlloc σ t ev rest).conn = procConn σ.conn σ.nextId ev := process_conn σ1 σ.nextId ev
  have hsk := h.st
  unfold StackOk at hsk
  rw [hst] at hsk
  obtain ⟨_, _, hun⟩ := hsk
  have hh : ev.isHdr = true := (hun ho).1
  refine ⟨?_, ?_⟩
  · intro x hx
    rw [f11, hh] at hx
    have hx' : σ.nextId + 2 ≤ x := by simpa using hx
    have hne : σ.nextId ≠ x := by omega
    rw [hconn]
    exact held_nil_shr (hs.fresh x (by omega)) (procConn_shr_other σ.conn σ.nextId x ev hne)
  · intro t2 o2 ho2
    rw [f1, alookup_append] at ho2
    have hfw : fwOf t2 (midAlloc σ t ev rest) = fwOf t2 σ ++ (if t = t2 then [ev] else []) := by
      unfold fwOf; rw [f6]; exact fwOf_snoc t t2 σ.nextId ev σ.fw
    rw [hconn, hfw]
    cases hl : alookup t2 σ.ours with
    | some o' =>
      rw [hl] at ho2
      simp only [Option.some.injEq] at ho2
      subst ho2
      have htt : ¬ t = t2 := by intro e; subst e; rw [ho] at hl; cases hl
      simp only [htt, if_false, List.append_nil]
      have hlt : o' < σ.nextId := h.map.lt o' t2 (h.map.fwd t2 o' hl)
      have hne : σ.nextId ≠ o' := by omega
      exact pb_shr (hs.pb t2 o' hl) (procConn_shr_other σ.conn σ.nextId o' ev hne)
    | none =>
      rw [hl] at ho2
      simp only [alookup] at ho2
      by_cases htt : t = t2
      · subst htt
        simp only [if_true, Option.some.injEq] at ho2
        subst ho2
        rw [fwOf_nil_of_unmapped σ h.fw t ho]
        simp only [if_true, List.nil_append]
        cases ev with
        | hdr fin =>
          have k := hs.fresh σ.nextId (Nat.le_refl _)
          have e : (procConn σ.conn σ.nextId (Ev.hdr fin)).held σ.nextId = [] := by
            rw [held_procConn_hdr]; exact k
          exact ⟨by rw [e]; exact List.nil_prefix, fun _ => by rw [e]; rfl⟩
        | data b => simp [Ev.isHdr] at hh
        | trailers => simp [Ev.isHdr] at hh
        | eom => simp [Ev.isHdr] at hh
        | err => simp [Ev.isHdr] at hh
      · simp [htt] at ho2

theorem resume_b (σ : St) (h : BInv σ) : BInv σ.resume := by
  unfold St.resume
  split
  · exact h
  · split
    · exact h
    · exact bInv_congr σ _ rfl rfl rfl rfl h

theorem tick_b (σ : St) (h : DrainInv σ) (hs : BInv σ) (hne : σ.stack ≠ []) (hc : σ.closed = false) :
    BInv σ.tick := by
  cases hst : σ.stack with
  | nil => exact absurd hst hne
  | cons q rest =>
    obtain ⟨t, ev⟩ := q
    rw [tick_eq σ t ev rest hst hc]
    cases ho : alookup t σ.ours with
    | some o => exact resume_b _ (midMapped_b σ t o ev rest h hs hst ho)
    | none =>
      simp only []
      split
      · exact bInv_congr σ _ rfl rfl rfl rfl hs
      · exact resume_b _ (midAlloc_b σ t ev rest h hs hst ho)

theorem drain_b (f : Nat) (σ : St) (h : DrainInv σ) (hs : BInv σ) (hc : σ.closed = false) :
    BInv (St.drain f σ) := by
  induction f generalizing σ with
  | zero => exact hs
  | succ f ih =>
    by_cases he : σ.stack = []
    · rw [drain_of_empty _ _ he]; exact hs
    · have ht := tick_drain σ h he hc
      have : St.drain (f + 1) σ = St.drain f σ.tick := by
        simp only [St.drain]
        have : σ.stack.isEmpty = false := by cases hs' : σ.stack <;> simp_all
        simp [this]
      rw [this]
      exact ih σ.tick ht.1 (tick_b σ h hs he hc) ht.2.2

theorem step_client_b (σ : St) (t : Nat) (ev : Ev) (h : QInv σ) (hs : BInv σ) (hc : σ.closed = false)
    (hg : Good σ t ev) : BInv (σ.step (.client t ev)) := by
  rw [step_client_eq σ t ev hc]
  have hca : (arrive σ t ev).closed = false := hc
  have ha : BInv (arrive σ t ev) := ⟨hs.fresh, fun t2 o2 ho2 => hs.pb t2 o2 ho2⟩
  by_cases hcase : (alookup t σ.ours).isSome = true ∨ σ.noFree = false
  · exact drain_b _ _ (arrive_drainInv σ t ev h hg hcase) ha hca
  · have hn : alookup t σ.ours = none := by
      cases ho : alookup t σ.ours with
      | none => rfl
      | some o => exact absurd (Or.inl (by rw [ho]; rfl)) hcase
    have hnf : σ.noFree = true := by
      cases hf : σ.noFree with
      | true => rfl
      | false => exact absurd (Or.inr hf) hcase
    have htick : (arrive σ t ev).tick = enqueued σ t ev := by
      rw [tick_eq (arrive σ t ev) t ev [] rfl hca]
      have : alookup t (arrive σ t ev).ours = none := hn
      rw [this]
      have hnf' : ({ (arrive σ t ev) with stack := [] } : St).noFree = true := by
        rw [← hnf]; exact noFree_congr _ _ rfl rfl rfl
      simp only [hnf', if_true]
      rfl
    have : St.drain ((arrive σ t ev).pending + 1) (arrive σ t ev) = enqueued σ t ev := by
      simp only [St.drain]
      have : (arrive σ t ev).stack.isEmpty = false := rfl
      simp only [this, Bool.false_eq_true, if_false, htick]
      exact drain_of_empty _ _ rfl
    rw [this]
    exact bInv_congr (arrive σ t ev) _ rfl rfl rfl rfl ha

theorem step_server_b (σ : St) (evs : List SEv) (h : Inv σ) (hs : BInv σ) : BInv (σ.step (.server evs)) := by
  simp only [St.step]
  by_cases hc : σ.closed = true
  · rw [if_pos hc]; exact hs
  · have hcf : σ.closed = false := by simpa using hc
    rw [if_neg hc]
    have hq := h.live hcf
    let σa : St := { σ with conn := σ.conn.absorb evs,
                            maxc := evs.foldl (fun m e => match e with | .settings (some v) _ _ => v | _ => m) σ.maxc }
    have hsa : Same σ σa := ⟨rfl, rfl, rfl, rfl, rfl, rfl, rfl, rfl, rfl⟩
    have hb_a : BInv σa :=
      ⟨fun x hx => held_nil_shr (hs.fresh x hx) (absorb_shr σ.conn evs x),
       fun t o ho => pb_shr (hs.pb t o ho) (absorb_shr σ.conn evs o)⟩
    have hma : MapInv σa := mapInv_of_same hsa h.map
    have hua : UpOk σa := h.up
    have hb := handleAll_ok evs σa hma hua
    have hsb : Same σ (St.handleAll σa evs) := hsa.trans hb.1
    have hb_b : BInv (St.handleAll σa evs) :=
      bInv_congr σa _ (handleAll_conn evs σa) hb.1.nextId hb.1.ours hb.1.fw hb_a
    show BInv (if (St.handleAll σa evs).closed = true then (St.handleAll σa evs).failQueued
      else St.drain ((St.handleAll σa evs).resume.pending + 1) (St.handleAll σa evs).resume)
    by_cases hcb : (St.handleAll σa evs).closed = true
    · simp only [hcb, if_true]
      exact bInv_congr (St.handleAll σa evs) _ rfl rfl rfl rfl hb_b
    · have hcbf : (St.handleAll σa evs).closed = false := by simpa using hcb
      simp only [hcb]
      have hmid := midInv_of_same hsb hb.2 hq
      have hdr := resume_inv _ hmid
      have hcl : (St.handleAll σa evs).resume.closed = false := by rw [(resume_pending _).2]; exact hcbf
      exact drain_b _ _ hdr (resume_b _ hb_b) hcl

theorem step_connClosed_b (σ : St) (h : Inv σ) (hs : BInv σ) : BInv (σ.step .connClosed) := by
  simp only [St.step]
  by_cases hc : σ.closed = true
  · rw [if_pos hc]; exact hs
  · rw [if_neg hc]
    have cc := closeConnection_ok σ h.map h.up
    exact bInv_congr σ.closeConnection _ rfl rfl rfl rfl
      (bInv_congr σ _ (closeConnection_conn σ) cc.1.nextId cc.1.ours cc.1.fw hs)

theorem init_b : BInv St.init := by
  refine ⟨fun x _ => rfl, ?_⟩
  intro t o ho; simp [St.init, alookup] at ho

/-- the byte invariant holds in every reachable state (`Reach`: only the head-first hypothesis `Good` is needed) -/
theorem reach_b (σ : St) (h : Reach σ) : BInv σ := by
  induction h with
  | init => exact init_b
  | client σ t ev hr hg ih =>
    by_cases hc : σ.closed = true
    · have : σ.step (.client t ev) = σ := by simp [St.step, hc]
      rw [this]; exact ih
    · have hcf : σ.closed = false := by simpa using hc
      exact step_client_b σ t ev ((reach_inv σ hr).live hcf) ih hcf hg
  | server σ evs hr ih => exact step_server_b σ evs (reach_inv σ hr) ih
  | connClosed σ hr ih => exact step_connClosed_b σ (reach_inv σ hr) ih

end MitmVerif.C05
