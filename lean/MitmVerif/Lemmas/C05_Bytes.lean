/-
  Lemmas for C05: whole-history form of the byte conservation — in every reachable state, what was written to the wire
  for an upstream stream followed by what is still buffered for it is a prefix of the body data the HTTP layer handed
  over for ITS client stream (all of it, as long as the stream may still send): nothing foreign, nothing twice,
  nothing reordered, across all windows, frame sizes, resets, GOAWAY, queueing and the resume loop.
-/
import MitmVerif.Lemmas.C05_Sub
namespace MitmVerif.C05
open MitmVerif

/-- `c'` holds for stream `x` a prefix of what `c` held, all of it if the stream may still send; nothing came to life -/
def Shr (c c' : Conn) (x : Nat) : Prop :=
  c'.held x <+: c.held x ∧ (c'.liveS x = true → c.liveS x = true ∧ c'.held x = c.held x)

theorem Shr.rfl' (c : Conn) (x : Nat) : Shr c c x := ⟨List.prefix_refl _, fun h => ⟨h, rfl⟩⟩

theorem Shr.trans {a b c : Conn} {x : Nat} (h1 : Shr a b x) (h2 : Shr b c x) : Shr a c x :=
  ⟨h2.1.trans h1.1, fun hl => by
    have k2 := h2.2 hl
    have k1 := h1.2 k2.1
    exact ⟨k1.1, k2.2.trans k1.2⟩⟩

theorem shr_of_eq (c c' : Conn) (x : Nat) (hh : c'.held x = c.held x) (hl : c'.liveS x = true → c.liveS x = true) :
    Shr c c' x := ⟨by rw [hh], fun h => ⟨hl h, hh⟩⟩

theorem norev_rawSend (c : Conn) (s x : Nat) (d : Bytes) (fin : Bool) (h : (c.rawSend s d fin).liveS x = true) :
    c.liveS x = true := by
  cases fin with
  | false => rwa [liveS_rawSend_nofin] at h
  | true =>
    by_cases hs : s = x
    · subst hs; rw [liveS_rawSend_fin] at h; cases h
    · rwa [liveS_rawSend_ne c s x d true hs] at h

theorem norev_rawTrailers (c : Conn) (s x : Nat) (h : (c.rawTrailers s).liveS x = true) : c.liveS x = true := by
  by_cases hs : s = x
  · subst hs; rw [liveS_rawTrailers_same] at h; cases h
  · rwa [liveS_rawTrailers_ne c s x hs] at h

theorem flushLoop_norev (f : Nat) (c : Conn) (s x : Nat) (w : Int) (sent : Bool)
    (h : (Conn.flushLoop f c s w sent).1.liveS x = true) : c.liveS x = true := by
  induction f generalizing c w sent with
  | zero => exact h
  | succ f ih =>
    unfold Conn.flushLoop at h
    by_cases hw : w > 0
    · simp only [hw, if_true] at h
      cases hb : c.buf s with
      | nil => rw [hb] at h; exact h
      | cons ch rest =>
        rw [hb] at h
        simp only [] at h
        by_cases hbig : (ch.data.length : Int) > min w (c.mfs : Int)
        · simp only [hbig, if_true, List.isEmpty_cons, Bool.false_eq_true, if_false] at h
          exact norev_rawSend c s x _ false (ih _ _ _ h)
        · simp only [hbig, if_false] at h
          by_cases hre : rest.isEmpty = true
          · simp only [hre, if_true] at h
            split at h
            · have h1 := ih _ _ _ h
              have h2 : (Conn.rawTrailers ({ (c.rawSend s ch.data ch.fin) with bufs := aerase s (c.rawSend s ch.data ch.fin).bufs } : Conn) s).liveS x = true := h1
              have h3 := norev_rawTrailers _ s x h2
              exact norev_rawSend c s x _ _ h3
            · exact norev_rawSend c s x _ _ (ih _ _ _ h)
          · simp only [hre, Bool.false_eq_true, if_false] at h
            exact norev_rawSend c s x _ _ (ih _ _ _ h)
    · simp only [hw, if_false] at h; exact h

theorem held_erase_prefix (c : Conn) (s x : Nat) : ({ c with bufs := aerase s c.bufs } : Conn).held x <+: c.held x := by
  unfold Conn.held Conn.bufBytes
  rw [buf_aerase]
  split
  · show dataOf x c.out ++ chunkBytes [] <+: _
    simp [chunkBytes]
  · exact List.prefix_refl _

theorem streamWindowUpdated_shr (c : Conn) (s x : Nat) : Shr c (c.streamWindowUpdated s).1 x := by
  unfold Conn.streamWindowUpdated
  by_cases hl : c.liveS s = true
  · simp only [hl, Bool.not_true, Bool.false_eq_true, if_false]
    exact shr_of_eq _ _ x (held_flushLoop _ c s x _ _) (flushLoop_norev _ c s x _ _)
  · simp only [hl, Bool.not_false, if_true]
    refine ⟨held_erase_prefix c s x, fun h => ?_⟩
    have h0 : c.liveS x = true := h
    refine ⟨h0, ?_⟩
    have hne : s ≠ x := by intro e; subst e; exact hl h0
    unfold Conn.held Conn.bufBytes
    rw [buf_aerase]; simp [hne]

theorem connWindowUpdated_shr (f : Nat) (c : Conn) (x : Nat) : Shr c (Conn.connWindowUpdated f c) x :=
  connWindowUpdated_pres (fun c' => Shr c c' x)
    (fun c1 s h => h.trans (shr_of_eq c1 _ x (by unfold Conn.held Conn.bufBytes; rw [buf_moveToEnd]) (fun e => e)))
    (fun c1 s h => h.trans (streamWindowUpdated_shr c1 s x)) f c (Shr.rfl' c x)

theorem out_absorbH2 (c : Conn) (e : SEv) : (c.absorbH2 e).out = c.out := by
  cases e with
  | settings m iws mfs => cases mfs <;> cases iws <;> rfl
  | winUpd sid n => simp only [Conn.absorbH2]; split; rfl; exact out_updS c sid _
  | respHdr sid fin ok => simp only [Conn.absorbH2]; split; exact out_updS c sid _; rfl
  | respData sid len fin => simp only [Conn.absorbH2]; split; exact out_updS c sid _; rfl
  | respTrailers sid => exact out_updS c sid _
  | reset sid => exact out_updS c sid _
  | goaway => rfl
  | info _ => rfl
  | ended _ => rfl
  | protoErr => rfl
  | other => rfl

theorem absorbH2_shr (c : Conn) (e : SEv) (x : Nat) : Shr c (c.absorbH2 e) x := by
  have w := absorbH2_weak c e
  refine shr_of_eq _ _ x ?_ (w.2.2.1 x)
  unfold Conn.held Conn.bufBytes Conn.buf
  rw [out_absorbH2, w.1]

theorem absorbBuf_shr (c : Conn) (e : SEv) (x : Nat)
    (hk : (e = SEv.reset x ∨ e = SEv.goaway) → c.liveS x = false) : Shr c (c.absorbBuf e) x := by
  unfold Conn.absorbBuf
  split
  · exact connWindowUpdated_shr _ c x
  · split
    · exact connWindowUpdated_shr _ c x
    · exact streamWindowUpdated_shr c _ x
  · rename_i sid
    refine ⟨held_erase_prefix c sid x, fun h => ?_⟩
    have h0 : c.liveS x = true := h
    refine ⟨h0, ?_⟩
    have hne : sid ≠ x := by
      intro e; subst e
      have := hk (Or.inl rfl); rw [h0] at this; cases this
    unfold Conn.held Conn.bufBytes
    rw [buf_aerase]; simp [hne]
  · refine ⟨?_, fun h => ?_⟩
    · unfold Conn.held Conn.bufBytes
      show dataOf x c.out ++ chunkBytes [] <+: _
      simp [chunkBytes]
    · have h0 : c.liveS x = true := h
      have := hk (Or.inr rfl); rw [h0] at this; cases this
  · exact Shr.rfl' c x

theorem foldl_absorbH2_norev (evs : List SEv) (c : Conn) (x : Nat) (h : (evs.foldl Conn.absorbH2 c).liveS x = true) :
    c.liveS x = true := (foldl_absorbH2_weak evs c).2.2.1 x h

theorem absorbH2_kills (c : Conn) (e : SEv) (x : Nat) (he : e = SEv.reset x ∨ e = SEv.goaway) :
    (c.absorbH2 e).liveS x = false := by
  rcases he with rfl | rfl
  · simp only [Conn.absorbH2]
    unfold Conn.liveS
    rw [dead_updS, getS_updS]
    simp only [if_true]
    cases c.getS x with
    | none => simp
    | some st => simp [Stream.live]
  · simp [Conn.absorbH2, Conn.liveS]

theorem foldl_absorbH2_kills (evs : List SEv) (c : Conn) (x : Nat) (hp : Pending evs x) :
    (evs.foldl Conn.absorbH2 c).liveS x = false := by
  induction evs generalizing c with
  | nil => rcases hp with h | h <;> simp at h
  | cons e rest ih =>
    by_cases he : e = SEv.reset x ∨ e = SEv.goaway
    · have k := absorbH2_kills c e x he
      cases hl : (rest.foldl Conn.absorbH2 (c.absorbH2 e)).liveS x with
      | false => exact hl
      | true => rw [foldl_absorbH2_norev rest _ x hl] at k; cases k
    · apply ih
      rcases hp with h | h
      · rcases List.mem_cons.mp h with h2 | h2
        · exact absurd (Or.inl h2.symm) he
        · exact Or.inl h2
      · rcases List.mem_cons.mp h with h2 | h2
        · exact absurd (Or.inr h2.symm) he
        · exact Or.inr h2

theorem foldl_absorbH2_shr (evs : List SEv) (c : Conn) (x : Nat) : Shr c (evs.foldl Conn.absorbH2 c) x := by
  induction evs generalizing c with
  | nil => exact Shr.rfl' c x
  | cons e rest ih => exact (absorbH2_shr c e x).trans (ih _)

/-- a received segment: every stream keeps (a prefix of) what it held, all of it if it may still send afterwards -/
theorem absorb_shr (c : Conn) (evs : List SEv) (x : Nat) : Shr c (c.absorb evs) x := by
  have s1 := foldl_absorbH2_shr evs c x
  have kill := foldl_absorbH2_kills evs c x
  unfold Conn.absorb
  generalize evs.foldl Conn.absorbH2 c = c1 at s1 kill
  refine s1.trans ?_
  clear s1
  induction evs generalizing c1 with
  | nil => exact Shr.rfl' c1 x
  | cons e rest ih =>
    have st : Shr c1 (c1.absorbBuf e) x := absorbBuf_shr c1 e x (fun he =>
      kill (he.elim (fun a => Or.inl (by rw [a]; simp)) (fun a => Or.inr (by rw [a]; simp))))
    refine st.trans (ih _ ?_)
    intro hp
    have k := kill (hp.elim (fun a => Or.inl (List.mem_cons_of_mem _ a)) (fun a => Or.inr (List.mem_cons_of_mem _ a)))
    cases hl : (c1.absorbBuf e).liveS x with
    | false => rfl
    | true => rw [(st.2 hl).1] at k; cases k

end MitmVerif.C05
