/-
  C05 ⟵ C03, second part: every handled event keeps the invariant `J` — assembled from Lemmas/C05_C03H1/H2/B/S1/S2/S3.lean
  (split so that each part compiles in about a minute and they build in parallel).
-/
import MitmVerif.Lemmas.C05_C03Step
import MitmVerif.Lemmas.C05_C03H1
import MitmVerif.Lemmas.C05_C03H2
import MitmVerif.Lemmas.C05_C03B
import MitmVerif.Lemmas.C05_C03S1
import MitmVerif.Lemmas.C05_C03S2
import MitmVerif.Lemmas.C05_C03S3
import MitmVerif.Lemmas.C05_Sub
namespace MitmVerif.C03

theorem j_reqHeaders (p : SP) (d : Core) (e : Bool) (kind : ReqKind) (ws : Bool) (v : Verdict) (hp : d.paused = none)
    (hb : d.bad = false) (hpt : d.pt = false) (h : J p d = true) :
    J ((clientEvent d (.reqHeaders e kind ws v)).out.foldl adv p) (clientEvent d (.reqHeaders e kind ws v)).c = true := by
  cases kind with
  | invalid => exact j_reqHeaders_invalid p d e ws v hp hb hpt h
  | connect => exact j_reqHeaders_connect p d e ws v hp hb hpt h
  | nohost => exact j_reqHeaders_nohost p d e ws v hp hb hpt h
  | norm => exact j_reqHeaders_norm p d e ws v hp hb hpt h

theorem j_respEvent (p : SP) (d : Core) (ev : AEv)
    (hev : (∃ e k v, ev = .respHeaders e k v) ∨ (∃ v, ev = .respData v) ∨ (∃ ne, ev = .respEOM ne) ∨ ev = .respTrailers)
    (hp : d.paused = none) (hb : d.bad = false) (hpt : d.pt = false) (hA : d.attached = true) (h : J p d = true) :
    J ((serverEvent d ev).out.foldl adv p) (serverEvent d ev).c = true := by
  rcases hev with ⟨e, k, v, rfl⟩ | hrest
  · cases e with
    | true => exact j_respHeaders_true p d k v hp hb hpt hA h
    | false => exact j_respHeaders_false p d k v hp hb hpt hA h
  · exact j_respRest p d ev hrest hp hb hpt hA h

end MitmVerif.C03
