/-
  C05 ⟵ C03, second part: every handled event keeps the invariant `J` (Lemmas/C05_C03Step.lean), hence every run of
  the model of `HttpStream`; and what the monitor accepts is what `Http2Client` is assumed to be handed (`Good2`).
-/
import MitmVerif.Lemmas.C05_C03Step
import MitmVerif.Lemmas.C05_Sub
namespace MitmVerif.C03

syntax "j_tree2" ident ident : tactic
macro_rules
  | `(tactic| j_tree2 $d $p) => `(tactic|
      ((try simp only [resume, handlePE, peAfter, killedFire, killedSilent, sendResponse, startRequestStream, cbsErrFire,
        connectFinish, flowDone, onReqHeaders, clientEvent, serverEvent, ↓reduceIte, Bool.false_eq_true, reduceCtorEq]) <;>
       (repeat' split) <;>
       (simp [J, JF, pOK, pAtt, pFine, isS1, imp, fire, fireC, mk, crash, W.pre, outIf, connectSends, killFinishC, peRetC,
          List.foldl_append, *] at * <;>
        (first | done |
          (cases $p:ident <;> cases hcs' : Core.cs $d <;> cases hss' : Core.ss $d <;>
            simp_all [adv, srvStep, pAtt, pFine, isS1] <;> (first | done | grind))))))

set_option maxHeartbeats 8000000 in
theorem j_reqErr (p : SP) (d : Core) (peek : Bool) (hp : d.paused = none) (hb : d.bad = false) (hpt : d.pt = false)
    (h : J p d = true) :
    J ((handlePE d false .top peek).out.foldl adv p) (handlePE d false .top peek).c = true := by
  j_tree2 d p

set_option maxHeartbeats 8000000 in
theorem j_respErr (p : SP) (d : Core) (peek : Bool) (hp : d.paused = none) (hb : d.bad = false) (hpt : d.pt = false)
    (hA : d.attached = true) (h : J p d = true) :
    J ((handlePE d true .top peek).out.foldl adv p) (handlePE d true .top peek).c = true := by
  j_tree2 d p

set_option maxHeartbeats 16000000 in
theorem j_reqHeaders (p : SP) (d : Core) (e : Bool) (kind : ReqKind) (ws : Bool) (v : Verdict) (hp : d.paused = none)
    (hb : d.bad = false) (hpt : d.pt = false) (h : J p d = true) :
    J ((clientEvent d (.reqHeaders e kind ws v)).out.foldl adv p) (clientEvent d (.reqHeaders e kind ws v)).c = true := by
  cases hcs : d.cs <;> cases kind <;> cases v <;> cases e <;> simp only [clientEvent, hcs] <;> j_tree2 d p

set_option maxHeartbeats 16000000 in
theorem j_reqBody (p : SP) (d : Core) (ev : AEv)
    (hev : (∃ v, ev = .reqData v) ∨ (∃ ne, ev = .reqEOM ne) ∨ ev = .reqTrailers) (hp : d.paused = none)
    (hb : d.bad = false) (hpt : d.pt = false) (h : J p d = true) :
    J ((clientEvent d ev).out.foldl adv p) (clientEvent d ev).c = true := by
  rcases hev with ⟨v, rfl⟩ | ⟨ne, rfl⟩ | rfl
  · cases hcs : d.cs <;> cases v <;> simp only [clientEvent, hcs] <;> j_tree2 d p
  · cases hcs : d.cs <;> simp only [clientEvent, hcs] <;> j_tree2 d p
  · cases hcs : d.cs <;> simp only [clientEvent, hcs] <;> j_tree2 d p

set_option maxHeartbeats 16000000 in
theorem j_respEvent (p : SP) (d : Core) (ev : AEv)
    (hev : (∃ e k v, ev = .respHeaders e k v) ∨ (∃ v, ev = .respData v) ∨ (∃ ne, ev = .respEOM ne) ∨ ev = .respTrailers)
    (hp : d.paused = none) (hb : d.bad = false) (hpt : d.pt = false) (hA : d.attached = true) (h : J p d = true) :
    J ((serverEvent d ev).out.foldl adv p) (serverEvent d ev).c = true := by
  rcases hev with ⟨e, k, v, rfl⟩ | ⟨v, rfl⟩ | ⟨ne, rfl⟩ | rfl
  · cases hss : d.ss <;> cases k <;> cases v <;> cases e <;> simp only [serverEvent, hss] <;> j_tree2 d p
  · cases hss : d.ss <;> cases v <;> simp only [serverEvent, hss] <;> j_tree2 d p
  · cases hss : d.ss <;> simp only [serverEvent, hss] <;> j_tree2 d p
  · cases hss : d.ss <;> simp only [serverEvent, hss] <;> j_tree2 d p

end MitmVerif.C03
