/-
  C05 ⟵ C03: the invariant `J` (Lemmas/C05_C03Def.lean) is kept by protocol errors and the request body events
-/
import MitmVerif.Lemmas.C05_C03Def
namespace MitmVerif.C03

set_option maxHeartbeats 8000000 in
theorem j_reqErr (p : SP) (d : Core) (peek : Bool) (hp : d.paused = none) (hb : d.bad = false) (hpt : d.pt = false)
    (h : J p d = true) :
    J ((handlePE d false .top peek).out.foldl adv p) (handlePE d false .top peek).c = true := by
  j_tree3 d p

set_option maxHeartbeats 8000000 in
theorem j_respErr (p : SP) (d : Core) (peek : Bool) (hp : d.paused = none) (hb : d.bad = false) (hpt : d.pt = false)
    (hA : d.attached = true) (h : J p d = true) :
    J ((handlePE d true .top peek).out.foldl adv p) (handlePE d true .top peek).c = true := by
  j_tree3 d p

set_option maxHeartbeats 16000000 in
theorem j_reqBody (p : SP) (d : Core) (ev : AEv)
    (hev : (∃ v, ev = .reqData v) ∨ (∃ ne, ev = .reqEOM ne) ∨ ev = .reqTrailers) (hp : d.paused = none)
    (hb : d.bad = false) (hpt : d.pt = false) (h : J p d = true) :
    J ((clientEvent d ev).out.foldl adv p) (clientEvent d ev).c = true := by
  rcases hev with ⟨v, rfl⟩ | ⟨ne, rfl⟩ | rfl
  · cases hcs : d.cs <;> cases v <;> simp only [clientEvent, hcs] <;> j_tree3 d p
  · cases hcs : d.cs <;> simp only [clientEvent, hcs] <;> j_tree3 d p
  · cases hcs : d.cs <;> simp only [clientEvent, hcs] <;> j_tree3 d p

end MitmVerif.C03
