/-
  C05 ⟵ C03: the order of the events `Http2Client` is handed (`Good`, `Good2` in Lemmas/C05_Sub.lean) is the order in
  which the model of `HttpStream` (Model/C03.lean) emits `SendHttp(…, context.server)`: the request head first and
  once, body data only while the request is being streamed, trailers only right before the end of the message, one end
  of message, an error only after the head — for EVERY run of the model (any inputs, any addon actions, any
  body-size verdicts, any interleaving with the `_paused_event_queue`).
-/
import MitmVerif.Model.C03_Inv
namespace MitmVerif.C03

/-- where the server-bound part of the stream is: nothing sent, request open, trailers sent, ended / cancelled -/
inductive SP where
  | s0 | s1 | s2 | sc | bad
  deriving DecidableEq, Repr

def srvStep : SP → Tag → SP
  | .s0, .rh => .s1
  | .s1, .rd => .s1
  | .s1, .rt => .s2
  | .s1, .re => .sc
  | .s2, .re => .sc
  | .s1, .rx => .sc
  | .sc, .rx => .sc
  | _, _ => .bad

/-- the monitor over the emitted commands: only `SendHttp(…, context.server)` matters -/
def adv (p : SP) : Out → SP
  | .send false t => srvStep p t
  | _ => p

def pOK (cs : CS) (attached : Bool) : K → Bool
  | .reqHeadersHook _ => cs == .waitHdr
  | .streamConn false => cs == .waitHdr
  | .streamConn true => cs == .consume
  | .requestHookStream => cs == .stream
  | .requestHook => cs == .done && !attached
  | .respHeadersEmul => cs == .done && !attached
  | .conn => cs == .done && !attached
  | .respHeadersHook _ => attached
  | .peErr false _ => cs == .errored
  | .cbsHdr false => attached
  | .cbsErr false => attached
  | _ => true

/-- nothing was sent yet exactly as long as no request head went to a server connection -/
def pAtt : SP → Bool → Bool
  | .s0, a => !a
  | .s1, a => a
  | .sc, a => a
  | _, _ => false

/-- the monitor never rejected, and trailers are always followed by the end of the message at once -/
def pFine : SP → Bool
  | .bad => false
  | .s2 => false
  | _ => true

def isS1 : SP → Bool
  | .s1 => true
  | _ => false

/-- the invariant that ties the monitor to the state of the stream (a function of the few fields it mentions) -/
def JF (p : SP) (bad attached pt hasFlow : Bool) (cs : CS) (ss : SS) (paused : Option K) : Bool :=
  pFine p &&
  (bad ||
  (pAtt p attached
   && imp (paused.isSome || cs != .waitHdr) hasFlow
   && imp (cs == .stream) (isS1 p)
   && imp (cs == .waitHdr || cs == .consume || cs == .uninit) (!attached)
   && imp (paused.isNone && !pt && cs == .done && !attached) (ss == .done || ss == .errored)
   && (match paused with | none => true | some k => pOK cs attached k)))

def J (p : SP) (c : Core) : Bool := JF p c.bad c.attached c.pt c.hasFlow c.cs c.ss c.paused

@[simp] theorem adv_send_true (p : SP) (t : Tag) : adv p (.send true t) = p := rfl
@[simp] theorem adv_hook (p : SP) (h : Hook) : adv p (.hook h) = p := rfl
@[simp] theorem adv_drop (p : SP) : adv p .drop = p := rfl
@[simp] theorem adv_getConn (p : SP) : adv p .getConn = p := rfl
@[simp] theorem adv_openConn (p : SP) : adv p .openConn = p := rfl
@[simp] theorem adv_closeServer (p : SP) : adv p .closeServer = p := rfl
@[simp] theorem adv_crash (p : SP) : adv p .crash = p := rfl
@[simp] theorem adv_streamStart (p : SP) : adv p .streamStart = p := rfl
@[simp] theorem foldl_adv_ite (p : SP) (b : Bool) (o : Out) :
    List.foldl adv p (if b = true then [o] else []) = if b = true then adv p o else p := by
  cases b <;> rfl

theorem J_fin (p : SP) (q : Bool) (w : W) : J p (W.fin q w).c = J p w.c := rfl

syntax "j_tree" ident ident : tactic
macro_rules
  | `(tactic| j_tree $d $p) => `(tactic|
      (simp only [resume, handlePE, peAfter, killedFire, killedSilent, sendResponse, startRequestStream, cbsErrFire,
        connectFinish, flowDone, onReqHeaders, clientEvent, serverEvent, ↓reduceIte, Bool.false_eq_true, reduceCtorEq] <;>
       (repeat' split) <;>
       (simp [J, JF, pOK, pAtt, pFine, isS1, imp, fire, fireC, mk, crash, W.pre, outIf, connectSends, killFinishC, peRetC,
          List.foldl_append, *] at * <;>
        (first | done |
          (cases $p:ident <;> cases hcs : Core.cs $d <;> cases hss : Core.ss $d <;>
            simp_all [adv, srvStep, pAtt, pFine, isS1] <;> (first | done | grind))))))

syntax "j_tree2" ident ident : tactic
macro_rules
  | `(tactic| j_tree2 $d $p) => `(tactic|
      ((try simp only [resume, handlePE, peAfter, killedFire, killedSilent, sendResponse, startRequestStream, cbsErrFire,
        connectFinish, flowDone, onReqHeaders, clientEvent, serverEvent, ↓reduceIte, Bool.false_eq_true, reduceCtorEq]) <;>
       (repeat' split) <;>
       (simp [J, JF, pOK, pAtt, pFine, isS1, imp, fire, fireC, mk, crash, W.pre, outIf, connectSends, killFinishC, peRetC,
          List.foldl_append, *] at * <;>
        (first | done |
          (cases $p:ident <;> cases hcs' : Core.cs $d <;> cases hss' : Core.ss $d <;>
            simp_all [adv, srvStep, pAtt, pFine, isS1] <;> (first | done | grind))))))

syntax "j_tree3" ident ident : tactic
macro_rules
  | `(tactic| j_tree3 $d $p) => `(tactic|
      ((try simp only [resume, handlePE, peAfter, killedFire, killedSilent, sendResponse, startRequestStream, cbsErrFire,
        connectFinish, flowDone, onReqHeaders, clientEvent, serverEvent, ↓reduceIte, Bool.false_eq_true, reduceCtorEq]) <;>
       (repeat' split) <;>
       (first | assumption | simp [J, JF, pOK, pAtt, pFine, isS1, imp, fire, fireC, mk, crash, W.pre, outIf, connectSends, killFinishC, peRetC,
          List.foldl_append, *] at * <;>
        (first | done |
          (cases $p:ident <;> cases hcs' : Core.cs $d <;> cases hss' : Core.ss $d <;>
            simp_all [adv, srvStep, pAtt, pFine, isS1] <;> (first | done | grind))))))

end MitmVerif.C03
