/-
  C05 ⟵ C03: the invariant `J` (Lemmas/C05_C03Def.lean) is kept by the request head arriving (no host / ordinary requests)
-/
import MitmVerif.Lemmas.C05_C03Def
namespace MitmVerif.C03

set_option maxHeartbeats 16000000 in
theorem j_reqHeaders_nohost (p : SP) (d : Core) (e : Bool) (ws : Bool) (v : Verdict) (hp : d.paused = none)
    (hb : d.bad = false) (hpt : d.pt = false) (h : J p d = true) :
    J ((clientEvent d (.reqHeaders e .nohost ws v)).out.foldl adv p) (clientEvent d (.reqHeaders e .nohost ws v)).c = true := by
  cases hcs : d.cs <;> cases v <;> cases e <;> simp only [clientEvent, hcs] <;> j_tree3 d p

set_option maxHeartbeats 16000000 in
theorem j_reqHeaders_norm (p : SP) (d : Core) (e : Bool) (ws : Bool) (v : Verdict) (hp : d.paused = none)
    (hb : d.bad = false) (hpt : d.pt = false) (h : J p d = true) :
    J ((clientEvent d (.reqHeaders e .norm ws v)).out.foldl adv p) (clientEvent d (.reqHeaders e .norm ws v)).c = true := by
  cases hcs : d.cs <;> cases v <;> cases e <;> simp only [clientEvent, hcs] <;> j_tree3 d p

end MitmVerif.C03
