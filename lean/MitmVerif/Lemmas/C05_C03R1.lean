/-
  C05 ⟵ C03: the invariant `J` (Lemmas/C05_C03Def.lean) is kept by `resume` — suspension points conn, streamConn, respHeadersHook, connectErrHook
-/
import MitmVerif.Lemmas.C05_C03Def
namespace MitmVerif.C03

set_option maxHeartbeats 8000000 in
theorem j_resume_conn (p : SP) (d : Core)  (ok peek : Bool) (hp : d.paused = none) (hb : d.bad = false)
    (h : JF p false d.attached d.pt d.hasFlow d.cs d.ss (some .conn) = true) :
    J ((resume d .conn ok peek).out.foldl adv p) (resume d .conn ok peek).c = true := by
  cases hrt : d.reqTrailers <;> cases hrb : d.reqBody <;> j_tree d p

set_option maxHeartbeats 8000000 in
theorem j_resume_streamConn (p : SP) (d : Core) (b : Bool) (ok peek : Bool) (hp : d.paused = none) (hb : d.bad = false)
    (h : JF p false d.attached d.pt d.hasFlow d.cs d.ss (some (.streamConn b)) = true) :
    J ((resume d (.streamConn b) ok peek).out.foldl adv p) (resume d (.streamConn b) ok peek).c = true := by
  cases b <;> j_tree d p

set_option maxHeartbeats 8000000 in
theorem j_resume_respHeadersHook (p : SP) (d : Core) (e : Bool) (ok peek : Bool) (hp : d.paused = none) (hb : d.bad = false)
    (h : JF p false d.attached d.pt d.hasFlow d.cs d.ss (some (.respHeadersHook e)) = true) :
    J ((resume d (.respHeadersHook e) ok peek).out.foldl adv p) (resume d (.respHeadersHook e) ok peek).c = true := by
  j_tree d p

set_option maxHeartbeats 8000000 in
theorem j_resume_connectErrHook (p : SP) (d : Core)  (ok peek : Bool) (hp : d.paused = none) (hb : d.bad = false)
    (h : JF p false d.attached d.pt d.hasFlow d.cs d.ss (some .connectErrHook) = true) :
    J ((resume d .connectErrHook ok peek).out.foldl adv p) (resume d .connectErrHook ok peek).c = true := by
  j_tree d p

end MitmVerif.C03
