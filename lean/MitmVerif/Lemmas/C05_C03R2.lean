/-
  C05 ⟵ C03: the invariant `J` (Lemmas/C05_C03Def.lean) is kept by `resume` — suspension points peErr, responseHook, invErr, connectedHook, cbsErr
-/
import MitmVerif.Lemmas.C05_C03Def
namespace MitmVerif.C03

set_option maxHeartbeats 8000000 in
theorem j_resume_peErr (p : SP) (d : Core) (r : Bool) (ret : Ret) (ok peek : Bool) (hp : d.paused = none) (hb : d.bad = false)
    (h : JF p false d.attached d.pt d.hasFlow d.cs d.ss (some (.peErr r ret)) = true) :
    J ((resume d (.peErr r ret) ok peek).out.foldl adv p) (resume d (.peErr r ret) ok peek).c = true := by
  cases r <;> cases ret <;> j_tree d p

set_option maxHeartbeats 8000000 in
theorem j_resume_responseHook (p : SP) (d : Core) (a : Bool) (ok peek : Bool) (hp : d.paused = none) (hb : d.bad = false)
    (h : JF p false d.attached d.pt d.hasFlow d.cs d.ss (some (.responseHook a)) = true) :
    J ((resume d (.responseHook a) ok peek).out.foldl adv p) (resume d (.responseHook a) ok peek).c = true := by
  cases a <;> cases hsb : d.respBody <;> cases hst : d.respTrailers <;> j_tree d p

set_option maxHeartbeats 8000000 in
theorem j_resume_invErr (p : SP) (d : Core) (b : Bool) (ok peek : Bool) (hp : d.paused = none) (hb : d.bad = false)
    (h : JF p false d.attached d.pt d.hasFlow d.cs d.ss (some (.invErr b)) = true) :
    J ((resume d (.invErr b) ok peek).out.foldl adv p) (resume d (.invErr b) ok peek).c = true := by
  j_tree d p

set_option maxHeartbeats 8000000 in
theorem j_resume_connectedHook (p : SP) (d : Core)  (ok peek : Bool) (hp : d.paused = none) (hb : d.bad = false)
    (h : JF p false d.attached d.pt d.hasFlow d.cs d.ss (some .connectedHook) = true) :
    J ((resume d .connectedHook ok peek).out.foldl adv p) (resume d .connectedHook ok peek).c = true := by
  j_tree d p

set_option maxHeartbeats 8000000 in
theorem j_resume_cbsErr (p : SP) (d : Core) (b : Bool) (ok peek : Bool) (hp : d.paused = none) (hb : d.bad = false)
    (h : JF p false d.attached d.pt d.hasFlow d.cs d.ss (some (.cbsErr b)) = true) :
    J ((resume d (.cbsErr b) ok peek).out.foldl adv p) (resume d (.cbsErr b) ok peek).c = true := by
  cases b <;> j_tree d p

end MitmVerif.C03
