/-
  C05 ⟵ C03: the invariant `J` (Lemmas/C05_C03Def.lean) is kept by `resume` — suspension points reqHeadersHook, requestHookStream, requestHook, cbsHdr
-/
import MitmVerif.Lemmas.C05_C03Def
namespace MitmVerif.C03

set_option maxHeartbeats 8000000 in
theorem j_resume_reqHeadersHook (p : SP) (d : Core) (e : Bool) (ok peek : Bool) (hp : d.paused = none) (hb : d.bad = false)
    (h : JF p false d.attached d.pt d.hasFlow d.cs d.ss (some (.reqHeadersHook e)) = true) :
    J ((resume d (.reqHeadersHook e) ok peek).out.foldl adv p) (resume d (.reqHeadersHook e) ok peek).c = true := by
  j_tree d p

set_option maxHeartbeats 8000000 in
theorem j_resume_requestHookStream (p : SP) (d : Core)  (ok peek : Bool) (hp : d.paused = none) (hb : d.bad = false)
    (h : JF p false d.attached d.pt d.hasFlow d.cs d.ss (some .requestHookStream) = true) :
    J ((resume d .requestHookStream ok peek).out.foldl adv p) (resume d .requestHookStream ok peek).c = true := by
  cases hrt : d.reqTrailers <;> j_tree d p

set_option maxHeartbeats 8000000 in
theorem j_resume_requestHook (p : SP) (d : Core)  (ok peek : Bool) (hp : d.paused = none) (hb : d.bad = false)
    (h : JF p false d.attached d.pt d.hasFlow d.cs d.ss (some .requestHook) = true) :
    J ((resume d .requestHook ok peek).out.foldl adv p) (resume d .requestHook ok peek).c = true := by
  j_tree d p

set_option maxHeartbeats 8000000 in
theorem j_resume_cbsHdr (p : SP) (d : Core) (b : Bool) (ok peek : Bool) (hp : d.paused = none) (hb : d.bad = false)
    (h : JF p false d.attached d.pt d.hasFlow d.cs d.ss (some (.cbsHdr b)) = true) :
    J ((resume d (.cbsHdr b) ok peek).out.foldl adv p) (resume d (.cbsHdr b) ok peek).c = true := by
  cases b <;> j_tree d p

end MitmVerif.C03
