/-
  C05 ⟵ C03: the invariant `J` (Lemmas/C05_C03Def.lean) is kept by `resume` — suspension points connectHook, invHdr, killedErr, connectOpen, respHeadersEmul
-/
import MitmVerif.Lemmas.C05_C03Def
namespace MitmVerif.C03

set_option maxHeartbeats 8000000 in
theorem j_resume_connectHook (p : SP) (d : Core)  (ok peek : Bool) (hp : d.paused = none) (hb : d.bad = false)
    (h : JF p false d.attached d.pt d.hasFlow d.cs d.ss (some .connectHook) = true) :
    J ((resume d .connectHook ok peek).out.foldl adv p) (resume d .connectHook ok peek).c = true := by
  j_tree d p

set_option maxHeartbeats 8000000 in
theorem j_resume_invHdr (p : SP) (d : Core)  (ok peek : Bool) (hp : d.paused = none) (hb : d.bad = false)
    (h : JF p false d.attached d.pt d.hasFlow d.cs d.ss (some .invHdr) = true) :
    J ((resume d .invHdr ok peek).out.foldl adv p) (resume d .invHdr ok peek).c = true := by
  j_tree d p

set_option maxHeartbeats 8000000 in
theorem j_resume_killedErr (p : SP) (d : Core)  (ok peek : Bool) (hp : d.paused = none) (hb : d.bad = false)
    (h : JF p false d.attached d.pt d.hasFlow d.cs d.ss (some .killedErr) = true) :
    J ((resume d .killedErr ok peek).out.foldl adv p) (resume d .killedErr ok peek).c = true := by
  j_tree d p

set_option maxHeartbeats 8000000 in
theorem j_resume_connectOpen (p : SP) (d : Core)  (ok peek : Bool) (hp : d.paused = none) (hb : d.bad = false)
    (h : JF p false d.attached d.pt d.hasFlow d.cs d.ss (some .connectOpen) = true) :
    J ((resume d .connectOpen ok peek).out.foldl adv p) (resume d .connectOpen ok peek).c = true := by
  j_tree d p

set_option maxHeartbeats 8000000 in
theorem j_resume_respHeadersEmul (p : SP) (d : Core)  (ok peek : Bool) (hp : d.paused = none) (hb : d.bad = false)
    (h : JF p false d.attached d.pt d.hasFlow d.cs d.ss (some .respHeadersEmul) = true) :
    J ((resume d .respHeadersEmul ok peek).out.foldl adv p) (resume d .respHeadersEmul ok peek).c = true := by
  j_tree d p

end MitmVerif.C03
