/-
  C05 ⟵ C03, third part: the invariant `J` along every run of the model of `HttpStream`, and the link between the
  monitor over `SendHttp(…, context.server)` and the grammar `Http2Client` is assumed to be handed.
-/
import MitmVerif.Lemmas.C05_C03
namespace MitmVerif.C03
open MitmVerif

/-- a `SendHttp(…, context.server)` as the event `Http2Client` is handed (payloads do not matter for the order) -/
def outEv : Out → Option C05.Ev
  | .send false .rh => some (.hdr false)
  | .send false .rd => some (.data [])
  | .send false .rt => some .trailers
  | .send false .re => some .eom
  | .send false .rx => some .err
  | _ => none

/-- the events one `HttpStream` hands to the server connection, oldest first -/
def srvEvents (t : List Out) : List C05.Ev := t.filterMap outEv

def srvPhase (t : List Out) : SP := t.foldl adv .s0

def Ph : SP → List C05.Ev → Prop
  | .s0, l => l = []
  | .s1, l => C05.hdrFirst l ∧ C05.E2 l = false
  | .s2, l => C05.hdrFirst l ∧ C05.E1 l = false
  | .sc, l => C05.hdrFirst l
  | .bad, _ => False

theorem foldl_adv_bad (t : List Out) : t.foldl adv .bad = .bad := by
  induction t with
  | nil => rfl
  | cons o t ih =>
    have : adv .bad o = .bad := by
      cases o <;> try rfl
      rename_i b tg; cases b <;> cases tg <;> rfl
    simp only [List.foldl_cons, this]; exact ih

theorem hdrFirst_snoc (l : List C05.Ev) (e : C05.Ev) (h : C05.hdrFirst l) (he : e.isHdr = false) : C05.hdrFirst (l ++ [e]) := by
  obtain ⟨fin, rest, rfl, hr⟩ := h
  refine ⟨fin, rest ++ [e], by simp, ?_⟩
  intro x hx
  rcases List.mem_append.mp hx with h1 | h1
  · exact hr x h1
  · simp at h1; subst h1; exact he

theorem ph_step (p : SP) (l : List C05.Ev) (tg : Tag) (e : C05.Ev) (ho : outEv (.send false tg) = some e)
    (hph : Ph p l) (hg : C05.GramOk l) (hnb : srvStep p tg ≠ .bad) :
    C05.GramOk (l ++ [e]) ∧ Ph (srvStep p tg) (l ++ [e]) := by
  cases tg <;> simp only [outEv, Option.some.injEq, reduceCtorEq] at ho <;> subst ho <;> cases p <;>
    simp only [srvStep, ne_eq, not_true_eq_false, reduceCtorEq, not_false_eq_true] at hnb ⊢ <;> simp only [Ph] at hph ⊢
  -- rh at s0
  · subst hph
    refine ⟨C05.gramOk_snoc [] _ hg rfl, ⟨false, [], rfl, by simp⟩, rfl⟩
  -- rd at s1
  · refine ⟨C05.gramOk_snoc l _ hg (by simp [C05.allowed, hph.2]), hdrFirst_snoc l _ hph.1 rfl, ?_⟩
    unfold C05.E2; rw [C05.any_snoc]; simpa [C05.E2] using hph.2
  -- rt at s1
  · refine ⟨C05.gramOk_snoc l _ hg (by simp [C05.allowed, hph.2]), hdrFirst_snoc l _ hph.1 rfl, ?_⟩
    unfold C05.E1; rw [C05.any_snoc]
    have := C05.E1_le_E2 l hph.2
    simpa [C05.E1] using this
  -- re at s1
  · exact ⟨C05.gramOk_snoc l _ hg (by simp [C05.allowed, C05.E1_le_E2 l hph.2]), hdrFirst_snoc l _ hph.1 rfl⟩
  -- re at s2
  · exact ⟨C05.gramOk_snoc l _ hg (by simp [C05.allowed, hph.2]), hdrFirst_snoc l _ hph.1 rfl⟩
  -- rx at s1
  · exact ⟨C05.gramOk_snoc l _ hg rfl, hdrFirst_snoc l _ hph.1 rfl⟩
  -- rx at sc
  · exact ⟨C05.gramOk_snoc l _ hg rfl, hdrFirst_snoc l _ hph rfl⟩

theorem ph_run (t : List Out) (p : SP) (l : List C05.Ev) (hph : Ph p l) (hg : C05.GramOk l)
    (hnb : t.foldl adv p ≠ .bad) :
    C05.GramOk (l ++ srvEvents t) ∧ Ph (t.foldl adv p) (l ++ srvEvents t) := by
  induction t generalizing p l with
  | nil => simpa [srvEvents] using ⟨hg, hph⟩
  | cons o t ih =>
    cases ho : outEv o with
    | none =>
      have ha : adv p o = p ∨ adv p o = .bad := by
        cases o <;> try exact Or.inl rfl
        rename_i b tg
        cases b
        · cases tg <;> simp [outEv] at ho <;> (right; cases p <;> rfl)
        · exact Or.inl rfl
      have hs : srvEvents (o :: t) = srvEvents t := by simp [srvEvents, ho]
      rw [hs]
      simp only [List.foldl_cons] at hnb ⊢
      rcases ha with ha | ha
      · rw [ha] at hnb ⊢; exact ih p l hph hg hnb
      · rw [ha, foldl_adv_bad] at hnb; exact absurd rfl hnb
    | some e =>
      have hs : srvEvents (o :: t) = e :: srvEvents t := by simp [srvEvents, ho]
      obtain ⟨tg, rfl⟩ : ∃ tg, o = .send false tg := by
        cases o <;> simp [outEv] at ho
        rename_i b tg
        cases b
        · exact ⟨tg, rfl⟩
        · simp [outEv] at ho
      simp only [List.foldl_cons] at hnb ⊢
      have hstep : srvStep p tg ≠ .bad := by
        intro hb
        have : adv p (.send false tg) = .bad := hb
        rw [this, foldl_adv_bad] at hnb; exact hnb rfl
      have st := ph_step p l tg e ho hph hg hstep
      have := ih (srvStep p tg) (l ++ [e]) st.2 st.1 hnb
      have e1 : adv p (Out.send false tg) = srvStep p tg := rfl
      rw [hs, e1]
      simpa using this

/-! ### every call of the stream keeps `J` -/

theorem J_pFine (p : SP) (c : Core) (h : J p c = true) : pFine p = true := by
  simp only [J, JF, Bool.and_eq_true] at h; exact h.1

theorem J_of_bad (p : SP) (c : Core) (hb : c.bad = true) (hf : pFine p = true) : J p c = true := by
  simp [J, JF, hb, hf]

theorem aa_paused (c : Core) (h : Hook) (a : Action) : (applyAction c h a).paused = c.paused := by cases a <;> rfl
theorem aa_bad (c : Core) (h : Hook) (a : Action) : (applyAction c h a).bad = c.bad := by cases a <;> rfl

theorem applyAction_fields (c : Core) (h : Hook) (a : Action) :
    (applyAction c h a).attached = c.attached ∧ (applyAction c h a).pt = c.pt ∧ (applyAction c h a).hasFlow = c.hasFlow ∧
    (applyAction c h a).cs = c.cs ∧ (applyAction c h a).ss = c.ss := by
  cases a <;> exact ⟨rfl, rfl, rfl, rfl, rfl⟩

theorem j_procDone (p : SP) (c : Core) (ev : AEv) (pk : Bool) (h : J p c = true) :
    J ((procDone c ev pk).out.foldl adv p) (procDone c ev pk).c = true := by
  have hf := J_pFine p c h
  unfold procDone
  by_cases hb : c.bad = true
  · simp only [hb, if_true]; exact h
  · have hb' : c.bad = false := by simpa using hb
    rw [if_neg hb]
    cases hk : c.paused with
    | none => exact J_of_bad p badCore rfl hf
    | some k =>
      simp only
      have hjf : JF p false c.attached c.pt c.hasFlow c.cs c.ss (some k) = true := by
        have : JF p c.bad c.attached c.pt c.hasFlow c.cs c.ss c.paused = true := h
        rw [hb', hk] at this; exact this
      have key : ∀ (d : Core) (ok : Bool), d.paused = none → d.bad = false →
          (d.attached = c.attached ∧ d.pt = c.pt ∧ d.hasFlow = c.hasFlow ∧ d.cs = c.cs ∧ d.ss = c.ss) →
          J ((W.fin true (resume d k ok pk)).out.foldl adv p) (W.fin true (resume d k ok pk)).c = true := by
        intro d ok hp hbd hfld
        obtain ⟨f1, f2, f3, f4, f5⟩ := hfld
        rw [J_fin]
        show J ((resume d k ok pk).out.foldl adv p) (resume d k ok pk).c = true
        exact j_resume p d k ok pk hp hbd (by rw [f1, f2, f3, f4, f5]; exact hjf)
      split
      · split
        · refine key _ true ?_ ?_ ?_
          · rw [aa_paused]
          · rw [aa_bad]; exact hb'
          · exact applyAction_fields _ _ _
        · exact J_of_bad p badCore rfl hf
      · split
        · exact J_of_bad p badCore rfl hf
        · exact key _ _ rfl hb' ⟨rfl, rfl, rfl, rfl, rfl⟩
      · split
        · exact key _ _ rfl hb' ⟨rfl, rfl, rfl, rfl, rfl⟩
        · exact J_of_bad p badCore rfl hf
      · exact J_of_bad p badCore rfl hf

theorem j_procEv (p : SP) (c : Core) (ev : AEv) (pk q : Bool) (h : J p c = true) (hp : c.paused = none) :
    J ((procEv c ev pk q).out.foldl adv p) (procEv c ev pk q).c = true := by
  have hf := J_pFine p c h
  unfold procEv
  by_cases hb : c.bad = true
  · simp only [hb, if_true]; exact h
  · have hb' : c.bad = false := by simpa using hb
    rw [if_neg hb]
    by_cases hpt : c.pt = true
    · simp only [hpt, if_true]; exact h
    · have hpt' : c.pt = false := by simpa using hpt
      rw [if_neg hpt]
      by_cases hg : grammarOk c ev = true
      · rw [if_neg (by simp [hg])]
        simp only
        rw [J_fin]
        cases ev with
        | reqErr => exact j_reqErr p _ pk hp hb' hpt' h
        | respErr => exact j_respErr p _ pk hp hb' hpt' (by simpa [grammarOk] using hg) h
        | reqHeaders e k ws v => exact j_reqHeaders p _ e k ws v hp hb' hpt' h
        | reqData v => exact j_reqBody p _ _ (Or.inl ⟨v, rfl⟩) hp hb' hpt' h
        | reqEOM ne => exact j_reqBody p _ _ (Or.inr (Or.inl ⟨ne, rfl⟩)) hp hb' hpt' h
        | reqTrailers => exact j_reqBody p _ _ (Or.inr (Or.inr rfl)) hp hb' hpt' h
        | respHeaders e k v =>
          exact j_respEvent p _ _ (Or.inl ⟨e, k, v, rfl⟩) hp hb' hpt' (by simpa [grammarOk] using hg) h
        | respData v =>
          exact j_respEvent p _ _ (Or.inr (Or.inl ⟨v, rfl⟩)) hp hb' hpt' (by simpa [grammarOk] using hg) h
        | respEOM ne =>
          exact j_respEvent p _ _ (Or.inr (Or.inr (Or.inl ⟨ne, rfl⟩))) hp hb' hpt' (by simpa [grammarOk] using hg) h
        | respTrailers =>
          exact j_respEvent p _ _ (Or.inr (Or.inr (Or.inr rfl))) hp hb' hpt' (by simpa [grammarOk] using hg) h
        | hookDone _ _ => simp [grammarOk] at hg
        | connDone _ => simp [grammarOk] at hg
        | openDone _ => simp [grammarOk] at hg
      · simp only [hg, Bool.not_false, if_true]
        exact J_of_bad p badCore rfl hf

/-! ### … hence every run -/

def JGood (s : St) : Prop := J (srvPhase s.outs) s.core = true

theorem jgood_handleNow (s : St) (ev : Ev) (queued : Bool) (hg : JGood s)
    (hpre : ev.isDone = true ∨ s.core.paused = none) : JGood (handleNow s ev queued) := by
  unfold handleNow JGood
  by_cases hd : ev.isDone = true
  · simp only [hd, if_true]
    show J (srvPhase (s.outs ++ (procDone _ _ _).out)) (procDone _ _ _).c = true
    unfold srvPhase
    rw [List.foldl_append]
    exact j_procDone _ _ _ _ hg
  · have hp : s.core.paused = none := by
      rcases hpre with h | h
      · exact absurd h hd
      · exact h
    simp only [hd, Bool.false_eq_true, if_false]
    show J (srvPhase (s.outs ++ (procEv _ _ _ _).out)) (procEv _ _ _ _).c = true
    unfold srvPhase
    rw [List.foldl_append]
    exact j_procEv _ _ _ _ _ hg hp

theorem jgood_drain (fuel : Nat) (s : St) (hg : JGood s) : JGood (drain fuel s) := by
  induction fuel generalizing s with
  | zero => exact hg
  | succ n ih =>
    unfold drain
    split
    · exact hg
    · rename_i hc
      split
      · exact hg
      · rename_i e q hq
        apply ih
        apply jgood_handleNow
        · exact hg
        · right
          have : s.core.paused.isSome = false := by
            simp only [Bool.or_eq_true, not_or] at hc
            simpa using hc.1
          show s.core.paused = none
          cases hpp : s.core.paused with
          | none => rfl
          | some k => simp [hpp] at this

theorem jgood_step (s : St) (ev : Ev) (hg : JGood s) : JGood (step s ev) := by
  unfold step
  split
  · split
    · exact jgood_drain _ _ (jgood_handleNow _ _ _ hg (Or.inl ‹_›))
    · exact hg
  · rename_i hp
    apply jgood_handleNow _ _ _ hg
    right
    cases hpp : s.core.paused with
    | none => rfl
    | some k => simp [hpp] at hp

theorem jgood_run (l t : Nat) (evs : List Ev) : JGood (run l t evs) := by
  unfold run
  suffices h : ∀ s, JGood s → JGood (evs.foldl step s) from h _ (by show J SP.s0 ({} : Core) = true; decide)
  induction evs with
  | nil => intro s hs; exact hs
  | cons e es ih => intro s hs; exact ih _ (jgood_step s e hs)

/-- in every run of the model of `HttpStream`, the commands addressed to the server connection are, in this order: the
    request head, first and once; body data and trailers only while the request is open; one end of message; an error
    only after the head — the order `Http2Client` is assumed to be handed (`C05.GramOk`, `C05.hdrFirst`) -/
theorem srvEvents_grammar (l t : Nat) (evs : List Ev) :
    C05.GramOk (srvEvents (run l t evs).trace) ∧
    (srvEvents (run l t evs).trace = [] ∨ C05.hdrFirst (srvEvents (run l t evs).trace)) := by
  have hj := jgood_run l t evs
  have hf := J_pFine _ _ hj
  have hnb : (run l t evs).outs.foldl adv .s0 ≠ .bad := by
    intro e
    have : srvPhase (run l t evs).outs = .bad := e
    rw [this] at hf; simp [pFine] at hf
  have r := ph_run (run l t evs).outs .s0 [] rfl (by intro pre e post hh; cases pre <;> simp at hh) hnb
  simp only [List.nil_append] at r
  refine ⟨r.1, ?_⟩
  have hph := r.2
  have hf' : pFine ((run l t evs).outs.foldl adv .s0) = true := hf
  cases hp : (run l t evs).outs.foldl adv .s0 with
  | s0 => rw [hp] at hph; exact Or.inl hph
  | s1 => rw [hp] at hph; exact Or.inr hph.1
  | s2 => rw [hp] at hf'; simp [pFine] at hf'
  | sc => rw [hp] at hph; exact Or.inr hph
  | bad => rw [hp] at hf'; simp [pFine] at hf'

end MitmVerif.C03
