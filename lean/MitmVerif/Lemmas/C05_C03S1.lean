/-
  C05 ⟵ C03: the invariant `J` (Lemmas/C05_C03Def.lean) is kept by the response head arriving (END_STREAM set)
-/
import MitmVerif.Lemmas.C05_C03Def
namespace MitmVerif.C03

set_option maxHeartbeats 16000000 in
theorem j_respHeaders_true (p : SP) (d : Core) (k : RespKind) (v : Verdict)
    (hp : d.paused = none) (hb : d.bad = false) (hpt : d.pt = false) (hA : d.attached = true) (h : J p d = true) :
    J ((serverEvent d (.respHeaders true k v)).out.foldl adv p) (serverEvent d (.respHeaders true k v)).c = true := by
  cases hss : d.ss <;> cases k <;> cases v <;> simp only [serverEvent, hss] <;> j_tree3 d p

end MitmVerif.C03
