/-
  C05 ⟵ C03: the invariant `J` (Lemmas/C05_C03Def.lean) is kept by the response body events
-/
import MitmVerif.Lemmas.C05_C03Def
namespace MitmVerif.C03

set_option maxHeartbeats 16000000 in
theorem j_respRest (p : SP) (d : Core) (ev : AEv)
    (hev : (∃ v, ev = .respData v) ∨ (∃ ne, ev = .respEOM ne) ∨ ev = .respTrailers)
    (hp : d.paused = none) (hb : d.bad = false) (hpt : d.pt = false) (hA : d.attached = true) (h : J p d = true) :
    J ((serverEvent d ev).out.foldl adv p) (serverEvent d ev).c = true := by
  rcases hev with ⟨v, rfl⟩ | ⟨ne, rfl⟩ | rfl
  · cases hss : d.ss <;> cases v <;> simp only [serverEvent, hss] <;> j_tree3 d p
  · cases hss : d.ss <;> simp only [serverEvent, hss] <;> j_tree3 d p
  · cases hss : d.ss <;> simp only [serverEvent, hss] <;> j_tree3 d p

end MitmVerif.C03
