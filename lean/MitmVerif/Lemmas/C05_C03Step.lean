/-
  C05 ⟵ C03: every continuation (`resume`, at any of the 18 suspension points) keeps the invariant `J` — assembled from
  Lemmas/C05_C03R1..R4.lean (split so that each part compiles in about a minute and they build in parallel).
-/
import MitmVerif.Lemmas.C05_C03R1
import MitmVerif.Lemmas.C05_C03R2
import MitmVerif.Lemmas.C05_C03R3
import MitmVerif.Lemmas.C05_C03R4
namespace MitmVerif.C03

theorem j_resume (p : SP) (d : Core) (k : K) (ok peek : Bool) (hp : d.paused = none) (hb : d.bad = false)
    (h : JF p false d.attached d.pt d.hasFlow d.cs d.ss (some k) = true) :
    J ((resume d k ok peek).out.foldl adv p) (resume d k ok peek).c = true := by
  cases k with
  | reqHeadersHook e => exact j_resume_reqHeadersHook p d e ok peek hp hb h
  | streamConn b => exact j_resume_streamConn p d b ok peek hp hb h
  | requestHookStream => exact j_resume_requestHookStream p d ok peek hp hb h
  | requestHook => exact j_resume_requestHook p d ok peek hp hb h
  | respHeadersEmul => exact j_resume_respHeadersEmul p d ok peek hp hb h
  | conn => exact j_resume_conn p d ok peek hp hb h
  | respHeadersHook e => exact j_resume_respHeadersHook p d e ok peek hp hb h
  | responseHook a => exact j_resume_responseHook p d a ok peek hp hb h
  | killedErr => exact j_resume_killedErr p d ok peek hp hb h
  | peErr r ret => exact j_resume_peErr p d r ret ok peek hp hb h
  | cbsHdr b => exact j_resume_cbsHdr p d b ok peek hp hb h
  | cbsErr b => exact j_resume_cbsErr p d b ok peek hp hb h
  | invHdr => exact j_resume_invHdr p d ok peek hp hb h
  | invErr b => exact j_resume_invErr p d b ok peek hp hb h
  | connectHook => exact j_resume_connectHook p d ok peek hp hb h
  | connectOpen => exact j_resume_connectOpen p d ok peek hp hb h
  | connectedHook => exact j_resume_connectedHook p d ok peek hp hb h
  | connectErrHook => exact j_resume_connectErrHook p d ok peek hp hb h

end MitmVerif.C03
