/-
  Lemmas for C05: the `KeyError` branch of `St.upward` (`crashed`) is reached only by an event for a stream id that was
  never opened — the only unguarded lookup is the one for received trailers.  Under the one assumption that hyper-h2
  reports trailers only for streams mitmproxy has opened, no reachable state is `crashed`.
-/
import MitmVerif.Lemmas.C05_Sub
namespace MitmVerif.C05
open MitmVerif

/-- every stream `Http2Connection.streams` knows has a client stream id; no KeyError so far -/
structure CInv (σ : St) : Prop where
  ok : σ.crashed = false
  ms : ∀ o b, alookup o σ.ms = some b → (alookup o σ.theirs).isSome = true

/-- hyper-h2 reports trailers only for a stream that was opened on this connection -/
def TrOk (σ : St) (e : SEv) : Prop := ∀ o, e = SEv.respTrailers o → (alookup o σ.theirs).isSome = true

theorem alookup_isSome_of_mem {α : Type} (p : Nat × α) (l : List (Nat × α)) (h : p ∈ l) : (alookup p.1 l).isSome = true := by
  induction l with
  | nil => simp at h
  | cons q rest ih =>
    obtain ⟨k, v⟩ := q
    by_cases hk : k = p.1
    · simp [alookup, hk]
    · simp only [alookup, hk, if_false]
      rcases List.mem_cons.mp h with h1 | h1
      · rw [h1] at hk; exact absurd rfl hk
      · exact ih h1

theorem alookup_aset_isSome {α : Type} (k k' : Nat) (v : α) (l : List (Nat × α)) (h : (alookup k' l).isSome = true) :
    (alookup k' (aset k v l)).isSome = true := by
  by_cases hk : k' = k
  · subst hk; rw [alookup_aset_same]; rfl
  · rw [alookup_aset_ne _ _ _ _ hk]; exact h

theorem upward_fields (σ : St) (o : Nat) (k : UpKind) :
    (σ.upward o k).ms = σ.ms ∧ (σ.upward o k).theirs = σ.theirs ∧
    ((alookup o σ.theirs).isSome = true → (σ.upward o k).crashed = σ.crashed) := by
  unfold St.upward
  cases h : alookup o σ.theirs with
  | none => exact ⟨rfl, rfl, fun e => by simp at e⟩
  | some t => exact ⟨rfl, rfl, fun _ => rfl⟩

theorem upward_c (σ : St) (o : Nat) (k : UpKind) (hth : (alookup o σ.theirs).isSome = true) (h : CInv σ) :
    CInv (σ.upward o k) := by
  obtain ⟨f1, f2, f3⟩ := upward_fields σ o k
  exact ⟨by rw [f3 hth]; exact h.ok, by rw [f1, f2]; exact h.ms⟩

theorem foldl_upward_c (l : List (Nat × Bool)) (σ : St) (h : CInv σ)
    (hl : ∀ p ∈ l, (alookup p.1 σ.theirs).isSome = true) :
    CInv (l.foldl (fun σ p => σ.upward p.1 .err) σ) ∧ (l.foldl (fun σ p => σ.upward p.1 .err) σ).theirs = σ.theirs := by
  induction l generalizing σ with
  | nil => exact ⟨h, rfl⟩
  | cons p rest ih =>
    simp only [List.foldl_cons]
    have h1 := upward_c σ p.1 .err (hl p (by simp)) h
    have ht := (upward_fields σ p.1 UpKind.err).2.1
    have := ih (σ.upward p.1 .err) h1 (fun q hq => by rw [ht]; exact hl q (by simp [hq]))
    exact ⟨this.1, this.2.trans ht⟩

theorem closeConnection_c (σ : St) (h : CInv σ) : CInv σ.closeConnection ∧ σ.closeConnection.theirs = σ.theirs := by
  have hl : ∀ p ∈ σ.ms, (alookup p.1 σ.theirs).isSome = true := by
    intro p hp
    have := alookup_isSome_of_mem p σ.ms hp
    cases hv : alookup p.1 σ.ms with
    | none => rw [hv] at this; cases this
    | some b => exact h.ms p.1 b hv
  have f := foldl_upward_c σ.ms σ h hl
  unfold St.closeConnection
  refine ⟨⟨f.1.ok, ?_⟩, f.2⟩
  intro o b hb
  simp [alookup] at hb

theorem alookup_aerase_some {α : Type} (k k' : Nat) (v : α) (l : List (Nat × α)) (h : alookup k' (aerase k l) = some v) :
    alookup k' l = some v := by
  by_cases hk : k' = k
  · subst hk; rw [alookup_aerase_same] at h; cases h
  · rwa [alookup_aerase_ne _ _ _ hk] at h

theorem handleH2_c (σ : St) (e : SEv) (h : CInv σ) (ht : TrOk σ e) :
    CInv (σ.handleH2 e).1 ∧ (σ.handleH2 e).1.theirs = σ.theirs := by
  have msSome : ∀ o b, alookup o σ.ms = some b → (alookup o σ.theirs).isSome = true := h.ms
  cases e with
  | respHdr o fin ok =>
    simp only [St.handleH2]
    split
    · exact closeConnection_c σ h
    · rename_i hne
      have hms : alookup o σ.ms = some false := by
        cases hv : alookup o σ.ms with
        | none => simp [hv] at hne
        | some b => cases b <;> simp [hv] at hne ⊢
      split
      · exact closeConnection_c σ h
      · have h1 : CInv ({ σ with ms := aset o true σ.ms } : St) :=
          ⟨h.ok, fun o' b' hb' => by
            by_cases ho : o' = o
            · subst ho; exact msSome _ _ hms
            · exact msSome o' b' (by rwa [alookup_aset_ne _ _ _ _ ho] at hb')⟩
        exact ⟨upward_c _ o _ (msSome o false hms) h1, (upward_fields _ o _).2.1⟩
  | respData o len fin =>
    simp only [St.handleH2]
    split
    · rename_i hms
      split
      · exact ⟨h, rfl⟩
      · exact ⟨upward_c σ o _ (msSome o true hms) h, (upward_fields σ o _).2.1⟩
    · exact closeConnection_c σ h
    · exact ⟨h, rfl⟩
  | respTrailers o => exact ⟨upward_c σ o _ (ht o rfl) h, (upward_fields σ o _).2.1⟩
  | ended o =>
    simp only [St.handleH2]
    have h1 : CInv (if (alookup o σ.ms == some true) = true then σ.upward o .eom else σ) ∧
        (if (alookup o σ.ms == some true) = true then σ.upward o .eom else σ).theirs = σ.theirs := by
      split
      · rename_i hm
        have hms : alookup o σ.ms = some true := by simpa using hm
        exact ⟨upward_c σ o _ (msSome o true hms) h, (upward_fields σ o _).2.1⟩
      · exact ⟨h, rfl⟩
    generalize (if (alookup o σ.ms == some true) = true then σ.upward o UpKind.eom else σ) = σ1 at h1
    split
    · exact ⟨⟨h1.1.ok, fun o' b' hb' => h1.1.ms o' b' (alookup_aerase_some _ _ _ _ hb')⟩, h1.2⟩
    · exact h1
  | reset o =>
    simp only [St.handleH2]
    split
    · rename_i hs
      have hth : (alookup o σ.theirs).isSome = true := by
        cases hv : alookup o σ.ms with
        | none => rw [hv] at hs; cases hs
        | some b => exact msSome o b hv
      have f := upward_fields σ o UpKind.err
      refine ⟨⟨?_, ?_⟩, f.2.1⟩
      · show (σ.upward o .err).crashed = false
        rw [f.2.2 hth]; exact h.ok
      · intro o' b' hb'
        show (alookup o' (σ.upward o .err).theirs).isSome = true
        rw [f.2.1]; exact msSome o' b' (alookup_aerase_some o o' b' σ.ms hb')
    · exact ⟨h, rfl⟩
  | protoErr => exact closeConnection_c σ h
  | goaway => exact closeConnection_c σ h
  | settings _ _ _ => exact ⟨⟨h.ok, h.ms⟩, rfl⟩
  | winUpd _ _ => exact ⟨h, rfl⟩
  | info _ => exact ⟨h, rfl⟩
  | other => exact ⟨h, rfl⟩

theorem handleAll_c (evs : List SEv) (σ : St) (h : CInv σ) (ht : ∀ e ∈ evs, TrOk σ e) :
    CInv (St.handleAll σ evs) := by
  induction evs generalizing σ with
  | nil => exact h
  | cons e rest ih =>
    simp only [St.handleAll]
    have h1 := handleH2_c σ e h (ht e (by simp))
    cases hh : σ.handleH2 e with
    | mk σ' stop =>
      rw [hh] at h1
      simp only [] at h1 ⊢
      split
      · exact h1.1
      · exact ih σ' h1.1 (fun e' he' o ho => by rw [h1.2]; exact ht e' (by simp [he']) o ho)

theorem cInv_congr (σ σ' : St) (h1 : σ'.crashed = σ.crashed) (h2 : σ'.ms = σ.ms) (h3 : σ'.theirs = σ.theirs)
    (h : CInv σ) : CInv σ' := ⟨by rw [h1]; exact h.ok, by rw [h2, h3]; exact h.ms⟩

theorem process_cfields (σ : St) (o : Nat) (ev : Ev) :
    (σ.process o ev).crashed = σ.crashed ∧ (σ.process o ev).theirs = σ.theirs ∧
    (σ.process o ev).ms = (if ev.isHdr then aset o false σ.ms else σ.ms) := by
  cases ev with
  | hdr fin => exact ⟨rfl, rfl, rfl⟩
  | data b => simp only [St.process, Ev.isHdr]; split <;> exact ⟨rfl, rfl, rfl⟩
  | trailers => simp only [St.process, Ev.isHdr]; split <;> exact ⟨rfl, rfl, rfl⟩
  | eom => simp only [St.process, Ev.isHdr]; split <;> exact ⟨rfl, rfl, rfl⟩
  | err => simp only [St.process, Ev.isHdr]; split <;> exact ⟨rfl, rfl, rfl⟩

theorem midMapped_c (σ : St) (t o : Nat) (ev : Ev) (rest : List (Nat × Ev)) (h : DrainInv σ) (hs : CInv σ)
    (hst : σ.stack = (t, ev) :: rest) (ho : alookup t σ.ours = some o) : CInv (midMapped σ t o ev rest) := by
  have hsk := h.st
  unfold StackOk at hsk
  rw [hst] at hsk
  obtain ⟨_, hmap, _⟩ := hsk
  have hnh : ev.isHdr = false := hmap (by rw [ho]; rfl)
  obtain ⟨c1, c2, c3⟩ := process_cfields ({ σ with stack := rest } : St) o ev
  rw [hnh] at c3
  exact cInv_congr σ _ c1 c3 c2 hs

theorem midAlloc_c (σ : St) (t : Nat) (ev : Ev) (rest : List (Nat × Ev)) (hs : CInv σ) :
    CInv (midAlloc σ t ev rest) := by
  let σ1 : St := { σ with stack := rest, ours := σ.ours ++ [(t, σ.nextId)], theirs := aset σ.nextId t σ.theirs,
                          allocs := σ.allocs ++ [(t, σ.conn.openCount, σ.limit)] }
  obtain ⟨c1, c2, c3⟩ := process_cfields σ1 σ.nextId ev
  refine ⟨?_, ?_⟩
  · show (σ1.process σ.nextId ev).crashed = false
    rw [c1]; exact hs.ok
  · intro o b hb
    have hb' : alookup o (σ1.process σ.nextId ev).ms = some b := hb
    show (alookup o (σ1.process σ.nextId ev).theirs).isSome = true
    rw [c2]
    show (alookup o (aset σ.nextId t σ.theirs)).isSome = true
    rw [c3] at hb'
    by_cases hoo : o = σ.nextId
    · subst hoo; rw [alookup_aset_same]; rfl
    · apply alookup_aset_isSome
      split at hb'
      · rw [alookup_aset_ne _ _ _ _ hoo] at hb'; exact hs.ms o b hb'
      · exact hs.ms o b hb'

theorem resume_c (σ : St) (h : CInv σ) : CInv σ.resume := by
  unfold St.resume
  split
  · exact h
  · split
    · exact h
    · exact cInv_congr σ _ rfl rfl rfl h

theorem tick_c (σ : St) (h : DrainInv σ) (hs : CInv σ) (hne : σ.stack ≠ []) (hc : σ.closed = false) : CInv σ.tick := by
  cases hst : σ.stack with
  | nil => exact absurd hst hne
  | cons q rest =>
    obtain ⟨t, ev⟩ := q
    rw [tick_eq σ t ev rest hst hc]
    cases ho : alookup t σ.ours with
    | some o => exact resume_c _ (midMapped_c σ t o ev rest h hs hst ho)
    | none =>
      simp only []
      split
      · exact cInv_congr σ _ rfl rfl rfl hs
      · exact resume_c _ (midAlloc_c σ t ev rest hs)

theorem drain_c (f : Nat) (σ : St) (h : DrainInv σ) (hs : CInv σ) (hc : σ.closed = false) : CInv (St.drain f σ) := by
  induction f generalizing σ with
  | zero => exact hs
  | succ f ih =>
    by_cases he : σ.stack = []
    · rw [drain_of_empty _ _ he]; exact hs
    · have ht := tick_drain σ h he hc
      have : St.drain (f + 1) σ = St.drain f σ.tick := by
        simp only [St.drain]
        have : σ.stack.isEmpty = false := by cases hs' : σ.stack <;> simp_all
        simp [this]
      rw [this]
      exact ih σ.tick ht.1 (tick_c σ h hs he hc) ht.2.2

theorem step_client_c (σ : St) (t : Nat) (ev : Ev) (h : QInv σ) (hs : CInv σ) (hc : σ.closed = false)
    (hg : Good σ t ev) : CInv (σ.step (.client t ev)) := by
  rw [step_client_eq σ t ev hc]
  have hca : (arrive σ t ev).closed = false := hc
  have ha : CInv (arrive σ t ev) := ⟨hs.ok, hs.ms⟩
  by_cases hcase : (alookup t σ.ours).isSome = true ∨ σ.noFree = false
  · exact drain_c _ _ (arrive_drainInv σ t ev h hg hcase) ha hca
  · have hn : alookup t σ.ours = none := by
      cases ho : alookup t σ.ours with
      | none => rfl
      | some o => exact absurd (Or.inl (by rw [ho]; rfl)) hcase
    have hnf : σ.noFree = true := by
      cases hf : σ.noFree with
      | true => rfl
      | false => exact absurd (Or.inr hf) hcase
    have htick : (arrive σ t ev).tick = enqueued σ t ev := by
      rw [tick_eq (arrive σ t ev) t ev [] rfl hca]
      have : alookup t (arrive σ t ev).ours = none := hn
      rw [this]
      have hnf' : ({ (arrive σ t ev) with stack := [] } : St).noFree = true := by
        rw [← hnf]; exact noFree_congr _ _ rfl rfl rfl
      simp only [hnf', if_true]
      rfl
    have : St.drain ((arrive σ t ev).pending + 1) (arrive σ t ev) = enqueued σ t ev := by
      simp only [St.drain]
      have : (arrive σ t ev).stack.isEmpty = false := rfl
      simp only [this, Bool.false_eq_true, if_false, htick]
      exact drain_of_empty _ _ rfl
    rw [this]
    exact cInv_congr (arrive σ t ev) _ rfl rfl rfl ha

theorem step_server_c (σ : St) (evs : List SEv) (h : Inv σ) (hs : CInv σ) (ht : ∀ e ∈ evs, TrOk σ e) :
    CInv (σ.step (.server evs)) := by
  simp only [St.step]
  by_cases hc : σ.closed = true
  · rw [if_pos hc]; exact hs
  · have hcf : σ.closed = false := by simpa using hc
    rw [if_neg hc]
    have hq := h.live hcf
    let σa : St := { σ with conn := σ.conn.absorb evs,
                            maxc := evs.foldl (fun m e => match e with | .settings (some v) _ _ => v | _ => m) σ.maxc }
    have hsa : Same σ σa := ⟨rfl, rfl, rfl, rfl, rfl, rfl, rfl, rfl, rfl⟩
    have hc_a : CInv σa := ⟨hs.ok, hs.ms⟩
    have hb := handleAll_ok evs σa (mapInv_of_same hsa h.map) h.up
    have hsb : Same σ (St.handleAll σa evs) := hsa.trans hb.1
    have hc_b : CInv (St.handleAll σa evs) := handleAll_c evs σa hc_a ht
    show CInv (if (St.handleAll σa evs).closed = true then (St.handleAll σa evs).failQueued
      else St.drain ((St.handleAll σa evs).resume.pending + 1) (St.handleAll σa evs).resume)
    by_cases hcb : (St.handleAll σa evs).closed = true
    · simp only [hcb, if_true]
      exact cInv_congr (St.handleAll σa evs) _ rfl rfl rfl hc_b
    · have hcbf : (St.handleAll σa evs).closed = false := by simpa using hcb
      simp only [hcb]
      have hmid := midInv_of_same hsb hb.2 hq
      have hdr := resume_inv _ hmid
      have hcl : (St.handleAll σa evs).resume.closed = false := by rw [(resume_pending _).2]; exact hcbf
      exact drain_c _ _ hdr (resume_c _ hc_b) hcl

theorem step_connClosed_c (σ : St) (hs : CInv σ) : CInv (σ.step .connClosed) := by
  simp only [St.step]
  by_cases hc : σ.closed = true
  · rw [if_pos hc]; exact hs
  · rw [if_neg hc]
    exact cInv_congr σ.closeConnection _ rfl rfl rfl (closeConnection_c σ hs).1

/-- `Reach` with the one assumption about hyper-h2 the absence of the KeyError needs: received trailers are reported
    only for a stream id that was opened on this connection -/
inductive ReachT : St → Prop where
  | init : ReachT St.init
  | client (σ : St) (t : Nat) (ev : Ev) : ReachT σ → Good σ t ev → ReachT (σ.step (.client t ev))
  | server (σ : St) (evs : List SEv) : ReachT σ → (∀ e ∈ evs, TrOk σ e) → ReachT (σ.step (.server evs))
  | connClosed (σ : St) : ReachT σ → ReachT (σ.step .connClosed)

theorem reachT_reach (σ : St) (h : ReachT σ) : Reach σ := by
  induction h with
  | init => exact Reach.init
  | client σ t ev _ hg ih => exact Reach.client σ t ev ih hg
  | server σ evs _ _ ih => exact Reach.server σ evs ih
  | connClosed σ _ ih => exact Reach.connClosed σ ih

theorem reachT_c (σ : St) (h : ReachT σ) : CInv σ := by
  induction h with
  | init => exact ⟨rfl, fun o b hb => by simp [St.init, alookup] at hb⟩
  | client σ t ev hr hg ih =>
    by_cases hc : σ.closed = true
    · have : σ.step (.client t ev) = σ := by simp [St.step, hc]
      rw [this]; exact ih
    · have hcf : σ.closed = false := by simpa using hc
      exact step_client_c σ t ev ((reach_inv σ (reachT_reach σ hr)).live hcf) ih hcf hg
  | server σ evs hr ht ih => exact step_server_c σ evs (reach_inv σ (reachT_reach σ hr)) ih ht
  | connClosed σ hr ih => exact step_connClosed_c σ ih

end MitmVerif.C05
