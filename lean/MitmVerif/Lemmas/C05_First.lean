/-
  Lemmas for C05: a client stream has an upstream id only after its first event was passed on — so "mapped or queued"
  is the same as "something was handed over for it", and the hypothesis `Good` can be stated on the history alone.
-/
import MitmVerif.Lemmas.C05_Sub
namespace MitmVerif.C05
open MitmVerif

def MInv (σ : St) : Prop := ∀ t o, alookup t σ.ours = some o → fwOf t σ ≠ []

theorem mInv_congr (σ σ' : St) (h3 : σ'.ours = σ.ours) (h4 : σ'.fw = σ.fw) (h : MInv σ) : MInv σ' := by
  intro t o ho
  rw [h3] at ho
  have : fwOf t σ' = fwOf t σ := by unfold fwOf; rw [h4]
  rw [this]; exact h t o ho

theorem midMapped_m (σ : St) (t o : Nat) (ev : Ev) (rest : List (Nat × Ev)) (hs : MInv σ) :
    MInv (midMapped σ t o ev rest) := by
  obtain ⟨f1, _, _, _, _, f6, _⟩ := midMapped_fields σ t o ev rest
  intro t2 o2 ho2
  rw [f1] at ho2
  have hfw : fwOf t2 (midMapped σ t o ev rest) = fwOf t2 σ ++ (if t = t2 then [ev] else []) := by
    unfold fwOf; rw [f6]; exact fwOf_snoc t t2 o ev σ.fw
  rw [hfw]
  intro e
  exact hs t2 o2 ho2 (List.append_eq_nil_iff.mp e).1

theorem midAlloc_m (σ : St) (t : Nat) (ev : Ev) (rest : List (Nat × Ev)) (hs : MInv σ) :
    MInv (midAlloc σ t ev rest) := by
  obtain ⟨f1, _, _, _, _, f6, _⟩ := midAlloc_fields σ t ev rest
  intro t2 o2 ho2
  rw [f1, alookup_append] at ho2
  have hfw : fwOf t2 (midAlloc σ t ev rest) = fwOf t2 σ ++ (if t = t2 then [ev] else []) := by
    unfold fwOf; rw [f6]; exact fwOf_snoc t t2 σ.nextId ev σ.fw
  rw [hfw]
  intro e
  have e' := List.append_eq_nil_iff.mp e
  cases hl : alookup t2 σ.ours with
  | some o' => exact hs t2 o' hl e'.1
  | none =>
    rw [hl] at ho2
    simp only [alookup] at ho2
    by_cases htt : t = t2
    · simp [htt] at e'
    · simp [htt] at ho2

theorem resume_m (σ : St) (h : MInv σ) : MInv σ.resume := by
  unfold St.resume
  split
  · exact h
  · split
    · exact h
    · exact mInv_congr σ _ rfl rfl h

theorem tick_m (σ : St) (hs : MInv σ) (hne : σ.stack ≠ []) (hc : σ.closed = false) : MInv σ.tick := by
  cases hst : σ.stack with
  | nil => exact absurd hst hne
  | cons q rest =>
    obtain ⟨t, ev⟩ := q
    rw [tick_eq σ t ev rest hst hc]
    cases ho : alookup t σ.ours with
    | some o => exact resume_m _ (midMapped_m σ t o ev rest hs)
    | none =>
      simp only []
      split
      · exact mInv_congr σ _ rfl rfl hs
      · exact resume_m _ (midAlloc_m σ t ev rest hs)

theorem drain_m (f : Nat) (σ : St) (h : DrainInv σ) (hs : MInv σ) (hc : σ.closed = false) : MInv (St.drain f σ) := by
  induction f generalizing σ with
  | zero => exact hs
  | succ f ih =>
    by_cases he : σ.stack = []
    · rw [drain_of_empty _ _ he]; exact hs
    · have ht := tick_drain σ h he hc
      have : St.drain (f + 1) σ = St.drain f σ.tick := by
        simp only [St.drain]
        have : σ.stack.isEmpty = false := by cases hs' : σ.stack <;> simp_all
        simp [this]
      rw [this]
      exact ih σ.tick ht.1 (tick_m σ hs he hc) ht.2.2

theorem step_client_m (σ : St) (t : Nat) (ev : Ev) (h : QInv σ) (hs : MInv σ) (hc : σ.closed = false)
    (hg : Good σ t ev) : MInv (σ.step (.client t ev)) := by
  rw [step_client_eq σ t ev hc]
  have hca : (arrive σ t ev).closed = false := hc
  have ha : MInv (arrive σ t ev) := fun t2 o2 ho2 => hs t2 o2 ho2
  by_cases hcase : (alookup t σ.ours).isSome = true ∨ σ.noFree = false
  · exact drain_m _ _ (arrive_drainInv σ t ev h hg hcase) ha hca
  · have hn : alookup t σ.ours = none := by
      cases ho : alookup t σ.ours with
      | none => rfl
      | some o => exact absurd (Or.inl (by rw [ho]; rfl)) hcase
    have hnf : σ.noFree = true := by
      cases hf : σ.noFree with
      | true => rfl
      | false => exact absurd (Or.inr hf) hcase
    have htick : (arrive σ t ev).tick = enqueued σ t ev := by
      rw [tick_eq (arrive σ t ev) t ev [] rfl hca]
      have : alookup t (arrive σ t ev).ours = none := hn
      rw [this]
      have hnf' : ({ (arrive σ t ev) with stack := [] } : St).noFree = true := by
        rw [← hnf]; exact noFree_congr _ _ rfl rfl rfl
      simp only [hnf', if_true]
      rfl
    have : St.drain ((arrive σ t ev).pending + 1) (arrive σ t ev) = enqueued σ t ev := by
      simp only [St.drain]
      have : (arrive σ t ev).stack.isEmpty = false := rfl
      simp only [this, Bool.false_eq_true, if_false, htick]
      exact drain_of_empty _ _ rfl
    rw [this]
    exact mInv_congr (arrive σ t ev) _ rfl rfl ha

theorem step_server_m (σ : St) (evs : List SEv) (h : Inv σ) (hs : MInv σ) : MInv (σ.step (.server evs)) := by
  simp only [St.step]
  by_cases hc : σ.closed = true
  · rw [if_pos hc]; exact hs
  · have hcf : σ.closed = false := by simpa using hc
    rw [if_neg hc]
    have hq := h.live hcf
    let σa : St := { σ with conn := σ.conn.absorb evs,
                            maxc := evs.foldl (fun m e => match e with | .settings (some v) _ _ => v | _ => m) σ.maxc }
    have hsa : Same σ σa := ⟨rfl, rfl, rfl, rfl, rfl, rfl, rfl, rfl, rfl⟩
    have hma : MapInv σa := mapInv_of_same hsa h.map
    have hua : UpOk σa := h.up
    have hb := handleAll_ok evs σa hma hua
    have hsb : Same σ (St.handleAll σa evs) := hsa.trans hb.1
    have hm_b : MInv (St.handleAll σa evs) := mInv_congr σ _ hsb.ours hsb.fw hs
    show MInv (if (St.handleAll σa evs).closed = true then (St.handleAll σa evs).failQueued
      else St.drain ((St.handleAll σa evs).resume.pending + 1) (St.handleAll σa evs).resume)
    by_cases hcb : (St.handleAll σa evs).closed = true
    · simp only [hcb, if_true]
      exact mInv_congr (St.handleAll σa evs) _ rfl rfl hm_b
    · have hcbf : (St.handleAll σa evs).closed = false := by simpa using hcb
      simp only [hcb]
      have hmid := midInv_of_same hsb hb.2 hq
      have hdr := resume_inv _ hmid
      have hcl : (St.handleAll σa evs).resume.closed = false := by rw [(resume_pending _).2]; exact hcbf
      exact drain_m _ _ hdr (resume_m _ hm_b) hcl

theorem step_connClosed_m (σ : St) (h : Inv σ) (hs : MInv σ) : MInv (σ.step .connClosed) := by
  simp only [St.step]
  by_cases hc : σ.closed = true
  · rw [if_pos hc]; exact hs
  · rw [if_neg hc]
    have cc := closeConnection_ok σ h.map h.up
    exact mInv_congr σ.closeConnection _ rfl rfl (mInv_congr σ _ cc.1.ours cc.1.fw hs)

theorem reach_m (σ : St) (h : Reach σ) : MInv σ := by
  induction h with
  | init => intro t o ho; simp [St.init, alookup] at ho
  | client σ t ev hr hg ih =>
    by_cases hc : σ.closed = true
    · have : σ.step (.client t ev) = σ := by simp [St.step, hc]
      rw [this]; exact ih
    · have hcf : σ.closed = false := by simpa using hc
      exact step_client_m σ t ev ((reach_inv σ hr).live hcf) ih hcf hg
  | server σ evs hr ih => exact step_server_m σ evs (reach_inv σ hr) ih
  | connClosed σ hr ih => exact step_connClosed_m σ (reach_inv σ hr) ih

/-- a stream is unknown to the client (no upstream id, not queued) exactly when nothing was handed over for it yet -/
theorem fresh_iff_nothing_submitted (σ : St) (h : Reach σ) (hc : σ.closed = false) (t : Nat) :
    (alookup t σ.ours = none ∧ t ∉ qkeys σ) ↔ evsOf t σ.sub = [] := by
  have q := (reach_inv σ h).live hc
  have m := reach_m σ h
  have c := q.cons t
  rw [q.st] at c
  have c' : fwOf t σ ++ qOf t σ = evsOf t σ.sub := by simpa [evsOf] using c
  constructor
  · intro ⟨h1, h2⟩
    rw [← c', fwOf_nil_of_unmapped σ q.fw t h1]
    have : alookup t σ.queue = none := alookup_none_of_not_mem t σ.queue h2
    unfold qOf; rw [this]; rfl
  · intro e
    rw [← c'] at e
    have e' := List.append_eq_nil_iff.mp e
    refine ⟨?_, ?_⟩
    · cases ho : alookup t σ.ours with
      | none => rfl
      | some o => exact absurd e'.1 (m t o ho)
    · intro hm
      simp only [qkeys, List.mem_map] at hm
      obtain ⟨p, hp, rfl⟩ := hm
      have hl := alookup_of_mem_nodup p.1 p.2 σ.queue q.q.nodup hp
      obtain ⟨fin, rest, hh, _⟩ := (q.q.ent p hp).2
      unfold qOf at e'
      rw [hl] at e'
      simp [hh] at e'

end MitmVerif.C05
