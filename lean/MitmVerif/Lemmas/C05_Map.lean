/-
  Lemmas for C05: the invariants of `Http2Client`'s stream-id translation, queue and resume rule.
-/
import MitmVerif.Lemmas.C05
namespace MitmVerif.C05
open MitmVerif

/-! ### what the transitions leave alone -/

/-- the part of the state the mapping / queue invariants talk about -/
structure Core where
  ours : List (Nat × Nat)
  theirs : List (Nat × Nat)
  queue : List (Nat × List Ev)
  stack : List (Nat × Ev)
  sub : List (Nat × Ev)
  fw : List (Nat × Nat × Ev)
  allocs : List (Nat × Nat × Nat)
  arr : List Nat
  closed : Bool

def St.core (σ : St) : Core := ⟨σ.ours, σ.theirs, σ.queue, σ.stack, σ.sub, σ.fw, σ.allocs, σ.arr, σ.closed⟩

theorem process_core (σ : St) (o : Nat) (ev : Ev) : (σ.process o ev).core = σ.core := by
  cases ev <;> simp only [St.process] <;> (try split) <;> rfl

theorem process_nextId (σ : St) (o : Nat) (ev : Ev) :
    (σ.process o ev).nextId = if ev.isHdr then o + 2 else σ.nextId := by
  cases ev with
  | hdr fin => simp [St.process, Ev.isHdr]
  | data b => simp only [St.process, Ev.isHdr]; split <;> simp
  | trailers => simp only [St.process, Ev.isHdr]; split <;> simp
  | eom => simp only [St.process, Ev.isHdr]; split <;> simp
  | err => simp only [St.process, Ev.isHdr]; split <;> simp

theorem process_up (σ : St) (o : Nat) (ev : Ev) : (σ.process o ev).up = σ.up := by
  cases ev <;> simp only [St.process] <;> (try split) <;> rfl

def qkeys (σ : St) : List Nat := σ.queue.map (·.1)

/-! ### the invariants -/

structure MapInv (σ : St) : Prop where
  fwd : ∀ t o, alookup t σ.ours = some o → alookup o σ.theirs = some t
  bwd : ∀ o t, alookup o σ.theirs = some t → alookup t σ.ours = some o
  lt : ∀ o t, alookup o σ.theirs = some t → o < σ.nextId

def hdrFirst (evs : List Ev) : Prop := ∃ fin rest, evs = Ev.hdr fin :: rest ∧ ∀ e ∈ rest, e.isHdr = false

structure QueueOk (σ : St) : Prop where
  nodup : (qkeys σ).Nodup
  ent : ∀ p ∈ σ.queue, alookup p.1 σ.ours = none ∧ hdrFirst p.2

/-- all events waiting on the call stack belong to streams that already have an upstream id -/
def AllMapped (σ : St) : Prop := ∀ q ∈ σ.stack, (alookup q.1 σ.ours).isSome = true ∧ q.2.isHdr = false

/-- the call stack while the resume loop runs: at most the events on top belong to a stream without an upstream id —
    the one just taken from the queue — and then there is a free slot for it -/
def StackOk (σ : St) : Prop :=
  match σ.stack with
  | [] => True
  | (t, ev) :: rest =>
    (∀ q ∈ rest, (q.1 = t ∨ (alookup q.1 σ.ours).isSome = true) ∧ q.2.isHdr = false) ∧
    ((alookup t σ.ours).isSome = true → ev.isHdr = false) ∧
    (alookup t σ.ours = none → ev.isHdr = true ∧ σ.noFree = false ∧ t ∉ qkeys σ)

def evsOf (t : Nat) (l : List (Nat × Ev)) : List Ev := (l.filter (fun p => p.1 == t)).map (·.2)
def fwOf (t : Nat) (σ : St) : List Ev := (σ.fw.filter (fun p => p.1 == t)).map (·.2.2)
def qOf (t : Nat) (σ : St) : List Ev := (alookup t σ.queue).getD []

/-- every event handed to the connection is, in order, either already passed on, or waiting in the queue, or being
    handled by the resume loop -/
def Cons (σ : St) : Prop := ∀ t, fwOf t σ ++ qOf t σ ++ evsOf t σ.stack = evsOf t σ.sub

def FwOk (σ : St) : Prop := ∀ e ∈ σ.fw, alookup e.1 σ.ours = some e.2.1
def AllocOk (σ : St) : Prop := ∀ a ∈ σ.allocs, a.2.1 < a.2.2
def opened (σ : St) : List Nat := σ.allocs.map (·.1)

theorem evsOf_append (t : Nat) (a b : List (Nat × Ev)) : evsOf t (a ++ b) = evsOf t a ++ evsOf t b := by
  simp [evsOf]

theorem evsOf_cons_same (t : Nat) (e : Ev) (l : List (Nat × Ev)) : evsOf t ((t, e) :: l) = e :: evsOf t l := by
  simp [evsOf]

theorem evsOf_cons_ne (t u : Nat) (e : Ev) (l : List (Nat × Ev)) (h : u ≠ t) : evsOf t ((u, e) :: l) = evsOf t l := by
  simp [evsOf, h]

theorem evsOf_map_same (t : Nat) (evs : List Ev) : evsOf t (evs.map fun e => (t, e)) = evs := by
  induction evs with
  | nil => rfl
  | cons e rest ih => simp [evsOf] at ih ⊢; exact ih

theorem evsOf_map_ne (t u : Nat) (evs : List Ev) (h : u ≠ t) : evsOf t (evs.map fun e => (u, e)) = [] := by
  induction evs with
  | nil => rfl
  | cons e rest ih => simp [evsOf, h] at ih ⊢

theorem evsOf_nil_of_not_mem (t : Nat) (l : List (Nat × Ev)) (h : ∀ q ∈ l, q.1 ≠ t) : evsOf t l = [] := by
  induction l with
  | nil => rfl
  | cons q rest ih =>
    have h1 := h q (by simp)
    have := ih (fun x hx => h x (by simp [hx]))
    simp [evsOf, h1] at this ⊢
    exact this

theorem alookup_none_of_not_mem {α : Type} (k : Nat) (l : List (Nat × α)) (h : k ∉ l.map (·.1)) : alookup k l = none := by
  induction l with
  | nil => rfl
  | cons p rest ih =>
    obtain ⟨k', v⟩ := p
    simp at h
    have : ¬ k' = k := fun e => h.1 e.symm
    simp [alookup, this]
    exact ih (by simpa using h.2)

theorem alookup_mem {α : Type} (k : Nat) (v : α) (l : List (Nat × α)) (h : alookup k l = some v) : (k, v) ∈ l := by
  induction l with
  | nil => simp [alookup] at h
  | cons p rest ih =>
    obtain ⟨k', v'⟩ := p
    by_cases hk : k' = k
    · simp [alookup, hk] at h; subst hk; subst h; simp
    · simp [alookup, hk] at h; exact List.mem_cons_of_mem _ (ih h)

theorem alookup_of_mem_nodup {α : Type} (k : Nat) (v : α) (l : List (Nat × α)) (hn : (l.map (·.1)).Nodup)
    (h : (k, v) ∈ l) : alookup k l = some v := by
  induction l with
  | nil => simp at h
  | cons p rest ih =>
    obtain ⟨k', v'⟩ := p
    simp at hn
    rcases List.mem_cons.mp h with h1 | h1
    · cases h1; simp [alookup]
    · have hne : ¬ k' = k := by
        intro e; subst e
        exact hn.1 v h1
      simp [alookup, hne]
      exact ih hn.2 h1

/-! ### invariant bundles -/

def headNew (σ : St) : List Nat :=
  match σ.stack with
  | (t, _) :: _ => if alookup t σ.ours = none then [t] else []
  | [] => []

def UpOk (σ : St) : Prop := ∀ u ∈ σ.up, ∀ o, u.2.2 = some o → alookup u.1 σ.ours = some o

/-- between handling an event and the resume check -/
structure MidInv (σ : St) : Prop where
  map : MapInv σ
  q : QueueOk σ
  am : AllMapped σ
  cons : Cons σ
  fw : FwOk σ
  al : AllocOk σ
  arr : opened σ ++ qkeys σ = σ.arr
  up : UpOk σ

/-- while the resume loop runs -/
structure DrainInv (σ : St) : Prop where
  map : MapInv σ
  q : QueueOk σ
  st : StackOk σ
  cons : Cons σ
  fw : FwOk σ
  al : AllocOk σ
  arr : opened σ ++ headNew σ ++ qkeys σ = σ.arr
  up : UpOk σ
  cap : σ.stack = [] → σ.queue = [] ∨ σ.noFree = true

/-- between two calls of `_handle_event` -/
structure QInv (σ : St) : Prop where
  map : MapInv σ
  q : QueueOk σ
  st : σ.stack = []
  cons : Cons σ
  fw : FwOk σ
  al : AllocOk σ
  arr : opened σ ++ qkeys σ = σ.arr
  up : UpOk σ
  cap : σ.queue = [] ∨ σ.noFree = true

theorem stackOk_of_allMapped (σ : St) (h : AllMapped σ) : StackOk σ ∧ headNew σ = [] := by
  unfold StackOk headNew
  cases hs : σ.stack with
  | nil => exact ⟨trivial, rfl⟩
  | cons q rest =>
    obtain ⟨t, ev⟩ := q
    have hq := h (t, ev) (by rw [hs]; simp)
    refine ⟨⟨?_, fun _ => hq.2, ?_⟩, ?_⟩
    · intro q hq'
      have := h q (by rw [hs]; exact List.mem_cons_of_mem _ hq')
      exact ⟨Or.inr this.1, this.2⟩
    · intro hn; rw [hn] at hq; simp at hq
    · cases ha : alookup t σ.ours with
      | none => rw [ha] at hq; simp at hq
      | some o => simp [ha]

theorem noFree_congr (σ σ' : St) (h1 : σ'.conn = σ.conn) (h2 : σ'.prov = σ.prov) (h3 : σ'.maxc = σ.maxc) :
    σ'.noFree = σ.noFree := by
  unfold St.noFree St.limit; rw [h1, h2, h3]

theorem queued_unmapped (σ : St) (hq : QueueOk σ) (t : Nat) (o : Nat) (h : alookup t σ.ours = some o) :
    alookup t σ.queue = none ∧ t ∉ qkeys σ := by
  have hn : t ∉ qkeys σ := by
    intro hm
    simp only [qkeys, List.mem_map] at hm
    obtain ⟨p, hp, rfl⟩ := hm
    have := (hq.ent p hp).1
    rw [this] at h; simp at h
  exact ⟨alookup_none_of_not_mem t σ.queue hn, hn⟩

/-- the resume rule -/
theorem resume_inv (σ : St) (h : MidInv σ) : DrainInv σ.resume := by
  have hst := stackOk_of_allMapped σ h.am
  have same : DrainInv σ → DrainInv σ := id
  have base : (σ.queue = [] ∨ σ.noFree = true) → DrainInv σ := fun hc =>
    ⟨h.map, h.q, hst.1, h.cons, h.fw, h.al, by rw [hst.2]; simpa using h.arr, h.up, fun _ => hc⟩
  unfold St.resume
  cases hqe : σ.queue with
  | nil => exact base (Or.inl hqe)
  | cons p rest =>
    obtain ⟨u, evs⟩ := p
    by_cases hnf : σ.noFree = true
    · simp only [hnf, if_true]; exact base (Or.inr hnf)
    · simp only [hnf, Bool.false_eq_true, if_false]
      have hnf' : σ.noFree = false := by simpa using hnf
      have hent := h.q.ent (u, evs) (by rw [hqe]; simp)
      obtain ⟨hun, fin, r, hevs, hr⟩ := hent
      have hun : alookup u σ.ours = none := hun
      have hevs : evs = Ev.hdr fin :: r := hevs
      subst hevs
      have hnd : (u :: rest.map (·.1)).Nodup := by have := h.q.nodup; simpa [qkeys, hqe] using this
      have hu_rest : u ∉ rest.map (·.1) := (List.nodup_cons.mp hnd).1
      have hu_stack : ∀ q ∈ σ.stack, q.1 ≠ u := by
        intro q hq he
        have := (h.am q hq).1
        rw [he, hun] at this; simp at this
      refine ⟨⟨h.map.fwd, h.map.bwd, h.map.lt⟩, ⟨?_, ?_⟩, ?_, ?_, h.fw, h.al, ?_, h.up, ?_⟩
      · simpa [qkeys] using (List.nodup_cons.mp hnd).2
      · intro p hp; exact h.q.ent p (by rw [hqe]; exact List.mem_cons_of_mem _ hp)
      · -- StackOk
        unfold StackOk
        simp only [List.map_cons, List.cons_append]
        refine ⟨?_, ?_, ?_⟩
        · intro q hq
          rcases List.mem_append.mp hq with h1 | h1
          · simp only [List.mem_map] at h1
            obtain ⟨e, he, rfl⟩ := h1
            exact ⟨Or.inl rfl, hr e he⟩
          · have := h.am q h1
            exact ⟨Or.inr this.1, this.2⟩
        · intro hm; rw [hun] at hm; simp at hm
        · intro _
          refine ⟨rfl, ?_, ?_⟩
          · rw [← hnf']; exact noFree_congr _ _ rfl rfl rfl
          · simpa [qkeys] using hu_rest
      · -- Cons
        intro t
        have hc := h.cons t
        simp only [fwOf, qOf] at hc ⊢
        rw [evsOf_append]
        by_cases htu : u = t
        · subst htu
          rw [evsOf_map_same, evsOf_nil_of_not_mem u σ.stack hu_stack] at *
          have : alookup u rest = none := alookup_none_of_not_mem u rest hu_rest
          rw [this]
          rw [hqe] at hc
          simpa [alookup] using hc
        · rw [evsOf_map_ne t u _ htu]
          rw [hqe] at hc
          simpa [alookup, htu] using hc
      · -- arrival order
        have : headNew ({ σ with queue := rest, stack := (Ev.hdr fin :: r).map (fun e => (u, e)) ++ σ.stack } : St) = [u] := by
          simp [headNew, hun]
        rw [this]
        have := h.arr
        simp only [qkeys, hqe, List.map_cons] at this
        simpa [qkeys, opened] using this
      · intro he
        simp at he

/-! ### one call of `_handle_event` for a client event -/

def midMapped (σ : St) (t o : Nat) (ev : Ev) (rest : List (Nat × Ev)) : St :=
  { (({ σ with stack := rest } : St).process o ev) with fw := σ.fw ++ [(t, o, ev)] }

def midAlloc (σ : St) (t : Nat) (ev : Ev) (rest : List (Nat × Ev)) : St :=
  let σ1 : St := { σ with stack := rest, ours := σ.ours ++ [(t, σ.nextId)], theirs := aset σ.nextId t σ.theirs,
                          allocs := σ.allocs ++ [(t, σ.conn.openCount, σ.limit)] }
  { (σ1.process σ.nextId ev) with fw := σ.fw ++ [(t, σ.nextId, ev)] }

theorem tick_eq (σ : St) (t : Nat) (ev : Ev) (rest : List (Nat × Ev)) (hs : σ.stack = (t, ev) :: rest)
    (hc : σ.closed = false) :
    σ.tick = (match alookup t σ.ours with
      | some o => (midMapped σ t o ev rest).resume
      | none => if ({ σ with stack := rest } : St).noFree then ({ σ with stack := rest } : St).enqueue t ev
                else (midAlloc σ t ev rest).resume) := by
  unfold St.tick
  rw [hs]
  show (if ({ σ with stack := rest } : St).closed = true then _ else _) = _
  have hc' : ({ σ with stack := rest } : St).closed = false := hc
  rw [if_neg (by rw [hc']; simp)]
  cases alookup t σ.ours with
  | some o => rfl
  | none => rfl

theorem midMapped_fields (σ : St) (t o : Nat) (ev : Ev) (rest : List (Nat × Ev)) :
    let m := midMapped σ t o ev rest
    m.ours = σ.ours ∧ m.theirs = σ.theirs ∧ m.queue = σ.queue ∧ m.stack = rest ∧ m.sub = σ.sub ∧
    m.fw = σ.fw ++ [(t, o, ev)] ∧ m.allocs = σ.allocs ∧ m.arr = σ.arr ∧ m.up = σ.up ∧ m.closed = σ.closed ∧
    m.nextId = (if ev.isHdr then o + 2 else σ.nextId) := by
  have hc := process_core ({ σ with stack := rest } : St) o ev
  have hn := process_nextId ({ σ with stack := rest } : St) o ev
  have hu := process_up ({ σ with stack := rest } : St) o ev
  simp only [St.core, Core.mk.injEq] at hc
  obtain ⟨h1, h2, h3, h4, h5, _, h7, h8, h9⟩ := hc
  exact ⟨h1, h2, h3, h4, h5, rfl, h7, h8, hu, h9, hn⟩

theorem midAlloc_fields (σ : St) (t : Nat) (ev : Ev) (rest : List (Nat × Ev)) :
    let m := midAlloc σ t ev rest
    m.ours = σ.ours ++ [(t, σ.nextId)] ∧ m.theirs = aset σ.nextId t σ.theirs ∧ m.queue = σ.queue ∧ m.stack = rest ∧
    m.sub = σ.sub ∧ m.fw = σ.fw ++ [(t, σ.nextId, ev)] ∧
    m.allocs = σ.allocs ++ [(t, σ.conn.openCount, σ.limit)] ∧ m.arr = σ.arr ∧ m.up = σ.up ∧ m.closed = σ.closed ∧
    m.nextId = (if ev.isHdr then σ.nextId + 2 else σ.nextId) := by
  let σ1 : St := { σ with stack := rest, ours := σ.ours ++ [(t, σ.nextId)], theirs := aset σ.nextId t σ.theirs,
                          allocs := σ.allocs ++ [(t, σ.conn.openCount, σ.limit)] }
  have hc := process_core σ1 σ.nextId ev
  have hn := process_nextId σ1 σ.nextId ev
  have hu := process_up σ1 σ.nextId ev
  simp only [St.core, Core.mk.injEq] at hc
  obtain ⟨h1, h2, h3, h4, h5, _, h7, h8, h9⟩ := hc
  exact ⟨h1, h2, h3, h4, h5, rfl, h7, h8, hu, h9, hn⟩

theorem alookup_append_some {α : Type} (k : Nat) (v : α) (l l2 : List (Nat × α)) (h : alookup k l = some v) :
    alookup k (l ++ l2) = some v := by
  rw [alookup_append, h]

theorem fwOf_snoc (t t' o : Nat) (ev : Ev) (fw : List (Nat × Nat × Ev)) :
    ((fw ++ [(t, o, ev)]).filter (fun p => p.1 == t')).map (·.2.2) =
      (fw.filter (fun p => p.1 == t')).map (·.2.2) ++ (if t = t' then [ev] else []) := by
  by_cases h : t = t' <;> simp [List.filter_append, h]

/-- an event of a stream that already has an upstream id -/
theorem tick_mapped_inv (σ : St) (t o : Nat) (ev : Ev) (rest : List (Nat × Ev)) (h : DrainInv σ)
    (hs : σ.stack = (t, ev) :: rest) (ho : alookup t σ.ours = some o) : MidInv (midMapped σ t o ev rest) := by
  obtain ⟨f1, f2, f3, f4, f5, f6, f7, f8, f9, _, f11⟩ := midMapped_fields σ t o ev rest
  have hst := h.st
  unfold StackOk at hst
  rw [hs] at hst
  obtain ⟨hrest, hmap, _⟩ := hst
  have hnh : ev.isHdr = false := hmap (by rw [ho]; rfl)
  have hq := queued_unmapped σ h.q t o ho
  refine ⟨⟨?_, ?_, ?_⟩, ⟨?_, ?_⟩, ?_, ?_, ?_, ?_, ?_, ?_⟩
  · intro t' o' hh; rw [f1] at hh; rw [f2]; exact h.map.fwd t' o' hh
  · intro o' t' hh; rw [f2] at hh; rw [f1]; exact h.map.bwd o' t' hh
  · intro o' t' hh; rw [f2] at hh; rw [f11, hnh]; simpa using h.map.lt o' t' hh
  · simpa [qkeys, f3] using h.q.nodup
  · intro p hp; rw [f3] at hp; rw [f1]; exact h.q.ent p hp
  · intro q hq'
    rw [f4] at hq'; rw [f1]
    have := hrest q hq'
    refine ⟨?_, this.2⟩
    rcases this.1 with h1 | h1
    · rw [h1, ho]; rfl
    · exact h1
  · intro t'
    have hc := h.cons t'
    simp only [fwOf, qOf] at hc ⊢
    rw [f6, f3, f4, f5, fwOf_snoc]
    rw [hs] at hc
    by_cases htt : t = t'
    · subst htt
      rw [evsOf_cons_same] at hc
      rw [hq.1] at hc ⊢
      simp only [if_true, Option.getD_none, List.append_nil] at hc ⊢
      rw [← hc]; simp
    · rw [evsOf_cons_ne t' t ev rest htt] at hc
      simpa [htt] using hc
  · intro e he
    rw [f6] at he; rw [f1]
    rcases List.mem_append.mp he with h1 | h1
    · exact h.fw e h1
    · simp at h1; subst h1; exact ho
  · intro a ha; rw [f7] at ha; exact h.al a ha
  · have := h.arr
    simp only [headNew, hs, ho] at this
    simpa [opened, qkeys, f7, f3, f8] using this
  · intro u hu o' ho'; rw [f9] at hu; rw [f1]; exact h.up u hu o' ho'

/-- the first event of a stream for which there is a free slot: it gets the next upstream id -/
theorem tick_alloc_inv (σ : St) (t : Nat) (ev : Ev) (rest : List (Nat × Ev)) (h : DrainInv σ)
    (hs : σ.stack = (t, ev) :: rest) (ho : alookup t σ.ours = none) : MidInv (midAlloc σ t ev rest) := by
  obtain ⟨f1, f2, f3, f4, f5, f6, f7, f8, f9, _, f11⟩ := midAlloc_fields σ t ev rest
  have hst := h.st
  unfold StackOk at hst
  rw [hs] at hst
  obtain ⟨hrest, _, hun⟩ := hst
  obtain ⟨hh, hfree, hnq⟩ := hun ho
  have hqn : alookup t σ.queue = none := alookup_none_of_not_mem t σ.queue hnq
  have hfresh : alookup σ.nextId σ.theirs = none := by
    cases hl : alookup σ.nextId σ.theirs with
    | none => rfl
    | some t' => exact absurd (h.map.lt _ _ hl) (Nat.lt_irrefl _)
  have hnew : alookup t (σ.ours ++ [(t, σ.nextId)]) = some σ.nextId := by
    rw [alookup_append, ho]; simp [alookup]
  refine ⟨⟨?_, ?_, ?_⟩, ⟨?_, ?_⟩, ?_, ?_, ?_, ?_, ?_, ?_⟩
  · intro t' o' hh'
    rw [f1, alookup_append] at hh'
    rw [f2]
    cases hl : alookup t' σ.ours with
    | some o2 =>
      rw [hl] at hh'; simp at hh'; subst hh'
      have hth := h.map.fwd t' o2 hl
      have hne : o2 ≠ σ.nextId := Nat.ne_of_lt (h.map.lt _ _ hth)
      rw [alookup_aset_ne _ _ _ _ hne]; exact hth
    | none =>
      rw [hl] at hh'
      simp only [alookup] at hh'
      by_cases he : t = t'
      · subst he; simp at hh'; subst hh'; exact alookup_aset_same _ _ _
      · simp [he] at hh'
  · intro o' t' hh'
    rw [f2] at hh'; rw [f1]
    by_cases he : o' = σ.nextId
    · subst he
      rw [alookup_aset_same] at hh'
      simp at hh'; subst hh'; exact hnew
    · rw [alookup_aset_ne _ _ _ _ he] at hh'
      exact alookup_append_some _ _ _ _ (h.map.bwd o' t' hh')
  · intro o' t' hh'
    rw [f2] at hh'; rw [f11, hh]
    simp only [if_true]
    by_cases he : o' = σ.nextId
    · omega
    · rw [alookup_aset_ne _ _ _ _ he] at hh'
      have := h.map.lt o' t' hh'; omega
  · simpa [qkeys, f3] using h.q.nodup
  · intro p hp
    rw [f3] at hp; rw [f1]
    have := h.q.ent p hp
    refine ⟨?_, this.2⟩
    rw [alookup_append, this.1]
    have hne : t ≠ p.1 := by
      intro e; apply hnq; rw [e]; exact List.mem_map_of_mem hp
    simp [alookup, hne]
  · intro q hq'
    rw [f4] at hq'; rw [f1]
    have := hrest q hq'
    refine ⟨?_, this.2⟩
    rcases this.1 with h1 | h1
    · rw [h1, hnew]; rfl
    · cases hl : alookup q.1 σ.ours with
      | none => rw [hl] at h1; simp at h1
      | some o2 => rw [alookup_append_some _ _ _ _ hl]; rfl
  · intro t'
    have hc := h.cons t'
    simp only [fwOf, qOf] at hc ⊢
    rw [f6, f3, f4, f5, fwOf_snoc]
    rw [hs] at hc
    by_cases htt : t = t'
    · subst htt
      rw [evsOf_cons_same] at hc
      rw [hqn] at hc ⊢
      simp only [if_true, Option.getD_none, List.append_nil] at hc ⊢
      rw [← hc]; simp
    · rw [evsOf_cons_ne t' t ev rest htt] at hc
      simpa [htt] using hc
  · intro e he
    rw [f6] at he; rw [f1]
    rcases List.mem_append.mp he with h1 | h1
    · exact alookup_append_some _ _ _ _ (h.fw e h1)
    · simp at h1; subst h1; exact hnew
  · intro a ha
    rw [f7] at ha
    rcases List.mem_append.mp ha with h1 | h1
    · exact h.al a h1
    · simp at h1; subst h1
      have : σ.noFree = false := by rw [← hfree]
      simp only [St.noFree, decide_eq_false_iff_not] at this
      show σ.conn.openCount < σ.limit
      omega
  · have := h.arr
    simp only [headNew, hs, ho, if_true] at this
    simpa [opened, qkeys, f7, f3, f8] using this
  · intro u hu o' ho'
    rw [f9] at hu; rw [f1]
    exact alookup_append_some _ _ _ _ (h.up u hu o' ho')

/-! ### the resume loop as a whole -/

theorem resume_pending (σ : St) : σ.resume.pending = σ.pending ∧ σ.resume.closed = σ.closed := by
  unfold St.resume
  split
  · exact ⟨rfl, rfl⟩
  · rename_i t evs rest hq
    split
    · exact ⟨rfl, rfl⟩
    · refine ⟨?_, rfl⟩
      simp only [St.pending, hq, List.length_append, List.length_map, List.map_cons, List.sum_cons]
      omega

theorem tick_drain (σ : St) (h : DrainInv σ) (hne : σ.stack ≠ []) (hc : σ.closed = false) :
    DrainInv σ.tick ∧ σ.tick.pending + 1 = σ.pending ∧ σ.tick.closed = false := by
  cases hs : σ.stack with
  | nil => exact absurd hs hne
  | cons q rest =>
    obtain ⟨t, ev⟩ := q
    rw [tick_eq σ t ev rest hs hc]
    cases ho : alookup t σ.ours with
    | some o =>
      simp only []
      have hm := tick_mapped_inv σ t o ev rest h hs ho
      have hp := resume_pending (midMapped σ t o ev rest)
      obtain ⟨_, _, f3, f4, _, _, _, _, _, f10, _⟩ := midMapped_fields σ t o ev rest
      refine ⟨resume_inv _ hm, ?_, by rw [hp.2, f10]; exact hc⟩
      rw [hp.1]
      simp only [St.pending, f3, f4, hs, List.length_cons]
      omega
    | none =>
      simp only []
      have hst := h.st
      unfold StackOk at hst
      rw [hs] at hst
      have hfree := (hst.2.2 ho).2.1
      have hfree' : ({ σ with stack := rest } : St).noFree = false := by
        rw [← hfree]; exact noFree_congr _ _ rfl rfl rfl
      rw [if_neg (by rw [hfree']; simp)]
      have hm := tick_alloc_inv σ t ev rest h hs ho
      have hp := resume_pending (midAlloc σ t ev rest)
      obtain ⟨_, _, f3, f4, _, _, _, _, _, f10, _⟩ := midAlloc_fields σ t ev rest
      refine ⟨resume_inv _ hm, ?_, by rw [hp.2, f10]; exact hc⟩
      rw [hp.1]
      simp only [St.pending, f3, f4, hs, List.length_cons]
      omega

theorem drain_of_empty (f : Nat) (σ : St) (h : σ.stack = []) : St.drain f σ = σ := by
  cases f with
  | zero => rfl
  | succ f => simp [St.drain, h]

theorem qinv_of_drain_empty (σ : St) (h : DrainInv σ) (he : σ.stack = []) : QInv σ := by
  have harr := h.arr
  simp only [headNew, he] at harr
  exact ⟨h.map, h.q, he, h.cons, h.fw, h.al, by simpa using harr, h.up, h.cap he⟩

/-- the loop terminates within the events that are pending, and ends with no stream waiting for a slot that is free -/
theorem drain_inv (f : Nat) (σ : St) (h : DrainInv σ) (hc : σ.closed = false) (hf : σ.pending < f) :
    QInv (St.drain f σ) ∧ (St.drain f σ).closed = false := by
  induction f generalizing σ with
  | zero => omega
  | succ f ih =>
    by_cases he : σ.stack = []
    · rw [drain_of_empty _ _ he]; exact ⟨qinv_of_drain_empty σ h he, hc⟩
    · have ht := tick_drain σ h he hc
      have : St.drain (f + 1) σ = St.drain f σ.tick := by
        simp only [St.drain]
        have : σ.stack.isEmpty = false := by cases hs : σ.stack <;> simp_all
        simp [this]
      rw [this]
      exact ih σ.tick ht.1 ht.2.2 (by omega)

/-! ### a client event arrives -/

theorem aset_keys {α : Type} (k : Nat) (v : α) (l : List (Nat × α)) :
    (aset k v l).map (·.1) = if k ∈ l.map (·.1) then l.map (·.1) else l.map (·.1) ++ [k] := by
  induction l with
  | nil => simp [aset]
  | cons p rest ih =>
    obtain ⟨k', v'⟩ := p
    by_cases h : k' = k
    · subst h; simp [aset]
    · have h' : ¬ k = k' := fun e => h e.symm
      simp only [aset, h, if_false, List.map_cons, ih, List.mem_cons, h', false_or]
      split <;> simp

theorem mem_aset {α : Type} (k : Nat) (v : α) (l : List (Nat × α)) (p : Nat × α) (h : p ∈ aset k v l) :
    p = (k, v) ∨ p ∈ l := by
  induction l with
  | nil => simp [aset] at h; exact Or.inl h
  | cons q rest ih =>
    obtain ⟨k', v'⟩ := q
    by_cases hk : k' = k
    · subst hk
      simp only [aset, if_true] at h
      rcases List.mem_cons.mp h with h1 | h1
      · exact Or.inl h1
      · exact Or.inr (List.mem_cons_of_mem _ h1)
    · simp only [aset, hk, if_false] at h
      rcases List.mem_cons.mp h with h1 | h1
      · subst h1; exact Or.inr (by simp)
      · rcases ih h1 with h2 | h2
        · exact Or.inl h2
        · exact Or.inr (List.mem_cons_of_mem _ h2)

/-- what the HTTP layer guarantees about the events of one stream: the first one, and only the first one, is the
    request head -/
def Good (σ : St) (t : Nat) (ev : Ev) : Prop :=
  ((alookup t σ.ours = none ∧ t ∉ qkeys σ) → ev.isHdr = true) ∧
  (ev.isHdr = true → alookup t σ.ours = none ∧ t ∉ qkeys σ)

def arrive (σ : St) (t : Nat) (ev : Ev) : St :=
  { σ with sub := σ.sub ++ [(t, ev)], stack := [(t, ev)],
           arr := if (alookup t σ.ours).isNone && !(σ.queue.map (·.1)).contains t then σ.arr ++ [t] else σ.arr }

theorem step_client_eq (σ : St) (t : Nat) (ev : Ev) (hc : σ.closed = false) :
    σ.step (.client t ev) = St.drain ((arrive σ t ev).pending + 1) (arrive σ t ev) := by
  show (if σ.closed = true then σ else _) = _
  rw [if_neg (by rw [hc]; simp)]
  rfl

theorem arrive_drainInv (σ : St) (t : Nat) (ev : Ev) (h : QInv σ) (hg : Good σ t ev)
    (hcase : (alookup t σ.ours).isSome = true ∨ σ.noFree = false) : DrainInv (arrive σ t ev) := by
  have hqe : (alookup t σ.ours = none) → σ.queue = [] := by
    intro hn
    rcases hcase with h1 | h1
    · rw [hn] at h1; simp at h1
    · rcases h.cap with h2 | h2
      · exact h2
      · rw [h1] at h2; simp at h2
  refine ⟨⟨h.map.fwd, h.map.bwd, h.map.lt⟩, ⟨h.q.nodup, h.q.ent⟩, ?_, ?_, h.fw, h.al, ?_, h.up, ?_⟩
  · -- StackOk
    unfold StackOk arrive
    simp only []
    refine ⟨by intro q hq; simp at hq, ?_, ?_⟩
    · intro hm
      cases hh : ev.isHdr with
      | false => rfl
      | true => have := (hg.2 hh).1; rw [this] at hm; simp at hm
    · intro hn
      have hq0 := hqe hn
      have hnq : t ∉ qkeys σ := by simp [qkeys, hq0]
      refine ⟨hg.1 ⟨hn, hnq⟩, ?_, hnq⟩
      rcases hcase with h1 | h1
      · rw [hn] at h1; simp at h1
      · rw [← h1]; exact noFree_congr _ _ rfl rfl rfl
  · intro t'
    have hc := h.cons t'
    simp only [fwOf, qOf, h.st, evsOf] at hc
    simp only [fwOf, qOf, arrive, evsOf_append]
    simp only [evsOf] at hc ⊢
    simp at hc ⊢
    rw [← hc]
    simp [List.append_assoc]
  · -- arrival order
    have harr := h.arr
    cases ho : alookup t σ.ours with
    | some o =>
      simp only [headNew, arrive, ho, Option.isNone_some, Bool.false_and, Bool.false_eq_true, if_false]
      simpa [opened, qkeys] using harr
    | none =>
      have hq0 := hqe ho
      simp only [headNew, arrive, ho, hq0, if_true, Option.isNone_none, List.map_nil, Bool.true_and]
      simp only [qkeys, hq0, List.map_nil, List.append_nil] at harr
      simp [opened, qkeys, hq0] at harr ⊢
      rw [← harr]
  · intro he; simp [arrive] at he

def enqueued (σ : St) (t : Nat) (ev : Ev) : St := ({ (arrive σ t ev) with stack := [] } : St).enqueue t ev

/-- no free slot: the event joins the queue (a new stream at the end) -/
theorem enqueue_qinv (σ : St) (t : Nat) (ev : Ev) (h : QInv σ) (hg : Good σ t ev)
    (hn : alookup t σ.ours = none) (hnf : σ.noFree = true) : QInv (enqueued σ t ev) := by
  have hold : (t ∈ qkeys σ) ∨ (t ∉ qkeys σ) := Classical.em _
  refine ⟨⟨h.map.fwd, h.map.bwd, h.map.lt⟩, ⟨?_, ?_⟩, rfl, ?_, h.fw, h.al, ?_, h.up, ?_⟩
  · show ((aset t _ σ.queue).map (·.1)).Nodup
    rw [aset_keys]
    split
    · exact h.q.nodup
    · rename_i hnm
      have := h.q.nodup
      simp only [qkeys] at this
      exact List.nodup_append.mpr ⟨this, by simp, by
        intro a ha b hb; simp at hb; subst hb; intro e; subst e; exact hnm ha⟩
  · intro p hp
    have hp' : p ∈ aset t ((alookup t σ.queue).getD [] ++ [ev]) σ.queue := hp
    rcases mem_aset _ _ _ _ hp' with h1 | h1
    · subst h1
      refine ⟨hn, ?_⟩
      cases hl : alookup t σ.queue with
      | none =>
        have hnq : t ∉ qkeys σ := by
          intro hm
          simp only [qkeys, List.mem_map] at hm
          obtain ⟨p, hp2, hp3⟩ := hm
          have := alookup_of_mem_nodup p.1 p.2 σ.queue h.q.nodup hp2
          rw [hp3, hl] at this; simp at this
        have hh := hg.1 ⟨hn, hnq⟩
        cases ev with
        | hdr fin => exact ⟨fin, [], by simp, by simp⟩
        | _ => simp [Ev.isHdr] at hh
      | some evs =>
        have hmem := alookup_mem t evs σ.queue hl
        obtain ⟨_, fin, r, he, hr⟩ := h.q.ent (t, evs) hmem
        have he : evs = Ev.hdr fin :: r := he
        have hnh : ev.isHdr = false := by
          cases hh : ev.isHdr with
          | false => rfl
          | true =>
            have := (hg.2 hh).2
            exact absurd (List.mem_map_of_mem (f := (·.1)) hmem) this
        refine ⟨fin, r ++ [ev], by simp [he], ?_⟩
        intro e hem
        rcases List.mem_append.mp hem with h2 | h2
        · exact hr e h2
        · simp at h2; subst h2; exact hnh
    · exact h.q.ent p h1
  · intro t'
    have hc := h.cons t'
    simp only [fwOf, qOf, h.st, evsOf] at hc
    show fwOf t' σ ++ (alookup t' (aset t ((alookup t σ.queue).getD [] ++ [ev]) σ.queue)).getD [] ++ evsOf t' [] =
      evsOf t' (σ.sub ++ [(t, ev)])
    rw [evsOf_append]
    simp only [fwOf, evsOf] at hc ⊢
    simp at hc ⊢
    by_cases htt : t = t'
    · subst htt
      rw [alookup_aset_same]
      simp
      rw [← hc]; simp
    · have : t' ≠ t := fun e => htt e.symm
      rw [alookup_aset_ne _ _ _ _ this]
      simp [htt]
      exact hc
  · show opened σ ++ (aset t _ σ.queue).map (·.1) = (arrive σ t ev).arr
    rw [aset_keys]
    have harr := h.arr
    simp only [qkeys] at harr
    simp only [arrive, hn, Option.isNone_none, Bool.true_and]
    by_cases hm : t ∈ σ.queue.map (·.1)
    · have : (σ.queue.map (·.1)).contains t = true := by simpa using hm
      simp only [hm, if_true, this, Bool.not_true, Bool.false_eq_true, if_false]
      exact harr
    · have : (σ.queue.map (·.1)).contains t = false := by simpa using hm
      simp only [hm, if_false, this, Bool.not_false, if_true]
      rw [← harr, List.append_assoc]
  · right
    rw [← hnf]
    exact noFree_congr _ _ rfl rfl rfl

theorem step_client_inv (σ : St) (t : Nat) (ev : Ev) (h : QInv σ) (hc : σ.closed = false) (hg : Good σ t ev) :
    QInv (σ.step (.client t ev)) ∧ (σ.step (.client t ev)).closed = false := by
  rw [step_client_eq σ t ev hc]
  have hca : (arrive σ t ev).closed = false := hc
  by_cases hcase : (alookup t σ.ours).isSome = true ∨ σ.noFree = false
  · exact drain_inv _ _ (arrive_drainInv σ t ev h hg hcase) hca (by omega)
  · have hn : alookup t σ.ours = none := by
      cases ho : alookup t σ.ours with
      | none => rfl
      | some o => exact absurd (Or.inl (by rw [ho]; rfl)) hcase
    have hnf : σ.noFree = true := by
      cases hf : σ.noFree with
      | true => rfl
      | false => exact absurd (Or.inr hf) hcase
    have htick : (arrive σ t ev).tick = enqueued σ t ev := by
      rw [tick_eq (arrive σ t ev) t ev [] rfl hca]
      have : alookup t (arrive σ t ev).ours = none := hn
      rw [this]
      have hnf' : ({ (arrive σ t ev) with stack := [] } : St).noFree = true := by
        rw [← hnf]; exact noFree_congr _ _ rfl rfl rfl
      simp only [hnf', if_true]
      rfl
    have : St.drain ((arrive σ t ev).pending + 1) (arrive σ t ev) = enqueued σ t ev := by
      simp only [St.drain]
      have : (arrive σ t ev).stack.isEmpty = false := rfl
      simp only [this, Bool.false_eq_true, if_false, htick]
      exact drain_of_empty _ _ rfl
    rw [this]
    exact ⟨enqueue_qinv σ t ev h hg hn hnf, hc⟩

/-! ### what the server says -/

/-- the transition changed nothing the mapping / queue invariants talk about -/
structure Same (σ σ' : St) : Prop where
  ours : σ'.ours = σ.ours
  theirs : σ'.theirs = σ.theirs
  queue : σ'.queue = σ.queue
  stack : σ'.stack = σ.stack
  sub : σ'.sub = σ.sub
  fw : σ'.fw = σ.fw
  allocs : σ'.allocs = σ.allocs
  arr : σ'.arr = σ.arr
  nextId : σ'.nextId = σ.nextId

theorem Same.refl (σ : St) : Same σ σ := ⟨rfl, rfl, rfl, rfl, rfl, rfl, rfl, rfl, rfl⟩

theorem Same.trans {a b c : St} (h1 : Same a b) (h2 : Same b c) : Same a c :=
  ⟨h2.ours.trans h1.ours, h2.theirs.trans h1.theirs, h2.queue.trans h1.queue, h2.stack.trans h1.stack,
   h2.sub.trans h1.sub, h2.fw.trans h1.fw, h2.allocs.trans h1.allocs, h2.arr.trans h1.arr, h2.nextId.trans h1.nextId⟩

theorem mapInv_of_same {σ σ' : St} (hs : Same σ σ') (h : MapInv σ) : MapInv σ' :=
  ⟨by intro t o hh; rw [hs.ours] at hh; rw [hs.theirs]; exact h.fwd t o hh,
   by intro o t hh; rw [hs.theirs] at hh; rw [hs.ours]; exact h.bwd o t hh,
   by intro o t hh; rw [hs.theirs] at hh; rw [hs.nextId]; exact h.lt o t hh⟩

/-- an event passed up carries the client stream id that is mapped to the upstream id it arrived on -/
theorem upward_ok (σ : St) (o : Nat) (k : UpKind) (hm : MapInv σ) (hu : UpOk σ) :
    Same σ (σ.upward o k) ∧ UpOk (σ.upward o k) := by
  unfold St.upward
  cases hl : alookup o σ.theirs with
  | none => exact ⟨⟨rfl, rfl, rfl, rfl, rfl, rfl, rfl, rfl, rfl⟩, hu⟩
  | some t =>
    refine ⟨⟨rfl, rfl, rfl, rfl, rfl, rfl, rfl, rfl, rfl⟩, ?_⟩
    intro u hu' o' ho'
    have hu'' : u ∈ σ.up ++ [(t, k, some o)] := hu'
    rcases List.mem_append.mp hu'' with h1 | h1
    · exact hu u h1 o' ho'
    · simp at h1; subst h1
      simp at ho'; subst ho'
      exact hm.bwd o t hl

theorem foldl_upward_ok (l : List (Nat × Bool)) (σ0 σ : St) (hm : MapInv σ0) (hs : Same σ0 σ) (hu : UpOk σ) :
    Same σ0 (l.foldl (fun σ p => σ.upward p.1 .err) σ) ∧ UpOk (l.foldl (fun σ p => σ.upward p.1 .err) σ) := by
  induction l generalizing σ with
  | nil => exact ⟨hs, hu⟩
  | cons p rest ih =>
    have := upward_ok σ p.1 .err (mapInv_of_same hs hm) hu
    exact ih (σ.upward p.1 .err) (hs.trans this.1) this.2

theorem closeConnection_ok (σ : St) (hm : MapInv σ) (hu : UpOk σ) :
    Same σ σ.closeConnection ∧ UpOk σ.closeConnection := by
  unfold St.closeConnection
  have := foldl_upward_ok σ.ms σ σ hm (Same.refl σ) hu
  exact ⟨⟨this.1.ours, this.1.theirs, this.1.queue, this.1.stack, this.1.sub, this.1.fw, this.1.allocs, this.1.arr,
    this.1.nextId⟩, this.2⟩

theorem handleH2_ok (σ : St) (e : SEv) (hm : MapInv σ) (hu : UpOk σ) :
    Same σ (σ.handleH2 e).1 ∧ UpOk (σ.handleH2 e).1 := by
  have cc := closeConnection_ok σ hm hu
  have rf : Same σ σ ∧ UpOk σ := ⟨Same.refl σ, hu⟩
  cases e with
  | respHdr o fin ok =>
    simp only [St.handleH2]
    split
    · exact cc
    · split
      · exact cc
      · have hm' : MapInv ({ σ with ms := aset o true σ.ms } : St) := ⟨hm.fwd, hm.bwd, hm.lt⟩
        have := upward_ok ({ σ with ms := aset o true σ.ms } : St) o (.hdr fin) hm' hu
        exact ⟨⟨this.1.ours, this.1.theirs, this.1.queue, this.1.stack, this.1.sub, this.1.fw, this.1.allocs,
          this.1.arr, this.1.nextId⟩, this.2⟩
  | respData o len fin =>
    simp only [St.handleH2]
    split
    · split
      · exact rf
      · exact upward_ok σ o (.data len) hm hu
    · exact cc
    · exact rf
  | respTrailers o => exact upward_ok σ o .trailers hm hu
  | ended o =>
    simp only [St.handleH2]
    have h1 : Same σ (if alookup o σ.ms == some true then σ.upward o .eom else σ) ∧
        UpOk (if alookup o σ.ms == some true then σ.upward o .eom else σ) := by
      split
      · exact upward_ok σ o .eom hm hu
      · exact rf
    generalize (if alookup o σ.ms == some true then σ.upward o .eom else σ) = X at h1 ⊢
    split
    · exact ⟨⟨h1.1.ours, h1.1.theirs, h1.1.queue, h1.1.stack, h1.1.sub, h1.1.fw, h1.1.allocs, h1.1.arr, h1.1.nextId⟩, h1.2⟩
    · exact h1
  | reset o =>
    simp only [St.handleH2]
    split
    · have := upward_ok σ o .err hm hu
      exact ⟨⟨this.1.ours, this.1.theirs, this.1.queue, this.1.stack, this.1.sub, this.1.fw, this.1.allocs,
        this.1.arr, this.1.nextId⟩, this.2⟩
    · exact rf
  | protoErr => exact cc
  | goaway => exact cc
  | settings a b c => exact ⟨⟨rfl, rfl, rfl, rfl, rfl, rfl, rfl, rfl, rfl⟩, hu⟩
  | winUpd a b => exact rf
  | info a => exact rf
  | other => exact rf

theorem handleAll_ok (evs : List SEv) (σ : St) (hm : MapInv σ) (hu : UpOk σ) :
    Same σ (St.handleAll σ evs) ∧ UpOk (St.handleAll σ evs) := by
  induction evs generalizing σ with
  | nil => exact ⟨Same.refl σ, hu⟩
  | cons e rest ih =>
    have h1 := handleH2_ok σ e hm hu
    simp only [St.handleAll]
    split
    · exact h1
    · have := ih (σ.handleH2 e).1 (mapInv_of_same h1.1 hm) h1.2
      exact ⟨h1.1.trans this.1, this.2⟩

theorem midInv_of_same {σ σ' : St} (hs : Same σ σ') (hu : UpOk σ') (h : QInv σ) : MidInv σ' := by
  refine ⟨mapInv_of_same hs h.map, ⟨?_, ?_⟩, ?_, ?_, ?_, ?_, ?_, hu⟩
  · simpa [qkeys, hs.queue] using h.q.nodup
  · intro p hp; rw [hs.queue] at hp; rw [hs.ours]; exact h.q.ent p hp
  · intro q hq; rw [hs.stack, h.st] at hq; simp at hq
  · intro t
    have := h.cons t
    simpa [fwOf, qOf, hs.fw, hs.queue, hs.stack, hs.sub] using this
  · intro e he; rw [hs.fw] at he; rw [hs.ours]; exact h.fw e he
  · intro a ha; rw [hs.allocs] at ha; exact h.al a ha
  · have := h.arr
    simpa [opened, qkeys, hs.allocs, hs.queue, hs.arr] using this

/-- the invariant of the whole model -/
structure Inv (σ : St) : Prop where
  map : MapInv σ
  up : UpOk σ
  live : σ.closed = false → QInv σ

theorem failQueued_inv (σ : St) (hm : MapInv σ) (hu : UpOk σ) (hc : σ.closed = true) : Inv σ.failQueued := by
  refine ⟨⟨hm.fwd, hm.bwd, hm.lt⟩, ?_, ?_⟩
  · intro u hu' o ho
    have hu'' : u ∈ σ.up ++ σ.queue.map (fun p => (p.1, UpKind.err, none)) := hu'
    rcases List.mem_append.mp hu'' with h1 | h1
    · exact hu u h1 o ho
    · simp only [List.mem_map] at h1
      obtain ⟨p, _, rfl⟩ := h1
      simp at ho
  · intro hcf
    have : σ.failQueued.closed = σ.closed := rfl
    rw [this, hc] at hcf; simp at hcf

theorem step_server_inv (σ : St) (evs : List SEv) (h : Inv σ) : Inv (σ.step (.server evs)) := by
  simp only [St.step]
  by_cases hc : σ.closed = true
  · rw [if_pos hc]; exact h
  · have hcf : σ.closed = false := by simpa using hc
    rw [if_neg hc]
    have hq := h.live hcf
    -- absorbing the segment into hyper-h2's state touches nothing of the mapping
    let σa : St := { σ with conn := σ.conn.absorb evs,
                            maxc := evs.foldl (fun m e => match e with | .settings (some v) _ _ => v | _ => m) σ.maxc }
    have hsa : Same σ σa := ⟨rfl, rfl, rfl, rfl, rfl, rfl, rfl, rfl, rfl⟩
    have hma : MapInv σa := mapInv_of_same hsa h.map
    have hua : UpOk σa := h.up
    have hb := handleAll_ok evs σa hma hua
    have hsb : Same σ (St.handleAll σa evs) := hsa.trans hb.1
    show Inv (if (St.handleAll σa evs).closed = true then (St.handleAll σa evs).failQueued
      else St.drain ((St.handleAll σa evs).resume.pending + 1) (St.handleAll σa evs).resume)
    by_cases hcb : (St.handleAll σa evs).closed = true
    · simp only [hcb, if_true]
      exact failQueued_inv _ (mapInv_of_same hsb h.map) hb.2 hcb
    · have hcbf : (St.handleAll σa evs).closed = false := by simpa using hcb
      simp only [hcb, if_false]
      have hmid := midInv_of_same hsb hb.2 hq
      have hdr := resume_inv _ hmid
      have hcl : (St.handleAll σa evs).resume.closed = false := by rw [(resume_pending _).2]; exact hcbf
      have := drain_inv ((St.handleAll σa evs).resume.pending + 1) _ hdr hcl (by omega)
      exact ⟨this.1.map, this.1.up, fun _ => this.1⟩

theorem step_connClosed_inv (σ : St) (h : Inv σ) : Inv (σ.step .connClosed) := by
  simp only [St.step]
  by_cases hc : σ.closed = true
  · rw [if_pos hc]; exact h
  · rw [if_neg hc]
    have cc := closeConnection_ok σ h.map h.up
    exact failQueued_inv _ (mapInv_of_same cc.1 h.map) cc.2 rfl

theorem init_inv : Inv St.init := by
  have hm : MapInv St.init :=
    ⟨by intro t o hh; simp [St.init, alookup] at hh, by intro o t hh; simp [St.init, alookup] at hh,
     by intro o t hh; simp [St.init, alookup] at hh⟩
  have hu : UpOk St.init := by intro u hu; simp [St.init] at hu
  exact ⟨hm, hu, fun _ => ⟨hm, ⟨by simp [qkeys, St.init], by intro p hp; simp [St.init] at hp⟩, rfl, fun t => rfl,
    by intro e he; simp [St.init] at he, by intro a ha; simp [St.init] at ha, rfl, hu, Or.inl rfl⟩⟩

/-- the states the real client can be in: the HTTP layer hands over, per stream, the request head first and once -/
inductive Reach : St → Prop where
  | init : Reach St.init
  | client (σ : St) (t : Nat) (ev : Ev) : Reach σ → Good σ t ev → Reach (σ.step (.client t ev))
  | server (σ : St) (evs : List SEv) : Reach σ → Reach (σ.step (.server evs))
  | connClosed (σ : St) : Reach σ → Reach (σ.step .connClosed)

theorem reach_inv (σ : St) (h : Reach σ) : Inv σ := by
  induction h with
  | init => exact init_inv
  | client σ t ev _ hg ih =>
    by_cases hc : σ.closed = true
    · have : σ.step (.client t ev) = σ := by simp [St.step, hc]
      rw [this]; exact ih
    · have hcf : σ.closed = false := by simpa using hc
      have := step_client_inv σ t ev (ih.live hcf) hcf hg
      exact ⟨this.1.map, this.1.up, fun _ => this.1⟩
  | server σ evs _ ih => exact step_server_inv σ evs ih
  | connClosed σ _ ih => exact step_connClosed_inv σ ih

end MitmVerif.C05

