/-
  Lemmas for C05: the callers' discipline (`CanSubmit`) derived from the grammar of the events the HTTP layer hands to
  `Http2Client` — per upstream stream, what is buffered stays well-formed through every operation.
-/
import MitmVerif.Lemmas.C05_Map
namespace MitmVerif.C05
open MitmVerif

def noFin (l : List Chunk) : Prop := ∀ x ∈ l, x.fin = false

/-- what is kept for an upstream stream `o` that may still send: only the last buffered chunk may end the stream; as
    long as the request body is still open (`opn`) nothing buffered ends it; once trailers were handed over (`trd`) they
    are waiting in `stream_trailers` -/
def Keeps (c : Conn) (o : Nat) (opn trd : Bool) : Prop :=
  c.liveS o = true → finLast (c.buf o) ∧ (opn = true → noFin (c.buf o)) ∧ (trd = true → o ∈ c.trl)

theorem keeps_of_eq (c c' : Conn) (o : Nat) (opn trd : Bool) (hl : c'.liveS o = true → c.liveS o = true)
    (hb : c'.buf o = c.buf o) (ht : o ∈ c.trl → o ∈ c'.trl) (h : Keeps c o opn trd) : Keeps c' o opn trd := by
  intro hl'
  have := h (hl hl')
  rw [hb]
  exact ⟨this.1, this.2.1, fun e => ht (this.2.2 e)⟩

theorem noFin_of_finLast_tail (ch : Chunk) (rest : List Chunk) (h : noFin (ch :: rest)) : noFin rest :=
  fun x hx => h x (List.mem_cons_of_mem _ hx)

theorem trl_rawSend (c : Conn) (s : Nat) (d : Bytes) (fin : Bool) : (c.rawSend s d fin).trl = c.trl := by
  unfold Conn.rawSend Conn.updS; split <;> rfl

theorem trl_rawTrailers (c : Conn) (s : Nat) : (c.rawTrailers s).trl = c.trl := by
  unfold Conn.rawTrailers Conn.updS; split <;> rfl

theorem liveS_rawTrailers_same (c : Conn) (s : Nat) : (c.rawTrailers s).liveS s = false := by
  unfold Conn.rawTrailers
  show (Conn.liveS (c.updS s _) s) = false
  unfold Conn.liveS
  rw [dead_updS, getS_updS]
  simp only [if_true]
  cases c.getS s with
  | none => simp
  | some st => simp [Stream.live]

theorem liveS_rawSend_fin (c : Conn) (s : Nat) (d : Bytes) : (c.rawSend s d true).liveS s = false := by
  unfold Conn.rawSend
  show (Conn.liveS (c.updS s _) s) = false
  unfold Conn.liveS
  rw [dead_updS, getS_updS]
  simp only [if_true]
  cases c.getS s with
  | none => simp
  | some st => simp [Stream.live]

/-- flushing `s` never takes another stream's trailers away -/
theorem flushLoop_trl_other (f : Nat) (c : Conn) (s o : Nat) (w : Int) (sent : Bool) (h : s ≠ o) (ht : o ∈ c.trl) :
    o ∈ (Conn.flushLoop f c s w sent).1.trl := by
  induction f generalizing c w sent with
  | zero => exact ht
  | succ f ih =>
    unfold Conn.flushLoop
    by_cases hw : w > 0
    · simp only [hw, if_true]
      cases hb : c.buf s with
      | nil => exact ht
      | cons ch rest =>
        simp only []
        by_cases hbig : (ch.data.length : Int) > min w (c.mfs : Int)
        · simp only [hbig, if_true, List.isEmpty_cons, Bool.false_eq_true, if_false]
          apply ih
          show o ∈ (c.rawSend s _ false).trl
          rw [trl_rawSend]; exact ht
        · simp only [hbig, if_false]
          by_cases hre : rest.isEmpty = true
          · simp only [hre, if_true]
            split
            · apply ih
              show o ∈ (c.rawSend s ch.data ch.fin).trl.filter (· != s)
              rw [trl_rawSend]
              refine List.mem_filter.mpr ⟨ht, ?_⟩
              simp only [bne_iff_ne, ne_eq]
              exact fun e => h e.symm
            · apply ih
              show o ∈ (c.rawSend s ch.data ch.fin).trl
              rw [trl_rawSend]; exact ht
          · simp only [hre, Bool.false_eq_true, if_false]
            apply ih
            show o ∈ (c.rawSend s ch.data ch.fin).trl
            rw [trl_rawSend]; exact ht
    · simp only [hw, if_false]; exact ht

/-- the flush loop on `s`: for every stream `o` what is kept stays kept -/
theorem flushLoop_keeps (f : Nat) (c : Conn) (s o : Nat) (w : Int) (sent : Bool) (opn trd : Bool)
    (h : Keeps c o opn trd) : Keeps (Conn.flushLoop f c s w sent).1 o opn trd := by
  induction f generalizing c w sent with
  | zero => exact h
  | succ f ih =>
    unfold Conn.flushLoop
    by_cases hw : w > 0
    · simp only [hw, if_true]
      cases hb : c.buf s with
      | nil => exact h
      | cons ch rest =>
        simp only []
        by_cases hso : s = o
        · subst hso
          by_cases hbig : (ch.data.length : Int) > min w (c.mfs : Int)
          · simp only [hbig, if_true, List.isEmpty_cons, Bool.false_eq_true, if_false]
            apply ih
            intro hl
            have hl0 : c.liveS s = true := by
              have e : (c.rawSend s (ch.data.take (min w (c.mfs : Int)).toNat) false).liveS s = c.liveS s :=
                liveS_rawSend_nofin c s s _
              rw [← e]; exact hl
            have k := h hl0
            rw [hb] at k
            rw [buf_aset]; simp only [if_true]
            refine ⟨finLast_split ch rest _ k.1, ?_, ?_⟩
            · intro ho x hx
              rcases List.mem_cons.mp hx with h1 | h1
              · subst h1; exact k.2.1 ho ch (by simp)
              · exact k.2.1 ho x (List.mem_cons_of_mem _ h1)
            · intro ht
              show s ∈ (c.rawSend s _ false).trl
              rw [trl_rawSend]; exact k.2.2 ht
          · simp only [hbig, if_false]
            by_cases hre : rest.isEmpty = true
            · simp only [hre, if_true]
              split
              · -- trailers go out: the stream cannot send any more
                apply ih
                intro hl
                exfalso
                have : (Conn.rawTrailers ({ (c.rawSend s ch.data ch.fin) with bufs := aerase s (c.rawSend s ch.data ch.fin).bufs } : Conn) s).liveS s = false :=
                  liveS_rawTrailers_same _ s
                have hl' : (Conn.rawTrailers ({ (c.rawSend s ch.data ch.fin) with bufs := aerase s (c.rawSend s ch.data ch.fin).bufs } : Conn) s).liveS s = true := hl
                rw [this] at hl'; cases hl'
              · rename_i hnt
                apply ih
                intro hl
                have hl1 : (c.rawSend s ch.data ch.fin).liveS s = true := hl
                have hfin : ch.fin = false := by
                  cases hf : ch.fin with
                  | false => rfl
                  | true => rw [hf, liveS_rawSend_fin] at hl1; cases hl1
                have hl0 : c.liveS s = true := by rw [hfin, liveS_rawSend_nofin] at hl1; exact hl1
                have k := h hl0
                rw [buf_aerase]; simp only [if_true]
                refine ⟨trivial, fun _ x hx => by simp at hx, ?_⟩
                intro ht
                have : s ∈ c.trl := k.2.2 ht
                exfalso
                apply hnt
                show ({ (c.rawSend s ch.data ch.fin) with bufs := aerase s (c.rawSend s ch.data ch.fin).bufs } : Conn).trl.contains s = true
                show (c.rawSend s ch.data ch.fin).trl.contains s = true
                rw [trl_rawSend]; simpa using this
            · simp only [hre, Bool.false_eq_true, if_false]
              apply ih
              intro hl
              have hl1 : (c.rawSend s ch.data ch.fin).liveS s = true := hl
              have hfin : ch.fin = false := by
                cases hf : ch.fin with
                | false => rfl
                | true => rw [hf, liveS_rawSend_fin] at hl1; cases hl1
              have hl0 : c.liveS s = true := by rw [hfin, liveS_rawSend_nofin] at hl1; exact hl1
              have k := h hl0
              rw [hb] at k
              rw [buf_aset]; simp only [if_true]
              refine ⟨finLast_tail ch rest k.1, fun ho => noFin_of_finLast_tail ch rest (k.2.1 ho), ?_⟩
              intro ht
              show s ∈ (c.rawSend s ch.data ch.fin).trl
              rw [trl_rawSend]; exact k.2.2 ht
        · -- another stream is flushed: `o` is untouched
          have oth := flushLoop_other (f + 1) c s o w sent hso
          have tr := flushLoop_trl_other (f + 1) c s o w sent hso
          unfold Conn.flushLoop at oth tr
          simp only [hw, if_true, hb] at oth tr
          exact keeps_of_eq c _ o opn trd (fun e => by rw [← oth.2]; exact e) oth.1 tr h
    · simp only [hw, if_false]; exact h

theorem keeps_erase (c : Conn) (s o : Nat) (opn trd : Bool) (hs : c.liveS s = false) (h : Keeps c o opn trd) :
    Keeps ({ c with bufs := aerase s c.bufs } : Conn) o opn trd := by
  intro hl
  have hl0 : c.liveS o = true := hl
  have hso : s ≠ o := by intro e; subst e; rw [hs] at hl0; cases hl0
  have k := h hl0
  rw [buf_aerase]; simp only [hso, if_false]
  exact k

theorem streamWindowUpdated_keeps (c : Conn) (s o : Nat) (opn trd : Bool) (h : Keeps c o opn trd) :
    Keeps (c.streamWindowUpdated s).1 o opn trd := by
  unfold Conn.streamWindowUpdated
  by_cases hl : c.liveS s = true
  · simp only [hl, Bool.not_true, Bool.false_eq_true, if_false]
    exact flushLoop_keeps _ c s o _ _ opn trd h
  · simp only [hl, Bool.not_false, if_true]
    exact keeps_erase c s o opn trd (by simpa using hl) h

theorem rrPass_keeps (l : List Nat) (c : Conn) (sent : Bool) (o : Nat) (opn trd : Bool) (h : Keeps c o opn trd) :
    Keeps (Conn.rrPass l c sent).1 o opn trd := by
  induction l generalizing c sent with
  | nil => exact h
  | cons s rest ih =>
    unfold Conn.rrPass
    let c1 : Conn := { c with bufs := aerase s c.bufs ++ [(s, c.buf s)] }
    have h1 : Keeps c1 o opn trd := keeps_of_eq c c1 o opn trd (fun e => e) (buf_moveToEnd c s o) (fun e => e) h
    have sw := streamWindowUpdated_keeps c1 s o opn trd h1
    simp only []
    cases hsw : c1.streamWindowUpdated s with
    | mk c2 b =>
      rw [hsw] at sw
      simp only [] at sw
      cases b with
      | true =>
        simp only [if_true]
        split
        · exact sw
        · exact ih c2 true sw
      | false =>
        simp only [Bool.false_eq_true, if_false]
        exact ih c2 sent sw

theorem connWindowUpdated_keeps (f : Nat) (c : Conn) (o : Nat) (opn trd : Bool) (h : Keeps c o opn trd) :
    Keeps (Conn.connWindowUpdated f c) o opn trd := by
  induction f generalizing c with
  | zero => exact h
  | succ f ih =>
    unfold Conn.connWindowUpdated
    have p := rrPass_keeps (c.bufs.map (·.1)) c false o opn trd h
    cases hp : Conn.rrPass (c.bufs.map (·.1)) c false with
    | mk c2 rest =>
      obtain ⟨sent, early⟩ := rest
      rw [hp] at p
      simp only [] at p ⊢
      split
      · exact p
      · exact ih c2 p

/-! ### what an operation on stream `s` leaves alone -/

/-- stream `o` looks the same in `c'` as in `c` -/
def Untouched (c c' : Conn) (o : Nat) : Prop :=
  c'.buf o = c.buf o ∧ c'.liveS o = c.liveS o ∧ c'.getS o = c.getS o ∧ (o ∈ c'.trl ↔ o ∈ c.trl)

theorem Untouched.rfl' (c : Conn) (o : Nat) : Untouched c c o := ⟨rfl, rfl, rfl, Iff.rfl⟩

theorem Untouched.trans {a b c : Conn} {o : Nat} (h1 : Untouched a b o) (h2 : Untouched b c o) : Untouched a c o :=
  ⟨h2.1.trans h1.1, h2.2.1.trans h1.2.1, h2.2.2.1.trans h1.2.2.1, h2.2.2.2.trans h1.2.2.2⟩

theorem keeps_untouched {c c' : Conn} {o : Nat} (opn trd : Bool) (u : Untouched c c' o) (h : Keeps c o opn trd) :
    Keeps c' o opn trd :=
  keeps_of_eq c c' o opn trd (fun e => by rw [← u.2.1]; exact e) u.1 u.2.2.2.mpr h

theorem getS_rawSend_ne (c : Conn) (s o : Nat) (d : Bytes) (fin : Bool) (h : s ≠ o) :
    (c.rawSend s d fin).getS o = c.getS o := by
  unfold Conn.rawSend
  show (c.updS s _).getS o = _
  rw [getS_updS]; simp [h]

theorem getS_rawSend_isSome (c : Conn) (s o : Nat) (d : Bytes) (fin : Bool) :
    ((c.rawSend s d fin).getS o).isSome = (c.getS o).isSome := by
  unfold Conn.rawSend
  show ((c.updS s _).getS o).isSome = _
  rw [getS_updS]; split <;> simp

theorem rawSend_untouched (c : Conn) (s o : Nat) (d : Bytes) (fin : Bool) (h : s ≠ o) :
    Untouched c (c.rawSend s d fin) o :=
  ⟨(held_rawSend c s o d fin).2, liveS_rawSend_ne c s o d fin h, getS_rawSend_ne c s o d fin h, by rw [trl_rawSend]⟩

theorem appendBuf_untouched (c : Conn) (s o : Nat) (ch : Chunk) (h : s ≠ o) : Untouched c (c.appendBuf s ch) o :=
  ⟨by rw [buf_appendBuf]; simp [h], rfl, rfl, Iff.rfl⟩

theorem sendData1_untouched (c : Conn) (s o : Nat) (d : Bytes) (fin : Bool) (h : s ≠ o) :
    Untouched c (c.sendData1 s d fin) o := by
  unfold Conn.sendData1
  split
  · exact appendBuf_untouched c s o _ h
  · simp only []
    split
    · exact rawSend_untouched c s o d fin h
    · split
      · exact (rawSend_untouched c s o _ false h).trans (appendBuf_untouched _ s o _ h)
      · exact appendBuf_untouched c s o _ h

theorem sendPieces_untouched (f : Nat) (c : Conn) (s o : Nat) (d : Bytes) (fin : Bool) (h : s ≠ o) :
    Untouched c (Conn.sendPieces f c s d fin) o := by
  induction f generalizing c d with
  | zero => exact Untouched.rfl' c o
  | succ f ih =>
    unfold Conn.sendPieces
    split
    · exact sendData1_untouched c s o d fin h
    · exact (sendData1_untouched c s o _ false h).trans (ih _ _)

theorem sendData_untouched (c : Conn) (s o : Nat) (d : Bytes) (fin : Bool) (h : s ≠ o) :
    Untouched c (c.sendData s d fin) o := by
  unfold Conn.sendData
  split
  · exact sendPieces_untouched _ c s o d fin h
  · exact sendData1_untouched c s o d fin h

theorem rawTrailers_untouched (c : Conn) (s o : Nat) (h : s ≠ o) : Untouched c (c.rawTrailers s) o := by
  refine ⟨(held_rawTrailers c s o).2, liveS_rawTrailers_ne c s o h, ?_, by rw [trl_rawTrailers]⟩
  unfold Conn.rawTrailers
  show (c.updS s _).getS o = _
  rw [getS_updS]; simp [h]

theorem sendTrailers_untouched (c : Conn) (s o : Nat) (h : s ≠ o) : Untouched c (c.sendTrailers s) o := by
  unfold Conn.sendTrailers
  split
  · refine ⟨rfl, rfl, rfl, ?_⟩
    show o ∈ (if c.trl.contains s then c.trl else c.trl ++ [s]) ↔ _
    split
    · exact Iff.rfl
    · simp [List.mem_append]
      intro e; exact absurd e.symm h
  · exact rawTrailers_untouched c s o h

theorem endStream_untouched (c : Conn) (s o : Nat) (h : s ≠ o) : Untouched c (c.endStream s) o := by
  unfold Conn.endStream
  split
  · exact Untouched.rfl' c o
  · exact sendData_untouched c s o [] true h

theorem resetStream_untouched (c : Conn) (s o : Nat) (h : s ≠ o) : Untouched c (c.resetStream s) o := by
  unfold Conn.resetStream
  simp only []
  refine ⟨?_, ?_, ?_, ?_⟩
  · show (Conn.updS ({ c with bufs := aerase s c.bufs } : Conn) s _).buf o = _
    rw [buf_updS, buf_aerase]; simp [h]
  · show (Conn.updS ({ c with bufs := aerase s c.bufs } : Conn) s _).liveS o = _
    rw [liveS_updS _ s o _ (by intro x e; exact absurd e h)]
    exact liveS_congr _ _ rfl rfl o
  · show (Conn.updS ({ c with bufs := aerase s c.bufs } : Conn) s _).getS o = _
    rw [getS_updS]; simp only [h, if_false]; rfl
  · show o ∈ (Conn.updS ({ c with bufs := aerase s c.bufs } : Conn) s _).trl ↔ _
    have : (Conn.updS ({ c with bufs := aerase s c.bufs } : Conn) s (fun st => { st with rst := true })).trl = c.trl := by
      unfold Conn.updS; split <;> rfl
    rw [this]

theorem liveS_resetStream_same (c : Conn) (s : Nat) : (c.resetStream s).liveS s = false := by
  unfold Conn.resetStream
  simp only []
  show (Conn.updS ({ c with bufs := aerase s c.bufs } : Conn) s (fun st => { st with rst := true })).liveS s = false
  unfold Conn.liveS
  rw [dead_updS, getS_updS]
  simp only [if_true]
  cases ({ c with bufs := aerase s c.bufs } : Conn).getS s with
  | none => simp
  | some st => simp [Stream.live]

/-! ### the operation's own stream -/

theorem trl_sendData1 (c : Conn) (s : Nat) (d : Bytes) (fin : Bool) : (c.sendData1 s d fin).trl = c.trl := by
  unfold Conn.sendData1
  split
  · rfl
  · simp only []
    split
    · exact trl_rawSend c s d fin
    · split
      · exact trl_rawSend c s _ false
      · rfl

theorem trl_sendPieces (f : Nat) (c : Conn) (s : Nat) (d : Bytes) (fin : Bool) : (Conn.sendPieces f c s d fin).trl = c.trl := by
  induction f generalizing c d with
  | zero => rfl
  | succ f ih =>
    unfold Conn.sendPieces
    split
    · exact trl_sendData1 c s d fin
    · exact (ih _ _).trans (trl_sendData1 c s _ false)

theorem trl_sendData (c : Conn) (s : Nat) (d : Bytes) (fin : Bool) : (c.sendData s d fin).trl = c.trl := by
  unfold Conn.sendData
  split
  · exact trl_sendPieces _ c s d fin
  · exact trl_sendData1 c s d fin

theorem finLast_of_noFin (l : List Chunk) (h : noFin l) : finLast l := by
  induction l with
  | nil => trivial
  | cons a rest ih =>
    have := ih (fun x hx => h x (List.mem_cons_of_mem _ hx))
    cases rest with
    | nil => trivial
    | cons b r => exact ⟨h a (by simp), this⟩

theorem streamOk_of_can (c : Conn) (s : Nat) (hc : CanSubmit c s) : StreamOk c s :=
  ⟨fun hl => by rw [hc.1] at hl; exact Bool.noConfusion hl, finLast_of_noFin _ hc.2⟩

theorem sendPieces_can (f : Nat) (c : Conn) (s : Nat) (d : Bytes) (hc : CanSubmit c s) :
    CanSubmit (Conn.sendPieces f c s d false) s := by
  induction f generalizing c d with
  | zero => exact hc
  | succ f ih =>
    unfold Conn.sendPieces
    split
    · exact (sendData1_ok c s s d false hc (streamOk_of_can c s hc)).2 rfl
    · exact ih _ _ ((sendData1_ok c s s (d.take c.mfs) false hc (streamOk_of_can c s hc)).2 rfl)

theorem sendData_can (c : Conn) (s : Nat) (d : Bytes) (hc : CanSubmit c s) : CanSubmit (c.sendData s d false) s := by
  unfold Conn.sendData
  split
  · exact sendPieces_can _ c s d hc
  · exact (sendData1_ok c s s d false hc (streamOk_of_can c s hc)).2 rfl

/-- `send_data` on a stream that may still send and whose request body is still open -/
theorem sendData_keeps_self (c : Conn) (s : Nat) (d : Bytes) (trd : Bool) (hl : c.liveS s = true)
    (h : Keeps c s true trd) : Keeps (c.sendData s d false) s true trd := by
  have k := h hl
  have hc : CanSubmit c s := ⟨hl, k.2.1 rfl⟩
  have c2 := sendData_can c s d hc
  intro _
  refine ⟨finLast_of_noFin _ c2.2, fun _ => c2.2, fun e => ?_⟩
  rw [trl_sendData]; exact k.2.2 e

/-- `end_stream` -/
theorem endStream_keeps_self (c : Conn) (s : Nat) (opn trd : Bool) (hl : c.liveS s = true)
    (hopen : trd = false → opn = true) (h : Keeps c s opn trd) : Keeps (c.endStream s) s false trd := by
  have k := h hl
  unfold Conn.endStream
  split
  · intro _; exact ⟨k.1, fun e => Bool.noConfusion e, k.2.2⟩
  · rename_i hnt
    have htrd : trd = false := by
      cases ht : trd with
      | false => rfl
      | true =>
        exfalso; apply hnt
        have := k.2.2 ht
        simpa using this
    have hc : CanSubmit c s := ⟨hl, k.2.1 (hopen htrd)⟩
    have ok := sendData_ok c s s [] true hc (streamOk_of_can c s hc)
    intro _
    exact ⟨ok.2, fun e => Bool.noConfusion e, fun e => by rw [htrd] at e; exact Bool.noConfusion e⟩

/-- `send_trailers` -/
theorem sendTrailers_keeps_self (c : Conn) (s : Nat) (opn trd : Bool) (hl : c.liveS s = true)
    (h : Keeps c s opn trd) : Keeps (c.sendTrailers s) s false true := by
  have k := h hl
  unfold Conn.sendTrailers
  split
  · intro _
    refine ⟨k.1, fun e => Bool.noConfusion e, fun _ => ?_⟩
    show s ∈ (if c.trl.contains s then c.trl else c.trl ++ [s])
    split
    · rename_i hc; simpa using hc
    · simp
  · intro hl'
    rw [liveS_rawTrailers_same] at hl'; cases hl'

/-! ### hyper-h2's own bookkeeping for a received segment -/

/-- buffers and trailers are the same, no stream came to life, no stream appeared or vanished -/
def Weak (c c' : Conn) : Prop :=
  c'.bufs = c.bufs ∧ c'.trl = c.trl ∧ (∀ o, c'.liveS o = true → c.liveS o = true) ∧
  (∀ o, (c'.getS o).isSome = (c.getS o).isSome)

theorem Weak.rfl' (c : Conn) : Weak c c := ⟨rfl, rfl, fun _ e => e, fun _ => rfl⟩

theorem updS_weak (c : Conn) (s : Nat) (f : Stream → Stream) (hf : ∀ x, (f x).live = true → x.live = true) :
    Weak c (c.updS s f) := by
  refine ⟨by unfold Conn.updS; split <;> rfl, by unfold Conn.updS; split <;> rfl, ?_, ?_⟩
  · intro o
    unfold Conn.liveS
    rw [dead_updS, getS_updS]
    by_cases h : s = o
    · simp only [h, if_true]
      cases c.getS o with
      | none => exact fun e => e
      | some st =>
        simp only [Option.map_some]
        intro e
        simp only [Bool.and_eq_true] at e ⊢
        exact ⟨e.1, hf st e.2⟩
    · simp only [h, if_false]; exact fun e => e
  · intro o
    rw [getS_updS]; split <;> simp

theorem alookup_map_snd {α β : Type} (k : Nat) (g : α → β) (l : List (Nat × α)) :
    alookup k (l.map fun p => (p.1, g p.2)) = (alookup k l).map g := by
  induction l with
  | nil => rfl
  | cons p rest ih =>
    obtain ⟨k', v⟩ := p
    by_cases h : k' = k <;> simp [alookup, h, ih]

theorem keeps_weak {c c' : Conn} (o : Nat) (opn trd : Bool) (w : Weak c c') (h : Keeps c o opn trd) :
    Keeps c' o opn trd :=
  keeps_of_eq c c' o opn trd (w.2.2.1 o) (by unfold Conn.buf; rw [w.1]) (by rw [w.2.1]; exact fun e => e) h

theorem Weak.trans {a b c : Conn} (h1 : Weak a b) (h2 : Weak b c) : Weak a c :=
  ⟨h2.1.trans h1.1, h2.2.1.trans h1.2.1, fun o e => h1.2.2.1 o (h2.2.2.1 o e), fun o => (h2.2.2.2 o).trans (h1.2.2.2 o)⟩

theorem iws_weak (c1 : Conn) (w : Nat) (delta : Int) :
    Weak c1 ({ c1 with iws := w, streams := c1.streams.map fun (p : Nat × Stream) => (p.1, { p.2 with win := p.2.win + delta }) } : Conn) := by
  have hl := alookup_map_snd (g := fun (st : Stream) => ({ st with win := st.win + delta } : Stream))
  refine ⟨rfl, rfl, ?_, ?_⟩
  · intro o
    unfold Conn.liveS Conn.getS
    simp only []
    have := hl o c1.streams
    rw [this]
    cases alookup o c1.streams with
    | none => exact fun e => e
    | some st => simp [Stream.live]
  · intro o
    unfold Conn.getS
    simp only []
    have := hl o c1.streams
    rw [this]
    cases alookup o c1.streams <;> rfl

theorem absorbH2_weak (c : Conn) (e : SEv) : Weak c (c.absorbH2 e) := by
  cases e with
  | settings m iws mfs =>
    cases mfs with
    | none =>
      cases iws with
      | none => exact Weak.rfl' c
      | some w => exact iws_weak c w _
    | some mf =>
      have hm : Weak c ({ c with mfs := mf } : Conn) := ⟨rfl, rfl, fun _ e => e, fun _ => rfl⟩
      cases iws with
      | none => exact hm
      | some w => exact hm.trans (iws_weak _ w _)
  | winUpd sid n =>
    simp only [Conn.absorbH2]
    split
    · exact ⟨rfl, rfl, fun _ e => e, fun _ => rfl⟩
    · exact updS_weak c sid _ (fun x e => e)
  | respHdr sid fin ok =>
    simp only [Conn.absorbH2]
    split
    · exact updS_weak c sid _ (fun x e => e)
    · exact Weak.rfl' c
  | respData sid len fin =>
    simp only [Conn.absorbH2]
    split
    · exact updS_weak c sid _ (fun x e => e)
    · exact Weak.rfl' c
  | respTrailers sid => exact updS_weak c sid _ (fun x e => e)
  | reset sid =>
    exact updS_weak c sid _ (fun x e => by simp [Stream.live] at e)
  | goaway =>
    refine ⟨rfl, rfl, ?_, fun _ => rfl⟩
    intro o e
    simp [Conn.absorbH2, Conn.liveS] at e
  | info _ => exact Weak.rfl' c
  | ended _ => exact Weak.rfl' c
  | protoErr => exact Weak.rfl' c
  | other => exact Weak.rfl' c

theorem foldl_absorbH2_weak (evs : List SEv) (c : Conn) : Weak c (evs.foldl Conn.absorbH2 c) := by
  induction evs generalizing c with
  | nil => exact Weak.rfl' c
  | cons e rest ih => exact (absorbH2_weak c e).trans (ih _)

/-! ### streams hyper-h2 does not know have nothing buffered -/

def NoneOk (c : Conn) (o : Nat) : Prop := c.getS o = none → c.buf o = [] ∧ o ∉ c.trl

theorem getS_rawTrailers_isSome (c : Conn) (s o : Nat) : ((c.rawTrailers s).getS o).isSome = (c.getS o).isSome := by
  unfold Conn.rawTrailers
  show ((c.updS s _).getS o).isSome = _
  rw [getS_updS]; split <;> simp

theorem flushLoop_sub (f : Nat) (c : Conn) (s o : Nat) (w : Int) (sent : Bool) :
    ((Conn.flushLoop f c s w sent).1.getS o).isSome = (c.getS o).isSome ∧
    (o ∈ (Conn.flushLoop f c s w sent).1.trl → o ∈ c.trl) := by
  induction f generalizing c w sent with
  | zero => exact ⟨rfl, fun e => e⟩
  | succ f ih =>
    unfold Conn.flushLoop
    by_cases hw : w > 0
    · simp only [hw, if_true]
      cases hb : c.buf s with
      | nil => exact ⟨rfl, fun e => e⟩
      | cons ch rest =>
        simp only []
        by_cases hbig : (ch.data.length : Int) > min w (c.mfs : Int)
        · simp only [hbig, if_true, List.isEmpty_cons, Bool.false_eq_true, if_false]
          refine ⟨(ih _ _ _).1.trans ?_, fun e => ?_⟩
          · exact getS_rawSend_isSome c s o _ false
          · have := (ih _ _ _).2 e
            have t : o ∈ (c.rawSend s (ch.data.take (min w (c.mfs : Int)).toNat) false).trl := this
            rw [trl_rawSend] at t; exact t
        · simp only [hbig, if_false]
          by_cases hre : rest.isEmpty = true
          · simp only [hre, if_true]
            split
            · refine ⟨(ih _ _ _).1.trans ?_, fun e => ?_⟩
              · show ((Conn.rawTrailers _ s).getS o).isSome = _
                rw [getS_rawTrailers_isSome]
                exact getS_rawSend_isSome c s o _ _
              · have := (ih _ _ _).2 e
                have t : o ∈ (c.rawSend s ch.data ch.fin).trl.filter (· != s) := this
                rw [trl_rawSend] at t
                exact (List.mem_filter.mp t).1
            · refine ⟨(ih _ _ _).1.trans ?_, fun e => ?_⟩
              · exact getS_rawSend_isSome c s o _ _
              · have := (ih _ _ _).2 e
                have t : o ∈ (c.rawSend s ch.data ch.fin).trl := this
                rw [trl_rawSend] at t; exact t
          · simp only [hre, Bool.false_eq_true, if_false]
            refine ⟨(ih _ _ _).1.trans ?_, fun e => ?_⟩
            · exact getS_rawSend_isSome c s o _ _
            · have := (ih _ _ _).2 e
              have t : o ∈ (c.rawSend s ch.data ch.fin).trl := this
              rw [trl_rawSend] at t; exact t
    · simp only [hw, if_false]; exact ⟨trivial, fun e => e⟩

theorem flushLoop_nil (f : Nat) (c : Conn) (s : Nat) (w : Int) (sent : Bool) (h : c.buf s = []) :
    (Conn.flushLoop f c s w sent).1 = c := by
  cases f with
  | zero => rfl
  | succ f =>
    unfold Conn.flushLoop
    split
    · rw [h]
    · rfl

theorem isSome_eq_none {α : Type} {a b : Option α} (h : a.isSome = b.isSome) (ha : a = none) : b = none := by
  subst ha; cases b with
  | none => rfl
  | some x => cases h

theorem flushLoop_noneOk (f : Nat) (c : Conn) (s o : Nat) (w : Int) (sent : Bool) (h : NoneOk c o) :
    NoneOk (Conn.flushLoop f c s w sent).1 o := by
  intro hn
  have sub := flushLoop_sub f c s o w sent
  have k := h (isSome_eq_none sub.1 hn)
  by_cases hs : s = o
  · subst hs
    rw [flushLoop_nil f c s w sent k.1]; exact k
  · exact ⟨(flushLoop_other f c s o w sent hs).1.trans k.1, fun e => k.2 (sub.2 e)⟩

theorem streamWindowUpdated_noneOk (c : Conn) (s o : Nat) (h : NoneOk c o) : NoneOk (c.streamWindowUpdated s).1 o := by
  unfold Conn.streamWindowUpdated
  split
  · intro hn
    have k := h hn
    rw [buf_aerase]
    split
    · exact ⟨rfl, k.2⟩
    · exact k
  · exact flushLoop_noneOk _ c s o _ _ h

theorem rrPass_pres (P : Conn → Prop)
    (hmove : ∀ c s, P c → P ({ c with bufs := aerase s c.bufs ++ [(s, c.buf s)] } : Conn))
    (hsw : ∀ c s, P c → P (c.streamWindowUpdated s).1) (l : List Nat) (c : Conn) (sent : Bool) (h : P c) :
    P (Conn.rrPass l c sent).1 := by
  induction l generalizing c sent with
  | nil => exact h
  | cons s rest ih =>
    unfold Conn.rrPass
    have sw := hsw _ s (hmove c s h)
    simp only []
    cases hsw' : Conn.streamWindowUpdated ({ c with bufs := aerase s c.bufs ++ [(s, c.buf s)] } : Conn) s with
    | mk c2 b =>
      rw [hsw'] at sw
      simp only [] at sw
      cases b with
      | true =>
        simp only [if_true]
        split
        · exact sw
        · exact ih c2 true sw
      | false =>
        simp only [Bool.false_eq_true, if_false]
        exact ih c2 sent sw

theorem connWindowUpdated_pres (P : Conn → Prop)
    (hmove : ∀ c s, P c → P ({ c with bufs := aerase s c.bufs ++ [(s, c.buf s)] } : Conn))
    (hsw : ∀ c s, P c → P (c.streamWindowUpdated s).1) (f : Nat) (c : Conn) (h : P c) :
    P (Conn.connWindowUpdated f c) := by
  induction f generalizing c with
  | zero => exact h
  | succ f ih =>
    unfold Conn.connWindowUpdated
    have p := rrPass_pres P hmove hsw (c.bufs.map (·.1)) c false h
    cases hp : Conn.rrPass (c.bufs.map (·.1)) c false with
    | mk c2 rest =>
      obtain ⟨sent, early⟩ := rest
      rw [hp] at p
      simp only [] at p ⊢
      split
      · exact p
      · exact ih c2 p

theorem connWindowUpdated_noneOk (f : Nat) (c : Conn) (o : Nat) (h : NoneOk c o) : NoneOk (Conn.connWindowUpdated f c) o :=
  connWindowUpdated_pres (fun c => NoneOk c o)
    (fun c s h hn => by
      have k := h hn
      rw [buf_moveToEnd]; exact k)
    (fun c s h => streamWindowUpdated_noneOk c s o h) f c h

theorem absorbBuf_noneOk (c : Conn) (e : SEv) (o : Nat) (h : NoneOk c o) : NoneOk (c.absorbBuf e) o := by
  unfold Conn.absorbBuf
  split
  · exact connWindowUpdated_noneOk _ c o h
  · split
    · exact connWindowUpdated_noneOk _ c o h
    · exact streamWindowUpdated_noneOk c _ o h
  · intro hn
    have k := h hn
    rw [buf_aerase]
    split
    · exact ⟨rfl, k.2⟩
    · exact k
  · intro hn
    exact ⟨rfl, (h hn).2⟩
  · exact h

theorem absorbBuf_keeps (c : Conn) (e : SEv) (o : Nat) (opn trd : Bool) (h : Keeps c o opn trd) :
    Keeps (c.absorbBuf e) o opn trd := by
  unfold Conn.absorbBuf
  split
  · exact connWindowUpdated_keeps _ c o opn trd h
  · split
    · exact connWindowUpdated_keeps _ c o opn trd h
    · exact streamWindowUpdated_keeps c _ o opn trd h
  · rename_i sid
    intro hl
    have k := h hl
    rw [buf_aerase]
    split
    · exact ⟨trivial, fun _ x hx => by simp at hx, k.2.2⟩
    · exact k
  · intro hl
    have k := h hl
    exact ⟨trivial, fun _ x hx => by simp [Conn.buf, alookup] at hx, k.2.2⟩
  · exact h

theorem foldl_absorbBuf_pres (P : Conn → Prop) (hp : ∀ c e, P c → P (c.absorbBuf e)) (evs : List SEv) (c : Conn)
    (h : P c) : P (evs.foldl Conn.absorbBuf c) := by
  induction evs generalizing c with
  | nil => exact h
  | cons e rest ih => exact ih _ (hp c e h)

/-- a received segment (hyper-h2's bookkeeping, then the flushing) keeps what is kept for every stream -/
theorem absorb_keeps (c : Conn) (evs : List SEv) (o : Nat) (opn trd : Bool) (h : Keeps c o opn trd) :
    Keeps (c.absorb evs) o opn trd :=
  foldl_absorbBuf_pres (fun c => Keeps c o opn trd) (fun c e h => absorbBuf_keeps c e o opn trd h) evs _
    (keeps_weak o opn trd (foldl_absorbH2_weak evs c) h)

theorem streamWindowUpdated_isSome (c : Conn) (s o : Nat) :
    ((c.streamWindowUpdated s).1.getS o).isSome = (c.getS o).isSome := by
  unfold Conn.streamWindowUpdated
  split
  · rfl
  · exact (flushLoop_sub _ c s o _ _).1

theorem absorbBuf_isSome (c : Conn) (e : SEv) (o : Nat) (b : Bool) (h : (c.getS o).isSome = b) :
    ((c.absorbBuf e).getS o).isSome = b := by
  have cw : ∀ f c, (c.getS o).isSome = b → ((Conn.connWindowUpdated f c).getS o).isSome = b := fun f c h =>
    connWindowUpdated_pres (fun c => (c.getS o).isSome = b) (fun c s h => h)
      (fun c s h => (streamWindowUpdated_isSome c s o).trans h) f c h
  unfold Conn.absorbBuf
  split
  · exact cw _ c h
  · split
    · exact cw _ c h
    · exact (streamWindowUpdated_isSome c _ o).trans h
  · exact h
  · exact h
  · exact h

/-- a stream hyper-h2 does not know, with nothing buffered, stays that way through a received segment -/
theorem absorb_fresh (c : Conn) (evs : List SEv) (o : Nat) (h : c.getS o = none ∧ c.buf o = [] ∧ o ∉ c.trl) :
    (c.absorb evs).getS o = none ∧ (c.absorb evs).buf o = [] ∧ o ∉ (c.absorb evs).trl := by
  have w := foldl_absorbH2_weak evs c
  unfold Conn.absorb
  generalize evs.foldl Conn.absorbH2 c = c1 at w
  have g1 : (c1.getS o).isSome = false := by rw [w.2.2.2 o, h.1]; rfl
  have n1 : NoneOk c1 o := by
    intro _
    unfold Conn.buf
    rw [w.1, w.2.1]; exact h.2
  have g2 := foldl_absorbBuf_pres (fun c => (c.getS o).isSome = false) (fun c e h => absorbBuf_isSome c e o false h) evs c1 g1
  have n2 := foldl_absorbBuf_pres (fun c => NoneOk c o) (fun c e h => absorbBuf_noneOk c e o h) evs c1 n1
  have g3 : (evs.foldl Conn.absorbBuf c1).getS o = none := by
    cases hg : (evs.foldl Conn.absorbBuf c1).getS o with
    | none => rfl
    | some x =>
      have g2' : ((evs.foldl Conn.absorbBuf c1).getS o).isSome = false := g2
      rw [hg] at g2'; cases g2'
  exact ⟨g3, n2 g3⟩

/-! ### the events of one request, as the HTTP layer hands them over -/

/-- trailers, end of message or an error were handed over -/
def E2 (l : List Ev) : Bool := l.any fun e => match e with | .trailers | .eom | .err => true | _ => false
/-- end of message or an error were handed over -/
def E1 (l : List Ev) : Bool := l.any fun e => match e with | .eom | .err => true | _ => false
def hasT (l : List Ev) : Bool := l.any fun e => match e with | .trailers => true | _ => false

/-- the order `HttpStream` keeps: body data and trailers only while the request is open, trailers once, the end of the
    message once; an error (the stream is cancelled) at any time -/
def allowed (pre : List Ev) : Ev → Bool
  | .data _ => !E2 pre
  | .trailers => !E2 pre
  | .eom => !E1 pre
  | _ => true

def GramOk (l : List Ev) : Prop := ∀ pre e post, l = pre ++ e :: post → allowed pre e = true

theorem gramOk_snoc (l : List Ev) (ev : Ev) (h : GramOk l) (ha : allowed l ev = true) : GramOk (l ++ [ev]) := by
  intro pre e post hh
  rcases List.eq_nil_or_concat post with rfl | ⟨post', x, rfl⟩
  · have := List.append_inj' hh (by simp)
    obtain ⟨e1, e2⟩ := this
    simp at e2; subst e1; subst e2; exact ha
  · have e : l ++ [ev] = (pre ++ e :: post') ++ [x] := by rw [hh]; simp
    have := List.append_inj' e (by simp)
    exact h pre _ post' this.1

theorem E1_le_E2 (l : List Ev) (h : E2 l = false) : E1 l = false := by
  unfold E1 E2 at *
  rw [List.any_eq_false] at *
  intro x hx
  have := h x hx
  cases x <;> simp_all

theorem hasT_le_E2 (l : List Ev) (h : E2 l = false) : hasT l = false := by
  unfold hasT E2 at *
  rw [List.any_eq_false] at *
  intro x hx
  have := h x hx
  cases x <;> simp_all

/-! ### one event handled by `_handle_event2` -/

def procConn (c : Conn) (o : Nat) : Ev → Conn
  | .hdr fin => { c with streams := aset o ⟨c.iws, !fin, true, false⟩ c.streams, out := c.out ++ [Frame.hdr o fin] }
  | .data b => if c.liveS o then c.sendData o b false else c
  | .trailers => if c.liveS o then c.sendTrailers o else c
  | .eom => if c.liveS o then c.endStream o else c
  | .err => if !c.closedS o then c.resetStream o else c

theorem process_conn (σ : St) (o : Nat) (ev : Ev) : (σ.process o ev).conn = procConn σ.conn o ev := by
  cases ev <;> simp only [St.process, procConn] <;> (try split) <;> rfl

theorem procConn_untouched (c : Conn) (o x : Nat) (ev : Ev) (h : o ≠ x) : Untouched c (procConn c o ev) x := by
  cases ev with
  | hdr fin =>
    refine ⟨rfl, ?_, ?_, Iff.rfl⟩
    · unfold Conn.liveS Conn.getS
      simp only [procConn]
      rw [alookup_aset_ne _ _ _ _ (fun e => h e.symm)]
    · unfold Conn.getS
      simp only [procConn]
      rw [alookup_aset_ne _ _ _ _ (fun e => h e.symm)]
  | data b => simp only [procConn]; split; exact sendData_untouched c o x b false h; exact Untouched.rfl' c x
  | trailers => simp only [procConn]; split; exact sendTrailers_untouched c o x h; exact Untouched.rfl' c x
  | eom => simp only [procConn]; split; exact endStream_untouched c o x h; exact Untouched.rfl' c x
  | err => simp only [procConn]; split; exact resetStream_untouched c o x h; exact Untouched.rfl' c x

theorem any_snoc (l : List Ev) (p : Ev → Bool) (e : Ev) : (l ++ [e]).any p = (l.any p || p e) := by
  simp [List.any_append]

theorem keeps_weaken (c : Conn) (o : Nat) (opn trd : Bool) (h : Keeps c o opn trd) : Keeps c o false trd :=
  fun hl => ⟨(h hl).1, fun e => Bool.noConfusion e, (h hl).2.2⟩

/-- the event's own upstream stream: what is kept follows the events handed over so far -/
theorem procConn_keeps_self (c : Conn) (o : Nat) (F : List Ev) (ev : Ev) (hnh : ev.isHdr = false)
    (ha : allowed F ev = true) (h : Keeps c o (!E2 F) (hasT F)) :
    Keeps (procConn c o ev) o (!E2 (F ++ [ev])) (hasT (F ++ [ev])) := by
  cases ev with
  | hdr fin => simp [Ev.isHdr] at hnh
  | data b =>
    have h2 : E2 F = false := by simpa [allowed] using ha
    have e1 : (!E2 (F ++ [Ev.data b])) = true := by unfold E2 at *; rw [any_snoc, h2]; rfl
    have e2 : hasT (F ++ [Ev.data b]) = hasT F := by unfold hasT; rw [any_snoc]; simp
    rw [e1, e2]
    rw [h2] at h
    simp only [procConn]
    split
    · rename_i hl; exact sendData_keeps_self c o b _ hl h
    · exact h
  | trailers =>
    have e1 : (!E2 (F ++ [Ev.trailers])) = false := by unfold E2; rw [any_snoc]; simp
    have e2 : hasT (F ++ [Ev.trailers]) = true := by unfold hasT; rw [any_snoc]; simp
    rw [e1, e2]
    simp only [procConn]
    split
    · rename_i hl; exact sendTrailers_keeps_self c o _ _ hl h
    · rename_i hl
      intro hl'; exact absurd hl' hl
  | eom =>
    have h1 : E1 F = false := by simpa [allowed] using ha
    have e1 : (!E2 (F ++ [Ev.eom])) = false := by unfold E2; rw [any_snoc]; simp
    have e2 : hasT (F ++ [Ev.eom]) = hasT F := by unfold hasT; rw [any_snoc]; simp
    rw [e1, e2]
    simp only [procConn]
    split
    · rename_i hl
      refine endStream_keeps_self c o _ _ hl ?_ h
      intro ht
      -- no trailers, no end, no error so far: the body is still open
      have : E2 F = false := by
        unfold E2 E1 hasT at *
        rw [List.any_eq_false] at *
        intro x hx
        have a := h1 x hx
        have b := ht x hx
        cases x <;> simp_all
      rw [this]; rfl
    · exact keeps_weaken c o _ _ h
  | err =>
    have e1 : (!E2 (F ++ [Ev.err])) = false := by unfold E2; rw [any_snoc]; simp
    have e2 : hasT (F ++ [Ev.err]) = hasT F := by unfold hasT; rw [any_snoc]; simp
    rw [e1, e2]
    simp only [procConn]
    split
    · intro hl; rw [liveS_resetStream_same] at hl; exact Bool.noConfusion hl
    · exact keeps_weaken c o _ _ h

/-! ### `StreamOk` through a received segment and through a client event -/

theorem streamOk_untouched {c c' : Conn} {o : Nat} (u : Untouched c c' o) (h : StreamOk c o) : StreamOk c' o := by
  unfold StreamOk; rw [u.1, u.2.1]; exact h

theorem streamOk_of_buf_nil (c : Conn) (o : Nat) (h : c.buf o = []) : StreamOk c o :=
  ⟨fun _ => h, by rw [h]; trivial⟩

def Pending (l : List SEv) (o : Nat) : Prop := SEv.reset o ∈ l ∨ SEv.goaway ∈ l

theorem absorbH2_live_keep (c : Conn) (e : SEv) (o : Nat) (h1 : e ≠ SEv.reset o) (h2 : e ≠ SEv.goaway)
    (hl : c.liveS o = true) : (c.absorbH2 e).liveS o = true := by
  have upd : ∀ (s : Nat) (f : Stream → Stream), (∀ x, (f x).live = x.live) → (c.updS s f).liveS o = true := by
    intro s f hf; rw [liveS_updS c s o f (fun x _ => hf x)]; exact hl
  have iw : ∀ (c1 : Conn) (w : Nat) (delta : Int), c1.liveS o = true →
      ({ c1 with iws := w, streams := c1.streams.map fun (p : Nat × Stream) => (p.1, { p.2 with win := p.2.win + delta }) } : Conn).liveS o = true := by
    intro c1 w delta
    have hm := alookup_map_snd (g := fun (st : Stream) => ({ st with win := st.win + delta } : Stream)) o c1.streams
    unfold Conn.liveS Conn.getS
    simp only []
    rw [hm]
    cases alookup o c1.streams with
    | none => exact fun e => e
    | some st => simp [Stream.live]
  cases e with
  | settings m iws mfs =>
    cases mfs with
    | none =>
      cases iws with
      | none => exact hl
      | some w => exact iw c w _ hl
    | some mf =>
      cases iws with
      | none => exact hl
      | some w => exact iw ({ c with mfs := mf } : Conn) w _ hl
  | winUpd sid n =>
    simp only [Conn.absorbH2]
    split
    · exact hl
    · exact upd sid _ (fun x => rfl)
  | respHdr sid fin ok =>
    simp only [Conn.absorbH2]
    split
    · exact upd sid _ (fun x => rfl)
    · exact hl
  | respData sid len fin =>
    simp only [Conn.absorbH2]
    split
    · exact upd sid _ (fun x => rfl)
    · exact hl
  | respTrailers sid => exact upd sid _ (fun x => rfl)
  | reset sid =>
    have hne : sid ≠ o := fun e => h1 (by rw [e])
    simp only [Conn.absorbH2]
    rw [liveS_updS c sid o _ (fun x e => absurd e hne)]; exact hl
  | goaway => exact absurd rfl h2
  | info _ => exact hl
  | ended _ => exact hl
  | protoErr => exact hl
  | other => exact hl

theorem foldl_absorbH2_live_keep (evs : List SEv) (c : Conn) (o : Nat) (hp : ¬ Pending evs o) (hl : c.liveS o = true) :
    (evs.foldl Conn.absorbH2 c).liveS o = true := by
  induction evs generalizing c with
  | nil => exact hl
  | cons e rest ih =>
    have h1 : e ≠ SEv.reset o := fun e' => hp (Or.inl (by rw [e']; simp))
    have h2 : e ≠ SEv.goaway := fun e' => hp (Or.inr (by rw [e']; simp))
    have hr : ¬ Pending rest o := fun hh => hp (hh.elim (fun a => Or.inl (List.mem_cons_of_mem _ a)) (fun a => Or.inr (List.mem_cons_of_mem _ a)))
    exact ih _ hr (absorbH2_live_keep c e o h1 h2 hl)

theorem absorbBuf_streamOk (c : Conn) (e : SEv) (o : Nat) (h : StreamOk c o) : StreamOk (c.absorbBuf e) o := by
  unfold Conn.absorbBuf
  split
  · exact (connWindowUpdated_ok _ c o h).2
  · split
    · exact (connWindowUpdated_ok _ c o h).2
    · exact (streamWindowUpdated_ok c _ o h).2
  · rename_i sid
    by_cases hs : sid = o
    · exact streamOk_of_buf_nil _ o (by rw [buf_aerase]; simp [hs])
    · unfold StreamOk
      rw [buf_aerase]; simp only [hs, if_false]; exact h
  · exact streamOk_of_buf_nil _ o rfl
  · exact h

theorem absorbBuf_pending (c : Conn) (e : SEv) (o : Nat) (he : e = SEv.reset o ∨ e = SEv.goaway) :
    StreamOk (c.absorbBuf e) o := by
  rcases he with rfl | rfl
  · exact streamOk_of_buf_nil _ o (by simp only [Conn.absorbBuf]; rw [buf_aerase]; simp)
  · exact streamOk_of_buf_nil _ o rfl

/-- a received segment leaves every well-kept stream well kept: a stream that RST_STREAM or GOAWAY stops loses its
    buffer in the same `receive_data` call -/
theorem absorb_streamOk (c : Conn) (evs : List SEv) (o : Nat) (h : StreamOk c o) : StreamOk (c.absorb evs) o := by
  have w := foldl_absorbH2_weak evs c
  have keep := foldl_absorbH2_live_keep evs c o
  unfold Conn.absorb
  generalize evs.foldl Conn.absorbH2 c = c1 at w keep
  have start : StreamOk c1 o ∨ Pending evs o := by
    by_cases hp : Pending evs o
    · exact Or.inr hp
    · refine Or.inl ?_
      have hb : c1.buf o = c.buf o := by unfold Conn.buf; rw [w.1]
      unfold StreamOk
      rw [hb]
      refine ⟨fun hl1 => ?_, h.2⟩
      cases hl : c.liveS o with
      | false => exact h.1 hl
      | true => rw [keep hp hl] at hl1; cases hl1
  clear keep w
  induction evs generalizing c1 with
  | nil =>
    rcases start with h1 | h1
    · exact h1
    · rcases h1 with h1 | h1 <;> simp at h1
  | cons e rest ih =>
    apply ih
    rcases start with h1 | h1
    · exact Or.inl (absorbBuf_streamOk c1 e o h1)
    · by_cases he : e = SEv.reset o ∨ e = SEv.goaway
      · exact Or.inl (absorbBuf_pending c1 e o he)
      · refine Or.inr ?_
        rcases h1 with h1 | h1
        · rcases List.mem_cons.mp h1 with h2 | h2
          · exact absurd (Or.inl h2.symm) he
          · exact Or.inl h2
        · rcases List.mem_cons.mp h1 with h2 | h2
          · exact absurd (Or.inr h2.symm) he
          · exact Or.inr h2

theorem can_of_keeps_end (c : Conn) (s : Nat) (opn trd : Bool) (hl : c.liveS s = true)
    (hopen : trd = false → opn = true) (h : Keeps c s opn trd) (hnt : ¬ c.trl.contains s = true) : CanSubmit c s := by
  have k := h hl
  have htrd : trd = false := by
    cases ht : trd with
    | false => rfl
    | true =>
      exfalso; apply hnt
      have := k.2.2 ht
      simpa using this
  exact ⟨hl, k.2.1 (hopen htrd)⟩

theorem open_of_E1_hasT (F : List Ev) (h1 : E1 F = false) (ht : hasT F = false) : E2 F = false := by
  unfold E2 E1 hasT at *
  rw [List.any_eq_false] at *
  intro x hx
  have a := h1 x hx
  have b := ht x hx
  cases x <;> simp_all

theorem procConn_streamOk_self (c : Conn) (o : Nat) (F : List Ev) (ev : Ev) (hnh : ev.isHdr = false)
    (ha : allowed F ev = true) (hk : Keeps c o (!E2 F) (hasT F)) (h : StreamOk c o) : StreamOk (procConn c o ev) o := by
  cases ev with
  | hdr fin => simp [Ev.isHdr] at hnh
  | data b =>
    have h2 : E2 F = false := by simpa [allowed] using ha
    simp only [procConn]
    split
    · rename_i hl
      have k := hk hl
      exact sendData_ok c o o b false ⟨hl, k.2.1 (by rw [h2]; rfl)⟩ h
    · exact h
  | trailers =>
    simp only [procConn]
    split
    · unfold Conn.sendTrailers
      split
      · exact h
      · rename_i hb
        have hbe : c.buf o = [] := by simpa using hb
        exact streamOk_of_buf_nil _ o (by rw [(held_rawTrailers c o o).2]; exact hbe)
    · exact h
  | eom =>
    have h1 : E1 F = false := by simpa [allowed] using ha
    simp only [procConn]
    split
    · rename_i hl
      unfold Conn.endStream
      split
      · exact h
      · rename_i hnt
        have hc := can_of_keeps_end c o _ _ hl (fun ht => by rw [open_of_E1_hasT F h1 ht]; rfl) hk hnt
        exact sendData_ok c o o [] true hc h
    · exact h
  | err =>
    simp only [procConn]
    split
    · refine streamOk_of_buf_nil _ o ?_
      unfold Conn.resetStream
      simp only []
      show (Conn.updS ({ c with bufs := aerase o c.bufs } : Conn) o _).buf o = []
      rw [buf_updS, buf_aerase]; simp
    · exact h

/-! ### the whole client: what is kept for every upstream stream, in every reachable state -/

structure SubInv (σ : St) : Prop where
  fresh : ∀ x, σ.nextId ≤ x → σ.conn.getS x = none ∧ σ.conn.buf x = [] ∧ x ∉ σ.conn.trl
  keeps : ∀ t o, alookup t σ.ours = some o → Keeps σ.conn o (!E2 (fwOf t σ)) (hasT (fwOf t σ))
  gram : ∀ t, GramOk (evsOf t σ.sub)
  ok : ∀ x, StreamOk σ.conn x

theorem subInv_congr (σ σ' : St) (h1 : σ'.conn = σ.conn) (h2 : σ'.nextId = σ.nextId) (h3 : σ'.ours = σ.ours)
    (h4 : σ'.fw = σ.fw) (h5 : σ'.sub = σ.sub) (h : SubInv σ) : SubInv σ' := by
  refine ⟨?_, ?_, ?_, ?_⟩
  · intro x hx; rw [h1]; rw [h2] at hx; exact h.fresh x hx
  · intro t o ho
    rw [h3] at ho
    have : fwOf t σ' = fwOf t σ := by unfold fwOf; rw [h4]
    rw [h1, this]; exact h.keeps t o ho
  · intro t; rw [h5]; exact h.gram t
  · intro x; rw [h1]; exact h.ok x

theorem fwOf_nil_of_unmapped (σ : St) (hf : FwOk σ) (t : Nat) (ho : alookup t σ.ours = none) : fwOf t σ = [] := by
  unfold fwOf
  have : σ.fw.filter (fun p => p.1 == t) = [] := by
    rw [List.filter_eq_nil_iff]
    intro e he hh
    have a := hf e he
    have e1 : e.1 = t := by simpa using hh
    rw [e1, ho] at a
    cases a
  rw [this]; rfl

theorem midMapped_sub (σ : St) (t o : Nat) (ev : Ev) (rest : List (Nat × Ev)) (h : DrainInv σ) (hs : SubInv σ)
    (hst : σ.stack = (t, ev) :: rest) (ho : alookup t σ.ours = some o) : SubInv (midMapped σ t o ev rest) := by
  obtain ⟨f1, f2, f3, f4, f5, f6, f7, f8, f9, _, f11⟩ := midMapped_fields σ t o ev rest
  have hconn : (midMapped σ t o ev rest).conn = procConn σ.conn o ev := process_conn ({ σ with stack := rest } : St) o ev
  have hsk := h.st
  unfold StackOk at hsk
  rw [hst] at hsk
  obtain ⟨_, hmap, _⟩ := hsk
  have hnh : ev.isHdr = false := hmap (by rw [ho]; rfl)
  have hq := queued_unmapped σ h.q t o ho
  have hlt : o < σ.nextId := h.map.lt o t (h.map.fwd t o ho)
  have hall : allowed (fwOf t σ) ev = true := by
    have c := h.cons t
    have q0 : qOf t σ = [] := by unfold qOf; rw [hq.1]; rfl
    rw [q0, hst, evsOf_cons_same, List.append_nil] at c
    exact hs.gram t (fwOf t σ) ev (evsOf t rest) c.symm
  refine ⟨?_, ?_, ?_, ?_⟩
  · intro x hx
    rw [f11, hnh] at hx
    have hx' : σ.nextId ≤ x := by simpa using hx
    have hne : o ≠ x := by omega
    have u := procConn_untouched σ.conn o x ev hne
    have k := hs.fresh x hx'
    rw [hconn, u.1, u.2.2.1]
    exact ⟨k.1, k.2.1, fun e => k.2.2 (u.2.2.2.mp e)⟩
  · intro t2 o2 ho2
    rw [f1] at ho2
    have hfw : fwOf t2 (midMapped σ t o ev rest) = fwOf t2 σ ++ (if t = t2 then [ev] else []) := by
      unfold fwOf; rw [f6]; exact fwOf_snoc t t2 o ev σ.fw
    rw [hconn, hfw]
    by_cases htt : t = t2
    · subst htt
      rw [ho] at ho2; cases ho2
      simp only [if_true]
      exact procConn_keeps_self σ.conn o (fwOf t σ) ev hnh hall (hs.keeps t o ho)
    · simp only [htt, if_false, List.append_nil]
      have hne : o ≠ o2 := by
        intro e; subst e
        have a := h.map.fwd t o ho
        have b := h.map.fwd t2 o ho2
        rw [a] at b; cases b; exact htt rfl
      exact keeps_untouched _ _ (procConn_untouched σ.conn o o2 ev hne) (hs.keeps t2 o2 ho2)
  · intro t'; rw [f5]; exact hs.gram t'
  · intro x
    rw [hconn]
    by_cases hx : o = x
    · subst hx
      exact procConn_streamOk_self σ.conn o (fwOf t σ) ev hnh hall (hs.keeps t o ho) (hs.ok o)
    · exact streamOk_untouched (procConn_untouched σ.conn o x ev hx) (hs.ok x)

theorem midAlloc_sub (σ : St) (t : Nat) (ev : Ev) (rest : List (Nat × Ev)) (h : DrainInv σ) (hs : SubInv σ)
    (hst : σ.stack = (t, ev) :: rest) (ho : alookup t σ.ours = none) : SubInv (midAlloc σ t ev rest) := by
  obtain ⟨f1, f2, f3, f4, f5, f6, f7, f8, f9, _, f11⟩ := midAlloc_fields σ t ev rest
  let σ1 : St := { σ with stack := rest, ours := σ.ours ++ [(t, σ.nextId)], theirs := aset σ.nextId t σ.theirs,
                          allocs := σ.allocs ++ [(t, σ.conn.openCount, σ.limit)] }
  have hconn : (midAlloc σ t ev rest).conn = procConn σ.conn σ.nextId ev := process_conn σ1 σ.nextId ev
  have hsk := h.st
  unfold StackOk at hsk
  rw [hst] at hsk
  obtain ⟨_, _, hun⟩ := hsk
  have hh : ev.isHdr = true := (hun ho).1
  refine ⟨?_, ?_, ?_, ?_⟩
  · intro x hx
    rw [f11, hh] at hx
    have hx' : σ.nextId + 2 ≤ x := by simpa using hx
    have hne : σ.nextId ≠ x := by omega
    have u := procConn_untouched σ.conn σ.nextId x ev hne
    have k := hs.fresh x (by omega)
    rw [hconn, u.1, u.2.2.1]
    exact ⟨k.1, k.2.1, fun e => k.2.2 (u.2.2.2.mp e)⟩
  · intro t2 o2 ho2
    rw [f1, alookup_append] at ho2
    have hfw : fwOf t2 (midAlloc σ t ev rest) = fwOf t2 σ ++ (if t = t2 then [ev] else []) := by
      unfold fwOf; rw [f6]; exact fwOf_snoc t t2 σ.nextId ev σ.fw
    rw [hconn, hfw]
    cases hl : alookup t2 σ.ours with
    | some o' =>
      rw [hl] at ho2
      simp only [Option.some.injEq] at ho2
      subst ho2
      have htt : ¬ t = t2 := by intro e; subst e; rw [ho] at hl; cases hl
      simp only [htt, if_false, List.append_nil]
      have hlt : o' < σ.nextId := h.map.lt o' t2 (h.map.fwd t2 o' hl)
      have hne : σ.nextId ≠ o' := by omega
      exact keeps_untouched _ _ (procConn_untouched σ.conn σ.nextId o' ev hne) (hs.keeps t2 o' hl)
    | none =>
      rw [hl] at ho2
      simp only [alookup] at ho2
      by_cases htt : t = t2
      · subst htt
        simp only [if_true, Option.some.injEq] at ho2
        subst ho2
        rw [fwOf_nil_of_unmapped σ h.fw t ho]
        simp only [if_true, List.nil_append]
        cases ev with
        | hdr fin =>
          have k := hs.fresh σ.nextId (Nat.le_refl _)
          intro _
          have hb : (procConn σ.conn σ.nextId (Ev.hdr fin)).buf σ.nextId = [] := k.2.1
          rw [hb]
          exact ⟨trivial, fun _ x hx => by simp at hx, fun e => by simp [hasT] at e⟩
        | data b => simp [Ev.isHdr] at hh
        | trailers => simp [Ev.isHdr] at hh
        | eom => simp [Ev.isHdr] at hh
        | err => simp [Ev.isHdr] at hh
      · simp [htt] at ho2
  · intro t'; rw [f5]; exact hs.gram t'
  · intro x
    rw [hconn]
    by_cases hx : σ.nextId = x
    · subst hx
      cases ev with
      | hdr fin => exact streamOk_of_buf_nil _ _ (hs.fresh σ.nextId (Nat.le_refl _)).2.1
      | data b => simp [Ev.isHdr] at hh
      | trailers => simp [Ev.isHdr] at hh
      | eom => simp [Ev.isHdr] at hh
      | err => simp [Ev.isHdr] at hh
    · exact streamOk_untouched (procConn_untouched σ.conn σ.nextId x ev hx) (hs.ok x)

theorem resume_sub (σ : St) (h : SubInv σ) : SubInv σ.resume := by
  unfold St.resume
  split
  · exact h
  · split
    · exact h
    · exact subInv_congr σ _ rfl rfl rfl rfl rfl h

theorem tick_sub (σ : St) (h : DrainInv σ) (hs : SubInv σ) (hne : σ.stack ≠ []) (hc : σ.closed = false) :
    SubInv σ.tick := by
  cases hst : σ.stack with
  | nil => exact absurd hst hne
  | cons q rest =>
    obtain ⟨t, ev⟩ := q
    rw [tick_eq σ t ev rest hst hc]
    cases ho : alookup t σ.ours with
    | some o => exact resume_sub _ (midMapped_sub σ t o ev rest h hs hst ho)
    | none =>
      simp only []
      split
      · exact subInv_congr σ _ rfl rfl rfl rfl rfl hs
      · exact resume_sub _ (midAlloc_sub σ t ev rest h hs hst ho)

theorem drain_sub (f : Nat) (σ : St) (h : DrainInv σ) (hs : SubInv σ) (hc : σ.closed = false) :
    SubInv (St.drain f σ) := by
  induction f generalizing σ with
  | zero => exact hs
  | succ f ih =>
    by_cases he : σ.stack = []
    · rw [drain_of_empty _ _ he]; exact hs
    · have ht := tick_drain σ h he hc
      have : St.drain (f + 1) σ = St.drain f σ.tick := by
        simp only [St.drain]
        have : σ.stack.isEmpty = false := by cases hs' : σ.stack <;> simp_all
        simp [this]
      rw [this]
      exact ih σ.tick ht.1 (tick_sub σ h hs he hc) ht.2.2

/-- the event the HTTP layer hands over next keeps the order of its stream -/
def Good2 (σ : St) (t : Nat) (ev : Ev) : Prop := allowed (evsOf t σ.sub) ev = true

theorem arrive_sub (σ : St) (t : Nat) (ev : Ev) (hs : SubInv σ) (hg : Good2 σ t ev) : SubInv (arrive σ t ev) := by
  refine ⟨hs.fresh, ?_, ?_, hs.ok⟩
  · intro t2 o2 ho2; exact hs.keeps t2 o2 ho2
  · intro t'
    show GramOk (evsOf t' (σ.sub ++ [(t, ev)]))
    rw [evsOf_append]
    by_cases htt : t = t'
    · subst htt
      rw [evsOf_cons_same]
      exact gramOk_snoc _ ev (hs.gram t) hg
    · rw [evsOf_cons_ne _ _ _ _ htt]
      simpa [evsOf] using hs.gram t'

theorem step_client_sub (σ : St) (t : Nat) (ev : Ev) (h : QInv σ) (hs : SubInv σ) (hc : σ.closed = false)
    (hg : Good σ t ev) (hg2 : Good2 σ t ev) : SubInv (σ.step (.client t ev)) := by
  rw [step_client_eq σ t ev hc]
  have hca : (arrive σ t ev).closed = false := hc
  have ha := arrive_sub σ t ev hs hg2
  by_cases hcase : (alookup t σ.ours).isSome = true ∨ σ.noFree = false
  · exact drain_sub _ _ (arrive_drainInv σ t ev h hg hcase) ha hca
  · have hn : alookup t σ.ours = none := by
      cases ho : alookup t σ.ours with
      | none => rfl
      | some o => exact absurd (Or.inl (by rw [ho]; rfl)) hcase
    have hnf : σ.noFree = true := by
      cases hf : σ.noFree with
      | true => rfl
      | false => exact absurd (Or.inr hf) hcase
    have htick : (arrive σ t ev).tick = enqueued σ t ev := by
      rw [tick_eq (arrive σ t ev) t ev [] rfl hca]
      have : alookup t (arrive σ t ev).ours = none := hn
      rw [this]
      have hnf' : ({ (arrive σ t ev) with stack := [] } : St).noFree = true := by
        rw [← hnf]; exact noFree_congr _ _ rfl rfl rfl
      simp only [hnf', if_true]
      rfl
    have : St.drain ((arrive σ t ev).pending + 1) (arrive σ t ev) = enqueued σ t ev := by
      simp only [St.drain]
      have : (arrive σ t ev).stack.isEmpty = false := rfl
      simp only [this, Bool.false_eq_true, if_false, htick]
      exact drain_of_empty _ _ rfl
    rw [this]
    exact subInv_congr (arrive σ t ev) _ rfl rfl rfl rfl rfl ha

/-! ### what the server says, and the connection closing -/

theorem upward_conn (σ : St) (o : Nat) (k : UpKind) : (σ.upward o k).conn = σ.conn := by
  unfold St.upward; split <;> rfl

theorem foldl_upward_conn (l : List (Nat × Bool)) (σ : St) :
    (l.foldl (fun σ p => σ.upward p.1 .err) σ).conn = σ.conn := by
  induction l generalizing σ with
  | nil => rfl
  | cons p rest ih => exact (ih _).trans (upward_conn σ p.1 .err)

theorem closeConnection_conn (σ : St) : σ.closeConnection.conn = σ.conn := by
  unfold St.closeConnection
  exact foldl_upward_conn σ.ms σ

theorem handleH2_conn (σ : St) (e : SEv) : (σ.handleH2 e).1.conn = σ.conn := by
  cases e with
  | respHdr o fin ok =>
    simp only [St.handleH2]
    split
    · exact closeConnection_conn σ
    · split
      · exact closeConnection_conn σ
      · exact upward_conn _ o _
  | respData o len fin =>
    simp only [St.handleH2]
    split
    · split
      · rfl
      · exact upward_conn σ o _
    · exact closeConnection_conn σ
    · rfl
  | respTrailers o => exact upward_conn σ o _
  | ended o =>
    simp only [St.handleH2]
    split
    · split
      · exact upward_conn σ o _
      · exact upward_conn σ o _
    · split
      · rfl
      · rfl
  | reset o =>
    simp only [St.handleH2]
    split
    · exact upward_conn σ o _
    · rfl
  | protoErr => exact closeConnection_conn σ
  | goaway => exact closeConnection_conn σ
  | settings _ _ _ => rfl
  | winUpd _ _ => rfl
  | info _ => rfl
  | other => rfl

theorem handleAll_conn (evs : List SEv) (σ : St) : (St.handleAll σ evs).conn = σ.conn := by
  induction evs generalizing σ with
  | nil => rfl
  | cons e rest ih =>
    simp only [St.handleAll]
    have h1 := handleH2_conn σ e
    cases hh : σ.handleH2 e with
    | mk σ' stop =>
      rw [hh] at h1
      simp only [] at h1 ⊢
      split
      · exact h1
      · exact (ih σ').trans h1

theorem subInv_of_same {σ σ' : St} (hs : Same σ σ') (hc : σ'.conn = σ.conn) (h : SubInv σ) : SubInv σ' :=
  subInv_congr σ σ' hc hs.nextId hs.ours hs.fw hs.sub h

theorem step_server_sub (σ : St) (evs : List SEv) (h : Inv σ) (hs : SubInv σ) : SubInv (σ.step (.server evs)) := by
  simp only [St.step]
  by_cases hc : σ.closed = true
  · rw [if_pos hc]; exact hs
  · have hcf : σ.closed = false := by simpa using hc
    rw [if_neg hc]
    have hq := h.live hcf
    let σa : St := { σ with conn := σ.conn.absorb evs,
                            maxc := evs.foldl (fun m e => match e with | .settings (some v) _ _ => v | _ => m) σ.maxc }
    have hsa : Same σ σa := ⟨rfl, rfl, rfl, rfl, rfl, rfl, rfl, rfl, rfl⟩
    have hsub_a : SubInv σa :=
      ⟨fun x hx => absorb_fresh σ.conn evs x (hs.fresh x hx),
       fun t o ho => absorb_keeps σ.conn evs o _ _ (hs.keeps t o ho),
       hs.gram,
       fun x => absorb_streamOk σ.conn evs x (hs.ok x)⟩
    have hma : MapInv σa := mapInv_of_same hsa h.map
    have hua : UpOk σa := h.up
    have hb := handleAll_ok evs σa hma hua
    have hsb : Same σ (St.handleAll σa evs) := hsa.trans hb.1
    have hsub_b : SubInv (St.handleAll σa evs) := subInv_of_same hb.1 (handleAll_conn evs σa) hsub_a
    show SubInv (if (St.handleAll σa evs).closed = true then (St.handleAll σa evs).failQueued
      else St.drain ((St.handleAll σa evs).resume.pending + 1) (St.handleAll σa evs).resume)
    by_cases hcb : (St.handleAll σa evs).closed = true
    · simp only [hcb, if_true]
      exact subInv_congr (St.handleAll σa evs) _ rfl rfl rfl rfl rfl hsub_b
    · have hcbf : (St.handleAll σa evs).closed = false := by simpa using hcb
      simp only [hcb]
      have hmid := midInv_of_same hsb hb.2 hq
      have hdr := resume_inv _ hmid
      have hcl : (St.handleAll σa evs).resume.closed = false := by rw [(resume_pending _).2]; exact hcbf
      exact drain_sub _ _ hdr (resume_sub _ hsub_b) hcl

theorem step_connClosed_sub (σ : St) (h : Inv σ) (hs : SubInv σ) : SubInv (σ.step .connClosed) := by
  simp only [St.step]
  by_cases hc : σ.closed = true
  · rw [if_pos hc]; exact hs
  · rw [if_neg hc]
    have cc := closeConnection_ok σ h.map h.up
    exact subInv_congr σ.closeConnection _ rfl rfl rfl rfl rfl (subInv_of_same cc.1 (closeConnection_conn σ) hs)

theorem init_sub : SubInv St.init := by
  refine ⟨fun x _ => ⟨rfl, rfl, by simp [St.init, Conn.init]⟩, ?_, ?_, fun x => ⟨fun _ => rfl, trivial⟩⟩
  · intro t o ho; simp [St.init, alookup] at ho
  · intro t pre e post hh
    have : evsOf t St.init.sub = [] := rfl
    rw [this] at hh
    cases pre <;> simp at hh

/-- the states the real client can be in when the HTTP layer hands over, per stream, the request head first and once
    (`Good`) and then body data, at most one set of trailers and one end of message, in this order, or an error that
    cancels the stream (`Good2`) -/
inductive Reach2 : St → Prop where
  | init : Reach2 St.init
  | client (σ : St) (t : Nat) (ev : Ev) : Reach2 σ → Good σ t ev → Good2 σ t ev → Reach2 (σ.step (.client t ev))
  | server (σ : St) (evs : List SEv) : Reach2 σ → Reach2 (σ.step (.server evs))
  | connClosed (σ : St) : Reach2 σ → Reach2 (σ.step .connClosed)

theorem reach2_reach (σ : St) (h : Reach2 σ) : Reach σ := by
  induction h with
  | init => exact Reach.init
  | client σ t ev _ hg _ ih => exact Reach.client σ t ev ih hg
  | server σ evs _ ih => exact Reach.server σ evs ih
  | connClosed σ _ ih => exact Reach.connClosed σ ih

theorem reach2_sub (σ : St) (h : Reach2 σ) : SubInv σ := by
  induction h with
  | init => exact init_sub
  | client σ t ev hr hg hg2 ih =>
    by_cases hc : σ.closed = true
    · have : σ.step (.client t ev) = σ := by simp [St.step, hc]
      rw [this]; exact ih
    · have hcf : σ.closed = false := by simpa using hc
      exact step_client_sub σ t ev ((reach_inv σ (reach2_reach σ hr)).live hcf) ih hcf hg hg2
  | server σ evs hr ih => exact step_server_sub σ evs (reach_inv σ (reach2_reach σ hr)) ih
  | connClosed σ hr ih => exact step_connClosed_sub σ (reach_inv σ (reach2_reach σ hr)) ih

end MitmVerif.C05
