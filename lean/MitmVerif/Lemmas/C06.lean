/-
  Lemmas for C06: the reference reader `Ref` applied to an assembled HTTP/1 request.
-/
import MitmVerif.Model.C06
namespace MitmVerif.C06
open MitmVerif

/-! ### line splitting -/

theorem splitAtLF_append (l rest : Bytes) (h : ∀ c ∈ l, c ≠ 10) :
    Ref.splitAtLF (l ++ 10 :: rest) = some (l, rest) := by
  induction l with
  | nil => simp [Ref.splitAtLF]
  | cons c cs ih =>
    have hc : c ≠ 10 := h c (by simp)
    have := ih (fun x hx => h x (by simp [hx]))
    simp [Ref.splitAtLF, hc, this]

theorem lineOf_cr (l : Bytes) (h : ∀ c ∈ l, c ≠ 13) : Ref.lineOf (l ++ [13]) = some l := by
  unfold Ref.lineOf
  have h1 : (l ++ [13]).getLast? = some 13 := by simp
  have h2 : (l ++ [13]).dropLast = l := by simp
  simp [h1, h2]
  exact fun hm => h 13 hm rfl

/-- a byte string that contains neither CR nor LF -/
def clean (b : Bytes) : Prop := ∀ c ∈ b, c ≠ 10 ∧ c ≠ 13

theorem clean_append {a b : Bytes} (ha : clean a) (hb : clean b) : clean (a ++ b) := by
  intro c hc
  rcases List.mem_append.mp hc with h | h
  · exact ha c h
  · exact hb c h

theorem headLines_step (f : Nat) (l rest : Bytes) (hl : clean l) (hne : l ≠ []) :
    Ref.headLines (f + 1) (l ++ crlf ++ rest) =
      (match Ref.headLines f rest with
       | some (ls, r) => some (l :: ls, r)
       | none => none) := by
  have e : l ++ crlf ++ rest = (l ++ [13]) ++ 10 :: rest := by simp [crlf]
  have hsplit : Ref.splitAtLF ((l ++ [13]) ++ 10 :: rest) = some (l ++ [13], rest) := by
    apply splitAtLF_append
    intro c hc
    rcases List.mem_append.mp hc with h | h
    · exact (hl c h).1
    · simp at h; subst h; decide
  have hline : Ref.lineOf (l ++ [13]) = some l := lineOf_cr l (fun c hc => (hl c hc).2)
  rw [e]
  conv => lhs; unfold Ref.headLines
  simp only [hsplit, hline]
  cases l with
  | nil => exact absurd rfl hne
  | cons c cs => rfl

theorem headLines_end (f : Nat) (rest : Bytes) : Ref.headLines (f + 1) (crlf ++ rest) = some ([], rest) := by
  simp [Ref.headLines, crlf, Ref.splitAtLF, Ref.lineOf]

/-- the header section written by `fieldLines` followed by the empty line is read back line by line -/
theorem headLines_fieldLines (lines : List Bytes) (rest : Bytes) (f : Nat)
    (hcl : ∀ l ∈ lines, clean l ∧ l ≠ []) (hf : lines.length < f) :
    Ref.headLines f (lines.flatMap (· ++ crlf) ++ crlf ++ rest) = some (lines, rest) := by
  induction lines generalizing f with
  | nil =>
    cases f with
    | zero => simp at hf
    | succ f => simpa using headLines_end f rest
  | cons l ls ih =>
    cases f with
    | zero => simp at hf
    | succ f =>
      have h1 := hcl l (by simp)
      have e : (l :: ls).flatMap (· ++ crlf) ++ crlf ++ rest = l ++ crlf ++ (ls.flatMap (· ++ crlf) ++ crlf ++ rest) := by
        simp [List.flatMap_cons, List.append_assoc]
      rw [e, headLines_step f l _ h1.1 h1.2]
      have := ih f (fun x hx => hcl x (by simp [hx])) (by simp at hf; omega)
      rw [this]

/-! ### request line -/

theorem splitOn_no_sep (sep : UInt8) (a : Bytes) (h : ∀ c ∈ a, c ≠ sep) : splitOn sep a = [a] := by
  induction a with
  | nil => simp [splitOn]
  | cons c cs ih =>
    have hc : c ≠ sep := h c (by simp)
    have := ih (fun x hx => h x (by simp [hx]))
    simp [splitOn, hc, this]

theorem splitOn_append (sep : UInt8) (a b : Bytes) (h : ∀ c ∈ a, c ≠ sep) :
    splitOn sep (a ++ sep :: b) = a :: splitOn sep b := by
  induction a with
  | nil => simp [splitOn]
  | cons c cs ih =>
    have hc : c ≠ sep := h c (by simp)
    have := ih (fun x hx => h x (by simp [hx]))
    simp [splitOn, hc, this]

theorem requestLine_parse (m p : Bytes) (hm : ∀ c ∈ m, isLineWs c = false) (hp : ∀ c ∈ p, isLineWs c = false)
    (hmne : m ≠ []) (hpne : p ≠ []) :
    Ref.parseRequestLine (m ++ [32] ++ p ++ [32] ++ sHttp11) = some (m, p, sHttp11) := by
  have nosp : ∀ (x : Bytes), (∀ c ∈ x, isLineWs c = false) → ∀ c ∈ x, c ≠ 32 := by
    intro x hx c hc h
    have := hx c hc
    subst h
    simp [isLineWs, isPyWs] at this
  have e : m ++ [32] ++ p ++ [32] ++ sHttp11 = m ++ 32 :: (p ++ 32 :: sHttp11) := by simp
  have hs : splitOn 32 (m ++ 32 :: (p ++ 32 :: sHttp11)) = [m, p, sHttp11] := by
    rw [splitOn_append 32 m _ (nosp m hm), splitOn_append 32 p _ (nosp p hp)]
    rw [splitOn_no_sep 32 sHttp11 (by decide)]
  have hbad : (m ++ p).any Ref.badTargetByte = false := by
    apply Bool.eq_false_iff.mpr
    intro h
    rcases List.any_eq_true.mp h with ⟨c, hc, hb⟩
    have hw : isLineWs c = false := by
      rcases List.mem_append.mp hc with h1 | h1
      · exact hm c h1
      · exact hp c h1
    simp [Ref.badTargetByte] at hb
    simp [isLineWs, isPyWs] at hw
    rcases hb with hb | hb | hb <;> simp_all
  unfold Ref.parseRequestLine
  rw [e, hs]
  have h1 : m.isEmpty = false := by cases m <;> simp_all
  have h2 : p.isEmpty = false := by cases p <;> simp_all
  have h3 : Ref.isVersion sHttp11 = true := by decide
  simp [h1, h2, h3, hbad]

/-! ### field lines -/

theorem tokenByte_ne_colon (c : UInt8) (h : isTokenByte c = true) : c ≠ 58 := by
  intro e; subst e; revert h; decide

theorem tokenByte_clean (c : UInt8) (h : isTokenByte c = true) : c ≠ 10 ∧ c ≠ 13 := by
  constructor <;> (intro e; subst e; revert h; decide)

theorem token_clean (n : Bytes) (h : isToken n = true) : clean n := by
  intro c hc
  simp [isToken] at h
  exact tokenByte_clean c (h.2 c hc)

theorem token_ne_nil (n : Bytes) (h : isToken n = true) : n ≠ [] := by
  intro e; subst e; simp [isToken] at h

theorem takeWhile_append_stop (n rest : Bytes) (h : ∀ c ∈ n, c ≠ 58) :
    (n ++ 58 :: rest).takeWhile (· != 58) = n := by
  induction n with
  | nil => simp
  | cons c cs ih =>
    have hc : c ≠ 58 := h c (by simp)
    have := ih (fun x hx => h x (by simp [hx]))
    simp [List.takeWhile, hc, this]

theorem dropWhile_append_stop (n rest : Bytes) (h : ∀ c ∈ n, c ≠ 58) :
    (n ++ 58 :: rest).dropWhile (· != 58) = 58 :: rest := by
  induction n with
  | nil => simp
  | cons c cs ih =>
    have hc : c ≠ 58 := h c (by simp)
    have := ih (fun x hx => h x (by simp [hx]))
    simp [List.dropWhile, hc, this]

theorem stripOws_sp (v : Bytes) : stripOws (32 :: v) = stripOws v := by
  simp [stripOws, isOws]

theorem fieldLine_parse (n v : Bytes) (hn : isToken n = true) (hv : ∀ c ∈ v, c ≠ 0) :
    Ref.parseFieldLine (n ++ colonSp ++ v) = some (n, stripOws v) := by
  have hcolon : ∀ c ∈ n, c ≠ 58 := by
    intro c hc
    simp [isToken] at hn
    exact tokenByte_ne_colon c (hn.2 c hc)
  have e : n ++ colonSp ++ v = n ++ 58 :: (32 :: v) := by simp [colonSp]
  unfold Ref.parseFieldLine
  rw [e, takeWhile_append_stop n _ hcolon, dropWhile_append_stop n _ hcolon]
  have h0 : (32 :: v).contains 0 = false := by
    apply Bool.eq_false_iff.mpr
    intro hc
    have := List.contains_iff_mem.mp hc
    simp at this
    exact hv 0 this rfl
  simp only [hn, h0, stripOws_sp]
  simp

/-- what the reference reader makes of a field written by `fieldLine` -/
def readBack (f : Field) : Field := (f.1, stripOws f.2)

theorem parseFields_lines (fs : List Field) (h : ∀ f ∈ fs, isToken f.1 = true ∧ ∀ c ∈ f.2, c ≠ 0) :
    Ref.parseFields (fs.map fun f => f.1 ++ colonSp ++ f.2) = some (fs.map readBack) := by
  induction fs with
  | nil => simp [Ref.parseFields]
  | cons f rest ih =>
    have h1 := h f (by simp)
    have := ih (fun x hx => h x (by simp [hx]))
    simp only [List.map_cons, Ref.parseFields]
    rw [fieldLine_parse f.1 f.2 h1.1 h1.2, this]
    rfl

theorem fieldLines_eq (fs : List Field) :
    fieldLines fs = (fs.map fun f => f.1 ++ colonSp ++ f.2).flatMap (· ++ crlf) := by
  induction fs with
  | nil => simp [fieldLines]
  | cons f rest ih =>
    simp only [fieldLines] at ih
    simp [fieldLines, fieldLine, List.flatMap_cons, ih]

/-! ### decimal numbers -/

theorem digit_lt10 : ∀ n : Fin 10, isDigit (UInt8.ofNat (48 + n.val)) = true ∧ decVal (UInt8.ofNat (48 + n.val)) = n.val
    ∧ UInt8.ofNat (48 + n.val) ≠ 44 ∧ isOws (UInt8.ofNat (48 + n.val)) = false := by decide

theorem natDigits_foldl (f n : Nat) (h : n < f) :
    (natDigits f n).foldl Ref.decStep (some 0) = some n ∧ natDigits f n ≠ [] ∧
      ∀ c ∈ natDigits f n, isDigit c = true ∧ c ≠ 44 ∧ isOws c = false := by
  induction f generalizing n with
  | zero => omega
  | succ f ih =>
    unfold natDigits
    by_cases hn : n < 10
    · have d := digit_lt10 ⟨n, hn⟩
      dsimp only at d
      simp only [hn, if_true]
      refine ⟨?_, List.cons_ne_nil _ _, ?_⟩
      · simp only [List.foldl, Ref.decStep, d.1, d.2.1, if_true]
        simp
      · intro c hc
        have : c = UInt8.ofNat (48 + n) := by simpa using hc
        subst this; exact ⟨d.1, d.2.2.1, d.2.2.2⟩
    · simp only [hn, if_false]
      have hlt : n / 10 < f := by omega
      have ⟨i1, _, i3⟩ := ih (n / 10) hlt
      have hm : n % 10 < 10 := Nat.mod_lt _ (by decide)
      have d := digit_lt10 ⟨n % 10, hm⟩
      dsimp only at d
      refine ⟨?_, ?_, ?_⟩
      · rw [List.foldl_append, i1]
        simp only [List.foldl, Ref.decStep, d.1, d.2.1, if_true]
        congr 1
        omega
      · intro e
        have := congrArg List.length e
        simp at this
      · intro c hc
        rcases List.mem_append.mp hc with h1 | h1
        · exact i3 c h1
        · have : c = UInt8.ofNat (48 + n % 10) := by simpa using h1
          subst this; exact ⟨d.1, d.2.2.1, d.2.2.2⟩

theorem parseDec_natDec (n : Nat) : Ref.parseDec (natDec n) = some n := by
  have ⟨h1, h2, _⟩ := natDigits_foldl (n + 1) n (by omega)
  unfold Ref.parseDec natDec
  have : (natDigits (n + 1) n).isEmpty = false := by
    cases h : natDigits (n + 1) n with
    | nil => exact absurd h h2
    | cons _ _ => rfl
  simp [this, h1]

theorem stripOws_id (v : Bytes) (hh : ∀ c, v.head? = some c → isOws c = false)
    (hl : ∀ c, v.getLast? = some c → isOws c = false) : stripOws v = v := by
  unfold stripOws dropEndWhile
  have h1 : v.dropWhile isOws = v := by
    cases v with
    | nil => rfl
    | cons c cs => have := hh c rfl; simp [List.dropWhile, this]
  rw [h1]
  have h2 : v.reverse.dropWhile isOws = v.reverse := by
    cases hr : v.reverse with
    | nil => rfl
    | cons c cs =>
      have : v.getLast? = some c := by
        rw [List.getLast?_eq_head?_reverse, hr]; rfl
      have := hl c this
      simp [List.dropWhile, this]
  rw [h2, List.reverse_reverse]

/-! ### a whole assembled request -/

theorem lines_length_le (lines : List Bytes) : lines.length ≤ (lines.flatMap (· ++ crlf)).length := by
  induction lines with
  | nil => simp
  | cons l ls ih =>
    rw [List.flatMap_cons, List.length_append, List.length_cons]
    have : 2 ≤ (l ++ crlf).length := by simp [crlf]
    omega

def fieldClean (f : Field) : Prop := isToken f.1 = true ∧ ∀ c ∈ f.2, c ≠ 0 ∧ c ≠ 10 ∧ c ≠ 13

/-- A request head written by `assembleRequestHead` from clean parts, followed by a body that matches the
    framing the reference reader derives from the fields, is read as exactly that one message. -/
theorem ref_parse_assembled (m p : Bytes) (fs : List Field) (body : Bytes) (fr : Ref.Framing)
    (hm : ∀ c ∈ m, isLineWs c = false) (hp : ∀ c ∈ p, isLineWs c = false) (hmne : m ≠ []) (hpne : p ≠ [])
    (hfs : ∀ f ∈ fs, fieldClean f)
    (hfr : Ref.framing sHttp11 (fs.map readBack) = some fr)
    (hb : (fr = .none ∧ body = []) ∨ fr = .cl body.length) :
    Ref.parse (assembleRequestHead m p sHttp11 fs ++ body)
      = some [⟨m, p, sHttp11, fs.map readBack, body⟩] := by
  let reqline := m ++ [32] ++ p ++ [32] ++ sHttp11
  let flines := fs.map fun f => f.1 ++ colonSp ++ f.2
  have hbytes : assembleRequestHead m p sHttp11 fs ++ body
      = (reqline :: flines).flatMap (· ++ crlf) ++ crlf ++ body := by
    simp [assembleRequestHead, fieldLines_eq, reqline, flines, List.flatMap_cons, List.append_assoc]
  have hws_clean : ∀ x : Bytes, (∀ c ∈ x, isLineWs c = false) → clean x := by
    intro x hx c hc
    have := hx c hc
    constructor <;> (intro e; subst e; simp [isLineWs, isPyWs] at this)
  have hreq_clean : clean reqline := by
    have h32 : clean ([32] : Bytes) := by intro c hc; simp at hc; subst hc; decide
    have hv : clean sHttp11 := by intro c hc; revert c; decide
    exact clean_append (clean_append (clean_append (clean_append (hws_clean m hm) h32) (hws_clean p hp)) h32) hv
  have hreq_ne : reqline ≠ [] := by
    cases m with
    | nil => exact absurd rfl hmne
    | cons c cs => simp [reqline]
  have hlines : ∀ l ∈ reqline :: flines, clean l ∧ l ≠ [] := by
    intro l hl
    rcases List.mem_cons.mp hl with h | h
    · subst h; exact ⟨hreq_clean, hreq_ne⟩
    · rcases List.mem_map.mp h with ⟨f, hf, rfl⟩
      have hc := hfs f hf
      refine ⟨?_, ?_⟩
      · have hcs : clean colonSp := by intro c hc; revert c; decide
        exact clean_append (clean_append (token_clean f.1 hc.1) hcs) (fun c hcm => ⟨(hc.2 c hcm).2.1, (hc.2 c hcm).2.2⟩)
      · have := token_ne_nil f.1 hc.1
        cases hn : f.1 with
        | nil => exact absurd hn this
        | cons a b => simp
  have hlen : (reqline :: flines).length < ((reqline :: flines).flatMap (· ++ crlf) ++ crlf ++ body).length + 1 := by
    have := lines_length_le (reqline :: flines)
    simp only [List.length_append]
    omega
  have hhead := headLines_fieldLines (reqline :: flines) body _ hlines hlen
  have hrl : Ref.parseRequestLine reqline = some (m, p, sHttp11) := requestLine_parse m p hm hp hmne hpne
  have hpf : Ref.parseFields flines = some (fs.map readBack) :=
    parseFields_lines fs (fun f hf => ⟨(hfs f hf).1, fun c hc => ((hfs f hf).2 c hc).1⟩)
  have hne : ((reqline :: flines).flatMap (· ++ crlf) ++ crlf ++ body).isEmpty = false := by
    cases m with
    | nil => exact absurd rfl hmne
    | cons c cs => simp [reqline, List.flatMap_cons]
  unfold Ref.parse
  rw [hbytes]
  generalize hB : (reqline :: flines).flatMap (· ++ crlf) ++ crlf ++ body = B at *
  unfold Ref.parseRequests
  simp only [hne, hhead, hrl, hpf, hfr]
  rcases hb with ⟨h1, h2⟩ | h1
  · subst h1; subst h2
    simp [Ref.parseRequests]
  · subst h1
    simp [Ref.parseRequests]

/-! ### split_pseudo_headers / lookup -/

theorem splitPseudo_mem (b : Block) (acc ps fs : List Field) (h : splitPseudo b acc = some (ps, fs)) :
    (∀ f ∈ ps, f ∈ acc ∨ f ∈ b) ∧ (∀ f ∈ fs, f ∈ b) := by
  induction b generalizing acc with
  | nil =>
    simp [splitPseudo] at h
    obtain ⟨h1, h2⟩ := h
    subst h1; subst h2
    exact ⟨fun f hf => Or.inl hf, fun f hf => by simp at hf⟩
  | cons g rest ih =>
    unfold splitPseudo at h
    by_cases hp : isPseudo g = true
    · simp only [hp, if_true] at h
      by_cases hd : acc.any (fun x => x.1 == g.1) = true
      · simp [hd] at h
      · simp only [hd] at h
        have := ih (acc ++ [g]) h
        refine ⟨fun f hf => ?_, fun f hf => List.mem_cons_of_mem _ (this.2 f hf)⟩
        rcases this.1 f hf with h1 | h1
        · rcases List.mem_append.mp h1 with h2 | h2
          · exact Or.inl h2
          · simp at h2; subst h2; exact Or.inr (by simp)
        · exact Or.inr (List.mem_cons_of_mem _ h1)
    · simp only [hp] at h
      simp at h
      obtain ⟨h1, h2⟩ := h
      subst h1; subst h2
      exact ⟨fun f hf => Or.inl hf, fun f hf => hf⟩

theorem lookup_mem (n v : Bytes) (l : List Field) (h : lookup n l = some v) : (n, v) ∈ l := by
  unfold lookup at h
  cases hf : l.find? (fun f => f.1 == n) with
  | none => simp [hf] at h
  | some f =>
    simp [hf] at h
    have hm := List.mem_of_find?_eq_some hf
    have hn := List.find?_some hf
    simp at hn
    have : f = (n, v) := by cases f; simp_all
    rw [← this]; exact hm

/-! ### MultiDict.set_all and the filters that survive it -/

theorem setAll_filter (key value : Bytes) (q : Field → Bool) (l : List Field) (d : Bool)
    (hq : ∀ f : Field, lower f.1 == lower key → ∀ v, q (f.1, v) = false)
    (hk : q (key, value) = false) (hq0 : ∀ f : Field, lower f.1 == lower key → q f = false) :
    (setAll key value l d).filter q = l.filter q := by
  induction l generalizing d with
  | nil => cases d <;> simp [setAll, hk]
  | cons f rest ih =>
    unfold setAll
    by_cases hm : (lower f.1 == lower key) = true
    · simp only [hm, if_true]
      cases d with
      | true => simp [ih, hq0 f hm]
      | false => simp [ih, hq0 f hm, hq f hm value]
    · simp only [hm]
      simp only [Bool.false_eq_true, if_false, List.filter_cons, ih]

theorem setAll_values (key value : Bytes) (l : List Field) (d : Bool) (hk : lower (lower key) = lower key) :
    ((setAll key value l d).filter (nameIs (lower key))).map (·.2) = if d then [] else [value] := by
  induction l generalizing d with
  | nil => cases d <;> simp [setAll, nameIs, hk]
  | cons f rest ih =>
    unfold setAll
    by_cases hm : (lower f.1 == lower key) = true
    · simp only [hm, if_true]
      cases d with
      | true => simp [ih]
      | false => simp [ih, nameIs, hm]
    · simp only [hm]
      have : nameIs (lower key) f = false := by simpa [nameIs] using hm
      simp [this, ih]

theorem setAll_mem (key value : Bytes) (l : List Field) (d : Bool) (f : Field) (h : f ∈ setAll key value l d) :
    f ∈ l ∨ (f.2 = value ∧ (f.1 = key ∨ ∃ g ∈ l, g.1 = f.1)) := by
  induction l generalizing d with
  | nil =>
    cases d <;> simp [setAll] at h
    subst h; exact Or.inr ⟨rfl, Or.inl rfl⟩
  | cons g rest ih =>
    unfold setAll at h
    by_cases hm : (lower g.1 == lower key) = true
    · simp only [hm, if_true] at h
      cases d with
      | true =>
        rcases ih true h with h1 | ⟨h1, h2⟩
        · exact Or.inl (List.mem_cons_of_mem _ h1)
        · refine Or.inr ⟨h1, ?_⟩
          rcases h2 with h2 | ⟨x, hx, hx2⟩
          · exact Or.inl h2
          · exact Or.inr ⟨x, List.mem_cons_of_mem _ hx, hx2⟩
      | false =>
        simp only [Bool.false_eq_true, if_false] at h
        rcases List.mem_cons.mp h with h0 | h0
        · subst h0; exact Or.inr ⟨rfl, Or.inr ⟨g, by simp, rfl⟩⟩
        · rcases ih true h0 with h1 | ⟨h1, h2⟩
          · exact Or.inl (List.mem_cons_of_mem _ h1)
          · refine Or.inr ⟨h1, ?_⟩
            rcases h2 with h2 | ⟨x, hx, hx2⟩
            · exact Or.inl h2
            · exact Or.inr ⟨x, List.mem_cons_of_mem _ hx, hx2⟩
    · simp only [hm] at h
      rcases List.mem_cons.mp h with h0 | h0
      · subst h0; exact Or.inl (by simp)
      · rcases ih d h0 with h1 | ⟨h1, h2⟩
        · exact Or.inl (List.mem_cons_of_mem _ h1)
        · refine Or.inr ⟨h1, ?_⟩
          rcases h2 with h2 | ⟨x, hx, hx2⟩
          · exact Or.inl h2
          · exact Or.inr ⟨x, List.mem_cons_of_mem _ hx, hx2⟩

/-! ### the framing the reference reader derives -/

theorem digits_item (v : Bytes) (hd : ∀ c ∈ v, isDigit c = true) :
    (splitOn 44 (stripOws v)).map stripOws = [v] ∧ stripOws v = v := by
  have hne44 : ∀ c ∈ v, c ≠ 44 := by
    intro c hc e; subst e; have := hd 44 hc; revert this; decide
  have hows : ∀ c ∈ v, isOws c = false := by
    intro c hc
    have := hd c hc
    cases h : isOws c with
    | false => rfl
    | true =>
      simp [isOws] at h
      rcases h with h | h <;> (subst h; revert this; decide)
  have hs : stripOws v = v := by
    apply stripOws_id
    · intro c hc; exact hows c (List.mem_of_mem_head? hc)
    · intro c hc; exact hows c (List.mem_of_getLast? hc)
  rw [hs, splitOn_no_sep 44 v hne44]
  simp [hs]

theorem framing_none (fs : List Field) (hte : fs.filter (nameIs sTE) = []) (hcl : fs.filter (nameIs sCL) = []) :
    Ref.framing sHttp11 fs = some .none := by
  simp [Ref.framing, hte, hcl]

theorem framing_cl (fs : List Field) (v : Bytes) (n : Nat) (hte : fs.filter (nameIs sTE) = [])
    (hcl : (fs.filter (nameIs sCL)).map (·.2) = [v]) (hd : ∀ c ∈ v, isDigit c = true)
    (hn : Ref.parseDec v = some n) : Ref.framing sHttp11 fs = some (.cl n) := by
  have hi := digits_item v hd
  have e : ([v].flatMap (splitOn 44)).map stripOws = [v] := by
    have := hi.1; rw [hi.2] at this; simpa using this
  unfold Ref.framing
  simp only [hte, hcl, e]
  simp [hn]

theorem filter_readBack (n : Bytes) (fs : List Field) :
    (fs.map readBack).filter (nameIs n) = (fs.filter (nameIs n)).map readBack := by
  induction fs with
  | nil => rfl
  | cons f rest ih =>
    have : nameIs n (readBack f) = nameIs n f := rfl
    simp only [List.map_cons, List.filter_cons, this]
    split <;> simp [ih]

theorem joinCookies_def (fs : List Field) :
    joinCookies fs = if (cookieValues fs).length > 1 then setAll sCookieL (joinWith sSemiSp (cookieValues fs)) fs false else fs := rfl

theorem nameIs_mk (n k v : Bytes) : nameIs n (k, v) = (lower k == n) := rfl

theorem clStrict_digits (v : Bytes) (h : clStrict v = true) : ∀ c ∈ v, isDigit c = true := by
  match v, h with
  | [c0], h => intro c hc; simp at hc; subst hc; simpa [clStrict] using h
  | c0 :: c1 :: rest, h =>
    simp only [clStrict, Bool.and_eq_true] at h
    intro c hc
    rcases List.mem_cons.mp hc with h1 | h1
    · subst h1; exact h.1.1
    · exact (List.all_eq_true.mp h.2) c h1

/-! ### the response side -/

theorem reasons_clean : ∀ p ∈ Gen.C06.reasons, p.2.all (fun c => c != 10 && c != 13) = true := by decide

theorem reason_clean (st : Nat) : clean (reason st) := by
  unfold reason
  cases hf : Gen.C06.reasons.find? (fun p => p.1 == st) with
  | none => intro c hc; simp at hc
  | some p =>
    have hm := List.mem_of_find?_eq_some hf
    have := reasons_clean p hm
    intro c hc
    simp at hc
    have := (List.all_eq_true.mp this) c hc
    simpa using this

/-- the reference reader's "no body whatever the fields say" test -/
def bodilessR (st : Nat) (method : Bytes) : Bool :=
  asciiUpper method == sHead || (100 ≤ st && st ≤ 199) || st = 204 || st = 304
    || (asciiUpper method == sConnect && 200 ≤ st && st ≤ 299)

theorem framingResp_nocl (st : Nat) (method : Bytes) (fs : List Field) (hte : fs.filter (nameIs sTE) = [])
    (hcl : fs.filter (nameIs sCL) = []) :
    Ref.framingResp sHttp11 st method fs = some (if bodilessR st method then .none else .eof) := by
  unfold Ref.framingResp bodilessR
  simp only [hte, hcl, List.map_nil, List.isEmpty_nil, Bool.not_true, Bool.false_and, Bool.false_eq_true, if_false,
    if_true]
  split <;> rfl

theorem framingResp_cl (st : Nat) (method : Bytes) (fs : List Field) (v : Bytes) (n : Nat)
    (hte : fs.filter (nameIs sTE) = []) (hcl : (fs.filter (nameIs sCL)).map (·.2) = [v])
    (hd : ∀ c ∈ v, isDigit c = true) (hn : Ref.parseDec v = some n) :
    Ref.framingResp sHttp11 st method fs = some (if bodilessR st method then .none else .cl n) := by
  have hi := digits_item v hd
  have e : ([v].flatMap (splitOn 44)).map stripOws = [v] := by
    have := hi.1; rw [hi.2] at this; simpa using this
  unfold Ref.framingResp bodilessR
  simp only [hte, hcl, e, List.map_nil, List.isEmpty_nil, Bool.not_true, Bool.false_and, Bool.false_eq_true, if_false,
    List.isEmpty_cons, List.map_cons, hn, List.all_nil, if_true]
  split <;> rfl

/-- A response head written by `assembleResponseHead` from clean parts, followed by a payload that matches the framing
    the reference reader derives (nothing; exactly the announced length; or everything up to the close of the
    connection), is read as exactly that one response. -/
theorem ref_parse_resp_assembled (line : Bytes) (st : Nat) (rsn method : Bytes) (fs : List Field) (payload : Bytes)
    (fr : Ref.RFraming) (eof : Bool)
    (hline : clean line) (hlne : line ≠ [])
    (hsl : Ref.parseStatusLine line = some (sHttp11, st, rsn))
    (hfinal : 200 ≤ st) (hconn : (asciiUpper method == sConnect) = false)
    (hfs : ∀ f ∈ fs, fieldClean f)
    (hfr : Ref.framingResp sHttp11 st method (fs.map readBack) = some fr)
    (hb : (fr = .none ∧ payload = []) ∨ fr = .cl payload.length ∨ (fr = .eof ∧ eof = true)) :
    Ref.parseResp eof [method] (line ++ crlf ++ fieldLines fs ++ crlf ++ payload)
      = some [⟨sHttp11, st, rsn, fs.map readBack, payload⟩] := by
  let flines := fs.map fun f => f.1 ++ colonSp ++ f.2
  have hbytes : line ++ crlf ++ fieldLines fs ++ crlf ++ payload
      = (line :: flines).flatMap (· ++ crlf) ++ crlf ++ payload := by
    simp [fieldLines_eq, flines, List.flatMap_cons, List.append_assoc]
  have hlines : ∀ l ∈ line :: flines, clean l ∧ l ≠ [] := by
    intro l hl
    rcases List.mem_cons.mp hl with h | h
    · subst h; exact ⟨hline, hlne⟩
    · rcases List.mem_map.mp h with ⟨f, hf, rfl⟩
      have hc := hfs f hf
      refine ⟨?_, ?_⟩
      · have hcs : clean colonSp := by intro c hc; revert c; decide
        exact clean_append (clean_append (token_clean f.1 hc.1) hcs) (fun c hcm => ⟨(hc.2 c hcm).2.1, (hc.2 c hcm).2.2⟩)
      · have := token_ne_nil f.1 hc.1
        cases hn : f.1 with
        | nil => exact absurd hn this
        | cons a b => simp
  have hlen : (line :: flines).length < ((line :: flines).flatMap (· ++ crlf) ++ crlf ++ payload).length + 1 := by
    have := lines_length_le (line :: flines)
    simp only [List.length_append]
    omega
  have hhead := headLines_fieldLines (line :: flines) payload _ hlines hlen
  have hpf : Ref.parseFields flines = some (fs.map readBack) :=
    parseFields_lines fs (fun f hf => ⟨(hfs f hf).1, fun c hc => ((hfs f hf).2 c hc).1⟩)
  have hne : ((line :: flines).flatMap (· ++ crlf) ++ crlf ++ payload).isEmpty = false := by
    cases line with
    | nil => exact absurd rfl hlne
    | cons c cs => simp [List.flatMap_cons]
  have hnot : ¬(100 ≤ st ∧ st ≤ 199 ∧ st ≠ 101) := by omega
  have h101 : (st = 101) = False := by simp; omega
  unfold Ref.parseResp
  rw [hbytes]
  generalize hB : (line :: flines).flatMap (· ++ crlf) ++ crlf ++ payload = B at *
  unfold Ref.parseResponses
  simp only [hne, hhead, hsl, hpf, List.headD_cons, hfr, hconn, hnot, decide_false, Bool.false_eq_true, if_false,
    List.drop_one, List.tail_cons, Bool.false_and, Bool.or_false, decide_eq_true_eq]
  have hemp : ∀ f e m, Ref.parseResponses (f + 1) e m [] = some [] := by
    intro f e m; simp [Ref.parseResponses]
  have hst : ¬ st = 101 := by omega
  rcases hb with ⟨h1, h2⟩ | h1 | ⟨h1, h2⟩
  · subst h1; subst h2
    simp [hst, hemp]
  · subst h1
    simp [hst, hemp]
  · subst h1; subst h2
    simp [hst, hemp]

end MitmVerif.C06
